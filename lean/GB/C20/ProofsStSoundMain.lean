import GB.C20.ProofsStSound
/- C20 — strict `Parse`: acceptance implies derivability (string level). -/
namespace GB.C20
open GB

set_option linter.unusedSimpArgs false
set_option linter.unusedVariables false

/-! ### tokens concatenate to the printed form -/

theorem inter_flatten (sep : UInt8) : ∀ xs : List Bytes, (inter [sep] xs).flatten = joinWith sep xs := by
  intro xs
  induction xs with
  | nil => simp [inter, joinWith]
  | cons x xs ih =>
    cases xs with
    | nil => simp [inter, joinWith]
    | cons y ys => simp [inter, joinWith, ih]

theorem seg_toks_flatten (s : Seg) : s.toks.flatten = s.render := by
  cases s with
  | wild => simp [Seg.toks, Seg.render]
  | deep => simp [Seg.toks, Seg.render]
  | lit l => simp [Seg.toks, Seg.render]
  | var p inner =>
    cases inner with
    | none => simp [Seg.toks, Seg.render, inter_flatten]
    | some is => simp [Seg.toks, Seg.render, inter_flatten]

theorem segsToks_flatten : ∀ sgs : List Seg, (segsToks sgs).flatten = joinWith cSlash (sgs.map Seg.render) := by
  intro sgs
  cases sgs with
  | nil => simp [segsToks, joinWith]
  | cons s rest =>
    simp only [segsToks, List.map_cons, joinWith_cons, List.flatten_append, seg_toks_flatten]
    congr 1
    induction rest with
    | nil => simp
    | cons t ts ih => simp [seg_toks_flatten, ih]

theorem joinWith_snoc_tail (sep : UInt8) : ∀ (xs : List Bytes) (x tail : Bytes),
    joinWith sep (xs ++ [x]) ++ tail = joinWith sep (xs ++ [x ++ tail]) := by
  intro xs
  induction xs with
  | nil => intro x tail; simp [joinWith]
  | cons y ys ih =>
    intro x tail
    have h1 : ∀ z, ys ++ [z] ≠ [] := by intro z; simp
    cases hys : ys ++ [x] with
    | nil => exact absurd hys (h1 x)
    | cons a as =>
      cases hys2 : ys ++ [x ++ tail] with
      | nil => exact absurd hys2 (h1 _)
      | cons b bs =>
        simp only [List.cons_append, hys, hys2, joinWith, List.append_assoc]
        rw [← hys, ← hys2, ← ih x tail]

/-! ### colon splitting -/

theorem splitLast_none_nocolon (c : UInt8) : ∀ l : Bytes, splitLast c l = none → l.contains c = false := by
  intro l
  induction l with
  | nil => intro _; simp
  | cons x r ih =>
    intro h
    simp only [splitLast] at h
    cases hr : splitLast c r with
    | some p => simp [hr] at h
    | none =>
      simp only [hr] at h
      by_cases hx : (x == c) = true
      · simp [hx] at h
      · have hx' : x ≠ c := by simpa using hx
        simp only [List.contains_cons, ih hr, Bool.or_false]
        simp [Ne.symm hx']

theorem splitLast_some_nocolon (c : UInt8) : ∀ (l b v : Bytes), splitLast c l = some (b, v) → v.contains c = false := by
  intro l
  induction l with
  | nil => intro b v h; simp [splitLast] at h
  | cons x r ih =>
    intro b v h
    simp only [splitLast] at h
    cases hr : splitLast c r with
    | some p =>
      obtain ⟨a, w⟩ := p
      simp only [hr, Option.some.injEq, Prod.mk.injEq] at h
      rw [← h.2]; exact ih a w hr
    | none =>
      simp only [hr] at h
      by_cases hx : (x == c) = true
      · simp only [hx, if_true, Option.some.injEq, Prod.mk.injEq] at h
        rw [← h.2]; exact splitLast_none_nocolon c r hr
      · simp [hx] at h

theorem pcharsB_split (b v : Bytes) : pcharsB (b ++ cColon :: v) = true → pcharsB b = true ∧ pcharsB v = true := by
  have hcol : isPcharByte cColon = true := by decide
  have hnh : isHexDigit cColon = false := by decide
  fun_induction pcharsB b with
  | case1 => intro h; simp only [List.nil_append] at h; rw [pcharsB_colon] at h; exact ⟨rfl, h⟩
  | case2 c r hc ih =>
    intro h
    simp only [List.cons_append] at h
    unfold pcharsB at h
    simp only [hc, if_true] at h
    exact ih h
  | case3 c hc hp h1 h2 r' ih =>
    intro h
    simp only [List.cons_append] at h
    unfold pcharsB at h
    simp only [hc, hp, Bool.false_eq_true, if_false, if_true, Bool.and_eq_true] at h
    obtain ⟨i1, i2⟩ := ih h.2
    exact ⟨by simp [h.1.1, h.1.2, i1], i2⟩
  | case4 c r hc hp hr =>
    intro h
    exfalso
    simp only [List.cons_append] at h
    unfold pcharsB at h
    simp only [hc, hp, Bool.false_eq_true, if_false, if_true] at h
    cases r with
    | nil =>
      cases v with
      | nil => simp at h
      | cons x v' => simp [hnh] at h
    | cons a r' =>
      cases r' with
      | nil => simp [hnh] at h
      | cons b' r'' => exact hr a b' r'' rfl
  | case5 c r hc hp =>
    intro h
    simp only [List.cons_append] at h
    unfold pcharsB at h
    simp [hc, hp] at h

/-! ### the abstract syntax behind a verb-split literal -/

/-- the segment a non-empty pchar string stands for -/
def canonSeg (b : Bytes) : Seg := if b = [cStar] then .wild else if b = [cStar, cStar] then .deep else .lit b

theorem canonSeg_facts (b : Bytes) (hb : b ≠ []) (hp : pcharsB b = true) :
    (canonSeg b).render = b ∧ (canonSeg b).wfB false = true ∧ (canonSeg b).isVar = false ∧
    (∀ l, canonSeg b ≠ .var l none) := by
  unfold canonSeg
  by_cases h1 : b = [cStar]
  · simp [h1, Seg.render, Seg.wfB, Seg.isVar]
  · by_cases h2 : b = [cStar, cStar]
    · simp [h2, Seg.render, Seg.wfB, Seg.isVar]
    · have hne : b.isEmpty = false := by
        cases b with
        | nil => exact absurd rfl hb
        | cons _ _ => rfl
      simp [h1, h2, Seg.render, Seg.wfB, Seg.isVar, literalB, hne, hp]

theorem verbWfB_snoc (pre : List Seg) (L : Seg) (verb : Option Bytes) :
    verbWfB (pre ++ [L]) verb = verbWfB [L] verb := by
  simp [verbWfB]

/-- **Strict soundness**: what the strict parser accepts is derivable, with the verb it returns. -/
theorem stParse_sound (s : Bytes) (T : StTemplate) (h : stParse s = .ok T) :
    ∃ t : Tmpl, t.wfB false = true ∧ t.render = s ∧ T.verb = t.verbStr := by
  unfold stParse at h
  cases s with
  | nil => simp at h
  | cons c0 body =>
    simp only at h
    by_cases hc0 : (c0 != cSlash) = true
    · simp [hc0] at h
    · simp only [hc0, Bool.false_eq_true, if_false] at h
      have hc0' : c0 = cSlash := by simpa using hc0
      subst hc0'
      by_cases hnul : (cSlash :: body).contains 0 = true
      · rw [if_pos hnul] at h; exact absurd h (by simp)
      · simp only [hnul, Bool.false_eq_true, if_false] at h
        have hbnul : (0 : UInt8) ∉ body := by
          intro hm; apply hnul; simp [hm]
        cases htm : stTemplate (parseFuel (stTokenize body)) (stTokenize body) with
        | error e => simp [htm] at h
        | ok pr =>
          obtain ⟨segsF, verbF⟩ := pr
          simp only [htm, Except.ok.injEq] at h
          subst h
          simp only
          have hv := tokCore_validE body .seg [] hbnul (.inl rfl)
          have hflat := tokCore_concat body .seg []
          simp only [List.nil_append] at hflat
          unfold stTokenize at htm
          generalize hX : tokCore .seg [] body = X at hv htm hflat
          -- the answer in terms of the token list X
          suffices hmain : ∃ t : Tmpl, t.wfB false = true ∧
              joinWith cSlash (t.segs.map Seg.render) ++ renderVerb t.verb = X.flatten ∧ verbF = t.verbStr by
            obtain ⟨t, h1, h2, h3⟩ := hmain
            exact ⟨t, h1, by simp [Tmpl.render, h2, hflat], h3⟩
          unfold stTemplate at htm
          rcases validE_cases hv with hts | ⟨d, r, hts, hd, hvr⟩ | ⟨t0, rest0, hts, ht0, hb0⟩
          · -- root template without verb
            have hXe : X = [] := by
              cases X with
              | nil => rfl
              | cons a b =>
                have := congrArg List.length hts
                simp at this
            subst hXe
            simp only [List.nil_append, stAcc_eof, if_true, Except.ok.injEq, Prod.mk.injEq] at htm
            exact ⟨{ segs := [], verb := none }, by decide, by simp [joinWith, renderVerb], by simp [Tmpl.verbStr, ← htm.2]⟩
          all_goals
            have hhead : ∃ hd tl, X ++ [eofTok] = hd :: tl ∧ hd ≠ eofTok := by
              first
                | exact ⟨[d], r, hts, (delim_not_ident .seg d hd).2.1⟩
                | exact ⟨t0, rest0, hts, isText_ne_eof ht0⟩
            obtain ⟨hd0, tl0, hsh, hne0⟩ := hhead
            rw [hsh, stAcc_eof] at htm
            simp only [hne0, if_false] at htm
            rw [← hsh] at htm
            cases hss : stSegments (parseFuel (X ++ [eofTok])) [] (X ++ [eofTok]) with
            | error e => simp [hss] at htm
            | ok pr =>
              obtain ⟨⟨segs0, m0⟩, rest⟩ := pr
              simp only [hss] at htm
              obtain ⟨sgs, s1, s2, s3, s4, s5, s6, s7⟩ := stSegments_top_sound _ [] _ segs0 m0 rest hv hss
              simp only [List.nil_append] at s2
              obtain ⟨pre, L, hpl⟩ : ∃ pre L, sgs = pre ++ [L] := by
                rcases List.eq_nil_or_concat sgs with h | ⟨p, l, h⟩
                · exact absurd h s1
                · exact ⟨p, l, by simpa using h⟩
              subst hpl
              have hlast : segs0.getLast? = some L.emb := by rw [s2]; simp
              have hwL : L.wfB false = true := List.all_eq_true.mp s3 L (by simp)
              have hwpre : pre.all (Seg.wfB false) = true := by
                simp only [List.all_append, Bool.and_eq_true] at s3; exact s3.1
              -- when the parser reached the end: X is the token list of the segments
              have hend : rest = [eofTok] → X.flatten = joinWith cSlash ((pre ++ [L]).map Seg.render) := by
                intro hr
                rw [hr] at s5
                have : X = segsToks (pre ++ [L]) := List.append_cancel_right s5
                rw [this, segsToks_flatten]
              have bdry_eof : ∀ {r' : List Tok} {x : Tok × List Tok}, Bdry .seg r' → stAccept .eof r' = .ok x → r' = [eofTok] := by
                intro r' x hb ha
                rcases hb with hb | ⟨d', r'', hb, hd', _⟩
                · exact hb
                · subst hb
                  simp [stAcc_eof, (delim_not_ident .seg d' hd').2.1] at ha
              unfold stFinish at htm
              rw [hlast] at htm
              cases L with
              | wild =>
                simp only [Seg.emb] at htm
                have hb := s7 .wild (by simp) rfl
                cases ha : stAccept .eof rest with
                | error e => simp [ha] at htm
                | ok x =>
                  simp only [ha, Except.ok.injEq, Prod.mk.injEq] at htm
                  have hr := bdry_eof hb ha
                  exact ⟨{ segs := pre ++ [.wild], verb := none },
                    by simp [Tmpl.wfB, s3, s4, verbWfB], by simp [renderVerb, hend hr], by simp [Tmpl.verbStr, ← htm.2]⟩
              | deep =>
                simp only [Seg.emb] at htm
                have hb := s7 .deep (by simp) rfl
                cases ha : stAccept .eof rest with
                | error e => simp [ha] at htm
                | ok x =>
                  simp only [ha, Except.ok.injEq, Prod.mk.injEq] at htm
                  have hr := bdry_eof hb ha
                  exact ⟨{ segs := pre ++ [.deep], verb := none },
                    by simp [Tmpl.wfB, s3, s4, verbWfB], by simp [renderVerb, hend hr], by simp [Tmpl.verbStr, ← htm.2]⟩
              | lit l =>
                simp only [Seg.emb] at htm
                have hb := s7 (.lit l) (by simp) rfl
                obtain ⟨l1, l2, l3, l4⟩ := literal_facts (by simpa [Seg.wfB] using hwL)
                cases hsp : splitLast cColon l with
                | none =>
                  simp only [hsp] at htm
                  cases ha : stAccept .eof rest with
                  | error e => simp [ha] at htm
                  | ok x =>
                    simp only [ha, Except.ok.injEq, Prod.mk.injEq] at htm
                    have hr := bdry_eof hb ha
                    have hnc := splitLast_none_nocolon cColon l hsp
                    have hnc' : cColon ∉ l := by simpa using hnc
                    exact ⟨{ segs := pre ++ [.lit l], verb := none },
                      by simp [Tmpl.wfB, s3, s4, verbWfB, hasColon, hnc'], by simp [renderVerb, hend hr],
                      by simp [Tmpl.verbStr, ← htm.2]⟩
                | some bv =>
                  obtain ⟨b, v⟩ := bv
                  simp only [hsp] at htm
                  have hspec := splitLast_spec cColon l b v hsp
                  have hvnc0 := splitLast_some_nocolon cColon l b v hsp
                  have hvnc : cColon ∉ v := by simpa using hvnc0
                  obtain ⟨hpb, hpv⟩ := pcharsB_split b v (by rw [← hspec]; exact l2)
                  split at htm
                  · simp at htm
                  · rename_i hguard
                    cases ha : stAccept .eof rest with
                    | error e => simp [ha] at htm
                    | ok x =>
                      simp only [ha, Except.ok.injEq, Prod.mk.injEq] at htm
                      have hr := bdry_eof hb ha
                      have hX := hend hr
                      by_cases hbe : b = []
                      · -- the root template with a verb
                        subst hbe
                        have hlen : ¬ (segs0.length > 1) := by
                          intro hl; apply hguard; simp [hl]
                        have hpre : pre = [] := by
                          cases pre with
                          | nil => rfl
                          | cons a p' => exfalso; apply hlen; rw [s2]; simp
                        subst hpre
                        refine ⟨{ segs := [], verb := some v }, by simp [Tmpl.wfB, onlyLast, verbWfB, hpv, hasColon, hvnc], ?_,
                          by simp [Tmpl.verbStr, ← htm.2]⟩
                        simp [joinWith, renderVerb, hX, Seg.render, hspec]
                      · obtain ⟨c1, c2, c3, c4⟩ := canonSeg_facts b hbe hpb
                        refine ⟨{ segs := pre ++ [canonSeg b], verb := some v }, ?_, ?_, by simp [Tmpl.verbStr, ← htm.2]⟩
                        · simp only [Tmpl.wfB, Bool.false_or, Bool.and_eq_true, List.all_append, List.all_cons,
                            List.all_nil, Bool.and_true]
                          refine ⟨⟨⟨hwpre, c2⟩, onlyLast_replace_last _ pre _ _ s4⟩, ?_⟩
                          rw [verbWfB_snoc]
                          cases hcs : canonSeg b with
                          | var p i => rw [hcs] at c3; simp [Seg.isVar] at c3
                          | wild => simp [verbWfB, hpv, hasColon, hvnc]
                          | deep => simp [verbWfB, hpv, hasColon, hvnc]
                          | lit l' => simp [verbWfB, hpv, hasColon, hvnc]
                        · simp only [renderVerb, List.map_append, List.map_cons, List.map_nil, c1]
                          rw [joinWith_snoc_tail, hX]
                          simp [Seg.render, hspec]
              | var p inner =>
                have hemb : ∃ ip, (Seg.var p inner).emb = .var p ip := by cases inner <;> exact ⟨_, rfl⟩
                obtain ⟨ip, hip⟩ := hemb
                rw [hip] at htm
                simp only at htm
                rcases validE_cases s6 with hr | ⟨d', r', hr, hd', _⟩ | ⟨t1, rest1, hr, ht1, hb1⟩
                · subst hr
                  simp only [bne_self_eq_false, Bool.false_eq_true, if_false, stAcc_eof, if_true, Except.ok.injEq,
                    Prod.mk.injEq] at htm
                  exact ⟨{ segs := pre ++ [.var p inner], verb := none },
                    by simp [Tmpl.wfB, s3, s4, verbWfB], by simp [renderVerb, hend rfl], by simp [Tmpl.verbStr, ← htm.2]⟩
                · subst hr
                  have hne : (([d'] : Tok) != eofTok) = true := by simpa using (delim_not_ident .seg d' hd').2.1
                  have hd'' : d' = cSlash ∨ d' = cLBrace ∨ d' = cRBrace := by
                    rcases delim_seg hd' with h | h
                    · exact .inl h
                    · exact .inr (.inl h)
                  have hpc := (special_tok_facts d' hd'').2.2.1
                  simp [hne, stAccept, stCheckLiteral_eq, hpc] at htm
                · subst hr
                  have hne : (t1 != eofTok) = true := by simpa using isText_ne_eof ht1
                  simp only [hne, if_true] at htm
                  cases hav : stAccept .verb (t1 :: rest1) with
                  | error e => simp [hav] at htm
                  | ok x =>
                    obtain ⟨v, ts2⟩ := x
                    simp only [hav] at htm
                    -- t1 = ':' :: v, pchars
                    have hverb : t1 = cColon :: v ∧ pcharsB t1 = true ∧ ts2 = rest1 := by
                      simp only [stAccept, stCheckLiteral_eq] at hav
                      by_cases hp1 : pcharsB t1 = true
                      · simp only [hp1, Bool.not_true, Bool.false_eq_true, if_false] at hav
                        cases t1 with
                        | nil => simp at hav
                        | cons c w =>
                          simp only at hav
                          by_cases hcc : (c == cColon) = true
                          · simp only [hcc, if_true, Except.ok.injEq, Prod.mk.injEq] at hav
                            have : c = cColon := by simpa using hcc
                            exact ⟨by rw [this, hav.1], hp1, hav.2.symm⟩
                          · simp [hcc] at hav
                      · simp [hp1] at hav
                    obtain ⟨hv1, hv2, hv3⟩ := hverb
                    subst hv3
                    cases ha : stAccept .eof ts2 with
                    | error e => simp [ha] at htm
                    | ok x2 =>
                      simp only [ha, Except.ok.injEq, Prod.mk.injEq] at htm
                      have hr := bdry_eof hb1 ha
                      subst hr
                      have hpv : pcharsB v = true := by rw [← pcharsB_colon, ← hv1]; exact hv2
                      have hXeq : X = segsToks (pre ++ [.var p inner]) ++ [t1] := by
                        have : X ++ [eofTok] = (segsToks (pre ++ [.var p inner]) ++ [t1]) ++ [eofTok] := by rw [s5]; simp
                        exact List.append_cancel_right this
                      refine ⟨{ segs := pre ++ [.var p inner], verb := some v },
                        by simp [Tmpl.wfB, s3, s4, verbWfB, hpv], ?_, by simp [Tmpl.verbStr, ← htm.2]⟩
                      rw [hXeq]
                      simp [renderVerb, segsToks_flatten, hv1]

end GB.C20
