import GB.C20.ProofsLegalMain
/-
  C20 — the synchronisation invariant between tokenizer state and parser position.

  `ValidE st ts`: `ts` is what the tokenizer emits from a token boundary in state `st` up to the end of
  the input, followed by the eof token: text tokens are non-empty, contain no delimiter of their state
  and no NUL, and are always followed by a delimiter token of that state or by the end.
-/
namespace GB.C20
open GB

set_option linter.unusedSimpArgs false
set_option linter.unusedVariables false

/-- text token of state `st` -/
def isText (st : TSt) (t : Tok) : Bool := !t.isEmpty && t.all (fun c => !isDelim st c && c != 0)

inductive ValidE : TSt → List Tok → Prop
  | eof (st : TSt) : ValidE st [eofTok]
  | delim {st : TSt} {d : UInt8} {rest : List Tok} :
      isDelim st d = true → ValidE (nextSt st d) rest → ValidE st ([d] :: rest)
  | textEnd {st : TSt} {t : Tok} : isText st t = true → ValidE st [t, eofTok]
  | textDelim {st : TSt} {t : Tok} {d : UInt8} {rest : List Tok} :
      isText st t = true → isDelim st d = true → ValidE (nextSt st d) rest → ValidE st (t :: [d] :: rest)

/-- the list does not start with a text token: it is the eof token or starts with a delimiter token -/
def Bdry (st : TSt) (rest : List Tok) : Prop :=
  rest = [eofTok] ∨ ∃ d r, rest = [d] :: r ∧ isDelim st d = true ∧ ValidE (nextSt st d) r

theorem Bdry.valid {st : TSt} {rest : List Tok} (h : Bdry st rest) : ValidE st rest := by
  rcases h with h | ⟨d, r, h, hd, hv⟩
  · rw [h]; exact .eof st
  · rw [h]; exact .delim hd hv

theorem validE_cases {st : TSt} {ts : List Tok} (h : ValidE st ts) :
    ts = [eofTok] ∨ (∃ d r, ts = [d] :: r ∧ isDelim st d = true ∧ ValidE (nextSt st d) r) ∨
    (∃ t rest, ts = t :: rest ∧ isText st t = true ∧ Bdry st rest) := by
  cases h with
  | eof => exact .inl rfl
  | delim hd hv => exact .inr (.inl ⟨_, _, rfl, hd, hv⟩)
  | textEnd ht => exact .inr (.inr ⟨_, _, rfl, ht, .inl rfl⟩)
  | textDelim ht hd hv => exact .inr (.inr ⟨_, _, rfl, ht, .inr ⟨_, _, rfl, hd, hv⟩⟩)

/-- the tokenizer output, followed by eof, satisfies the invariant -/
theorem tokCore_validE : ∀ (s : Bytes) (st : TSt) (acc : Bytes), (0 : UInt8) ∉ s →
    (acc = [] ∨ isText st acc = true) → ValidE st (tokCore st acc s ++ [eofTok]) := by
  intro s
  induction s with
  | nil =>
    intro st acc _ hacc
    rcases hacc with hacc | hacc
    · subst hacc; simp [tokCore, flush]; exact .eof st
    · have hne : acc.isEmpty = false := by
        simp only [isText, Bool.and_eq_true, Bool.not_eq_true'] at hacc; exact hacc.1
      simp [tokCore, flush, hne]
      exact .textEnd hacc
  | cons c r ih =>
    intro st acc hs hacc
    have hc0 : c ≠ 0 := fun h => hs (by simp [h])
    have hr0 : (0 : UInt8) ∉ r := fun h => hs (by simp [h])
    simp only [tokCore]
    by_cases hd : isDelim st c = true
    · simp only [hd, if_true]
      have ihr := ih (nextSt st c) [] hr0 (.inl rfl)
      rcases hacc with hacc | hacc
      · subst hacc
        simp only [flush, List.isEmpty_nil, if_true, List.nil_append, List.cons_append]
        exact .delim hd ihr
      · have hne : acc.isEmpty = false := by
          simp only [isText, Bool.and_eq_true, Bool.not_eq_true'] at hacc; exact hacc.1
        simp only [flush, hne, Bool.false_eq_true, if_false, List.cons_append, List.nil_append]
        exact .textDelim hacc hd ihr
    · simp only [hd, Bool.false_eq_true, if_false]
      apply ih st (acc ++ [c]) hr0
      right
      have hd' : isDelim st c = false := by simpa using hd
      rcases hacc with hacc | hacc
      · subst hacc
        simp [isText, hd', hc0]
      · simp only [isText, Bool.and_eq_true, Bool.not_eq_true', List.all_eq_true] at hacc ⊢
        refine ⟨by simp, ?_⟩
        intro x hx
        rcases List.mem_append.mp hx with hx | hx
        · exact hacc.2 x hx
        · simp at hx; subst hx; simp [hd', hc0]

/-! ### facts about tokens -/

theorem isText_ne_nil {st : TSt} {t : Tok} (h : isText st t = true) : t ≠ [] := by
  simp only [isText, Bool.and_eq_true, Bool.not_eq_true'] at h
  intro he; subst he; simp at h

theorem isText_ne_delim {st : TSt} {t : Tok} (h : isText st t = true) (d : UInt8) (hd : isDelim st d = true) :
    t ≠ [d] := by
  intro he; subst he
  simp [isText, hd] at h

theorem isText_ne_eof {st : TSt} {t : Tok} (h : isText st t = true) : t ≠ eofTok := by
  intro he; subst he
  simp [isText, eofTok] at h

theorem isText_sub {st : TSt} {t b : Tok} (h : isText st t = true) (hb : b ≠ []) (hsub : ∀ c ∈ b, c ∈ t) :
    isText st b = true := by
  simp only [isText, Bool.and_eq_true, Bool.not_eq_true', List.all_eq_true] at h ⊢
  refine ⟨by cases b with
    | nil => exact absurd rfl hb
    | cons _ _ => rfl, fun x hx => h.2 x (hsub x hx)⟩

theorem delim_seg {d : UInt8} (h : isDelim .seg d = true) : d = cSlash ∨ d = cLBrace := by
  simpa [isDelim] using h
theorem delim_nest {d : UInt8} (h : isDelim .nest d = true) : d = cSlash ∨ d = cRBrace := by
  simpa [isDelim] using h
theorem delim_fld {d : UInt8} (h : isDelim .fld d = true) : d = cDot ∨ d = cEq ∨ d = cRBrace := by
  simpa [isDelim, or_assoc] using h

theorem colon_not_delim (st : TSt) : isDelim st cColon = false := by cases st <;> decide

/-- cutting the verb off the last token (or dropping the token) keeps the invariant -/
theorem validE_replace_last : ∀ {st : TSt} {L : List Tok}, ValidE st L → ∀ (ini : List Tok) (t : Tok),
    L = ini ++ [t] ++ [eofTok] → cColon ∈ t →
    ValidE st (ini ++ [eofTok]) ∧ ∀ b : Tok, b ≠ [] → (∀ c ∈ b, c ∈ t) → ValidE st (ini ++ [b] ++ [eofTok]) := by
  intro st L h
  induction h with
  | eof st =>
    intro ini t hL _
    have := congrArg List.length hL
    simp at this
  | @delim st d rest hd hv ih =>
    intro ini t hL hc
    cases ini with
    | nil =>
      simp only [List.nil_append, List.cons_append, List.cons.injEq] at hL
      obtain ⟨h1, _⟩ := hL
      rw [← h1] at hc
      simp at hc
      rw [← hc, colon_not_delim] at hd
      exact absurd hd (by simp)
    | cons x ini' =>
      simp only [List.cons_append, List.cons.injEq] at hL
      obtain ⟨h1, h2⟩ := hL
      subst h1
      obtain ⟨i1, i2⟩ := ih ini' t (by simpa using h2) hc
      exact ⟨.delim hd i1, fun b hb hs => by simpa using ValidE.delim hd (by simpa using i2 b hb hs)⟩
  | @textEnd st t0 ht =>
    intro ini t hL hc
    cases ini with
    | nil =>
      simp only [List.nil_append, List.cons_append, List.cons.injEq] at hL
      obtain ⟨h1, _⟩ := hL
      subst h1
      exact ⟨.eof st, fun b hb hs => .textEnd (isText_sub ht hb hs)⟩
    | cons x ini' =>
      have := congrArg List.length hL
      simp at this
  | @textDelim st t0 d rest ht hd hv ih =>
    intro ini t hL hc
    cases ini with
    | nil =>
      have := congrArg List.length hL
      simp at this
      cases hv <;> simp at this
    | cons x ini' =>
      simp only [List.cons_append, List.cons.injEq] at hL
      obtain ⟨h1, h2⟩ := hL
      subst h1
      cases ini' with
      | nil =>
        simp only [List.nil_append, List.cons_append, List.cons.injEq] at h2
        obtain ⟨h3, _⟩ := h2
        rw [← h3] at hc
        simp at hc
        rw [← hc, colon_not_delim] at hd
        exact absurd hd (by simp)
      | cons y ini'' =>
        simp only [List.cons_append, List.cons.injEq] at h2
        obtain ⟨h3, h4⟩ := h2
        subst h3
        obtain ⟨i1, i2⟩ := ih ini'' t (by simpa using h4) hc
        exact ⟨.textDelim ht hd i1, fun b hb hs => by simpa using ValidE.textDelim ht hd (by simpa using i2 b hb hs)⟩

end GB.C20
