import GB.C20.Model
import GB.C20.Spec
import GB.C03.Model
/-
  C20 → C03 adapter: the template AST of the gwbased parser model (`GwTemplate`, segments `PSeg`) as the AST the
  C03 slice (matcher, routing) and the C06×C03 composition work with (`GB.C03.Tmpl`).

  C03's `Seg.var` keeps the field path as the joined string (`variable.path` in types.go) and its parts cannot be
  variables. gwbased never returns a variable inside a variable (`gwParse_full` in BridgeProofs.lean: the segments
  of an accepted template are the grammar's); the adapter maps such a part to the empty literal, which violates
  `Tmpl.ShapeOk`, so a wrong answer could not hide behind the adapter.
-/
namespace GB.C20
open GB

/-- a segment inside a variable -/
def PSeg.toVSeg : PSeg → C03.VSeg
  | .wild => .star
  | .deep => .deep
  | .lit l => .lit l
  | .var _ _ => .lit []

/-- a top-level segment -/
def PSeg.toC03 : PSeg → C03.Seg
  | .wild => .plain .star
  | .deep => .plain .deep
  | .lit l => .plain (.lit l)
  | .var path inner => .var (joinWith cDot path) (inner.map PSeg.toVSeg)

/-- **the adapter** -/
def toC03 (g : GwTemplate) : C03.Tmpl := ⟨g.segs.map PSeg.toC03, g.verb⟩

/-- gwbased.Parse as the `parse` parameter of the C06×C03 composition -/
def gwC03 (s : Bytes) : Option C03.Tmpl := (gwParse s).toOption.map toC03

/-! ### the grammar's abstract syntax in C03's AST -/

def ISeg.c03 : ISeg → C03.VSeg
  | .wild => .star
  | .deep => .deep
  | .lit l => .lit l

def Seg.c03 : Seg → C03.Seg
  | .wild => .plain .star
  | .deep => .plain .deep
  | .lit l => .plain (.lit l)
  | .var p none => .var (joinWith cDot p) [.star]
  | .var p (some is) => .var (joinWith cDot p) (is.map ISeg.c03)

/-- the template a string of the (relaxed) grammar denotes, as C03 sees it: the root template "/" is the single
    literal `eof` (types.go / compile.go: it compiles to the empty literal) -/
def tmplC03 (t : Tmpl) : C03.Tmpl :=
  ⟨if t.segs.isEmpty then [.plain (.lit C03.eof)] else t.segs.map Seg.c03, t.verbStr⟩

/-! ### `routing.buildPattern`

  ```go
  func buildPattern(route string) (runtime.Pattern, error) {
      compiler, err := httprule.Parse(route)          // httprule = internal/httprule/gwbased
      if err != nil { return runtime.Pattern{}, … }
      tp := compiler.Compile()
      pattern, routeErr := runtime.NewPattern(tp.Version, tp.OpCodes, tp.Pool, tp.Verb)
      if routeErr != nil { return runtime.Pattern{}, … }
      return pattern, nil
  }
  ```
  Exactly `Parse ▸ Compile ▸ NewPattern`: there is no other way to a pattern (regenerated facts `c20Bp*`,
  `C20_facts_buildPattern`). `Compile` and `NewPattern` are the C03 slice's models. -/

def buildPatternM (route : Bytes) : Option C03.Pattern :=
  match gwParse route with
  | .error _ => none
  | .ok g =>
    let tp := C03.compile (toC03 g)
    C03.newPattern 1 tp.opcodes tp.pool tp.verb

/-- what `buildPattern` must accept: the text is derivable in the relaxed grammar and has at most one `**`
    (`runtime.NewPattern` rejects more) -/
def validTemplateB (s : Bytes) : Bool :=
  match specParseWith true s with
  | some t => decide (C03.deepCount (tmplC03 t).segs ≤ 1)
  | none => false

/-! #### the seeded "plain literal route" fast path (C20-m5), modelled only to exhibit the witness -/

def isLiteralRouteM (route : Bytes) : Bool :=
  match route with
  | c :: body =>
    c == cSlash && !(route.any (fun x => x == cLBrace || x == cStar || x == cColon || x == cPct)) &&
      (body.isEmpty || (splitOnByte cSlash body).all (fun seg => !seg.isEmpty))
  | [] => false

/-- `literalPattern`: one OpLitPush per `strings.Split(route[1:], "/")` segment, de-duplicated pool -/
def literalPatternM (route : Bytes) : Option C03.Pattern :=
  let segs := splitOnByte cSlash (route.drop 1)
  let pool := segs.foldl (fun pool s => if pool.contains s then pool else pool ++ [s]) []
  C03.newPattern 1 (segs.flatMap (fun s => [C03.opLitPush, pool.idxOf s])) pool []

def buildPatternFast (route : Bytes) : Option C03.Pattern :=
  if isLiteralRouteM route then literalPatternM route else buildPatternM route

end GB.C20
