import GB.C20.Model
import GB.C03.Model
/-
  C20 → C03 adapter: the template AST of the gwbased parser model (`GwTemplate`, segments `PSeg`) as the AST the
  C03 slice (matcher, routing) and the C06×C03 composition work with (`GB.C03.Tmpl`).

  C03's `Seg.var` keeps the field path as the joined string (`variable.path` in types.go) and its parts cannot be
  variables. gwbased never returns a variable inside a variable (`gwParse_full` in BridgeProofs.lean: the segments
  of an accepted template are the grammar's); the adapter maps such a part to the empty literal, which violates
  `Tmpl.ShapeOk`, so a wrong answer could not hide behind the adapter.
-/
namespace GB.C20
open GB

/-- a segment inside a variable -/
def PSeg.toVSeg : PSeg → C03.VSeg
  | .wild => .star
  | .deep => .deep
  | .lit l => .lit l
  | .var _ _ => .lit []

/-- a top-level segment -/
def PSeg.toC03 : PSeg → C03.Seg
  | .wild => .plain .star
  | .deep => .plain .deep
  | .lit l => .plain (.lit l)
  | .var path inner => .var (joinWith cDot path) (inner.map PSeg.toVSeg)

/-- **the adapter** -/
def toC03 (g : GwTemplate) : C03.Tmpl := ⟨g.segs.map PSeg.toC03, g.verb⟩

/-- gwbased.Parse as the `parse` parameter of the C06×C03 composition -/
def gwC03 (s : Bytes) : Option C03.Tmpl := (gwParse s).toOption.map toC03

end GB.C20
