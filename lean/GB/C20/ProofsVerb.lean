import GB.C20.ProofsStMain
/- C20 — the verb of a template the strict parser returns contains no "/" (hypothesis of the trie theorem). -/
namespace GB.C20
open GB

set_option linter.unusedSimpArgs false
set_option linter.unusedVariables false

theorem splitLast_spec (c : UInt8) : ∀ (l b v : Bytes), splitLast c l = some (b, v) → l = b ++ c :: v := by
  intro l
  induction l with
  | nil => intro b v h; simp [splitLast] at h
  | cons x r ih =>
    intro b v h
    simp only [splitLast] at h
    cases hr : splitLast c r with
    | some p =>
      obtain ⟨a, w⟩ := p
      simp only [hr, Option.some.injEq, Prod.mk.injEq] at h
      obtain ⟨h1, h2⟩ := h
      subst h1; subst h2
      simp [ih a w hr]
    | none =>
      simp only [hr] at h
      by_cases hx : (x == c) = true
      · simp only [hx, if_true, Option.some.injEq, Prod.mk.injEq] at h
        obtain ⟨h1, h2⟩ := h
        subst h1; subst h2
        simp at hx; simp [hx]
      · simp [hx] at h

theorem stVariable_is_var (f : Nat) (ts : List Tok) (s : PSeg) (m : Bool) (rest : List Tok)
    (h : stVariable f ts = .ok ((s, m), rest)) : ∃ p i, s = .var p i := by
  cases f with
  | zero => simp [stVariable] at h
  | succ f =>
    simp only [stVariable, tryP] at h
    repeat' split at h
    all_goals first
      | (simp only [Except.ok.injEq, Prod.mk.injEq] at h; exact ⟨_, _, h.1.1.symm⟩)
      | (exact absurd h (by simp))

theorem stSegment_lit (f : Nat) (ts : List Tok) (l : Bytes) (m : Bool) (rest : List Tok)
    (h : stSegment f ts = .ok ((.lit l, m), rest)) : pcharsB l = true := by
  cases f with
  | zero => simp [stSegment] at h
  | succ f =>
    cases ts with
    | nil => simp [stSegment, stAccept, tryP] at h
    | cons t ts =>
      simp only [stSegment, stAcc_star, stAcc_dstar, stAcc_literal] at h
      by_cases h1 : t = [cStar]
      · simp [h1] at h
      · simp only [h1, if_false, tryP_reject] at h
        by_cases h2 : t = [cStar, cStar]
        · simp [h2] at h
        · simp only [h2, if_false, tryP_reject] at h
          by_cases h3 : pcharsB t = true
          · simp only [h3, if_true, tryP_ok, Except.ok.injEq, Prod.mk.injEq, PSeg.lit.injEq] at h
            rw [← h.1.1]; exact h3
          · simp only [h3, Bool.false_eq_true, if_false, tryP_reject] at h
            obtain ⟨p, i, hv⟩ := stVariable_is_var f _ _ _ _ h
            exact absurd hv (by simp)

theorem stSegments_lits : ∀ (f : Nat) (acc : List PSeg) (ts : List Tok) (segs : List PSeg) (m : Bool) (rest : List Tok),
    stSegments f acc ts = .ok ((segs, m), rest) → (∀ l, PSeg.lit l ∈ acc → pcharsB l = true) →
    ∀ l, PSeg.lit l ∈ segs → pcharsB l = true := by
  intro f
  induction f with
  | zero => intro acc ts segs m rest h; simp [stSegments] at h
  | succ f ih =>
    intro acc ts segs m rest h hacc
    simp only [stSegments] at h
    cases hs : stSegment f ts with
    | error e =>
      cases e <;> simp [hs, tryP] at h
    | ok r =>
      obtain ⟨⟨s, ms⟩, ts'⟩ := r
      simp only [hs, tryP_ok] at h
      have hacc' : ∀ l, PSeg.lit l ∈ acc ++ [s] → pcharsB l = true := by
        intro l hl
        rcases List.mem_append.mp hl with hl | hl
        · exact hacc l hl
        · simp only [List.mem_singleton] at hl
          subst hl
          exact stSegment_lit f ts l ms ts' hs
      by_cases hms : ms = true
      · simp only [hms, if_true, Except.ok.injEq, Prod.mk.injEq] at h
        rw [← h.1.1]; exact hacc'
      · simp only [hms, Bool.false_eq_true, if_false] at h
        cases ha : stAccept .slash ts' with
        | error e =>
          cases e with
          | reject =>
            simp only [ha, tryP_reject, Except.ok.injEq, Prod.mk.injEq] at h
            rw [← h.1.1]; exact hacc'
          | panic => simp [ha, tryP] at h
          | fuel => simp [ha, tryP] at h
        | ok r2 =>
          obtain ⟨_, ts''⟩ := r2
          simp only [ha, tryP_ok] at h
          exact ih _ _ _ _ _ h hacc'

theorem pchars_no_slash {l : Bytes} (h : pcharsB l = true) : cSlash ∉ l := by
  intro hm
  have := List.all_eq_true.mp (pchars_no_special l h) cSlash hm
  revert this; decide

theorem stFinish_verb (segs : List PSeg) (ts : List Tok) (segs' : List PSeg) (v : Bytes)
    (hl : ∀ l, PSeg.lit l ∈ segs → pcharsB l = true)
    (h : stFinish segs ts = .ok (segs', v)) : cSlash ∉ v := by
  unfold stFinish at h
  cases hg : segs.getLast? with
  | none => simp [hg] at h
  | some s =>
    have hmem : s ∈ segs := List.mem_of_getLast? hg
    rw [hg] at h
    cases s with
    | lit l =>
      have hp := hl l hmem
      simp only at h
      cases hsp : splitLast cColon l with
      | some bv =>
        obtain ⟨b, w⟩ := bv
        simp only [hsp] at h
        have hspec := splitLast_spec cColon l b w hsp
        have hw : cSlash ∉ w := by
          intro hm
          apply pchars_no_slash hp
          rw [hspec]; simp [hm]
        split at h
        · simp at h
        · split at h
          · simp only [Except.ok.injEq, Prod.mk.injEq] at h
            rw [← h.2]; exact hw
          · simp at h
      | none =>
        simp only [hsp] at h
        split at h
        · simp only [Except.ok.injEq, Prod.mk.injEq] at h
          rw [← h.2]; simp
        · simp at h
    | var p i =>
      simp only at h
      cases ts with
      | nil => simp at h
      | cons t ts' =>
        simp only at h
        by_cases hte : t = eofTok
        · simp only [hte, bne_self_eq_false, Bool.false_eq_true, if_false] at h
          split at h
          · simp only [Except.ok.injEq, Prod.mk.injEq] at h
            rw [← h.2]; simp
          · simp at h
        · have : (t != eofTok) = true := by simpa using hte
          simp only [this, if_true] at h
          cases hv : stAccept .verb (t :: ts') with
          | error e => simp [hv] at h
          | ok r =>
            obtain ⟨w, ts''⟩ := r
            simp only [hv] at h
            have hw : cSlash ∉ w := by
              simp only [stAccept] at hv
              by_cases hc : stCheckLiteral t = true
              · simp only [hc, Bool.not_true, Bool.false_eq_true, if_false] at hv
                cases t with
                | nil => simp at hv
                | cons c w' =>
                  simp only at hv
                  by_cases hcc : (c == cColon) = true
                  · simp only [hcc, if_true, Except.ok.injEq, Prod.mk.injEq] at hv
                    rw [← hv.1]
                    intro hm
                    rw [stCheckLiteral_eq] at hc
                    exact pchars_no_slash hc (by simp [hm])
                  · simp [hcc] at hv
              · simp [hc] at hv
            split at h
            · simp only [Except.ok.injEq, Prod.mk.injEq] at h
              rw [← h.2]; exact hw
            · simp at h
    | wild =>
      simp only at h
      split at h
      · simp only [Except.ok.injEq, Prod.mk.injEq] at h
        rw [← h.2]; simp
      · simp at h
    | deep =>
      simp only at h
      split at h
      · simp only [Except.ok.injEq, Prod.mk.injEq] at h
        rw [← h.2]; simp
      · simp at h

theorem stParse_verb_noslash (s : Bytes) (T : StTemplate) (h : stParse s = .ok T) : cSlash ∉ T.verb := by
  unfold stParse at h
  cases s with
  | nil => simp at h
  | cons c body =>
    simp only at h
    split at h
    · simp at h
    · split at h
      · simp at h
      · cases ht : stTemplate (parseFuel (stTokenize body)) (stTokenize body) with
        | error e => simp [ht] at h
        | ok r =>
          obtain ⟨segs, verb⟩ := r
          simp only [ht, Except.ok.injEq] at h
          rw [← h]
          simp only
          unfold stTemplate at ht
          split at ht
          · simp only [Except.ok.injEq, Prod.mk.injEq] at ht
            rw [← ht.2]; simp
          · split at ht
            · rename_i segs0 m0 ts0 hseg
              exact stFinish_verb segs0 ts0 segs verb
                (stSegments_lits _ [] _ segs0 m0 ts0 hseg (by simp)) ht
            · simp at ht
          · simp at ht

end GB.C20
