import GB.C20.Chars
/-
  C20 — executable model of the two path-template parsers and of the strict trie, as the code is
  after the `fix:` commits of this slice (see docs/notes/C20.md):

    internal/httprule/gwbased/parse.go    Parse, tokenize, parser.{topLevelSegments,segments,segment,
                                          literal,variable,fieldPath,accept}, expectPChars, expectIdent
    internal/httprule/gwbased/types.go    String() of template / segments
    internal/httprule/gwbased/compile.go  compile() of the segments, template.Compile
    internal/httprule/tokenize.go         tokenize
    internal/httprule/parse.go            Parse, parser.{template,segments,segment,variable,fieldPath,
                                          accept}, checkIdent, checkLiteral, consumePchar
    internal/httprule/trie.go             Trie.Add / Find, dfs, dfsLeaf, node.add*

  Go strings are `Bytes`. Go panics (index out of range on an empty token slice) are the explicit
  outcome `PErr.panic`; the recursive-descent functions carry fuel (`PErr.fuel` when exhausted, which
  never happens for the fuel `Parse` supplies — the driver reports it as a disagreement if it ever did).
-/
namespace GB.C20
open GB

/-! ## Tokenizer (identical state machine in both packages) -/

inductive TSt | seg | fld | nest
  deriving DecidableEq, Repr

/-- `strings.IndexAny(path, "/{" | ".=}" | "/}")` : the delimiter set of each state -/
def isDelim : TSt → UInt8 → Bool
  | .seg, c => c == cSlash || c == cLBrace
  | .fld, c => c == cDot || c == cEq || c == cRBrace
  | .nest, c => c == cSlash || c == cRBrace

/-- `switch r := path[idx]; r { case '/', '.': case '{': st = field; case '=': st = nested; case '}': st = init }` -/
def nextSt (st : TSt) (c : UInt8) : TSt :=
  if c == cLBrace then .fld else if c == cEq then .nest else if c == cRBrace then .seg else st

def flush (acc : Bytes) : List Tok := if acc.isEmpty then [] else [acc]

/-- The tokenizer loop, byte by byte: `acc` is the text since the last delimiter
    (`path[:idx]` of the Go loop once the next delimiter is found). -/
def tokCore : TSt → Bytes → Bytes → List Tok
  | _, acc, [] => flush acc
  | st, acc, c :: r =>
    if isDelim st c then flush acc ++ [c] :: tokCore (nextSt st c) [] r
    else tokCore st (acc ++ [c]) r

/-! ## Outcomes -/

inductive PErr | reject | panic | fuel
  deriving DecidableEq, Repr

/-- result of a parser function: value and remaining tokens -/
abbrev PR (α : Type) := Except PErr (α × List Tok)

/-- `if x, err := f(); err == nil { onOk } else { onRej }` — a Go panic (or fuel exhaustion) propagates. -/
@[inline] def tryP {α β : Type} (r : PR α) (onOk : α → List Tok → PR β) (onRej : Unit → PR β) : PR β :=
  match r with
  | .ok (a, ts) => onOk a ts
  | .error .reject => onRej ()
  | .error e => .error e

/-- parsed segment, shared by both parser models (Go: `segment` interface values / `segment` struct) -/
inductive PSeg where
  | wild
  | deep
  | lit (l : Bytes)
  | var (path : List Bytes) (inner : List PSeg)

inductive Term | slash | star | dstar | dot | eq | lbrace | rbrace | eof | ident | literal | verb
  deriving DecidableEq, Repr

def Term.punct : Term → Option Bytes
  | .slash => some [cSlash]
  | .star => some [cStar]
  | .dstar => some [cStar, cStar]
  | .dot => some [cDot]
  | .eq => some [cEq]
  | .lbrace => some [cLBrace]
  | .rbrace => some [cRBrace]
  | _ => none

/-! ## gwbased parser -/

/-- `expectPChars`: st 0 = init, 1 = pct1, 2 = pct2 -/
def gwExpectPChars : Nat → Bytes → Bool
  | 0, [] => true
  | _, [] => false
  | 0, c :: r => if isPcharByte c then gwExpectPChars 0 r else if c == cPct then gwExpectPChars 1 r else false
  | 1, c :: r => isHexDigit c && gwExpectPChars 2 r
  | _, c :: r => isHexDigit c && gwExpectPChars 0 r

/-- `expectIdent` -/
def gwExpectIdent : Bytes → Bool
  | [] => false
  | c :: r => isIdentStart c && r.all isIdentByte

/-- `parser.accept`. `exact` is the `exactSlash` field that `Parse` sets (fix of D19);
    with `exact = false` this is the legacy clause `t != string(term) && t != "/"`. -/
def gwAccept (exact : Bool) (term : Term) : List Tok → PR Tok
  | [] => .error .panic
  | t :: rest =>
    match term with
    | .eof => if t == eofTok then .ok (t, rest) else .error .reject
    | .ident => if gwExpectIdent t then .ok (t, rest) else .error .reject
    | .literal => if gwExpectPChars 0 t then .ok (t, rest) else .error .reject
    | .verb => .error .reject   -- `default: unknown termType` (never requested by the gw parser)
    | p =>
      match p.punct with
      | some s => if t != s && (exact || t != [cSlash]) then .error .reject else .ok (t, rest)
      | none => .error .reject

/-- the `for` loop of `fieldPath` after the first component -/
def gwFieldLoop (exact : Bool) (comps : List Bytes) : List Tok → PR (List Bytes)
  | [] => .error .panic
  | t :: rest =>
    match gwAccept exact .dot [t] with
    | .ok _ =>
      match rest with
      | [] => .error .panic
      | c :: rest' => if gwExpectIdent c then gwFieldLoop exact (comps ++ [c]) rest' else .error .reject
    | .error _ => .ok (comps, t :: rest)

def gwFieldPath (exact : Bool) (ts : List Tok) : PR (List Bytes) :=
  tryP (gwAccept exact .ident ts) (fun c ts => gwFieldLoop exact [c] ts) (fun _ => .error .reject)

mutual
  def gwSegments (exact : Bool) : Nat → List Tok → PR (List PSeg)
    | 0, _ => .error .fuel
    | f + 1, ts =>
      tryP (gwSegment exact f ts) (fun s ts => gwSegLoop exact f [s] ts) (fun _ => .error .reject)
  def gwSegLoop (exact : Bool) : Nat → List PSeg → List Tok → PR (List PSeg)
    | 0, _, _ => .error .fuel
    | f + 1, segs, ts =>
      tryP (gwAccept exact .slash ts)
        (fun _ ts => tryP (gwSegment exact f ts) (fun s ts => gwSegLoop exact f (segs ++ [s]) ts) (fun _ => .error .reject))
        (fun _ => .ok (segs, ts))
  def gwSegment (exact : Bool) : Nat → List Tok → PR PSeg
    | 0, _ => .error .fuel
    | f + 1, ts =>
      tryP (gwAccept exact .star ts) (fun _ ts => .ok (.wild, ts)) fun _ =>
      tryP (gwAccept exact .dstar ts) (fun _ ts => .ok (.deep, ts)) fun _ =>
      tryP (gwAccept exact .literal ts) (fun l ts => .ok (.lit l, ts)) fun _ =>
      gwVariable exact f ts
  def gwVariable (exact : Bool) : Nat → List Tok → PR PSeg
    | 0, _ => .error .fuel
    | f + 1, ts =>
      tryP (gwAccept exact .lbrace ts) (fun _ ts =>
        tryP (gwFieldPath exact ts) (fun path ts =>
          tryP (gwAccept exact .eq ts)
            (fun _ ts =>
              tryP (gwSegments exact f ts) (fun segs ts =>
                tryP (gwAccept exact .rbrace ts) (fun _ ts => .ok (.var path segs, ts)) (fun _ => .error .reject))
                (fun _ => .error .reject))
            (fun _ =>
              tryP (gwAccept exact .rbrace ts) (fun _ ts => .ok (.var path [.wild], ts)) (fun _ => .error .reject)))
          (fun _ => .error .reject))
        (fun _ => .error .reject)
end

/-- `topLevelSegments`; the root template is `[]segment{literal(eof)}` -/
def gwTopLevel (exact : Bool) (fuel : Nat) (ts : List Tok) : Except PErr (List PSeg) :=
  match gwAccept exact .eof ts with
  | .ok _ => .ok [.lit eofTok]
  | .error .reject =>
    match gwSegments exact fuel ts with
    | .ok (segs, ts) =>
      match gwAccept exact .eof ts with
      | .ok _ => .ok segs
      | .error e => .error e
    | .error e => .error e
  | .error e => .error e

/-- `tokenize` of gwbased: tokens (with the trailing eof token) and the verb. -/
def gwTokenize (path : Bytes) : Except PErr (List Tok × Bytes) :=
  if path.isEmpty then .ok ([eofTok], [])
  else
    let tokens := tokCore .seg [] path
    match tokens.getLast? with
    | none => .error .panic                     -- `tokens[l-1]` with l = 0 (cannot happen: path ≠ "")
    | some t =>
      let init := tokens.dropLast
      let penultimateTokenIsEndVar := init.getLast? == some [cRBrace]
      let idx := if penultimateTokenIsEndVar then splitFirst cColon t else splitLast cColon t
      match idx with
      | some ([], v) => .ok (init ++ [eofTok], v)                 -- idx == 0
      | some (b, v) => .ok (init ++ [b] ++ [eofTok], v)           -- idx > 0
      | none => .ok (tokens ++ [eofTok], [])

structure GwTemplate where
  segs : List PSeg
  verb : Bytes
  tmpl : Bytes

def parseFuel (ts : List Tok) : Nat := 4 * ts.length + 8

/-- `Parse` of gwbased (fixed code: NUL check, verb check, exact "/" matching). -/
def gwParseWith (exact : Bool) (tmpl : Bytes) : Except PErr GwTemplate :=
  match tmpl with
  | [] => .error .reject
  | c :: body =>
    if c != cSlash then .error .reject
    else if tmpl.contains 0 then .error .reject
    else
      match gwTokenize body with
      | .error e => .error e
      | .ok (tokens, verb) =>
        if !gwExpectPChars 0 verb then .error .reject
        else
          match gwTopLevel exact (parseFuel tokens) tokens with
          | .error e => .error e
          | .ok segs => .ok { segs := segs, verb := verb, tmpl := tmpl }

def gwParse (tmpl : Bytes) : Except PErr GwTemplate := gwParseWith true tmpl

/-! ### String() and Compile() -/

mutual
  def PSeg.gwStr : PSeg → Bytes
    | .wild => [cStar]
    | .deep => [cStar, cStar]
    | .lit l => l
    | .var path inner => cLBrace :: joinWith cDot path ++ cEq :: gwStrs inner ++ [cRBrace]
  /-- `strings.Join(segs, "/")` over the `String()` of each segment -/
  def gwStrs : List PSeg → Bytes
    | [] => []
    | [s] => s.gwStr
    | s :: t :: r => s.gwStr ++ cSlash :: gwStrs (t :: r)
end

def GwTemplate.str (t : GwTemplate) : Bytes :=
  let s := gwStrs t.segs
  cSlash :: (if t.verb.isEmpty then s else s ++ cColon :: t.verb)

structure Op where
  code : Nat
  str : Bytes
  num : Nat

def opPush : Nat := 1
def opLitPush : Nat := 2
def opPushM : Nat := 3
def opConcatN : Nat := 4
def opCapture : Nat := 5

mutual
  def PSeg.compile : PSeg → List Op
    | .wild => [{ code := opPush, str := [], num := 0 }]
    | .deep => [{ code := opPushM, str := [], num := 0 }]
    | .lit l => [{ code := opLitPush, str := l, num := 0 }]
    | .var path inner =>
      compileSegs inner ++ [{ code := opConcatN, str := [], num := lenSegs inner },
                            { code := opCapture, str := joinWith cDot path, num := 0 }]
  def compileSegs : List PSeg → List Op
    | [] => []
    | s :: r => s.compile ++ compileSegs r
  def lenSegs : List PSeg → Nat
    | [] => 0
    | _ :: r => lenSegs r + 1
end

structure Compiled where
  ops : List Nat
  pool : List Bytes
  verb : Bytes
  fields : List Bytes

/-- the second loop of `template.Compile`; `consts[s]` is the index of `s` in `pool` -/
def compileOps : List Op → List Nat → List Bytes → List Bytes → List Nat × List Bytes × List Bytes
  | [], ops, pool, fields => (ops, pool, fields)
  | op :: r, ops, pool, fields =>
    if op.str.isEmpty then
      compileOps r (ops ++ [op.code, op.num]) pool (if op.code == opCapture then fields ++ [op.str] else fields)
    else
      let s := if op.str == eofTok then [] else op.str
      let pool' := if pool.contains s then pool else pool ++ [s]
      compileOps r (ops ++ [op.code, pool'.idxOf s]) pool' (if op.code == opCapture then fields ++ [s] else fields)

def GwTemplate.compile (t : GwTemplate) : Compiled :=
  let (ops, pool, fields) := compileOps (compileSegs t.segs) [] [] []
  { ops := ops, pool := pool, verb := t.verb, fields := fields }

/-! ## strict parser (internal/httprule) -/

/-- `checkIdent` (no emptiness test: "empty identifier cannot occur here thanks to tokenize") -/
def stCheckIdent : Bytes → Bool
  | [] => true
  | c :: r => isIdentStart c && r.all isIdentByte

/-- `checkLiteral` / `consumePchar` -/
def stCheckLiteral : Bytes → Bool
  | [] => true
  | c :: r =>
    if isPcharByte c then stCheckLiteral r
    else if c != cPct then false
    else match r with
      | h1 :: h2 :: r' => isHexDigit h1 && isHexDigit h2 && stCheckLiteral r'
      | _ => false

/-- `parser.accept` of the strict parser; returns the (possibly trimmed) token -/
def stAccept (want : Term) : List Tok → PR Tok
  | [] => .error .panic
  | got :: rest =>
    match want with
    | .eof => if got == eofTok then .ok (got, rest) else .error .reject
    | .ident => if stCheckIdent got then .ok (got, rest) else .error .reject
    | .literal => if stCheckLiteral got then .ok (got, rest) else .error .reject
    | .verb =>
      if !stCheckLiteral got then .error .reject
      else match got with
        | c :: v => if c == cColon then .ok (v, rest) else .error .reject
        | [] => .error .reject
    | p =>
      match p.punct with
      | some s => if got != s then .error .reject else .ok (got, rest)
      | none => .error .reject

def stFieldLoop (comps : List Bytes) : List Tok → PR (List Bytes)
  | [] => .error .panic
  | t :: rest =>
    match stAccept .dot [t] with
    | .ok _ =>
      match rest with
      | [] => .error .panic
      | c :: rest' => if stCheckIdent c then stFieldLoop (comps ++ [c]) rest' else .error .reject
    | .error _ => .ok (comps, t :: rest)

def stFieldPath (ts : List Tok) : PR (List Bytes) :=
  tryP (stAccept .ident ts) (fun c ts => stFieldLoop [c] ts) (fun _ => .error .reject)

mutual
  /-- `segments()`: the loop, with the segments collected so far; returns (segments, multi) -/
  def stSegments : Nat → List PSeg → List Tok → PR (List PSeg × Bool)
    | 0, _, _ => .error .fuel
    | f + 1, segs, ts =>
      tryP (stSegment f ts) (fun (s, ms) ts =>
          if ms then .ok ((segs ++ [s], true), ts)
          else tryP (stAccept .slash ts) (fun _ ts => stSegments f (segs ++ [s]) ts) (fun _ => .ok ((segs ++ [s], false), ts)))
        (fun _ => .error .reject)
  def stSegment : Nat → List Tok → PR (PSeg × Bool)
    | 0, _ => .error .fuel
    | f + 1, ts =>
      tryP (stAccept .star ts) (fun _ ts => .ok ((.wild, false), ts)) fun _ =>
      tryP (stAccept .dstar ts) (fun _ ts => .ok ((.deep, true), ts)) fun _ =>
      tryP (stAccept .literal ts) (fun l ts => .ok ((.lit l, false), ts)) fun _ =>
      stVariable f ts
  def stVariable : Nat → List Tok → PR (PSeg × Bool)
    | 0, _ => .error .fuel
    | f + 1, ts =>
      tryP (stAccept .lbrace ts) (fun _ ts =>
        tryP (stFieldPath ts) (fun path ts =>
          tryP (stAccept .eq ts)
            (fun _ ts =>
              tryP (stSegments f [] ts) (fun (segs, multi) ts =>
                tryP (stAccept .rbrace ts) (fun _ ts => .ok ((.var path segs, multi), ts)) (fun _ => .error .reject))
                (fun _ => .error .reject))
            (fun _ =>
              tryP (stAccept .rbrace ts) (fun _ ts => .ok ((.var path [.wild], false), ts)) (fun _ => .error .reject)))
          (fun _ => .error .reject))
        (fun _ => .error .reject)
end

structure StTemplate where
  segs : List PSeg
  verb : Bytes
  tmpl : Bytes

/-- `parser.template()` after the segments were parsed: literal/verb split or explicit verb, then EOF. -/
def stFinish (segs : List PSeg) (ts : List Tok) : Except PErr (List PSeg × Bytes) :=
  match segs.getLast? with
  | none => .error .panic                                   -- `segments[len(segments)-1]`
  | some (.lit l) =>
    match splitLast cColon l with
    | some (b, v) =>
      if b.isEmpty && segs.length > 1 then .error .reject   -- fix: empty last segment before the verb
      else match stAccept .eof ts with
        | .ok _ => .ok (segs.dropLast ++ [.lit b], v)
        | .error e => .error e
    | none =>
      match stAccept .eof ts with
      | .ok _ => .ok (segs, [])
      | .error e => .error e
  | some (.var _ _) =>
    match ts with
    | [] => .error .panic                                   -- `p.left[0]`
    | t :: _ =>
      if t != eofTok then
        match stAccept .verb ts with
        | .ok (v, ts) =>
          match stAccept .eof ts with
          | .ok _ => .ok (segs, v)
          | .error e => .error e
        | .error e => .error e
      else
        match stAccept .eof ts with
        | .ok _ => .ok (segs, [])
        | .error e => .error e
  | some _ =>
    match stAccept .eof ts with
    | .ok _ => .ok (segs, [])
    | .error e => .error e

def stTemplate (fuel : Nat) (ts : List Tok) : Except PErr (List PSeg × Bytes) :=
  match stAccept .eof ts with
  | .ok _ => .ok ([.lit []], [])
  | .error .reject =>
    match stSegments fuel [] ts with
    | .ok ((segs, _), ts) => stFinish segs ts
    | .error e => .error e
  | .error e => .error e

def stTokenize (body : Bytes) : List Tok := tokCore .seg [] body ++ [eofTok]

/-- `Parse` of the strict parser (fixed code: NUL check, empty last literal before a verb). -/
def stParse (tmpl : Bytes) : Except PErr StTemplate :=
  match tmpl with
  | [] => .error .reject
  | c :: body =>
    if c != cSlash then .error .reject
    else if tmpl.contains 0 then .error .reject
    else
      let tokens := stTokenize body
      match stTemplate (parseFuel tokens) tokens with
      | .error e => .error e
      | .ok (segs, verb) => .ok { segs := segs, verb := verb, tmpl := tmpl }

/- `(*Template).VerifDump()` -/
mutual
  def PSeg.dump : PSeg → Bytes
    | .wild => [87]          -- W
    | .deep => [77]          -- M
    | .lit l => [76, 40] ++ l ++ [41]                                      -- L(…)
    | .var path inner => [86, 40] ++ joinWith cDot path ++ cEq :: dumpSegs inner ++ [41]   -- V(a.b=…)
  def dumpSegs : List PSeg → Bytes
    | [] => []
    | [s] => s.dump
    | s :: t :: r => s.dump ++ cSlash :: dumpSegs (t :: r)
end

def StTemplate.dump (t : StTemplate) : Bytes :=
  dumpSegs t.segs ++ [124, 118, 101, 114, 98, 61] ++ t.verb     -- "|verb="

/-! ## strict trie

  The Go trie is a tree of nodes with maps `literals`, `verbs` and two wildcard pointers. The model is
  the same trie written as the list of its root-to-leaf paths in insertion order: the node reached by
  the key path `π` exists iff some added template passes through `π`; `n.tmpl` / `n.verbs[v]` is the
  last template added at exactly `π` with verb `""` / `v` (a later `Add` overwrites the slot). -/

inductive Key where
  | lit (l : Bytes)
  | wild
  | multi
  deriving DecidableEq, Repr

mutual
  /-- `node.add` / `addVariable`: a variable contributes the keys of its inner segments -/
  def PSeg.keys : PSeg → List Key
    | .wild => [.wild]
    | .deep => [.multi]
    | .lit l => [.lit l]
    | .var _ inner => keysOfSegs inner
  def keysOfSegs : List PSeg → List Key
    | [] => []
    | s :: r => s.keys ++ keysOfSegs r
end

structure Entry where
  method : Bytes
  keys : List Key
  verb : Bytes
  tmpl : Bytes
  deriving DecidableEq, Repr

abbrev Trie := List Entry

/-- `Trie.Add` -/
def Trie.add (t : Trie) (method : Bytes) (tm : StTemplate) : Trie :=
  t ++ [{ method := method, keys := keysOfSegs tm.segs, verb := tm.verb, tmpl := tm.tmpl }]

def nodeExists (es : List Entry) (π : List Key) : Bool := es.any (fun e => π.isPrefixOf e.keys)

/-- `n.tmpl` for the node at `π` (`none` = nil) -/
def leafTmpl (es : List Entry) (π : List Key) : Option Entry :=
  es.reverse.find? (fun e => e.keys == π && e.verb.isEmpty)

/-- `n.verbs[v]` for the node at `π` (`addVerb` never stores the empty verb in the map) -/
def verbTmpl (es : List Entry) (π : List Key) (v : Bytes) : Option Entry :=
  if v.isEmpty then none else es.reverse.find? (fun e => e.keys == π && e.verb == v)

/-- all `(component[:i], component[i+1:])` with `component[i] = ':'`, last colon first
    (the order of the `strings.LastIndex` loop in `dfs`) -/
def colonSplits : Bytes → List (Bytes × Bytes)
  | [] => []
  | x :: r =>
    (colonSplits r).map (fun (a, b) => (x :: a, b)) ++ (if x == cColon then [([], r)] else [])

/-- `dfsLeaf`: the permitted results (Go map iteration over `n.verbs` is unordered: any verb whose
    `":"+verb` is a suffix of the original path may be returned); `[]` = not found. -/
def dfsLeaf (es : List Entry) (π : List Key) (orig : Bytes) (wild : Bool) : List Entry :=
  match leafTmpl es π with
  | some e => [e]
  | none =>
    if !wild then []
    else (es.filter (fun e => e.keys == π && !e.verb.isEmpty && (cColon :: e.verb).isSuffixOf orig)).filterMap
           (fun e => verbTmpl es π e.verb)

/-- `dfs`; `comps` are the remaining path components (`[]` ⇔ `last`). -/
def dfs (es : List Entry) (orig : Bytes) : List Key → List Bytes → Bool → List Entry
  | π, [], wild => dfsLeaf es π orig wild
  | π, c :: rest, _ =>
    if nodeExists es (π ++ [.lit c]) then dfs es orig (π ++ [.lit c]) rest false
    else
      let viaVerb :=
        if rest.isEmpty then (colonSplits c).findSome? (fun (l, v) => verbTmpl es (π ++ [.lit l]) v) else none
      match viaVerb with
      | some e => [e]
      | none =>
        if nodeExists es (π ++ [.wild]) then dfs es orig (π ++ [.wild]) rest true
        else if nodeExists es (π ++ [.multi]) then dfsLeaf es (π ++ [.multi]) orig true
        else []

/-- split on '/' (the repeated `strings.Index(path, "/")` of `dfs`): always at least one component -/
def splitSlash (p : Bytes) : List Bytes := splitOnByte cSlash p

/-- `strings.TrimPrefix(path, "/")` -/
def trimLeadingSlash (path : Bytes) : Bytes :=
  match path with
  | c :: r => if c == cSlash then r else path
  | [] => path

/-- `Trie.Find`: permitted results -/
def Trie.find (t : Trie) (method : Bytes) (path : Bytes) : List Entry :=
  let es := t.filter (fun e => e.method == method)
  if es.isEmpty then []
  else dfs es (trimLeadingSlash path) [] (splitSlash (trimLeadingSlash path)) false

end GB.C20
