import GB.C20.Model
import GB.C20.Spec
import GB.C20.ProofsTrie
import GB.Generated.Facts
/-
  C20 — property theorems. Helper lemmas live in Proofs*.lean.
-/
open GB GB.C20

/-! ### facts ties: the character tables, delimiter sets and structural facts the models use are the ones in the sources now -/

def inRanges (rs : List (Nat × Nat)) (n : Nat) : Bool := rs.any (fun r => r.1 ≤ n && n ≤ r.2)

set_option maxRecDepth 100000 in
/-- `expectPChars` (gwbased): single-byte pchars are the extracted ranges plus the extracted case labels (the last label is '%'). -/
theorem C20_facts_gw_pchar : ∀ n : Fin 256,
    isPcharByte (UInt8.ofNat n.val) =
      (inRanges GB.Generated.c20GwPcharRanges n.val || GB.Generated.c20GwPcharPunct.dropLast.contains n.val) := by
  decide

theorem C20_facts_gw_pct : GB.Generated.c20GwPcharPunct.getLast? = some cPct.toNat := by decide

set_option maxRecDepth 100000 in
/-- `consumePchar` (strict) -/
theorem C20_facts_st_pchar : ∀ n : Fin 256,
    isPcharByte (UInt8.ofNat n.val) =
      (inRanges GB.Generated.c20StPcharRanges n.val || GB.Generated.c20StPcharPunct.contains n.val) := by
  decide

set_option maxRecDepth 100000 in
/-- `expectIdent` / `checkIdent`: the first range (digits) is excluded at position 0; `_` is the extra case -/
theorem C20_facts_ident : ∀ n : Fin 256,
    (isIdentByte (UInt8.ofNat n.val) = (inRanges GB.Generated.c20GwIdentRanges n.val || n.val == 95)) ∧
    (isIdentStart (UInt8.ofNat n.val) = (inRanges (GB.Generated.c20GwIdentRanges.drop 1) n.val || n.val == 95)) ∧
    GB.Generated.c20StIdentRanges = GB.Generated.c20GwIdentRanges := by
  decide

set_option maxRecDepth 100000 in
theorem C20_facts_hex : ∀ n : Fin 256,
    isHexDigit (UInt8.ofNat n.val) = inRanges GB.Generated.c20GwHexRanges n.val ∧
    GB.Generated.c20StHexRanges = GB.Generated.c20GwHexRanges := by
  decide

/-- delimiter sets of the tokenizer states (init, field, nested), both packages -/
theorem C20_facts_delims :
    GB.Generated.c20GwDelims = ["/{", ".=}", "/}"] ∧
    GB.Generated.c20StDelims = ["tsegment=/{", "tvariable=.=}", "tnested=/}"] := by
  decide

set_option maxRecDepth 100000 in
theorem C20_facts_delims_model : ∀ n : Fin 256,
    isDelim .seg (UInt8.ofNat n.val) = [47, 123].contains n.val ∧
    isDelim .fld (UInt8.ofNat n.val) = [46, 61, 125].contains n.val ∧
    isDelim .nest (UInt8.ofNat n.val) = [47, 125].contains n.val := by
  decide

theorem C20_facts_eof :
    GB.Generated.c20GwEof = eofTok.map UInt8.toNat ∧ GB.Generated.c20StEof = eofTok.map UInt8.toNat := by
  decide

/-- the three repairs the models assume are present in the sources -/
theorem C20_facts_fixes :
    GB.Generated.c20GwParseChecksNul = true ∧ GB.Generated.c20StParseChecksNul = true ∧
    GB.Generated.c20GwParseChecksVerb = true ∧ GB.Generated.c20GwParseExactSlash = true := by
  decide

/-! ### trie -/

/-- **Trie soundness.** Whatever `Find` may return (for every iteration order of the `verbs` map) is
    a template that was added under the looked-up method and that matches the looked-up path:
    the path's components are matched one to one by the template's keys (`*` any component, `**` all
    remaining ones, a literal itself), with `":" ++ verb` at the very end. The hypothesis (no "/" in a
    verb) holds for every template the strict parser returns (`C20_strict_verb_noslash`). -/
theorem C20_trie_sound (t : Trie) (hv : ∀ e ∈ t, cSlash ∉ e.verb) (m p : Bytes) (e : Entry)
    (h : e ∈ t.find m p) :
    e ∈ t ∧ e.method = m ∧
      Matches (e.keys.map Key.mkey) e.verb (splitOnByte cSlash (trimLeadingSlash p)) :=
  find_sound t hv m p e h

/-- Why D20 needed a repair: with the old `dfsLeaf` (suffix test even after a literal match, i.e. `wild`
    always true) the trie holding `/a:v:v` answers `/a:v` with it, which does not match. -/
theorem C20_trie_old_leaf_fails :
    let e : Entry := { method := [], keys := [.lit [97, 58, 118]], verb := [118], tmpl := [47, 97, 58, 118, 58, 118] }
    e ∈ dfsLeaf [e] [.lit [97, 58, 118]] [97, 58, 118] true ∧
    ¬ Matches (e.keys.map Key.mkey) e.verb [[97, 58, 118]] := by
  refine ⟨by decide, ?_⟩
  intro ⟨cs, h1, h2⟩
  cases cs with
  | nil => simp [addVerb] at h2
  | cons c cs =>
    cases cs with
    | nil =>
      simp [addVerb] at h2
      simp [Key.mkey, matchKeys] at h1
      rw [← h1] at h2
      simp at h2
    | cons d r => simp [addVerb] at h2; cases r <;> simp [addVerb] at h2

/-! ### gwbased: legacy `accept` clause (kept in the code for the token-level unit test, disabled by `Parse`) -/

/-- With the legacy clause `t != string(term) && t != "/"` the template "//" is the route "/*" (D19). -/
theorem C20_gw_legacy_accept_fails :
    ((gwParseWith false [47, 47]).toOption.map (·.str)) = some [47, 42] ∧
    ((gwParseWith false [47, 123, 97, 61, 47, 125]).toOption.map (·.str)) = some [47, 123, 97, 61, 42, 125] ∧
    (gwParse [47, 47]).toOption.isNone = true ∧
    (gwParse [47, 123, 97, 61, 47, 125]).toOption.isNone = true := by
  decide
