import GB.C20.Model
import GB.C20.Spec
import GB.C20.ProofsTrie
import GB.C20.ProofsTrieComplete
import GB.C20.ProofsGwMain
import GB.C20.ProofsStMain
import GB.C20.ProofsVerb
import GB.C20.ProofsLegalMain
import GB.C20.ProofsStSoundMain
import GB.C20.ProofsGwSoundMain
import GB.C20.ProofsClasses
import GB.C20.ProofsRecog
import GB.C20.BridgeProofs
import GB.Generated.Facts
/-
  C20 — property theorems. Helper lemmas live in Proofs*.lean.
-/
open GB GB.C20

/-! ### facts ties: the character tables, delimiter sets and structural facts the models use are the ones in the sources now -/

def inRanges (rs : List (Nat × Nat)) (n : Nat) : Bool := rs.any (fun r => r.1 ≤ n && n ≤ r.2)

set_option maxRecDepth 100000 in
/-- `expectPChars` (gwbased): single-byte pchars are the extracted ranges plus the extracted case labels (the last label is '%'). -/
theorem C20_facts_gw_pchar : ∀ n : Fin 256,
    isPcharByte (UInt8.ofNat n.val) =
      (inRanges GB.Generated.c20GwPcharRanges n.val || GB.Generated.c20GwPcharPunct.dropLast.contains n.val) := by
  decide

theorem C20_facts_gw_pct : GB.Generated.c20GwPcharPunct.getLast? = some cPct.toNat := by decide

set_option maxRecDepth 100000 in
/-- `consumePchar` (strict) -/
theorem C20_facts_st_pchar : ∀ n : Fin 256,
    isPcharByte (UInt8.ofNat n.val) =
      (inRanges GB.Generated.c20StPcharRanges n.val || GB.Generated.c20StPcharPunct.contains n.val) := by
  decide

set_option maxRecDepth 100000 in
/-- `expectIdent` / `checkIdent`: the first range (digits) is excluded at position 0; `_` is the extra case -/
theorem C20_facts_ident : ∀ n : Fin 256,
    (isIdentByte (UInt8.ofNat n.val) = (inRanges GB.Generated.c20GwIdentRanges n.val || n.val == 95)) ∧
    (isIdentStart (UInt8.ofNat n.val) = (inRanges (GB.Generated.c20GwIdentRanges.drop 1) n.val || n.val == 95)) ∧
    GB.Generated.c20StIdentRanges = GB.Generated.c20GwIdentRanges := by
  decide

set_option maxRecDepth 100000 in
theorem C20_facts_hex : ∀ n : Fin 256,
    isHexDigit (UInt8.ofNat n.val) = inRanges GB.Generated.c20GwHexRanges n.val ∧
    GB.Generated.c20StHexRanges = GB.Generated.c20GwHexRanges := by
  decide

/-- delimiter sets of the tokenizer states (init, field, nested), both packages -/
theorem C20_facts_delims :
    GB.Generated.c20GwDelims = ["/{", ".=}", "/}"] ∧
    GB.Generated.c20StDelims = ["tsegment=/{", "tvariable=.=}", "tnested=/}"] := by
  decide

set_option maxRecDepth 100000 in
theorem C20_facts_delims_model : ∀ n : Fin 256,
    isDelim .seg (UInt8.ofNat n.val) = [47, 123].contains n.val ∧
    isDelim .fld (UInt8.ofNat n.val) = [46, 61, 125].contains n.val ∧
    isDelim .nest (UInt8.ofNat n.val) = [47, 125].contains n.val := by
  decide

theorem C20_facts_eof :
    GB.Generated.c20GwEof = eofTok.map UInt8.toNat ∧ GB.Generated.c20StEof = eofTok.map UInt8.toNat := by
  decide

/-- the three repairs the models assume are present in the sources -/
theorem C20_facts_fixes :
    GB.Generated.c20GwParseChecksNul = true ∧ GB.Generated.c20StParseChecksNul = true ∧
    GB.Generated.c20GwParseChecksVerb = true ∧ GB.Generated.c20GwParseExactSlash = true := by
  decide

/-! ### the grammar recogniser used as the oracle of the correspondence run -/

/-- A `some` answer of the recogniser is a derivation (with that abstract syntax): the oracle never
    calls a string derivable that is not. The converse is `C20_recogniser_complete`. -/
theorem C20_recogniser_sound (s : Bytes) (t : Tmpl) (h : specParse s = some t) : Derives s t := by
  unfold specParse specParseWith at h
  cases hc : specCandidate s with
  | none => simp [hc] at h
  | some t' =>
    simp only [hc] at h
    by_cases hw : (t'.wfB false && t'.render == s) = true
    · simp only [hw, if_true, Option.some.injEq] at h
      subst h
      simp only [Bool.and_eq_true, beq_iff_eq] at hw
      exact ⟨hw.1, hw.2⟩
    · simp [hw] at h

/-- **The recogniser finds every derivation**, with its abstract syntax: the oracle of the differential run
    is exact. -/
theorem C20_recogniser_complete (s : Bytes) (t : Tmpl) (h : Derives s t) : specParse s = some t := by
  obtain ⟨hw, hr⟩ := h
  rw [← hr]
  exact specParseWith_complete false t hw

/-- `inGrammar` decides the grammar's language; the same for the relaxed grammar -/
theorem C20_recogniser_exact (s : Bytes) :
    (inGrammar s = true ↔ ∃ t, Derives s t) ∧ ((specParseWith true s).isSome = true ↔ ∃ t, DerivesRelaxed s t) := by
  constructor
  · constructor
    · intro h
      unfold inGrammar at h
      cases hs : specParse s with
      | none => simp [hs] at h
      | some t => exact ⟨t, C20_recogniser_sound s t hs⟩
    · rintro ⟨t, ht⟩
      simp [inGrammar, C20_recogniser_complete s t ht]
  · constructor
    · intro h
      cases hs : specParseWith true s with
      | none => simp [hs] at h
      | some t =>
        refine ⟨t, ?_⟩
        unfold specParseWith at hs
        cases hc : specCandidate s with
        | none => simp [hc] at hs
        | some t' =>
          simp only [hc] at hs
          by_cases hw : (t'.wfB true && t'.render == s) = true
          · simp only [hw, if_true, Option.some.injEq] at hs
            subst hs
            simp only [Bool.and_eq_true, beq_iff_eq] at hw
            exact ⟨hw.1, hw.2⟩
          · simp [hw] at hs
    · rintro ⟨t, hw, hr⟩
      rw [← hr, specParseWith_complete true t hw]; rfl

/-- the grammar (with the stated reading of `:`) is unambiguous: a string has at most one abstract syntax, so
    "the verb and field paths the grammar assigns" are well defined -/
theorem C20_grammar_unambiguous (s : Bytes) (t t' : Tmpl) (h : Derives s t) (h' : Derives s t') : t = t' := by
  have h1 := C20_recogniser_complete s t h
  have h2 := C20_recogniser_complete s t' h'
  rw [h1] at h2
  exact Option.some.inj h2

/-! ### tokenizer (both packages), over arbitrary byte strings -/

/-- the tokens are a partition of the input: nothing is dropped, reordered or invented -/
theorem C20_tokens_concat (s : Bytes) : (tokCore .seg [] s).flatten = s := by
  simpa using tokCore_concat s .seg []

/-- no token is empty (the strict parser's `checkIdent` / `checkLiteral` rely on it) -/
theorem C20_tokens_nonempty (s : Bytes) : ∀ t ∈ tokCore .seg [] s, t ≠ [] :=
  tokCore_nonempty s .seg []

/-! ### gwbased parser (the one routing uses) -/

/-- **Completeness, with the verb and field paths of the grammar.** Every string the grammar derives is
    accepted by `Parse`; the template it returns has the verb the grammar assigns, `Compile()` reports
    exactly the grammar's field paths (in order), and its segments are the grammar's (`gwSegsOf`: the
    root template is the literal eof token, as in the Go code). -/
theorem C20_gw_complete (s : Bytes) (t : Tmpl) (h : Derives s t) :
    ∃ g, gwParse s = .ok g ∧ g.verb = t.verbStr ∧ g.compile.verb = t.verbStr ∧
      g.compile.fields = t.fields ∧ g.segs = gwSegsOf t ∧ g.tmpl = s := by
  obtain ⟨hw, hr⟩ := h
  obtain ⟨g, h1, h2, h3, h4⟩ := gwParse_render false t hw
  rw [hr] at h1 h4
  exact ⟨g, h1, h3, by simp [GwTemplate.compile, h3], gw_fields false t hw g h2, h2, h4⟩

/-- The same for the relaxed grammar (`**` anywhere): gwbased does not restrict the position of `**`. -/
theorem C20_gw_complete_relaxed (s : Bytes) (t : Tmpl) (h : DerivesRelaxed s t) :
    ∃ g, gwParse s = .ok g ∧ g.verb = t.verbStr ∧ g.compile.fields = t.fields ∧ g.segs = gwSegsOf t := by
  obtain ⟨hw, hr⟩ := h
  obtain ⟨g, h1, h2, h3, h4⟩ := gwParse_render true t hw
  rw [hr] at h1
  exact ⟨g, h1, h3, gw_fields true t hw g h2, h2⟩

/-- the hypothesis of `C20_gw_complete` is satisfiable: `/v1/{name=a/*}:get` with its derivation -/
example : Derives [47, 118, 49, 47, 123, 110, 97, 109, 101, 61, 97, 47, 42, 125, 58, 103, 101, 116]
    { segs := [.lit [118, 49], .var [[110, 97, 109, 101]] (some [.lit [97], .wild])], verb := some [103, 101, 116] } := by
  constructor
  · show Tmpl.wfB false _ = true
    decide
  · decide

/-
  First part of the rejection clause (no leading slash, NUL, illegal path characters — proved directly from the
  "consumed tokens are legal" invariant, before the soundness theorem existed). Kept under its original name;
  the full clause is `C20_gw_rejects` below.
-/
theorem C20_gw_rejects_partial (s : Bytes)
    (h : noLeadingSlash s = true ∨ (0 : UInt8) ∈ s ∨ illegalChar s = true) : ∀ g, gwParse s ≠ .ok g := by
  intro g hg
  rcases h with h | h | h
  · unfold gwParse gwParseWith at hg
    cases s with
    | nil => simp at hg
    | cons c body =>
      have hc : (c != cSlash) = true := by simpa [noLeadingSlash] using h
      simp [hc] at hg
  · unfold gwParse gwParseWith at hg
    cases s with
    | nil => simp at hg
    | cons c body =>
      simp only at hg
      by_cases hc : (c != cSlash) = true
      · simp [hc] at hg
      · have : (c :: body).contains 0 = true := by simpa using h
        simp only [hc, Bool.false_eq_true, if_false, this, if_true] at hg
        exact absurd hg (by simp)
  · have := gwParse_legal s g hg
    rw [this] at h
    exact absurd h (by simp)

/-- the hypotheses are satisfiable: "/a:b c" (a space in the verb) is such a string, and was accepted before D22 -/
example : illegalChar [47, 97, 58, 98, 32, 99] = true := by decide

/-- **gwbased soundness w.r.t. the relaxed grammar** (`**` anywhere): whatever `Parse` (with the exact "/"
    matching the fixed code sets) accepts is the print of a template that is well-formed in the relaxed grammar,
    and the verb it returns is that template's verb. Same synchronisation invariant as for the strict parser;
    the verb cut off by `tokenize` is put back with `validE_replace_last`. -/
theorem C20_gw_sound (s : Bytes) (g : GwTemplate) (h : gwParse s = .ok g) :
    ∃ t, DerivesRelaxed s t ∧ g.verb = t.verbStr := by
  obtain ⟨t, h1, h2, h3⟩ := gwParse_sound s g h
  exact ⟨t, ⟨h1, h2⟩, h3⟩

/-- **gwbased accepts exactly the relaxed grammar's language**, for all byte strings. -/
theorem C20_gw_exact_relaxed (s : Bytes) : (∃ g, gwParse s = .ok g) ↔ (∃ t, DerivesRelaxed s t) := by
  constructor
  · rintro ⟨g, h⟩
    obtain ⟨t, ht, _⟩ := C20_gw_sound s g h
    exact ⟨t, ht⟩
  · rintro ⟨t, ht⟩
    obtain ⟨g, h, _⟩ := C20_gw_complete_relaxed s t ht
    exact ⟨g, h⟩

/-- **The rejection clause.** gwbased `Parse` rejects every string with no leading slash, a NUL, a byte outside the
    template alphabet, an ill-formed percent-escape, unbalanced or nested variable braces, an empty or ill-formed
    field path, or an empty segment — each class is disjoint from the relaxed grammar's language
    (ProofsClasses.lean), and `C20_gw_sound` puts every accepted string into that language. -/
theorem C20_gw_rejects (s : Bytes)
    (h : noLeadingSlash s = true ∨ (0 : UInt8) ∈ s ∨ illegalChar s = true ∨ badPercent s = true ∨
         badBraces s = true ∨ badFieldPath s = true ∨ emptySegment s = true) : ∀ g, gwParse s ≠ .ok g := by
  intro g hg
  obtain ⟨t, ⟨hw, hr⟩, _⟩ := C20_gw_sound s g hg
  rcases h with h | h | h | h | h | h | h
  · exact C20_gw_rejects_partial s (.inl h) g hg
  · exact C20_gw_rejects_partial s (.inr (.inl h)) g hg
  · exact C20_gw_rejects_partial s (.inr (.inr h)) g hg
  · rw [← hr, render_badPercent true t hw] at h; exact absurd h (by simp)
  · rw [← hr, render_badBraces true t hw] at h; exact absurd h (by simp)
  · rw [← hr, render_badFieldPath true t hw] at h; exact absurd h (by simp)
  · rw [← hr, render_emptySegment true t hw] at h; exact absurd h (by simp)

/-- the classes are inhabited by the defect witnesses: "//" (D19), "/{a=/}" (D19), "/a:b}" (D22), "/a:%zz" (D22),
    "/{a={b}}" (nested), "/{a.}" (empty field path component) -/
example : emptySegment [47, 47] = true ∧ emptySegment [47, 123, 97, 61, 47, 125] = true ∧
    badBraces [47, 97, 58, 98, 125] = true ∧ badPercent [47, 97, 58, 37, 122, 122] = true ∧
    badBraces [47, 123, 97, 61, 123, 98, 125, 125] = true ∧ badFieldPath [47, 123, 97, 46, 125] = true := by decide

/-! ### strict parser -/

/-
  The direction ⇐ of `C20_strict_exact` (every string of the grammar is accepted, with the grammar's verb).
  Kept under its original name; the full equivalence is `C20_strict_exact` below.
-/
theorem C20_strict_exact_partial (s : Bytes) (t : Tmpl) (h : Derives s t) :
    ∃ T, stParse s = .ok T ∧ T.verb = t.verbStr ∧ T.tmpl = s := by
  obtain ⟨hw, hr⟩ := h
  obtain ⟨T, h1, h2, h3⟩ := stParse_render t hw
  rw [hr] at h1 h3
  exact ⟨T, h1, h2, h3⟩

/-- **Strict soundness** (the direction ⇒): whatever the strict parser accepts is derivable, and the verb it
    returns is the verb the grammar assigns. The proof threads the synchronisation invariant `ValidE`
    (ProofsSync.lean: the remaining tokens are what the tokenizer emits from a token boundary in the state the
    parser function expects) through `segments` / `segment` / `variable` / `fieldPath`. -/
theorem C20_strict_sound (s : Bytes) (T : StTemplate) (h : stParse s = .ok T) :
    ∃ t, Derives s t ∧ T.verb = t.verbStr := by
  obtain ⟨t, h1, h2, h3⟩ := stParse_sound s T h
  exact ⟨t, ⟨h1, h2⟩, h3⟩

/-- **The strict parser accepts exactly the grammar's language**, for all byte strings. -/
theorem C20_strict_exact (s : Bytes) : (∃ T, stParse s = .ok T) ↔ (∃ t, Derives s t) := by
  constructor
  · rintro ⟨T, h⟩
    obtain ⟨t, ht, _⟩ := C20_strict_sound s T h
    exact ⟨t, ht⟩
  · rintro ⟨t, ht⟩
    obtain ⟨T, h, _⟩ := C20_strict_exact_partial s t ht
    exact ⟨T, h⟩

/-- the same rejection clause for the strict parser -/
theorem C20_strict_rejects (s : Bytes)
    (h : noLeadingSlash s = true ∨ (0 : UInt8) ∈ s ∨ badPercent s = true ∨
         badBraces s = true ∨ badFieldPath s = true ∨ emptySegment s = true) : ∀ T, stParse s ≠ .ok T := by
  intro T hT
  obtain ⟨t, hw, hr, _⟩ := stParse_sound s T hT
  have hrej : ∀ hh : noLeadingSlash s = true ∨ (0 : UInt8) ∈ s, False := by
    intro hh
    unfold stParse at hT
    cases s with
    | nil => simp at hT
    | cons c body =>
      simp only at hT
      by_cases hc : (c != cSlash) = true
      · simp [hc] at hT
      · simp only [hc, Bool.false_eq_true, if_false] at hT
        rcases hh with hh | hh
        · simp [noLeadingSlash] at hh hc; exact absurd hc hh
        · have : (c :: body).contains 0 = true := by simpa using hh
          rw [if_pos this] at hT; exact absurd hT (by simp)
  rcases h with h | h | h | h | h | h
  · exact hrej (.inl h)
  · exact hrej (.inr h)
  · rw [← hr, render_badPercent false t hw] at h; exact absurd h (by simp)
  · rw [← hr, render_badBraces false t hw] at h; exact absurd h (by simp)
  · rw [← hr, render_badFieldPath false t hw] at h; exact absurd h (by simp)
  · rw [← hr, render_emptySegment false t hw] at h; exact absurd h (by simp)

/-- the strict parser rejects what has no leading slash or contains the in-band eof byte -/
theorem C20_strict_rejects_partial (s : Bytes) (h : noLeadingSlash s = true ∨ (0 : UInt8) ∈ s) :
    stParse s = .error .reject := by
  unfold stParse
  cases s with
  | nil => rfl
  | cons c body =>
    simp only
    by_cases hc : (c != cSlash) = true
    · simp [hc]
    · simp only [hc, Bool.false_eq_true, if_false]
      rcases h with h | h
      · simp [noLeadingSlash] at h hc; exact absurd hc h
      · have : (c :: body).contains 0 = true := by simpa using h
        simp only [this, if_true]

/-- D23: an empty last segment before a verb is rejected by the repaired parser ("/a/:v"), as "/a/" is -/
theorem C20_strict_empty_last_segment :
    (stParse [47, 97, 47, 58, 118]).toOption.isNone = true ∧ (stParse [47, 97, 47]).toOption.isNone = true ∧
    (stParse [47, 58, 118]).toOption.map (·.dump) = some [76, 40, 41, 124, 118, 101, 114, 98, 61, 118] := by
  decide

/-- the verb of a template the strict parser returns never contains "/" -/
theorem C20_strict_verb_noslash (s : Bytes) (T : StTemplate) (h : stParse s = .ok T) : cSlash ∉ T.verb :=
  stParse_verb_noslash s T h

/-! ### trie -/

/-- **Trie soundness.** Whatever `Find` may return (for every iteration order of the `verbs` map) is
    a template that was added under the looked-up method and that matches the looked-up path:
    the path's components are matched one to one by the template's keys (`*` any component, `**` all
    remaining ones, a literal itself), with `":" ++ verb` at the very end. The hypothesis (no "/" in a
    verb) holds for every template the strict parser returns (`C20_strict_verb_noslash`). -/
theorem C20_trie_sound (t : Trie) (hv : ∀ e ∈ t, cSlash ∉ e.verb) (m p : Bytes) (e : Entry)
    (h : e ∈ t.find m p) :
    e ∈ t ∧ e.method = m ∧
      Matches (e.keys.map Key.mkey) e.verb (splitOnByte cSlash (trimLeadingSlash p)) :=
  find_sound t hv m p e h

/-- `C20_trie_sound` for a trie filled with templates the strict parser returned (no hypothesis left). -/
theorem C20_trie_sound_parsed (t : Trie)
    (hp : ∀ e ∈ t, ∃ s T, stParse s = .ok T ∧ e.verb = T.verb) (m p : Bytes) (e : Entry) (h : e ∈ t.find m p) :
    e ∈ t ∧ e.method = m ∧ Matches (e.keys.map Key.mkey) e.verb (splitOnByte cSlash (trimLeadingSlash p)) := by
  refine find_sound t ?_ m p e h
  intro e he
  obtain ⟨s, T, hs, hv⟩ := hp e he
  rw [hv]
  exact stParse_verb_noslash s T hs

/-- Why D20 needed a repair: with the old `dfsLeaf` (suffix test even after a literal match, i.e. `wild`
    always true) the trie holding `/a:v:v` answers `/a:v` with it, which does not match. -/
theorem C20_trie_old_leaf_fails :
    let e : Entry := { method := [], keys := [.lit [97, 58, 118]], verb := [118], tmpl := [47, 97, 58, 118, 58, 118] }
    e ∈ dfsLeaf [e] [.lit [97, 58, 118]] [97, 58, 118] true ∧
    ¬ Matches (e.keys.map Key.mkey) e.verb [[97, 58, 118]] := by
  refine ⟨by decide, ?_⟩
  intro ⟨cs, h1, h2⟩
  cases cs with
  | nil => simp [addVerb] at h2
  | cons c cs =>
    cases cs with
    | nil =>
      simp [addVerb] at h2
      simp [Key.mkey, matchKeys] at h1
      rw [← h1] at h2
      simp at h2
    | cons d r => simp [addVerb] at h2; cases r <;> simp [addVerb] at h2

/-- **Trie completeness does NOT hold** — `C20_trie_sound` cannot be strengthened to "every matching template is
    found". `dfs` is greedy: once `n.literals[component]` exists it commits to that child and never comes back to the
    wildcard children. Through the real models (strict parser ▸ `Add` ▸ `Find`): with `GET /a/b` and `GET /*/c` added,
    `Find GET /a/c` returns nothing although `/*/c` matches `/a/c`. The code agrees (corpus/C20 `trie` lines replay it
    on `httprule.Trie`; verdict `trie-none-though-match`). Not a finding: the property asks soundness of the lookup only,
    and `routing.PatternRouter` does not use this trie (it iterates gwbased patterns: `C03_route_iff` is first-match
    complete). -/
theorem C20_trie_incomplete_fails :
    let add := fun (t : Trie) (s : Bytes) => match stParse s with
      | .ok T => t.add [71, 69, 84] T
      | .error _ => t
    let t := add (add [] [47, 97, 47, 98]) [47, 42, 47, 99]
    t.map (fun e => (e.keys, e.verb, e.tmpl)) =
      [([.lit [97], .lit [98]], [], [47, 97, 47, 98]), ([.wild, .lit [99]], [], [47, 42, 47, 99])] ∧
    t.find [71, 69, 84] [47, 97, 47, 99] = [] ∧
    Matches ([Key.wild, Key.lit [99]].map Key.mkey) [] (splitOnByte cSlash (trimLeadingSlash [47, 97, 47, 99])) ∧
    -- without the competing literal the same template IS found
    (add [] [47, 42, 47, 99]).find [71, 69, 84] [47, 97, 47, 99] = add [] [47, 42, 47, 99] := by
  refine ⟨by decide, by decide, ⟨[[97], [99]], by decide, by decide⟩, by decide⟩

/-! ### trie completeness inside the unshadowed class (round 6)

  `Trie.unshadowed t` (ProofsTrieComplete.lean; a decidable condition on the SET of added templates, not on trie
  nodes): any two templates of the same method, at the first key where their key paths differ, differ in two
  literals (so no trie node has a `*` or `**` child next to any other child), and no template passes through a
  literal `"l:verb"` where a sibling template is `…/l` with verb `verb`. -/

/-- **Trie completeness under the side condition.** For every template set with `unshadowed`, every method and every
    path: if an added template of that method matches the path (declarative `Matches`, the semantics of
    `C20_trie_sound`), with at least as many path components as keys (i.e. a trailing `**` takes at least one
    component: `C20_trie_multi_zero_fails` shows the trie never does otherwise), then `Find` returns something, and
    (with soundness) everything it may return is an added template of that method matching the path. -/
theorem C20_trie_complete_unshadowed (t : Trie) (hv : ∀ e ∈ t, cSlash ∉ e.verb) (hu : t.unshadowed = true)
    (m p : Bytes) (e : Entry) (he : e ∈ t) (hm : e.method = m)
    (hM : Matches (e.keys.map Key.mkey) e.verb (splitOnByte cSlash (trimLeadingSlash p)))
    (hl : e.keys.length ≤ (splitOnByte cSlash (trimLeadingSlash p)).length) :
    t.find m p ≠ [] ∧
    ∀ e' ∈ t.find m p, e' ∈ t ∧ e'.method = m ∧
      Matches (e'.keys.map Key.mkey) e'.verb (splitOnByte cSlash (trimLeadingSlash p)) :=
  ⟨find_complete t hu m p e he hm (Matches1.of_matches hM hl), fun e' h => find_sound t hv m p e' h⟩

/-- `C20_trie_complete_unshadowed` for a trie filled with templates the strict parser returned (no verb hypothesis
    left): `Find` = some added template of the method that matches the path. -/
theorem C20_trie_complete_unshadowed_parsed (t : Trie)
    (hp : ∀ e ∈ t, ∃ s T, stParse s = .ok T ∧ e.verb = T.verb) (hu : t.unshadowed = true)
    (m p : Bytes) (e : Entry) (he : e ∈ t) (hm : e.method = m)
    (hM : Matches (e.keys.map Key.mkey) e.verb (splitOnByte cSlash (trimLeadingSlash p)))
    (hl : e.keys.length ≤ (splitOnByte cSlash (trimLeadingSlash p)).length) :
    t.find m p ≠ [] ∧
    ∀ e' ∈ t.find m p, e' ∈ t ∧ e'.method = m ∧
      Matches (e'.keys.map Key.mkey) e'.verb (splitOnByte cSlash (trimLeadingSlash p)) :=
  ⟨find_complete t hu m p e he hm (Matches1.of_matches hM hl),
   fun e' h => C20_trie_sound_parsed t hp m p e' h⟩

/-- the same with the matching notion in which `**` takes at least one component (`Matches1`), which implies
    `Matches` -/
theorem C20_trie_complete_unshadowed_matches1 (t : Trie) (hu : t.unshadowed = true)
    (m p : Bytes) (e : Entry) (he : e ∈ t) (hm : e.method = m)
    (hM : Matches1 e.keys e.verb (splitOnByte cSlash (trimLeadingSlash p))) :
    t.find m p ≠ [] ∧ Matches (e.keys.map Key.mkey) e.verb (splitOnByte cSlash (trimLeadingSlash p)) :=
  ⟨find_complete t hu m p e he hm hM, hM.matches⟩

/-- templates without `**` need no length hypothesis: key matching is one to one -/
theorem C20_trie_complete_unshadowed_nomulti (t : Trie) (hu : t.unshadowed = true)
    (m p : Bytes) (e : Entry) (he : e ∈ t) (hm : e.method = m) (hn : Key.multi ∉ e.keys)
    (hM : Matches (e.keys.map Key.mkey) e.verb (splitOnByte cSlash (trimLeadingSlash p))) :
    t.find m p ≠ [] := by
  refine find_complete t hu m p e he hm ?_
  obtain ⟨cs, h1, h2⟩ := hM
  refine ⟨cs, ?_, h2⟩
  clear h2 he hm
  revert cs
  generalize e.keys = ks at hn
  induction ks with
  | nil => intro cs h; simpa [matchKeys1, matchKeys] using h
  | cons k ks ih =>
    intro cs h
    have hn' : Key.multi ∉ ks := fun h => hn (List.mem_cons_of_mem _ h)
    cases k with
    | lit l =>
      cases cs with
      | nil => simp [Key.mkey, matchKeys] at h
      | cons c cs =>
        simp [Key.mkey, matchKeys] at h
        simp [matchKeys1, h.1, ih hn' cs h.2]
    | wild =>
      cases cs with
      | nil => simp [Key.mkey, matchKeys] at h
      | cons c cs =>
        simp [Key.mkey, matchKeys] at h
        simp [matchKeys1, ih hn' cs h]
    | multi => exact absurd (List.mem_cons_self) hn

/-- a kernel-checked template set inside the class, through the real models (strict parser ▸ `Add` ▸ `Find`):
    `GET /a/b`, `GET /a/c:v`, `GET /b/*/d`, `GET /c/**` is unshadowed, and each kind of path finds its template. -/
theorem C20_trie_unshadowed_example :
    let add := fun (t : Trie) (s : Bytes) => match stParse s with
      | .ok T => t.add [71, 69, 84] T
      | .error _ => t
    let t := add (add (add (add [] [47, 97, 47, 98]) [47, 97, 47, 99, 58, 118]) [47, 98, 47, 42, 47, 100])
      [47, 99, 47, 42, 42]
    t.map (fun e => (e.keys, e.verb)) =
      [([.lit [97], .lit [98]], []), ([.lit [97], .lit [99]], [118]), ([.lit [98], .wild, .lit [100]], []),
       ([.lit [99], .multi], [])] ∧
    t.unshadowed = true ∧
    (t.find [71, 69, 84] [47, 97, 47, 98]).map (·.tmpl) = [[47, 97, 47, 98]] ∧
    (t.find [71, 69, 84] [47, 97, 47, 99, 58, 118]).map (·.tmpl) = [[47, 97, 47, 99, 58, 118]] ∧
    (t.find [71, 69, 84] [47, 98, 47, 120, 47, 100]).map (·.tmpl) = [[47, 98, 47, 42, 47, 100]] ∧
    (t.find [71, 69, 84] [47, 99, 47, 120, 47, 121]).map (·.tmpl) = [[47, 99, 47, 42, 42]] ∧
    t.find [71, 69, 84] [47, 97, 47, 99] = [] := by
  refine ⟨by decide, by decide, by decide, by decide, by decide, by decide, by decide⟩

/-- the witnesses of incompleteness are outside the class: `/a/b` + `/*/c` (`C20_trie_incomplete_fails`: a literal
    child next to a `*` child), `/*/b` + `/**` (a `*` child next to a `**` child), and `/a:v/b` + `/a:v` (the literal
    child `"a:v"` shadows the verb split of `/a` with verb `v`) all have `unshadowed = false`; for the last two
    `Find` indeed misses a matching template. -/
theorem C20_trie_incomplete_witness_shadowed :
    let add := fun (t : Trie) (s : Bytes) => match stParse s with
      | .ok T => t.add [71, 69, 84] T
      | .error _ => t
    (add (add [] [47, 97, 47, 98]) [47, 42, 47, 99]).unshadowed = false ∧
    (add (add [] [47, 42, 47, 98]) [47, 42, 42]).unshadowed = false ∧
    (add (add [] [47, 42, 47, 98]) [47, 42, 42]).find [71, 69, 84] [47, 120, 47, 99] = [] ∧
    Matches ([Key.multi].map Key.mkey) [] (splitOnByte cSlash (trimLeadingSlash [47, 120, 47, 99])) ∧
    (add (add [] [47, 97, 58, 118, 47, 98]) [47, 97, 58, 118]).map (fun e => (e.keys, e.verb)) =
      [([.lit [97, 58, 118], .lit [98]], []), ([.lit [97]], [118])] ∧
    (add (add [] [47, 97, 58, 118, 47, 98]) [47, 97, 58, 118]).unshadowed = false ∧
    (add (add [] [47, 97, 58, 118, 47, 98]) [47, 97, 58, 118]).find [71, 69, 84] [47, 97, 58, 118] = [] ∧
    Matches ([Key.lit [97]].map Key.mkey) [118] (splitOnByte cSlash (trimLeadingSlash [47, 97, 58, 118])) := by
  refine ⟨by decide, by decide, by decide, ⟨[[120], [99]], by decide, by decide⟩, by decide, by decide, by decide,
    ⟨[[97]], by decide, by decide⟩⟩

/-- why `C20_trie_complete_unshadowed` asks for as many components as keys: the declarative `matchKeys` lets a
    trailing `**` match zero components, `dfs` reaches a `**` child only with a component in hand. With only
    `GET /a/**` added (an unshadowed set), `Find GET /a` returns nothing, `Find GET /a/` (one empty component) finds it. -/
theorem C20_trie_multi_zero_fails :
    let add := fun (t : Trie) (s : Bytes) => match stParse s with
      | .ok T => t.add [71, 69, 84] T
      | .error _ => t
    let t := add [] [47, 97, 47, 42, 42]
    t.map (fun e => (e.keys, e.verb)) = [([.lit [97], .multi], [])] ∧
    t.unshadowed = true ∧
    t.find [71, 69, 84] [47, 97] = [] ∧
    Matches ([Key.lit [97], Key.multi].map Key.mkey) [] (splitOnByte cSlash (trimLeadingSlash [47, 97])) ∧
    t.find [71, 69, 84] [47, 97, 47] = t := by
  refine ⟨by decide, by decide, by decide, ⟨[[97]], by decide, by decide⟩, by decide⟩

/-! ### gwbased: legacy `accept` clause (kept in the code for the token-level unit test, disabled by `Parse`) -/

/-- With the legacy clause `t != string(term) && t != "/"` the template "//" is the route "/*" (D19). -/
theorem C20_gw_legacy_accept_fails :
    ((gwParseWith false [47, 47]).toOption.map (·.str)) = some [47, 42] ∧
    ((gwParseWith false [47, 123, 97, 61, 47, 125]).toOption.map (·.str)) = some [47, 123, 97, 61, 42, 125] ∧
    (gwParse [47, 47]).toOption.isNone = true ∧
    (gwParse [47, 123, 97, 61, 47, 125]).toOption.isNone = true := by
  decide


/-! ### the routing chain: C20 (parser) → C03 (compile, NewPattern, matcher) → C06 (table after any history)

  `toC03` (Bridge.lean) maps the AST of the gwbased parser model to the AST of the C03 slice; `gwC03` is
  `fun s => (gwParse s).toOption.map toC03`, the `parse` parameter of `C06_pattern_with_matcher`. -/

/-- the relaxed grammar is unambiguous as well -/
theorem C20_grammar_unambiguous_relaxed (s : Bytes) (t t' : Tmpl) (h : DerivesRelaxed s t) (h' : DerivesRelaxed s t') :
    t = t' := by
  have h1 := specParseWith_complete true t h.1
  have h2 := specParseWith_complete true t' h'.1
  rw [h.2] at h1
  rw [h'.2, h1] at h2
  exact Option.some.inj h2

/-- what the adapter returns for an accepted template is the grammar's abstract syntax (unique by
    `C20_grammar_unambiguous_relaxed`) written in C03's AST -/
theorem C20_gw_parse_is_grammar (s : Bytes) (T : C03.Tmpl) :
    gwC03 s = some T ↔ ∃ t, DerivesRelaxed s t ∧ T = tmplC03 t :=
  gwC03_some_iff s T

/-- every template gwbased accepts has the parser shape the C03 theorems assume (`C03_compiled_matcher`, …) -/
theorem C20_gw_parse_shape_ok (s : Bytes) (g : GwTemplate) (h : gwParse s = .ok g) : (toC03 g).ShapeOk := by
  have : gwC03 s = some (toC03 g) := by simp [gwC03, h, Except.toOption]
  exact (gwC03_parserOk s _ this).1

/-- **the hypothesis of the C06×C03 composition holds for the gwbased parser model** -/
theorem C20_gw_parser_ok : GB.C06.ParserOk (fun s => (gwParse s).toOption.map toC03) :=
  gwC03_parserOk

/-- **The routing chain, closed.** Binding templates are TEXTS (byte strings) in the descriptions. After any
    history `h` of Watch / description update / Close events, for HTTP method `m` and request path `/p`:

    1. `RouteHTTP` (C06's table lookup running C03's compiled matcher on templates parsed by gwbased) returns the
       binding `(n, v, r)` with captures `c` iff target `n` has a pooled connection and `(n, v, r)` is the FIRST entry
       of the table `tbl` whose template `PathMatches` the raw path segments (C03's declarative matching relation),
       capturing `c`;
    2. `tbl` holds, in the order targets joined the list and in description order, exactly one entry per route of
       HTTP method `m` of the latest description of a listed (live) target whose template text is derivable in the
       relaxed grammar — carrying the grammar's abstract syntax of that text (`tmplC03 t`);
    3. a binding is kept by `buildPatternRoutes` (`valid`) iff its text is derivable in the relaxed grammar and has at
       most one `**` (`runtime.NewPattern` rejects more); every other binding is skipped.

    No parser hypothesis is left: `ParserOk` is `C20_gw_parser_ok`. -/
theorem C20_route_chain (pool : C06.Name → Bool) (h : List C06.Op) (m : C06.HMethod) (p : Bytes) :
    let st := C06.PatState.init.run (C06.validC gwC03) h
    let tbl := C06.tableOfGroups gwC03 m
      ((C06.orderOf st m).filterMap (C06.specGroup (C06.validC gwC03) (C06.latestOf h) m))
    (∀ n v r c, C06.routeHTTPm gwC03 pool st.static m (47 :: p) = .found n v r c ↔
        pool n = true ∧ C03.FirstMatch tbl m (C03.splitSlash p) (n, v, r) c) ∧
    (∀ e, e ∈ tbl ↔ ∃ n d r t, n ∈ C06.orderOf st m ∧ (C06.latestOf h).desc n = some d ∧
        r ∈ C06.allRoutes (C06.validC gwC03) d ∧ r.httpMethod = m ∧ DerivesRelaxed r.pattern t ∧
        e = ((n, d.ver, r), m, tmplC03 t)) ∧
    (∀ pat, C06.validC gwC03 pat = true ↔ ∃ t, DerivesRelaxed pat t ∧ C03.deepCount (tmplC03 t).segs ≤ 1) := by
  intro st tbl
  refine ⟨?_, ?_, validC_gwC03_iff⟩
  · intro n v r c
    exact C06_pattern_with_matcher gwC03 gwC03_parserOk pool h m p n v r c
  · intro e
    rw [C06_matcher_table_entries gwC03 (C06.latestOf h) (C06.orderOf st m) m e]
    constructor
    · rintro ⟨n, d, r, T, h1, h2, h3, h4, h5, h6⟩
      obtain ⟨t, ht, rfl⟩ := (gwC03_some_iff _ T).mp h5
      exact ⟨n, d, r, t, h1, h2, h3, h4, ht, h6⟩
    · rintro ⟨n, d, r, t, h1, h2, h3, h4, h5, h6⟩
      exact ⟨n, d, r, tmplC03 t, h1, h2, h3, h4, (gwC03_some_iff _ _).mpr ⟨t, h5, rfl⟩, h6⟩

/-- the error side of the chain: Unavailable iff the first match's target has no pooled connection,
    InvalidArgument only for a malformed percent-escape in a raw path segment, NotFound iff no kept binding of a
    live target's latest description matches -/
theorem C20_route_chain_status (pool : C06.Name → Bool) (h : List C06.Op) (m : C06.HMethod) (p : Bytes) (code : Nat)
    (hs : C06.routeHTTPm gwC03 pool (C06.PatState.init.run (C06.validC gwC03) h).static m (47 :: p) = .status code) :
    let tbl := C06.tableOfGroups gwC03 m
      ((C06.orderOf (C06.PatState.init.run (C06.validC gwC03) h) m).filterMap
        (C06.specGroup (C06.validC gwC03) (C06.latestOf h) m))
    (code = C06.codeUnavailable ∧ ∃ n v r c, pool n = false ∧ C03.FirstMatch tbl m (C03.splitSlash p) (n, v, r) c) ∨
    (code = C06.codeInvalidArgument ∧ ∃ s ∈ C03.splitSlash p, ¬ C03.WellEscaped s) ∨
    (code = C06.codeNotFound ∧ ¬ ∃ i c, C03.FirstMatch tbl m (C03.splitSlash p) i c) :=
  C06_pattern_with_matcher_status gwC03 gwC03_parserOk pool h m p code hs

/-! non-vacuity of the chain, evaluated by the kernel through the real models (gwbased parser model → `Compile` →
    `NewPattern` → `MatchAndEscape` → table): one target whose method has the bindings `GET /a/{x}` and `GET //`.
    The second text is not derivable (D19: it used to be read as `/*`) and is skipped. -/
section
def chainDesc : C06.Desc :=
  ⟨[116], 1, [⟨[83], [⟨[47, 83, 47, 77], [⟨[71, 69, 84], [47, 97, 47, 123, 120, 125]⟩, ⟨[71, 69, 84], [47, 47]⟩]⟩]⟩]⟩

set_option maxRecDepth 100000 in
example : C06.routeHTTPm gwC03 (fun _ => true)
    (C06.PatState.init.run (C06.validC gwC03) [.watch [116], .update [116] chainDesc]).static [71, 69, 84] [47, 97, 47, 98] =
      .found [116] 1 ⟨0, 0, some 0, [71, 69, 84], [47, 97, 47, 123, 120, 125]⟩ [([120], [98])] := by decide

set_option maxRecDepth 100000 in
example : C06.routeHTTPm gwC03 (fun _ => true)
    (C06.PatState.init.run (C06.validC gwC03) [.watch [116], .update [116] chainDesc]).static [71, 69, 84] [47, 120] =
      .status C06.codeNotFound := by decide
end

/-! ### routing.buildPattern: the glue that decides whether a template goes through the parser -/

/-- **`buildPattern` is exactly `Parse ▸ Compile ▸ NewPattern`.** For every byte string: the model of
    `routing.buildPattern` (Bridge.lean, statement by statement) returns a pattern iff the text is `Valid` — derivable
    in the relaxed grammar with at most one `**` (decided by `validTemplateB`, the oracle of the `build` lines) — and
    then the pattern is `NewPattern` of `Compile` of the grammar's abstract syntax of the text (unique:
    `C20_grammar_unambiguous_relaxed`); it is the `valid`/pattern instance `c03Pattern gwC03` of the routing chain
    (`C20_route_chain`). There is no other path to a pattern in the model, and `C20_facts_buildPattern` pins the same
    for the source. -/
theorem C20_buildPattern_is_parse_compile (s : Bytes) :
    ((buildPatternM s).isSome = true ↔ ∃ t, DerivesRelaxed s t ∧ C03.deepCount (tmplC03 t).segs ≤ 1) ∧
    ((buildPatternM s).isSome = validTemplateB s) ∧
    (∀ t, DerivesRelaxed s t → buildPatternM s =
        C03.newPattern 1 (C03.compile (tmplC03 t)).opcodes (C03.compile (tmplC03 t)).pool (C03.compile (tmplC03 t)).verb) ∧
    buildPatternM s = C06.c03Pattern gwC03 s := by
  refine ⟨buildPatternM_isSome_iff s, ?_, buildPatternM_of_derives s, buildPatternM_eq_c03Pattern s⟩
  have h1 := buildPatternM_isSome_iff s
  have h2 := validTemplateB_iff s
  cases ha : (buildPatternM s).isSome <;> cases hb : validTemplateB s
  · rfl
  · exact absurd (h1.mpr (h2.mp hb)) (by simp [ha])
  · exact absurd (h2.mpr (h1.mp ha)) (by simp [hb])
  · rfl

/-- Facts tie for the glue (regenerated by go/ast from routing/pattern_router.go on every run): `buildPattern` consists
    of six statements; its only calls are `httprule.Parse`, `compiler.Compile`, `runtime.NewPattern` and the two
    `fmt.Errorf` of the error exits (no `strings.Split`, no helper, no manual op construction); the pattern value is
    assigned once, from `runtime.NewPattern(tp.Version, tp.OpCodes, tp.Pool, tp.Verb)` with `tp := compiler.Compile()`
    and `compiler` from `httprule.Parse(route)`; the only return of a non-zero pattern is `pattern`; `httprule` is the
    gwbased package. A bypass of the parser breaks this theorem even for inputs no case line reaches. -/
theorem C20_facts_buildPattern :
    GB.Generated.c20BpCalls = ["httprule.Parse", "fmt.Errorf", "compiler.Compile", "runtime.NewPattern", "fmt.Errorf"] ∧
    GB.Generated.c20BpReturns = ["runtime.Pattern{}", "runtime.Pattern{}", "pattern"] ∧
    GB.Generated.c20BpAssigns = ["compiler,err:=httprule.Parse(route)", "tp:=compiler.Compile()",
      "pattern,routeErr:=runtime.NewPattern(tp.Version, tp.OpCodes, tp.Pool, tp.Verb)"] ∧
    GB.Generated.c20BpStmts = 6 ∧
    GB.Generated.c20BpParserImport = "github.com/renbou/grpcbridge/internal/httprule/gwbased" := by
  decide

/-- Negative witness for the seeded fast path (C20-m5: plain literal routes are assembled from
    `strings.Split(route[1:], "/")` without calling the parser): `/v1/name}` — `/v1/{name}` with the opening brace
    lost — becomes a pattern although it is not derivable, while `buildPattern` proper rejects it. -/
theorem C20_buildPattern_fastpath_fails :
    (buildPatternFast [47, 118, 49, 47, 110, 97, 109, 101, 125]).isSome = true ∧
    (buildPatternM [47, 118, 49, 47, 110, 97, 109, 101, 125]).isSome = false ∧
    ¬ ∃ t, DerivesRelaxed [47, 118, 49, 47, 110, 97, 109, 101, 125] t := by
  refine ⟨by decide, by decide, ?_⟩
  intro h
  have := (C20_recogniser_exact [47, 118, 49, 47, 110, 97, 109, 101, 125]).2.mpr h
  revert this
  decide
