import GB.C20.Model
import GB.C20.Spec
/- C20 — property theorems. -/
open GB GB.C20

theorem C20_placeholder : specParse [47] = some { segs := [], verb := none } := by decide
