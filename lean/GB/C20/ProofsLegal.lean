import GB.C20.ProofsGwMain
/- C20 — gwbased `Parse` only accepts strings made of template bytes (no illegal path character, also not in the verb). -/
namespace GB.C20
open GB

set_option linter.unusedSimpArgs false
set_option linter.unusedVariables false

theorem byte_forall (P : UInt8 → Bool) (h : ∀ n : Fin 256, P (UInt8.ofNat n.val) = true) (c : UInt8) : P c = true := by
  have := h ⟨c.toNat, UInt8.toNat_lt c⟩
  simpa using this

set_option maxRecDepth 100000 in
theorem hex_is_pchar (c : UInt8) : (!isHexDigit c || isPcharByte c) = true :=
  byte_forall (fun c => !isHexDigit c || isPcharByte c) (by decide) c

set_option maxRecDepth 100000 in
theorem identByte_is_pchar (c : UInt8) : (!isIdentByte c || isPcharByte c) = true :=
  byte_forall (fun c => !isIdentByte c || isPcharByte c) (by decide) c

def legalTok (t : Tok) : Bool := t.all isTemplateByte

theorem pcharByte_template (c : UInt8) (h : isPcharByte c = true) : isTemplateByte c = true := by
  simp [isTemplateByte, h]

theorem pchars_legal : ∀ l : Bytes, pcharsB l = true → legalTok l = true := by
  intro l h
  unfold legalTok
  fun_induction pcharsB l with
  | case1 => simp
  | case2 c r hc ih => simp [pcharByte_template c hc, ih h]
  | case3 c hc hp h1 h2 r' ih =>
    have hc' : c = cPct := by simpa using hp
    subst hc'
    simp only [Bool.and_eq_true] at h
    have e1 : isTemplateByte h1 = true := by
      have := hex_is_pchar h1; simp [h.1.1] at this; exact pcharByte_template h1 this
    have e2 : isTemplateByte h2 = true := by
      have := hex_is_pchar h2; simp [h.1.2] at this; exact pcharByte_template h2 this
    have e0 : isTemplateByte cPct = true := by decide
    simp [e0, e1, e2, ih h.2]
  | case4 c r hc hp hr => simp at h
  | case5 c r hc hp => simp at h

theorem ident_legal (l : Bytes) (h : identB l = true) : legalTok l = true := by
  unfold legalTok
  cases l with
  | nil => simp
  | cons c r =>
    simp only [identB, Bool.and_eq_true, List.all_eq_true] at h
    simp only [List.all_cons, Bool.and_eq_true, List.all_eq_true]
    refine ⟨?_, ?_⟩
    · have := identByte_is_pchar c
      simp [identStart_identByte c h.1] at this
      exact pcharByte_template c this
    · intro x hx
      have := identByte_is_pchar x
      simp [h.2 x hx] at this
      exact pcharByte_template x this

/-- a successful `accept` of anything but EOF consumed one legal token -/
theorem gwAccept_legal (term : Term) (hne : term ≠ .eof) (ts : List Tok) (t : Tok) (rest : List Tok)
    (h : gwAccept true term ts = .ok (t, rest)) : ts = t :: rest ∧ legalTok t = true := by
  cases ts with
  | nil => simp [gwAccept] at h
  | cons t0 ts0 =>
    cases term with
    | eof => exact absurd rfl hne
    | ident =>
      simp only [gwAcc_ident] at h
      split at h
      · simp only [Except.ok.injEq, Prod.mk.injEq] at h
        rename_i hi
        exact ⟨by rw [h.1, h.2], by rw [← h.1]; exact ident_legal _ hi⟩
      · simp at h
    | literal =>
      simp only [gwAcc_literal] at h
      split at h
      · simp only [Except.ok.injEq, Prod.mk.injEq] at h
        rename_i hi
        exact ⟨by rw [h.1, h.2], by rw [← h.1]; exact pchars_legal _ hi⟩
      · simp at h
    | verb => simp [gwAccept] at h
    | slash =>
      simp only [gwAcc_slash] at h
      split at h
      · simp only [Except.ok.injEq, Prod.mk.injEq] at h
        rename_i hi
        exact ⟨by rw [h.1, h.2], by rw [← h.1, hi]; decide⟩
      · simp at h
    | star =>
      simp only [gwAcc_star] at h
      split at h
      · simp only [Except.ok.injEq, Prod.mk.injEq] at h
        rename_i hi
        exact ⟨by rw [h.1, h.2], by rw [← h.1, hi]; decide⟩
      · simp at h
    | dstar =>
      simp only [gwAcc_dstar] at h
      split at h
      · simp only [Except.ok.injEq, Prod.mk.injEq] at h
        rename_i hi
        exact ⟨by rw [h.1, h.2], by rw [← h.1, hi]; decide⟩
      · simp at h
    | dot =>
      simp only [gwAcc_dot] at h
      split at h
      · simp only [Except.ok.injEq, Prod.mk.injEq] at h
        rename_i hi
        exact ⟨by rw [h.1, h.2], by rw [← h.1, hi]; decide⟩
      · simp at h
    | eq =>
      simp only [gwAcc_eq] at h
      split at h
      · simp only [Except.ok.injEq, Prod.mk.injEq] at h
        rename_i hi
        exact ⟨by rw [h.1, h.2], by rw [← h.1, hi]; decide⟩
      · simp at h
    | lbrace =>
      simp only [gwAcc_lbrace] at h
      split at h
      · simp only [Except.ok.injEq, Prod.mk.injEq] at h
        rename_i hi
        exact ⟨by rw [h.1, h.2], by rw [← h.1, hi]; decide⟩
      · simp at h
    | rbrace =>
      simp only [gwAcc_rbrace] at h
      split at h
      · simp only [Except.ok.injEq, Prod.mk.injEq] at h
        rename_i hi
        exact ⟨by rw [h.1, h.2], by rw [← h.1, hi]; decide⟩
      · simp at h

/-- "the function consumed a prefix of legal tokens" -/
def Consumed (ts rest : List Tok) : Prop := ∃ c : List Tok, ts = c ++ rest ∧ ∀ t ∈ c, legalTok t = true

theorem Consumed.refl (ts : List Tok) : Consumed ts ts := ⟨[], by simp, by simp⟩

theorem Consumed.trans {a b c : List Tok} (h1 : Consumed a b) (h2 : Consumed b c) : Consumed a c := by
  obtain ⟨x, hx, hxl⟩ := h1
  obtain ⟨y, hy, hyl⟩ := h2
  refine ⟨x ++ y, by rw [hx, hy]; simp, ?_⟩
  intro t ht
  rcases List.mem_append.mp ht with ht | ht
  · exact hxl t ht
  · exact hyl t ht

theorem Consumed.ofAccept {term : Term} (hne : term ≠ .eof) {ts : List Tok} {t : Tok} {rest : List Tok}
    (h : gwAccept true term ts = .ok (t, rest)) : Consumed ts rest := by
  obtain ⟨h1, h2⟩ := gwAccept_legal term hne ts t rest h
  exact ⟨[t], by simp [h1], by simp [h2]⟩

theorem gwFieldLoop_consumed_aux : ∀ (n : Nat) (ts : List Tok), ts.length ≤ n →
    ∀ (comps : List Bytes) (r : List Bytes) (rest : List Tok),
    gwFieldLoop true comps ts = .ok (r, rest) → Consumed ts rest := by
  intro n
  induction n with
  | zero =>
    intro ts hl comps r rest h
    have : ts = [] := by cases ts with
      | nil => rfl
      | cons _ _ => simp at hl
    subst this
    simp [gwFieldLoop] at h
  | succ n ih =>
    intro ts hl comps r rest h
    cases ts with
    | nil => simp [gwFieldLoop] at h
    | cons t ts' =>
      unfold gwFieldLoop at h
      simp only [gwAcc_dot] at h
      by_cases ht : t = [cDot]
      · simp only [ht, if_true] at h
        cases ts' with
        | nil => simp at h
        | cons c ts'' =>
          simp only at h
          by_cases hi : gwExpectIdent c = true
          · simp only [hi, if_true] at h
            have hrec := ih ts'' (by simp at hl; omega) _ _ _ h
            have : Consumed ([cDot] :: c :: ts'') ts'' :=
              ⟨[[cDot], c], by simp, by
                intro x hx
                simp at hx
                rcases hx with hx | hx
                · rw [hx]; decide
                · rw [hx]; exact ident_legal c (by rw [← gwExpectIdent_eq]; exact hi)⟩
            rw [ht]
            exact this.trans hrec
          · simp [hi] at h
      · simp only [ht, if_false, Except.ok.injEq, Prod.mk.injEq] at h
        rw [← h.2]
        exact Consumed.refl _

theorem gwFieldLoop_consumed (ts : List Tok) (comps : List Bytes) (r : List Bytes) (rest : List Tok)
    (h : gwFieldLoop true comps ts = .ok (r, rest)) : Consumed ts rest :=
  gwFieldLoop_consumed_aux ts.length ts (Nat.le_refl _) comps r rest h

theorem gwFieldPath_consumed (ts : List Tok) (r : List Bytes) (rest : List Tok)
    (h : gwFieldPath true ts = .ok (r, rest)) : Consumed ts rest := by
  unfold gwFieldPath at h
  cases ha : gwAccept true .ident ts with
  | error e => cases e <;> simp [ha, tryP] at h
  | ok p =>
    obtain ⟨c, ts'⟩ := p
    simp only [ha, tryP_ok] at h
    exact (Consumed.ofAccept (by decide) ha).trans (gwFieldLoop_consumed _ _ _ _ h)

/-- all four recursive-descent functions consume legal tokens only -/
theorem gw_consumed : ∀ f : Nat,
    (∀ ts r rest, gwSegments true f ts = .ok (r, rest) → Consumed ts rest) ∧
    (∀ acc ts r rest, gwSegLoop true f acc ts = .ok (r, rest) → Consumed ts rest) ∧
    (∀ ts r rest, gwSegment true f ts = .ok (r, rest) → Consumed ts rest) ∧
    (∀ ts r rest, gwVariable true f ts = .ok (r, rest) → Consumed ts rest) := by
  intro f
  induction f with
  | zero =>
    refine ⟨?_, ?_, ?_, ?_⟩ <;> intros <;> simp_all [gwSegments, gwSegLoop, gwSegment, gwVariable]
  | succ f ih =>
    obtain ⟨ihS, ihL, ihG, ihV⟩ := ih
    refine ⟨?_, ?_, ?_, ?_⟩
    · intro ts r rest h
      simp only [gwSegments] at h
      cases hs : gwSegment true f ts with
      | error e => cases e <;> simp [hs, tryP] at h
      | ok p =>
        obtain ⟨s, ts'⟩ := p
        simp only [hs, tryP_ok] at h
        exact (ihG _ _ _ hs).trans (ihL _ _ _ _ h)
    · intro acc ts r rest h
      simp only [gwSegLoop] at h
      cases ha : gwAccept true .slash ts with
      | error e =>
        cases e with
        | reject =>
          simp only [ha, tryP_reject, Except.ok.injEq, Prod.mk.injEq] at h
          rw [← h.2]; exact Consumed.refl _
        | panic => simp [ha, tryP] at h
        | fuel => simp [ha, tryP] at h
      | ok p =>
        obtain ⟨t, ts'⟩ := p
        simp only [ha, tryP_ok] at h
        cases hs : gwSegment true f ts' with
        | error e => cases e <;> simp [hs, tryP] at h
        | ok p2 =>
          obtain ⟨s, ts''⟩ := p2
          simp only [hs, tryP_ok] at h
          exact ((Consumed.ofAccept (by decide) ha).trans (ihG _ _ _ hs)).trans (ihL _ _ _ _ h)
    · intro ts r rest h
      simp only [gwSegment] at h
      cases h1 : gwAccept true .star ts with
      | ok p =>
        obtain ⟨t, ts'⟩ := p
        simp only [h1, tryP_ok, Except.ok.injEq, Prod.mk.injEq] at h
        rw [← h.2]; exact Consumed.ofAccept (by decide) h1
      | error e =>
        cases e with
        | panic => simp [h1, tryP] at h
        | fuel => simp [h1, tryP] at h
        | reject =>
          simp only [h1, tryP_reject] at h
          cases h2 : gwAccept true .dstar ts with
          | ok p =>
            obtain ⟨t, ts'⟩ := p
            simp only [h2, tryP_ok, Except.ok.injEq, Prod.mk.injEq] at h
            rw [← h.2]; exact Consumed.ofAccept (by decide) h2
          | error e =>
            cases e with
            | panic => simp [h2, tryP] at h
            | fuel => simp [h2, tryP] at h
            | reject =>
              simp only [h2, tryP_reject] at h
              cases h3 : gwAccept true .literal ts with
              | ok p =>
                obtain ⟨t, ts'⟩ := p
                simp only [h3, tryP_ok, Except.ok.injEq, Prod.mk.injEq] at h
                rw [← h.2]; exact Consumed.ofAccept (by decide) h3
              | error e =>
                cases e with
                | panic => simp [h3, tryP] at h
                | fuel => simp [h3, tryP] at h
                | reject =>
                  simp only [h3, tryP_reject] at h
                  exact ihV _ _ _ h
    · intro ts r rest h
      simp only [gwVariable] at h
      cases h1 : gwAccept true .lbrace ts with
      | error e => cases e <;> simp [h1, tryP] at h
      | ok p1 =>
        obtain ⟨t1, ts1⟩ := p1
        simp only [h1, tryP_ok] at h
        have c1 := Consumed.ofAccept (by decide) h1
        cases h2 : gwFieldPath true ts1 with
        | error e => cases e <;> simp [h2, tryP] at h
        | ok p2 =>
          obtain ⟨path, ts2⟩ := p2
          simp only [h2, tryP_ok] at h
          have c2 := gwFieldPath_consumed _ _ _ h2
          cases h3 : gwAccept true .eq ts2 with
          | ok p3 =>
            obtain ⟨t3, ts3⟩ := p3
            simp only [h3, tryP_ok] at h
            have c3 := Consumed.ofAccept (by decide) h3
            cases h4 : gwSegments true f ts3 with
            | error e => cases e <;> simp [h4, tryP] at h
            | ok p4 =>
              obtain ⟨segs, ts4⟩ := p4
              simp only [h4, tryP_ok] at h
              have c4 := ihS _ _ _ h4
              cases h5 : gwAccept true .rbrace ts4 with
              | error e => cases e <;> simp [h5, tryP] at h
              | ok p5 =>
                obtain ⟨t5, ts5⟩ := p5
                simp only [h5, tryP_ok, Except.ok.injEq, Prod.mk.injEq] at h
                rw [← h.2]
                exact (((c1.trans c2).trans c3).trans c4).trans (Consumed.ofAccept (by decide) h5)
          | error e =>
            cases e with
            | panic => simp [h3, tryP] at h
            | fuel => simp [h3, tryP] at h
            | reject =>
              simp only [h3, tryP_reject] at h
              cases h5 : gwAccept true .rbrace ts2 with
              | error e => cases e <;> simp [h5, tryP] at h
              | ok p5 =>
                obtain ⟨t5, ts5⟩ := p5
                simp only [h5, tryP_ok, Except.ok.injEq, Prod.mk.injEq] at h
                rw [← h.2]
                exact (c1.trans c2).trans (Consumed.ofAccept (by decide) h5)

end GB.C20
