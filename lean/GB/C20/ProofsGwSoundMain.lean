import GB.C20.ProofsGwSound
/- C20 — gwbased `Parse`: acceptance implies derivability in the relaxed grammar (string level). -/
namespace GB.C20
open GB

set_option linter.unusedSimpArgs false
set_option linter.unusedVariables false

theorem splitFirst_none_nocolon (c : UInt8) : ∀ l : Bytes, splitFirst c l = none → l.contains c = false := by
  intro l
  induction l with
  | nil => intro _; simp
  | cons x r ih =>
    intro h
    simp only [splitFirst] at h
    by_cases hx : (x == c) = true
    · simp [hx] at h
    · simp only [hx, Bool.false_eq_true, if_false] at h
      cases hr : splitFirst c r with
      | some p => obtain ⟨a, b⟩ := p; simp [hr] at h
      | none =>
        have hx' : x ≠ c := by simpa using hx
        simp only [List.contains_cons, ih hr, Bool.or_false]
        simp [Ne.symm hx']

theorem snoc_inj {α : Type} {A B : List α} {a b : α} (h : A ++ [a] = B ++ [b]) : A = B ∧ a = b := by
  have := List.append_inj' h rfl
  exact ⟨this.1, by simpa using this.2⟩

/-- what a successful `topLevelSegments` tells about the token list `X ++ [eof]` -/
theorem gwTopLevel_sound (f : Nat) (X : List Tok) (segs : List PSeg) (hv : ValidE .seg (X ++ [eofTok]))
    (h : gwTopLevel true f (X ++ [eofTok]) = .ok segs) :
    X = [] ∨ ∃ sgs : List Seg, sgs ≠ [] ∧ sgs.all (Seg.wfB true) = true ∧ X = segsToks sgs := by
  unfold gwTopLevel at h
  have hcases := validE_cases hv
  rcases hcases with hts | hrest
  · left
    cases X with
    | nil => rfl
    | cons a b =>
      have := congrArg List.length hts
      simp at this
  · right
    have hhead : ∃ hd tl, X ++ [eofTok] = hd :: tl ∧ hd ≠ eofTok := by
      rcases hrest with ⟨d, r, hts, hd, _⟩ | ⟨t0, rest0, hts, ht0, _⟩
      · exact ⟨[d], r, hts, (delim_not_ident .seg d hd).2.1⟩
      · exact ⟨t0, rest0, hts, isText_ne_eof ht0⟩
    obtain ⟨hd0, tl0, hsh, hne0⟩ := hhead
    rw [hsh, gwAcc_eof] at h
    simp only [hne0, if_false] at h
    rw [← hsh] at h
    cases hss : gwSegments true f (X ++ [eofTok]) with
    | error e => simp [hss] at h
    | ok pr =>
      obtain ⟨segs0, rest⟩ := pr
      simp only [hss] at h
      obtain ⟨sgs, s1, s2, s3, s5, s6⟩ := gwSegments_top_sound f _ segs0 rest hv hss
      have hr : rest = [eofTok] := by
        rcases validE_cases s6 with hr | ⟨d, r, hr, hd, _⟩ | ⟨t1, rest1, hr, ht1, _⟩
        · exact hr
        · subst hr; simp [gwAcc_eof, (delim_not_ident .seg d hd).2.1] at h
        · subst hr; simp [gwAcc_eof, isText_ne_eof ht1] at h
      rw [hr] at s5
      exact ⟨sgs, s1, s3, List.append_cancel_right s5⟩

theorem verbWfB_text_last (pre : List Seg) (L : Seg) (x : Bytes) (hL : L.text = some x) (v : Bytes) :
    verbWfB (pre ++ [L]) (some v) = (pcharsB v && !hasColon v) := by
  rw [verbWfB_snoc]
  cases L <;> simp [Seg.text] at hL <;> simp [verbWfB]

theorem verbWfB_var_last (pre : List Seg) (p : List Bytes) (i : Option (List ISeg)) (v : Bytes) :
    verbWfB (pre ++ [.var p i]) (some v) = pcharsB v := by
  rw [verbWfB_snoc]; simp [verbWfB]

/-- **gwbased soundness** with respect to the relaxed grammar (`**` anywhere) -/
theorem gwParse_sound (s : Bytes) (g : GwTemplate) (h : gwParse s = .ok g) :
    ∃ t : Tmpl, t.wfB true = true ∧ t.render = s ∧ g.verb = t.verbStr := by
  unfold gwParse gwParseWith at h
  cases s with
  | nil => simp at h
  | cons c0 body =>
    simp only at h
    by_cases hc0 : (c0 != cSlash) = true
    · simp [hc0] at h
    · simp only [hc0, Bool.false_eq_true, if_false] at h
      have hc0' : c0 = cSlash := by simpa using hc0
      subst hc0'
      by_cases hnul : (cSlash :: body).contains 0 = true
      · rw [if_pos hnul] at h; exact absurd h (by simp)
      · simp only [hnul, Bool.false_eq_true, if_false] at h
        have hbnul : (0 : UInt8) ∉ body := by
          intro hm; apply hnul; simp [hm]
        cases htk : gwTokenize body with
        | error e => simp [htk] at h
        | ok p =>
          obtain ⟨tokens, verb⟩ := p
          simp only [htk] at h
          by_cases hvp : gwExpectPChars 0 verb = true
          · simp only [hvp, Bool.not_true, Bool.false_eq_true, if_false] at h
            rw [gwExpectPChars_eq] at hvp
            cases htl : gwTopLevel true (parseFuel tokens) tokens with
            | error e => simp [htl] at h
            | ok segs =>
              simp only [htl, Except.ok.injEq] at h
              subst h
              simp only
              suffices hmain : ∃ t : Tmpl, t.wfB true = true ∧
                  joinWith cSlash (t.segs.map Seg.render) ++ renderVerb t.verb = body ∧ verb = t.verbStr by
                obtain ⟨t, h1, h2, h3⟩ := hmain
                exact ⟨t, h1, by simp [Tmpl.render, h2], h3⟩
              unfold gwTokenize at htk
              by_cases hbe : body.isEmpty = true
              · have : body = [] := by simpa using hbe
                subst this
                simp only [List.isEmpty_nil, if_true, Except.ok.injEq, Prod.mk.injEq] at htk
                exact ⟨{ segs := [], verb := none }, by decide, by simp [joinWith, renderVerb], by simp [Tmpl.verbStr, ← htk.2]⟩
              · simp only [hbe, Bool.false_eq_true, if_false] at htk
                have hflat := tokCore_concat body .seg []
                simp only [List.nil_append] at hflat
                have hv0 := tokCore_validE body .seg [] hbnul (.inl rfl)
                cases hlast : (tokCore .seg [] body).getLast? with
                | none => simp [hlast] at htk
                | some t =>
                  simp only [hlast] at htk
                  obtain ⟨ini, hX0⟩ := List.getLast?_eq_some_iff.mp hlast
                  have hdl : (tokCore .seg [] body).dropLast = ini := by rw [hX0]; simp
                  rw [hdl] at htk
                  rw [hX0] at hv0 hflat
                  have hbody : body = ini.flatten ++ t := by rw [← hflat]; simp
                  split at htk
                  · -- idx == 0: the last token is ":" ++ verb and is dropped
                    rename_i v hsp
                    simp only [Except.ok.injEq, Prod.mk.injEq] at htk
                    obtain ⟨ht1, ht2⟩ := htk
                    subst ht1; subst ht2
                    have hts : t = cColon :: v := by
                      split at hsp
                      · simpa using splitFirst_spec cColon t [] v hsp
                      · simpa using splitLast_spec cColon t [] v hsp
                    have hvi := (validE_replace_last hv0 ini t rfl (by rw [hts]; simp)).1
                    rcases gwTopLevel_sound _ ini segs hvi htl with hi | ⟨sgs, s1, s3, hX⟩
                    · subst hi
                      have hvnc : cColon ∉ v := by
                        simp only [List.getLast?_nil] at hsp
                        have : ((none : Option Tok) == some [cRBrace]) = false := rfl
                        simp only [this, Bool.false_eq_true, if_false] at hsp
                        simpa using splitLast_some_nocolon cColon t [] v hsp
                      exact ⟨{ segs := [], verb := some v }, by simp [Tmpl.wfB, verbWfB, hvp, hasColon, hvnc],
                        by simp [joinWith, renderVerb, hbody, hts], by simp [Tmpl.verbStr]⟩
                    · obtain ⟨pre, L, hpl⟩ : ∃ pre L, sgs = pre ++ [L] := by
                        rcases List.eq_nil_or_concat sgs with h | ⟨p, l, h⟩
                        · exact absurd h s1
                        · exact ⟨p, l, by simpa using h⟩
                      subst hpl
                      have hbj : body = joinWith cSlash ((pre ++ [L]).map Seg.render) ++ cColon :: v := by
                        rw [hbody, hX, segsToks_flatten, hts]
                      cases hL : L.text with
                      | some x =>
                        exfalso
                        have hb := body_tokens true pre L (cColon :: v) s3 (verb_tail_nodelim v hvp)
                        rw [hL, ← hbj, hX0, hX, segsToks_snoc] at hb
                        have hw : L.wfB true = true := List.all_eq_true.mp s3 L (by simp)
                        rw [(seg_text_facts hw hL).2.1] at hb
                        have := congrArg List.length hb
                        simp at this
                      | none =>
                        cases L with
                        | var p i =>
                          exact ⟨{ segs := pre ++ [.var p i], verb := some v },
                            by simp [Tmpl.wfB, s3, verbWfB_var_last, hvp], by simp [renderVerb, hbj], by simp [Tmpl.verbStr]⟩
                        | wild => simp [Seg.text] at hL
                        | deep => simp [Seg.text] at hL
                        | lit l => simp [Seg.text] at hL
                  · -- idx > 0: the last token is b ++ ":" ++ verb and becomes b
                    rename_i b v hbne hsp
                    simp only [Except.ok.injEq, Prod.mk.injEq] at htk
                    obtain ⟨ht1, ht2⟩ := htk
                    subst ht1; subst ht2
                    have hts : t = b ++ cColon :: v := by
                      split at hsp
                      · exact splitFirst_spec cColon t b v hsp
                      · exact splitLast_spec cColon t b v hsp
                    have hbne' : b ≠ [] := fun he => hbne he
                    have hvi := (validE_replace_last hv0 ini t rfl (by rw [hts]; simp)).2 b hbne'
                      (by intro c hc; rw [hts]; simp [hc])
                    rcases gwTopLevel_sound _ (ini ++ [b]) segs hvi htl with hi | ⟨sgs, s1, s3, hX⟩
                    · simp at hi
                    · obtain ⟨pre, L, hpl⟩ : ∃ pre L, sgs = pre ++ [L] := by
                        rcases List.eq_nil_or_concat sgs with h | ⟨p, l, h⟩
                        · exact absurd h s1
                        · exact ⟨p, l, by simpa using h⟩
                      subst hpl
                      have hbj : body = joinWith cSlash ((pre ++ [L]).map Seg.render) ++ cColon :: v := by
                        have : (ini ++ [b]).flatten = joinWith cSlash ((pre ++ [L]).map Seg.render) := by
                          rw [hX, segsToks_flatten]
                        rw [hbody, hts, ← this]; simp
                      cases hL : L.text with
                      | some x =>
                        have hw : L.wfB true = true := List.all_eq_true.mp s3 L (by simp)
                        have htoks := (seg_text_facts hw hL).2.1
                        rw [segsToks_snoc, htoks] at hX
                        obtain ⟨hini, _⟩ := snoc_inj hX
                        have hvnc : cColon ∉ v := by
                          rw [hini, preToks_getLast] at hsp
                          simp only [Bool.false_eq_true, if_false] at hsp
                          simpa using splitLast_some_nocolon cColon t b v hsp
                        exact ⟨{ segs := pre ++ [L], verb := some v },
                          by simp [Tmpl.wfB, s3, verbWfB_text_last pre L x hL, hvp, hasColon, hvnc],
                          by simp [renderVerb, hbj], by simp [Tmpl.verbStr]⟩
                      | none =>
                        cases L with
                        | var p i =>
                          exact ⟨{ segs := pre ++ [.var p i], verb := some v },
                            by simp [Tmpl.wfB, s3, verbWfB_var_last, hvp], by simp [renderVerb, hbj], by simp [Tmpl.verbStr]⟩
                        | wild => simp [Seg.text] at hL
                        | deep => simp [Seg.text] at hL
                        | lit l => simp [Seg.text] at hL
                  · -- no colon in the last token: no verb
                    rename_i hsp
                    simp only [Except.ok.injEq, Prod.mk.injEq] at htk
                    obtain ⟨ht1, ht2⟩ := htk
                    subst ht1; subst ht2
                    have htnc : cColon ∉ t := by
                      split at hsp
                      · simpa using splitFirst_none_nocolon cColon t hsp
                      · simpa using splitLast_none_nocolon cColon t hsp
                    rw [hX0] at htl
                    rcases gwTopLevel_sound _ (ini ++ [t]) segs hv0 htl with hi | ⟨sgs, s1, s3, hX⟩
                    · simp at hi
                    · obtain ⟨pre, L, hpl⟩ : ∃ pre L, sgs = pre ++ [L] := by
                        rcases List.eq_nil_or_concat sgs with h | ⟨p, l, h⟩
                        · exact absurd h s1
                        · exact ⟨p, l, by simpa using h⟩
                      subst hpl
                      have hbj : body = joinWith cSlash ((pre ++ [L]).map Seg.render) := by
                        rw [← hflat, hX, segsToks_flatten]
                      refine ⟨{ segs := pre ++ [L], verb := none }, ?_, by simp [renderVerb, hbj], by simp [Tmpl.verbStr]⟩
                      simp only [Tmpl.wfB, s3, Bool.true_or, Bool.and_true, Bool.true_and]
                      rw [verbWfB_snoc]
                      cases L with
                      | lit l =>
                        rw [segsToks_snoc] at hX
                        simp only [Seg.toks] at hX
                        obtain ⟨_, hlt⟩ := snoc_inj hX
                        simp [verbWfB, hasColon, ← hlt, htnc]
                      | wild => simp [verbWfB]
                      | deep => simp [verbWfB]
                      | var p i => simp [verbWfB]
          · simp [hvp] at h

end GB.C20
