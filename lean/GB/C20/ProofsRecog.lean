import GB.C20.ProofsClasses
/- C20 — the recogniser finds every derivation: `Derives s t → specParse s = some t`. -/
namespace GB.C20
open GB

set_option linter.unusedSimpArgs false
set_option linter.unusedVariables false

/-! ### cutting at top-level slashes -/

theorem splitTop_plain : ∀ (w : Bytes) (b : Bool) (rest y : Bytes) (ys : List Bytes),
    (∀ c ∈ w, c ≠ cSlash ∧ c ≠ cLBrace ∧ c ≠ cRBrace) → splitTop b rest = y :: ys →
    splitTop b (w ++ rest) = (w ++ y) :: ys := by
  intro w
  induction w with
  | nil => intro b rest y ys _ h; simpa using h
  | cons c w ih =>
    intro b rest y ys hw h
    have hc := hw c (by simp)
    have h1 : (c == cSlash) = false := by simpa using hc.1
    have h2 : (c == cLBrace) = false := by simpa using hc.2.1
    have h3 : (c == cRBrace) = false := by simpa using hc.2.2
    have := ih b rest y ys (fun x hx => hw x (by simp [hx])) h
    simp only [List.cons_append, splitTop, h1, h2, h3, Bool.and_false, Bool.false_eq_true, if_false, this]

theorem splitTop_invar : ∀ (w : Bytes) (rest y : Bytes) (ys : List Bytes),
    (∀ c ∈ w, c ≠ cLBrace ∧ c ≠ cRBrace) → splitTop true rest = y :: ys →
    splitTop true (w ++ rest) = (w ++ y) :: ys := by
  intro w
  induction w with
  | nil => intro rest y ys _ h; simpa using h
  | cons c w ih =>
    intro rest y ys hw h
    have hc := hw c (by simp)
    have h2 : (c == cLBrace) = false := by simpa using hc.1
    have h3 : (c == cRBrace) = false := by simpa using hc.2
    have := ih rest y ys (fun x hx => hw x (by simp [hx])) h
    simp only [List.cons_append, splitTop, h2, h3, Bool.not_true, Bool.false_and, Bool.false_eq_true, if_false, this]

/-- `{ w }` with `w` free of braces stays in one piece -/
theorem splitTop_braced (w rest y : Bytes) (ys : List Bytes) (hw : ∀ c ∈ w, c ≠ cLBrace ∧ c ≠ cRBrace)
    (h : splitTop false rest = y :: ys) :
    splitTop false (cLBrace :: (w ++ cRBrace :: rest)) = (cLBrace :: (w ++ cRBrace :: y)) :: ys := by
  have hclose : splitTop true (cRBrace :: rest) = (cRBrace :: y) :: ys := by
    have h1 : (cRBrace == cLBrace) = false := by decide
    simp [splitTop, h1, h]
  have := splitTop_invar w _ _ _ hw hclose
  have h1 : (cLBrace == cSlash) = false := by decide
  simp [splitTop, h1, this]

/-- the inside of a printed variable has no braces -/
theorem var_inside (r : Bool) (p : List Bytes) (inner : Option (List ISeg)) (h : (Seg.var p inner).wfB r = true) :
    ∃ w, (Seg.var p inner).render = cLBrace :: (w ++ [cRBrace]) ∧ (∀ c ∈ w, c ≠ cLBrace ∧ c ≠ cRBrace) := by
  obtain ⟨⟨hp1, hp2⟩, hi⟩ := seg_var_facts h
  have hpath : ∀ c ∈ joinWith cDot p, c ≠ cLBrace ∧ c ≠ cRBrace :=
    fun c hc => ⟨(path_bytes hp2 c hc).2.2.2.1, (path_bytes hp2 c hc).2.1⟩
  cases inner with
  | none => exact ⟨joinWith cDot p, by simp [Seg.render], hpath⟩
  | some is =>
    obtain ⟨_, hwf⟩ := hi is rfl
    refine ⟨joinWith cDot p ++ cEq :: joinWith cSlash (is.map ISeg.render), by simp [Seg.render], ?_⟩
    intro c hc
    rcases List.mem_append.mp hc with hc | hc
    · exact hpath c hc
    · rcases List.mem_cons.mp hc with hc | hc
      · subst hc; decide
      · exact pattern_bytes hwf c hc

theorem splitTop_seg (r : Bool) (s : Seg) (h : s.wfB r = true) (rest y : Bytes) (ys : List Bytes)
    (hr : splitTop false rest = y :: ys) : splitTop false (s.render ++ rest) = (s.render ++ y) :: ys := by
  cases hs : s.text with
  | some x =>
    obtain ⟨h1, _, _, h4⟩ := seg_text_facts h hs
    rw [h1]
    exact splitTop_plain x false rest y ys (pchars_bytes h4) hr
  | none =>
    cases s with
    | var p inner =>
      obtain ⟨w, hw1, hw2⟩ := var_inside r p inner h
      rw [hw1]
      have := splitTop_braced w rest y ys hw2 hr
      simpa using this
    | wild => simp [Seg.text] at hs
    | deep => simp [Seg.text] at hs
    | lit l => simp [Seg.text] at hs

/-- the pieces of a printed body -/
def piecesOf : List Seg → Bytes → List Bytes
  | [], tail => [tail]
  | [L], tail => [L.render ++ tail]
  | s :: t :: r, tail => s.render :: piecesOf (t :: r) tail

theorem splitTop_body (r : Bool) : ∀ (segs : List Seg) (tail : Bytes), segs.all (Seg.wfB r) = true →
    (∀ c ∈ tail, c ≠ cSlash ∧ c ≠ cLBrace ∧ c ≠ cRBrace) →
    splitTop false (joinWith cSlash (segs.map Seg.render) ++ tail) = piecesOf segs tail := by
  intro segs
  induction segs with
  | nil =>
    intro tail _ ht
    have := splitTop_plain tail false [] [] [] ht (by simp [splitTop])
    simpa [joinWith, piecesOf] using this
  | cons s segs ih =>
    intro tail h ht
    simp only [List.all_cons, Bool.and_eq_true] at h
    cases segs with
    | nil =>
      have htl := ih tail (by simp) ht
      simp only [List.map_nil, joinWith, List.nil_append, piecesOf] at htl
      have := splitTop_seg r s h.1 tail tail [] htl
      simpa [joinWith, piecesOf] using this
    | cons t ts =>
      have htl := ih tail h.2 ht
      generalize hX : joinWith cSlash ((t :: ts).map Seg.render) ++ tail = X at htl
      have hsl : splitTop false (cSlash :: X) = [] :: piecesOf (t :: ts) tail := by
        simp only [splitTop, Bool.not_false, beq_self_eq_true, Bool.and_self, if_true]
        rw [htl]
      have := splitTop_seg r s h.1 _ [] _ hsl
      rw [← hX] at this
      simpa [joinWith, piecesOf] using this

theorem piecesOf_snoc : ∀ (pre : List Seg) (L : Seg) (tail : Bytes),
    piecesOf (pre ++ [L]) tail = pre.map Seg.render ++ [L.render ++ tail] := by
  intro pre
  induction pre with
  | nil => intro L tail; simp [piecesOf]
  | cons s pre ih =>
    intro L tail
    cases hp : pre ++ [L] with
    | nil => simp at hp
    | cons a b =>
      simp only [List.cons_append, hp, piecesOf, List.map_cons]
      rw [← hp, ih L tail]

/-! ### cutting the verb -/

theorem splitFirst_stop (d : UInt8) : ∀ (a rest : Bytes), (∀ c ∈ a, c ≠ d) → splitFirst d (a ++ d :: rest) = some (a, rest) := by
  intro a
  induction a with
  | nil => intro rest _; simp [splitFirst]
  | cons c a ih =>
    intro rest h
    have hc : (c == d) = false := by simpa using h c (by simp)
    simp [splitFirst, hc, ih rest (fun x hx => h x (by simp [hx]))]

theorem cutVerb_root (verb : Option Bytes) (h : verbWfB [] verb = true) : cutVerb (renderVerb verb) = ([], verb) := by
  cases verb with
  | none => simp [renderVerb, cutVerb]
  | some v =>
    simp only [verbWfB, List.getLast?_nil, Bool.and_eq_true, Bool.not_eq_true'] at h
    have hs := splitLast_append [] v cColon h.2
    simp only [List.nil_append] at hs
    have h1 : (cColon == cLBrace) = false := by decide
    simp [renderVerb, cutVerb, h1, hs]

theorem cutVerb_seg (r : Bool) (L : Seg) (verb : Option Bytes) (hw : L.wfB r = true) (hv : verbWfB [L] verb = true) :
    cutVerb (L.render ++ renderVerb verb) = (L.render, verb) := by
  cases hs : L.text with
  | some x =>
    obtain ⟨h1, _, h3, h4⟩ := seg_text_facts hw hs
    rw [h1]
    obtain ⟨c, x', rfl⟩ : ∃ c x', x = c :: x' := by
      cases x with
      | nil => exact absurd rfl h3
      | cons a b => exact ⟨a, b, rfl⟩
    have hcl : (c == cLBrace) = false := by simpa using (pchars_bytes h4 c (by simp)).2.1
    cases verb with
    | none =>
      have hnc : hasColon (c :: x') = false := by
        cases L with
        | wild => simp [Seg.text] at hs; obtain ⟨e1, e2⟩ := hs; subst e1; subst e2; decide
        | deep => simp [Seg.text] at hs; obtain ⟨e1, e2⟩ := hs; subst e1; subst e2; decide
        | lit l => simp [Seg.text] at hs; subst hs; simpa [verbWfB] using hv
        | var _ _ => simp [Seg.text] at hs
      have := splitLast_none hnc
      simp only [renderVerb, List.append_nil, cutVerb, hcl, Bool.false_eq_true, if_false, this]
    | some v =>
      have hvv : pcharsB v = true ∧ hasColon v = false := by
        cases L with
        | wild => simpa [verbWfB] using hv
        | deep => simpa [verbWfB] using hv
        | lit l => simpa [verbWfB] using hv
        | var _ _ => simp [Seg.text] at hs
      have := splitLast_append (c :: x') v cColon hvv.2
      simp only [List.cons_append] at this
      simp only [renderVerb, List.cons_append, cutVerb, hcl, Bool.false_eq_true, if_false, this]
  | none =>
    cases L with
    | var p inner =>
      obtain ⟨w, hw1, hw2⟩ := var_inside r p inner hw
      rw [hw1]
      have hsf : ∀ tail, splitFirst cRBrace (cLBrace :: (w ++ [cRBrace]) ++ tail) = some (cLBrace :: w, tail) := by
        intro tail
        have := splitFirst_stop cRBrace (cLBrace :: w) tail (by
          intro c hc
          rcases List.mem_cons.mp hc with hc | hc
          · subst hc; decide
          · exact (hw2 c hc).2)
        simpa using this
      cases verb with
      | none =>
        have := hsf []
        simp only [List.append_nil] at this
        simp [renderVerb, cutVerb, this]
      | some v =>
        have := hsf (cColon :: v)
        simp only [List.cons_append, List.append_assoc, List.singleton_append, List.nil_append] at this
        simp [renderVerb, cutVerb, this]
    | wild => simp [Seg.text] at hs
    | deep => simp [Seg.text] at hs
    | lit l => simp [Seg.text] at hs

/-! ### reading the pieces -/

theorem readISeg_render (i : ISeg) (h : i.wfB = true) : readISeg i.render = i := by
  cases i with
  | wild => simp [readISeg, ISeg.render]
  | deep =>
    have : (([cStar, cStar] : Bytes) == [cStar]) = false := by decide
    simp [readISeg, ISeg.render, this]
  | lit l =>
    obtain ⟨_, _, h3, h4⟩ := literal_facts (by simpa [ISeg.wfB] using h)
    simp [readISeg, ISeg.render, h3, h4]

theorem readSeg_render (r : Bool) (s : Seg) (h : s.wfB r = true) : readSeg s.render = some s := by
  cases s with
  | wild =>
    have : (cStar == cLBrace) = false := by decide
    simp [readSeg, Seg.render, this]
  | deep =>
    have h1 : (cStar == cLBrace) = false := by decide
    have h2 : (([cStar, cStar] : Bytes) == [cStar]) = false := by decide
    simp [readSeg, Seg.render, h1, h2]
  | lit l =>
    obtain ⟨h1, h2, h3, h4⟩ := literal_facts (by simpa [Seg.wfB] using h)
    obtain ⟨c, l', rfl⟩ : ∃ c l', l = c :: l' := by
      cases l with
      | nil => exact absurd rfl h1
      | cons a b => exact ⟨a, b, rfl⟩
    have hcl : (c == cLBrace) = false := by simpa using (pchars_bytes h2 c (by simp)).2.1
    have h3' : ¬(c = cStar ∧ l' = []) := by intro ⟨a, b⟩; exact h3 (by rw [a, b])
    have h4' : ¬(c = cStar ∧ l' = [cStar]) := by intro ⟨a, b⟩; exact h4 (by rw [a, b])
    simp only [Seg.render, readSeg, hcl, Bool.false_eq_true, if_false]
    simp [h3', h4']
  | var p inner =>
    obtain ⟨⟨hp1, hp2⟩, hi⟩ := seg_var_facts h
    obtain ⟨p1, ps, rfl⟩ : ∃ p1 ps, p = p1 :: ps := by
      cases p with
      | nil => exact absurd rfl hp1
      | cons a b => exact ⟨a, b, rfl⟩
    have hpb := path_bytes hp2
    have hsplit : splitOnByte cDot (joinWith cDot (p1 :: ps)) = p1 :: ps :=
      split_join cDot ps p1 (fun y hy hm => (ident_bytes (List.all_eq_true.mp hp2 y hy) cDot hm).1 rfl)
    cases inner with
    | none =>
      have hne : splitFirst cEq (joinWith cDot (p1 :: ps)) = none := by
        apply splitFirst_none
        rw [Bool.eq_false_iff]; intro hc
        have : cEq ∈ joinWith cDot (p1 :: ps) := by simpa using hc
        exact (hpb cEq this).1 rfl
      simp only [Seg.render, readSeg, beq_self_eq_true, if_true]
      simp [hne, hsplit]
    | some is =>
      obtain ⟨hne, hwf⟩ := hi is rfl
      obtain ⟨i1, is', rfl⟩ : ∃ i1 is', is = i1 :: is' := by
        cases is with
        | nil => exact absurd rfl hne
        | cons a b => exact ⟨a, b, rfl⟩
      have hsf := splitFirst_stop cEq (joinWith cDot (p1 :: ps)) (joinWith cSlash ((i1 :: is').map ISeg.render))
        (fun c hc => (hpb c hc).1)
      have hsp : splitOnByte cSlash (joinWith cSlash ((i1 :: is').map ISeg.render)) = (i1 :: is').map ISeg.render := by
        simp only [List.map_cons]
        apply split_join
        intro y hy hm
        have hy' : y ∈ (i1 :: is').map ISeg.render := by simpa using hy
        obtain ⟨i, hi1, rfl⟩ := List.mem_map.mp hy'
        exact (pchars_bytes (iseg_render_facts (List.all_eq_true.mp hwf i hi1)).2 cSlash hm).1 rfl
      have hrd : ((i1 :: is').map ISeg.render).map readISeg = i1 :: is' := by
        rw [List.map_map]
        have : ∀ l : List ISeg, l.all ISeg.wfB = true → l.map (readISeg ∘ ISeg.render) = l := by
          intro l
          induction l with
          | nil => intro _; rfl
          | cons a l ih =>
            intro hl
            simp only [List.all_cons, Bool.and_eq_true] at hl
            simp [readISeg_render a hl.1, ih hl.2]
        exact this _ hwf
      have e : (Seg.var (p1 :: ps) (some (i1 :: is'))).render =
          cLBrace :: ((joinWith cDot (p1 :: ps) ++ cEq :: joinWith cSlash ((i1 :: is').map ISeg.render)) ++ [cRBrace]) := by
        simp [Seg.render]
      rw [e]
      simp only [readSeg, beq_self_eq_true, if_true, List.getLast?_append, List.getLast?_singleton, Option.some_or,
        List.dropLast_concat, hsf, hsplit, hsp, hrd]

theorem allSome_read (r : Bool) : ∀ segs : List Seg, segs.all (Seg.wfB r) = true →
    allSome ((segs.map Seg.render).map readSeg) = some segs := by
  intro segs
  induction segs with
  | nil => intro _; rfl
  | cons s segs ih =>
    intro h
    simp only [List.all_cons, Bool.and_eq_true] at h
    simp only [List.map_cons, allSome, readSeg_render r s h.1, ih h.2]

/-- the candidate of a printed well-formed template is the template -/
theorem specCandidate_render (r : Bool) (t : Tmpl) (h : t.wfB r = true) : specCandidate t.render = some t := by
  have hvb := verb_bytes r t h
  obtain ⟨segs, verb⟩ := t
  simp only [Tmpl.wfB, Bool.and_eq_true] at h
  obtain ⟨⟨hsegs, _⟩, hverb⟩ := h
  have hs : (cSlash != cSlash) = false := by decide
  have hsplit := splitTop_body r segs (renderVerb verb) hsegs hvb
  simp only [Tmpl.render, List.cons_append, specCandidate, hs, Bool.false_eq_true, if_false, hsplit]
  rcases List.eq_nil_or_concat segs with he | ⟨pre, L, he⟩
  · subst he
    simp [piecesOf, cutVerb_root verb hverb]
  · subst he
    simp only [List.concat_eq_append] at hsegs hverb ⊢
    have hwL : L.wfB r = true := List.all_eq_true.mp hsegs L (by simp)
    rw [verbWfB_snoc] at hverb
    have hne : (L.render).isEmpty = false := by
      have := seg_render_ne_nil r L hwL
      cases hr : L.render with
      | nil => exact absurd hr this
      | cons _ _ => rfl
    rw [piecesOf_snoc]
    simp only [List.getLast?_append, List.getLast?_singleton, Option.some_or, cutVerb_seg r L verb hwL hverb,
      List.dropLast_concat, hne, Bool.and_false, Bool.false_eq_true, if_false]
    have := allSome_read r (pre ++ [L]) hsegs
    simp only [List.map_append, List.map_cons, List.map_nil, List.map_map] at this
    simp [this]

theorem specParseWith_complete (r : Bool) (t : Tmpl) (h : t.wfB r = true) : specParseWith r t.render = some t := by
  unfold specParseWith
  rw [specCandidate_render r t h]
  simp [h]

end GB.C20
