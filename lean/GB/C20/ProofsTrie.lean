import GB.C20.Model
import GB.C20.Spec
/- C20 — soundness of the strict trie model (`dfs`, `dfsLeaf`, `Trie.find`). -/
namespace GB.C20
open GB

set_option linter.unusedSimpArgs false
set_option linter.unusedVariables false

def Key.mkey : Key → MKey
  | .lit l => .lit l
  | .wild => .wild
  | .multi => .multi

/-- the key path `π` matches the components `done` one to one (no `**`) -/
def matchPre : List Key → List Bytes → Bool
  | [], [] => true
  | .lit l :: ks, c :: cs => l == c && matchPre ks cs
  | .wild :: ks, _ :: cs => matchPre ks cs
  | _, _ => false

theorem matchKeys_append : ∀ (π : List Key) (done : List Bytes), matchPre π done = true →
    ∀ ks cs, matchKeys (π.map Key.mkey ++ ks) (done ++ cs) = matchKeys ks cs := by
  intro π
  induction π with
  | nil =>
    intro done h ks cs
    cases done with
    | nil => simp
    | cons _ _ => simp [matchPre] at h
  | cons k π ih =>
    intro done h ks cs
    cases k with
    | lit l =>
      cases done with
      | nil => simp [matchPre] at h
      | cons c done =>
        simp [matchPre] at h
        simp [Key.mkey, matchKeys, h.1, ih done h.2]
    | wild =>
      cases done with
      | nil => simp [matchPre] at h
      | cons c done =>
        simp [matchPre] at h
        simp [Key.mkey, matchKeys, ih done h]
    | multi => cases done <;> simp [matchPre] at h

theorem matchPre_snoc_lit : ∀ (π : List Key) (done : List Bytes) (c : Bytes), matchPre π done = true →
    matchPre (π ++ [.lit c]) (done ++ [c]) = true := by
  intro π
  induction π with
  | nil => intro done c h; cases done with
    | nil => simp [matchPre]
    | cons _ _ => simp [matchPre] at h
  | cons k π ih =>
    intro done c h
    cases k with
    | lit l => cases done with
      | nil => simp [matchPre] at h
      | cons d done => simp [matchPre] at h; simp [matchPre, h.1, ih done c h.2]
    | wild => cases done with
      | nil => simp [matchPre] at h
      | cons d done => simp [matchPre] at h; simp [matchPre, ih done c h]
    | multi => cases done <;> simp [matchPre] at h

theorem matchPre_snoc_wild : ∀ (π : List Key) (done : List Bytes) (c : Bytes), matchPre π done = true →
    matchPre (π ++ [.wild]) (done ++ [c]) = true := by
  intro π
  induction π with
  | nil => intro done c h; cases done with
    | nil => simp [matchPre]
    | cons _ _ => simp [matchPre] at h
  | cons k π ih =>
    intro done c h
    cases k with
    | lit l => cases done with
      | nil => simp [matchPre] at h
      | cons d done => simp [matchPre] at h; simp [matchPre, h.1, ih done c h.2]
    | wild => cases done with
      | nil => simp [matchPre] at h
      | cons d done => simp [matchPre] at h; simp [matchPre, ih done c h]
    | multi => cases done <;> simp [matchPre] at h

theorem addVerb_snoc (v : Bytes) : ∀ (xs : List Bytes) (c : Bytes),
    addVerb v (xs ++ [c]) = xs ++ [if v.isEmpty then c else c ++ cColon :: v] := by
  intro xs
  induction xs with
  | nil => intro c; simp [addVerb]
  | cons x xs ih =>
    intro c
    cases xs with
    | nil => simp [addVerb]
    | cons y ys =>
      have := ih c
      simp [addVerb] at this ⊢
      exact this

theorem addVerb_empty (v : Bytes) (hv : v = []) : ∀ cs : List Bytes, addVerb v cs = cs := by
  intro cs
  induction cs with
  | nil => simp [addVerb]
  | cons c cs ih =>
    cases cs with
    | nil => simp [addVerb, hv]
    | cons d r => simp [addVerb, ih]

/-- a string without the separator that is a suffix of `a ++ sep :: b` is a suffix of `b` -/
theorem suffix_after_sep {s a b : Bytes} {sep : UInt8} (hs : sep ∉ s) (h : s <:+ a ++ sep :: b) : s <:+ b := by
  obtain ⟨t, ht⟩ := h
  rcases List.append_eq_append_iff.mp ht with ⟨a', h1, h2⟩ | ⟨c', h1, h2⟩
  · -- a = t ++ a', s = a' ++ sep :: b
    exfalso; apply hs; rw [h2]; simp
  · -- t = a ++ c', sep :: b = c' ++ s
    cases c' with
    | nil => exfalso; apply hs; simp at h2; rw [← h2]; simp
    | cons x c'' =>
      simp at h2
      exact ⟨c'', h2.2.symm⟩

theorem suffix_join_last {s : Bytes} (hs : cSlash ∉ s) : ∀ (xs : List Bytes) (c : Bytes),
    s <:+ joinWith cSlash (xs ++ [c]) → s <:+ c := by
  intro xs
  induction xs with
  | nil => intro c h; simpa [joinWith] using h
  | cons x xs ih =>
    intro c h
    have hne : xs ++ [c] ≠ [] := by simp
    cases hxs : xs ++ [c] with
    | nil => exact absurd hxs hne
    | cons y ys =>
      simp only [List.cons_append, hxs, joinWith] at h
      have := suffix_after_sep hs h
      rw [← hxs] at this
      exact ih c this

theorem splitOnByte_ne_nil (sep : UInt8) : ∀ p : Bytes, splitOnByte sep p ≠ [] := by
  intro p
  cases p with
  | nil => simp [splitOnByte]
  | cons c r =>
    unfold splitOnByte
    by_cases h : (c == sep) = true
    · simp [h]
    · simp only [h]
      cases splitOnByte sep r <;> simp

theorem join_split (sep : UInt8) : ∀ p : Bytes, joinWith sep (splitOnByte sep p) = p := by
  intro p
  induction p with
  | nil => simp [splitOnByte, joinWith]
  | cons c r ih =>
    unfold splitOnByte
    have hne := splitOnByte_ne_nil sep r
    by_cases h : (c == sep) = true
    · simp only [h, if_true]
      have hc : c = sep := by simpa using h
      cases hs : splitOnByte sep r with
      | nil => exact absurd hs hne
      | cons x xs => rw [hs] at ih; simp [joinWith, ih, hc]
    · simp only [h]
      cases hs : splitOnByte sep r with
      | nil => exact absurd hs hne
      | cons x xs =>
        rw [hs] at ih
        cases xs with
        | nil => simp [joinWith] at ih ⊢; exact ih
        | cons y ys => simp [joinWith] at ih ⊢; exact ih

theorem colonSplits_spec : ∀ (c l v : Bytes), (l, v) ∈ colonSplits c → c = l ++ cColon :: v := by
  intro c
  induction c with
  | nil => intro l v h; simp [colonSplits] at h
  | cons x r ih =>
    intro l v h
    simp only [colonSplits, List.mem_append, List.mem_map] at h
    rcases h with ⟨⟨a, b⟩, hab, heq⟩ | h
    · simp at heq
      obtain ⟨h1, h2⟩ := heq
      subst h1; subst h2
      simp [ih a b hab]
    · by_cases hx : (x == cColon) = true
      · simp [hx] at h
        obtain ⟨h1, h2⟩ := h
        subst h1; subst h2
        simp at hx; simp [hx]
      · simp [hx] at h

theorem leafTmpl_spec {es : List Entry} {π : List Key} {e : Entry} (h : leafTmpl es π = some e) :
    e ∈ es ∧ e.keys = π ∧ e.verb = [] := by
  unfold leafTmpl at h
  have h1 := List.mem_of_find?_eq_some h
  have h2 := List.find?_some h
  simp at h1 h2
  exact ⟨h1, h2.1, h2.2⟩

theorem verbTmpl_spec {es : List Entry} {π : List Key} {v : Bytes} {e : Entry} (h : verbTmpl es π v = some e) :
    e ∈ es ∧ e.keys = π ∧ e.verb = v ∧ v ≠ [] := by
  unfold verbTmpl at h
  by_cases hv : v.isEmpty = true
  · simp [hv] at h
  · simp only [hv] at h
    have h1 := List.mem_of_find?_eq_some h
    have h2 := List.find?_some h
    simp at h1 h2 hv
    exact ⟨h1, h2.1, h2.2, hv⟩

/-- what `dfsLeaf` may return at a node reached through exact matching of all components -/
theorem dfsLeaf_exact {es : List Entry} {π : List Key} {all : List Bytes} {orig : Bytes} {e : Entry}
    (hm : matchPre π all = true) (h : e ∈ dfsLeaf es π orig false) :
    e ∈ es ∧ Matches (e.keys.map Key.mkey) e.verb all := by
  unfold dfsLeaf at h
  cases hl : leafTmpl es π with
  | none => simp [hl] at h
  | some e' =>
    simp [hl] at h
    subst h
    obtain ⟨h1, h2, h3⟩ := leafTmpl_spec hl
    refine ⟨h1, all, ?_, ?_⟩
    · have := matchKeys_append π all hm [] []
      simp at this
      rw [h2]; simpa [matchKeys] using this
    · rw [addVerb_empty _ h3]

/-- `dfsLeaf` below a wildcard (`keys = π' ++ [k]`, `k` consumed the components `tail`, which is not empty) -/
theorem dfsLeaf_wild {es : List Entry} (hv : ∀ e ∈ es, cSlash ∉ e.verb) {π' : List Key} {k : Key}
    {done : List Bytes} {init : List Bytes} {last : Bytes} {e : Entry}
    (hm : matchPre π' done = true)
    (hk : ∀ cs : List Bytes, cs ≠ [] → cs.length = (init ++ [last]).length → matchKeys [k.mkey] cs = true)
    (h : e ∈ dfsLeaf es (π' ++ [k]) (joinWith cSlash (done ++ init ++ [last])) true) :
    e ∈ es ∧ Matches (e.keys.map Key.mkey) e.verb (done ++ init ++ [last]) := by
  unfold dfsLeaf at h
  cases hl : leafTmpl es (π' ++ [k]) with
  | some e' =>
    simp [hl] at h
    subst h
    obtain ⟨h1, h2, h3⟩ := leafTmpl_spec hl
    refine ⟨h1, done ++ init ++ [last], ?_, ?_⟩
    · rw [h2]
      have := matchKeys_append π' done hm [k.mkey] (init ++ [last])
      simp at this ⊢
      rw [this]
      exact hk _ (by simp) rfl
    · rw [addVerb_empty _ h3]
  | none =>
    simp only [hl, Bool.not_true, Bool.false_eq_true, if_false, List.mem_filterMap, List.mem_filter] at h
    obtain ⟨e0, ⟨he0, hc⟩, hvt⟩ := h
    obtain ⟨h1, h2, h3, h4⟩ := verbTmpl_spec hvt
    simp at hc
    obtain ⟨⟨_, _⟩, hsuf⟩ := hc
    have hns : cSlash ∉ (cColon :: e.verb) := by
      intro hmem
      simp at hmem
      rcases hmem with hmem | hmem
      · exact absurd hmem (by decide)
      · exact hv e h1 hmem
    rw [← h3] at hsuf
    have hsuf' : (cColon :: e.verb) <:+ last := by
      have := suffix_join_last hns (done ++ init) last (by simpa using hsuf)
      exact this
    obtain ⟨l', hl'⟩ := hsuf'
    refine ⟨h1, done ++ init ++ [l'], ?_, ?_⟩
    · rw [h2]
      have := matchKeys_append π' done hm [k.mkey] (init ++ [l'])
      simp at this ⊢
      rw [this]
      exact hk _ (by simp) (by simp)
    · rw [addVerb_snoc]
      have : e.verb.isEmpty = false := by
        rw [h3]; cases v : e0.verb with
        | nil => exact absurd v h4
        | cons _ _ => rfl
      simp [this, hl']

theorem dfs_sound (es : List Entry) (hv : ∀ e ∈ es, cSlash ∉ e.verb) (all : List Bytes) :
    ∀ (comps : List Bytes) (π : List Key) (done : List Bytes) (wild : Bool),
      all = done ++ comps → matchPre π done = true →
      (comps = [] → wild = false → True) →
      (comps = [] → wild = true → ∃ π' done' c, π = π' ++ [.wild] ∧ done = done' ++ [c] ∧ matchPre π' done' = true) →
      ∀ e ∈ dfs es (joinWith cSlash all) π comps wild, e ∈ es ∧ Matches (e.keys.map Key.mkey) e.verb all := by
  intro comps
  induction comps with
  | nil =>
    intro π done wild hall hm _ hw e he
    simp at hall
    subst hall
    simp only [dfs] at he
    cases wild with
    | false => exact dfsLeaf_exact hm he
    | true =>
      obtain ⟨π', done', c, h1, h2, h3⟩ := hw rfl rfl
      subst h1; subst h2
      have := dfsLeaf_wild (k := .wild) (init := []) (last := c) hv h3
        (by
          intro cs hne hlen
          cases cs with
          | nil => exact absurd rfl hne
          | cons x xs =>
            cases xs with
            | nil => simp [Key.mkey, matchKeys]
            | cons _ _ => simp at hlen)
        (by simpa using he)
      simpa using this
  | cons c rest ih =>
    intro π done wild hall hm _ _ e he
    simp only [dfs] at he
    by_cases hlit : nodeExists es (π ++ [.lit c]) = true
    · simp only [hlit, if_true] at he
      refine ih (π ++ [.lit c]) (done ++ [c]) false (by simp [hall]) (matchPre_snoc_lit π done c hm) (fun _ _ => trivial) ?_ e he
      intro _ h; exact absurd h (by simp)
    · simp only [hlit] at he
      simp only [Bool.false_eq_true, if_false] at he
      -- literal with verb
      cases hvb : (if rest.isEmpty = true then (colonSplits c).findSome? (fun x => verbTmpl es (π ++ [.lit x.1]) x.2) else none) with
      | some e' =>
        simp only [hvb] at he
        simp at he
        subst he
        by_cases hr : rest.isEmpty = true
        · simp only [hr, if_true] at hvb
          obtain ⟨⟨l, v⟩, hmem, hvt⟩ := List.exists_of_findSome?_eq_some hvb
          obtain ⟨h1, h2, h3, h4⟩ := verbTmpl_spec hvt
          simp only at h2 h3 h4
          have hc := colonSplits_spec c l v hmem
          have hrest : rest = [] := by simpa using hr
          subst hrest
          refine ⟨h1, done ++ [l], ?_, ?_⟩
          · rw [h2]
            have := matchKeys_append π done hm [MKey.lit l] [l]
            simp at this ⊢
            rw [show (List.map Key.mkey π ++ [Key.mkey (Key.lit l)]) = (List.map Key.mkey π ++ [MKey.lit l]) from rfl, this]
            simp [matchKeys]
          · rw [addVerb_snoc, hall]
            have : e.verb.isEmpty = false := by
              rw [h3]; cases hv' : v with
              | nil => exact absurd hv' h4
              | cons _ _ => rfl
            simp [this, hc, h3, h4]
        · simp [hr] at hvb
      | none =>
        simp only [hvb] at he
        by_cases hw : nodeExists es (π ++ [.wild]) = true
        · simp only [hw, if_true] at he
          refine ih (π ++ [.wild]) (done ++ [c]) true (by simp [hall]) (matchPre_snoc_wild π done c hm) (fun _ _ => trivial) ?_ e he
          intro _ _
          exact ⟨π, done, c, rfl, rfl, hm⟩
        · simp only [hw, Bool.false_eq_true, if_false] at he
          by_cases hmu : nodeExists es (π ++ [.multi]) = true
          · simp only [hmu, if_true] at he
            -- `**` consumes c :: rest
            have hne : c :: rest ≠ [] := by simp
            obtain ⟨init, last, hil⟩ : ∃ init last, c :: rest = init ++ [last] :=
              ⟨(c :: rest).dropLast, (c :: rest).getLast hne, (List.dropLast_concat_getLast hne).symm⟩
            have hall' : all = done ++ init ++ [last] := by rw [hall, hil]; simp
            rw [hall'] at he ⊢
            exact dfsLeaf_wild (k := .multi) hv hm (by intro cs _ _; simp [Key.mkey, matchKeys]) he
          · simp [hmu] at he

theorem find_sound (t : Trie) (hv : ∀ e ∈ t, cSlash ∉ e.verb) (m p : Bytes) (e : Entry)
    (h : e ∈ t.find m p) :
    e ∈ t ∧ e.method = m ∧
      Matches (e.keys.map Key.mkey) e.verb (splitOnByte cSlash (trimLeadingSlash p)) := by
  unfold Trie.find at h
  simp only at h
  by_cases hes : (t.filter (fun e => e.method == m)).isEmpty = true
  · simp [hes] at h
  · simp only [hes] at h
    simp only [Bool.false_eq_true, if_false] at h
    generalize hp : trimLeadingSlash p = p' at h ⊢
    have hj : joinWith cSlash (splitSlash p') = p' := join_split cSlash p'
    have := dfs_sound (t.filter (fun e => e.method == m))
      (by intro e he; exact hv e (List.mem_filter.mp he).1)
      (splitSlash p') (splitSlash p') [] [] false (by simp) (by simp [matchPre]) (fun _ _ => trivial)
      (by intro _ h; exact absurd h (by simp)) e (by rw [hj]; exact h)
    obtain ⟨h1, h2⟩ := this
    have hmem := List.mem_filter.mp h1
    refine ⟨hmem.1, ?_, h2⟩
    simpa using hmem.2

end GB.C20
