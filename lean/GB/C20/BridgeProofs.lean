import GB.C20.BridgeShape
import GB.C06.Props
/- C20 → C03/C06: the gwbased parser model satisfies what the routing proofs assume of their parser. -/
namespace GB.C20
open GB

set_option linter.unusedSimpArgs false
set_option linter.unusedVariables false

theorem gwC03_parserOk : C06.ParserOk gwC03 := by
  intro s T h
  obtain ⟨t, ⟨hw, _⟩, rfl⟩ := (gwC03_some_iff s T).mp h
  exact tmplC03_ok t hw

theorem validC_gwC03_iff (pat : Bytes) :
    C06.validC gwC03 pat = true ↔ ∃ t, DerivesRelaxed pat t ∧ C03.deepCount (tmplC03 t).segs ≤ 1 := by
  constructor
  · intro hv
    obtain ⟨T, hT, _, hd, _⟩ := C06.validC_good gwC03_parserOk hv
    obtain ⟨t, ht, rfl⟩ := (gwC03_some_iff pat T).mp hT
    exact ⟨t, ht, hd⟩
  · rintro ⟨t, ht, hd⟩
    have hp : gwC03 pat = some (tmplC03 t) := (gwC03_some_iff pat _).mpr ⟨t, ht, rfl⟩
    obtain ⟨P, hP, _⟩ := (C03.newPattern_compile (tmplC03 t) (tmplC03_ok t ht.1).1).1 hd
    simp [C06.validC, C06.c03Pattern, hp, hP]

/-! ### routing.buildPattern -/

theorem buildPatternM_eq_c03Pattern (s : Bytes) : buildPatternM s = C06.c03Pattern gwC03 s := by
  unfold buildPatternM C06.c03Pattern gwC03
  cases gwParse s with
  | error e => simp [Except.toOption]
  | ok g => simp [Except.toOption]

theorem buildPatternM_of_derives (s : Bytes) (t : Tmpl) (h : DerivesRelaxed s t) :
    buildPatternM s =
      C03.newPattern 1 (C03.compile (tmplC03 t)).opcodes (C03.compile (tmplC03 t)).pool (C03.compile (tmplC03 t)).verb := by
  rw [buildPatternM_eq_c03Pattern]
  have hp : gwC03 s = some (tmplC03 t) := (gwC03_some_iff s _).mpr ⟨t, h, rfl⟩
  simp [C06.c03Pattern, hp]

theorem buildPatternM_isSome_iff (s : Bytes) :
    (buildPatternM s).isSome = true ↔ ∃ t, DerivesRelaxed s t ∧ C03.deepCount (tmplC03 t).segs ≤ 1 := by
  rw [buildPatternM_eq_c03Pattern]
  exact validC_gwC03_iff s

theorem validTemplateB_iff (s : Bytes) :
    validTemplateB s = true ↔ ∃ t, DerivesRelaxed s t ∧ C03.deepCount (tmplC03 t).segs ≤ 1 := by
  unfold validTemplateB
  constructor
  · intro h
    cases hs : specParseWith true s with
    | none => simp [hs] at h
    | some t =>
      simp only [hs, decide_eq_true_eq] at h
      refine ⟨t, ?_, h⟩
      unfold specParseWith at hs
      cases hc : specCandidate s with
      | none => simp [hc] at hs
      | some t' =>
        simp only [hc] at hs
        by_cases hw : (t'.wfB true && t'.render == s) = true
        · simp only [hw, if_true, Option.some.injEq] at hs
          subst hs
          simp only [Bool.and_eq_true, beq_iff_eq] at hw
          exact ⟨hw.1, hw.2⟩
        · simp [hw] at hs
  · rintro ⟨t, ⟨hw, hr⟩, hd⟩
    rw [← hr, specParseWith_complete true t hw]
    simpa using hd

end GB.C20
