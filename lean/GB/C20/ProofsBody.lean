import GB.C20.ProofsTok
/- C20 — the tokens of the body of a printed template (shared by both parsers). -/
namespace GB.C20
open GB

set_option linter.unusedSimpArgs false
set_option linter.unusedVariables false

/-- tokens of `s₁/s₂/…/sₖ/` -/
def preToks (pre : List Seg) : List Tok := pre.flatMap (fun s => s.toks ++ [[cSlash]])

theorem flatMap_shift : ∀ pre : List Seg,
    pre.flatMap (fun t => [cSlash] :: t.toks) ++ [[cSlash]] = [cSlash] :: preToks pre := by
  intro pre
  induction pre with
  | nil => simp [preToks]
  | cons s pre ih =>
    simp only [List.flatMap_cons, preToks, List.cons_append, List.append_assoc] at ih ⊢
    rw [ih]
    simp

theorem segsToks_snoc (pre : List Seg) (L : Seg) : segsToks (pre ++ [L]) = preToks pre ++ L.toks := by
  cases pre with
  | nil => simp [segsToks, preToks]
  | cons s pre =>
    simp only [List.cons_append, segsToks, List.flatMap_append, List.flatMap_cons, List.flatMap_nil, List.append_nil]
    have := flatMap_shift pre
    simp only [preToks, List.flatMap_cons, List.append_assoc]
    have h2 : List.flatMap (fun t => [cSlash] :: t.toks) pre ++ [cSlash] :: L.toks =
        (List.flatMap (fun t => [cSlash] :: t.toks) pre ++ [[cSlash]]) ++ L.toks := by simp
    rw [h2, this]
    simp [preToks]

theorem preToks_getLast (pre : List Seg) : ((preToks pre).getLast? == some [cRBrace]) = false := by
  rcases List.eq_nil_or_concat pre with h | ⟨pre', s, h⟩
  · subst h; simp [preToks]
  · subst h
    simp only [List.concat_eq_append, preToks, List.flatMap_append, List.flatMap_cons, List.flatMap_nil, List.append_nil]
    rw [← List.append_assoc, List.getLast?_append]
    simp
    decide

theorem render_flatMap (s : Seg) (rest : List Seg) (tail : Bytes) :
    cSlash :: (joinWith cSlash ((s :: rest).map Seg.render) ++ tail) =
      (s :: rest).flatMap (fun s => cSlash :: s.render) ++ tail := by
  simp [joinWith_cons, List.flatMap_map]

/-- tokens of the body `s₁/…/sₖ/L tail` where `tail` has no delimiter of the top-level state -/
theorem body_tokens (r : Bool) (pre : List Seg) (L : Seg) (tail : Bytes)
    (hw : (pre ++ [L]).all (Seg.wfB r) = true) (ht : tail.all (fun c => !isDelim .seg c) = true) :
    tokCore .seg [] (joinWith cSlash ((pre ++ [L]).map Seg.render) ++ tail) =
      (match L.text with
       | some x => preToks pre ++ [x ++ tail]
       | none => preToks pre ++ L.toks ++ flush tail) := by
  have hne : pre ++ [L] ≠ [] := by simp
  obtain ⟨s, rest, hs⟩ : ∃ s rest, pre ++ [L] = s :: rest := by
    cases h : pre ++ [L] with
    | nil => exact absurd h hne
    | cons a b => exact ⟨a, b, rfl⟩
  have hfull := tokCore_more r (pre ++ [L]) tail hw
  rw [hs] at hfull
  rw [← render_flatMap s rest tail, tokCore_delim .seg [] cSlash _ (by decide), flush_nil] at hfull
  have hn : nextSt .seg cSlash = .seg := by decide
  rw [hn] at hfull
  rw [← hs] at hfull
  simp only [List.getLast?_append, List.getLast?_singleton, Option.some_or, List.dropLast_concat] at hfull
  have hwL : L.wfB r = true := by
    have := List.all_eq_true.mp hw L (by simp)
    exact this
  cases hL : L.text with
  | some x =>
    rw [hL] at hfull
    simp only at hfull ⊢
    obtain ⟨h1, h2, h3, h4⟩ := seg_text_facts hwL hL
    have htx : tokCore .seg x tail = [x ++ tail] := by
      have := tokCore_text .seg tail x [] ht
      simp only [List.append_nil] at this
      rw [this]
      simp only [tokCore]
      rw [flush_ne]
      intro h
      exact h3 (List.append_eq_nil_iff.mp h).1
    rw [htx] at hfull
    have hsh := flatMap_shift pre
    have : List.flatMap (fun t => [cSlash] :: t.toks) pre ++ [[cSlash], x ++ tail] =
        (List.flatMap (fun t => [cSlash] :: t.toks) pre ++ [[cSlash]]) ++ [x ++ tail] := by simp
    simp only [List.nil_append, List.singleton_append] at hfull
    rw [this, hsh] at hfull
    simpa using hfull
  | none =>
    rw [hL] at hfull
    simp only at hfull ⊢
    have htl : tokCore .seg [] tail = flush tail := by
      have := tokCore_text .seg tail [] [] ht
      simp only [List.append_nil, List.nil_append] at this
      rw [this]; simp [tokCore]
    rw [htl] at hfull
    simp only [List.flatMap_append, List.flatMap_cons, List.flatMap_nil, List.append_nil, List.nil_append,
      List.singleton_append] at hfull
    have hsh := flatMap_shift pre
    have : List.flatMap (fun t => [cSlash] :: t.toks) pre ++ [cSlash] :: L.toks ++ flush tail =
        (List.flatMap (fun t => [cSlash] :: t.toks) pre ++ [[cSlash]]) ++ (L.toks ++ flush tail) := by simp
    rw [this, hsh] at hfull
    simpa using hfull

/-! ### colon splitting -/

theorem splitFirst_none {b : Bytes} {c : UInt8} (h : b.contains c = false) : splitFirst c b = none := by
  induction b with
  | nil => simp [splitFirst]
  | cons x r ih =>
    simp only [List.contains_cons, Bool.or_eq_false_iff] at h
    have hx : (x == c) = false := by
      have := h.1
      rw [Bool.eq_false_iff] at this ⊢
      intro hh; apply this; simp at hh ⊢; exact hh.symm
    simp [splitFirst, hx, ih h.2]

theorem splitLast_none {b : Bytes} {c : UInt8} (h : b.contains c = false) : splitLast c b = none := by
  induction b with
  | nil => simp [splitLast]
  | cons x r ih =>
    simp only [List.contains_cons, Bool.or_eq_false_iff] at h
    have hx : (x == c) = false := by
      have := h.1
      rw [Bool.eq_false_iff] at this ⊢
      intro hh; apply this; simp at hh ⊢; exact hh.symm
    simp [splitLast, hx, ih h.2]

theorem splitLast_append (x v : Bytes) (c : UInt8) (hv : v.contains c = false) :
    splitLast c (x ++ c :: v) = some (x, v) := by
  induction x with
  | nil => simp [splitLast, splitLast_none hv]
  | cons y x ih => simp [splitLast, ih]

theorem splitFirst_head (v : Bytes) (c : UInt8) : splitFirst c (c :: v) = some ([], v) := by
  simp [splitFirst]

/-! ### bytes of a printed template -/

theorem joinWith_not_mem (c sep : UInt8) (hc : c ≠ sep) : ∀ xs : List Bytes, (∀ x ∈ xs, c ∉ x) → c ∉ joinWith sep xs := by
  intro xs
  induction xs with
  | nil => intro _; simp [joinWith]
  | cons x xs ih =>
    intro h
    rw [joinWith_cons]
    simp only [List.mem_append, List.mem_flatMap, List.mem_cons, not_or, not_exists, not_and]
    refine ⟨h x (by simp), ?_⟩
    intro y hy
    exact ⟨hc, h y (by simp [hy])⟩

theorem pchars_no_nul {l : Bytes} (h : pcharsB l = true) : (0 : UInt8) ∉ l := by
  intro hm
  have := List.all_eq_true.mp (pchars_no_special l h) 0 hm
  revert this; decide

theorem ident_no_nul {l : Bytes} (h : identB l = true) : (0 : UInt8) ∉ l := by
  intro hm
  have := List.all_eq_true.mp (ident_no_special l h) 0 hm
  revert this; decide

theorem seg_render_no_nul (r : Bool) (s : Seg) (h : s.wfB r = true) : (0 : UInt8) ∉ s.render := by
  cases hs : s.text with
  | some x =>
    obtain ⟨h1, _, _, h4⟩ := seg_text_facts h hs
    rw [h1]; exact pchars_no_nul h4
  | none =>
    cases s with
    | var p inner =>
      obtain ⟨⟨hp1, hp2⟩, hi⟩ := seg_var_facts h
      have hpath : (0 : UInt8) ∉ joinWith cDot p :=
        joinWith_not_mem 0 cDot (by decide) p (fun x hx => ident_no_nul (List.all_eq_true.mp hp2 x hx))
      cases inner with
      | none =>
        have e : (Seg.var p none).render = [cLBrace] ++ (joinWith cDot p ++ [cRBrace]) := by simp [Seg.render]
        rw [e]; intro hm
        rcases List.mem_append.mp hm with h | h
        · revert h; decide
        · rcases List.mem_append.mp h with h | h
          · exact hpath h
          · revert h; decide
      | some is =>
        obtain ⟨_, hwf⟩ := hi is rfl
        have hin : (0 : UInt8) ∉ joinWith cSlash (is.map ISeg.render) :=
          joinWith_not_mem 0 cSlash (by decide) _ (by
            intro x hx
            obtain ⟨i, hi1, rfl⟩ := List.mem_map.mp hx
            exact pchars_no_nul (iseg_render_facts (List.all_eq_true.mp hwf i hi1)).2)
        have e : (Seg.var p (some is)).render =
            [cLBrace] ++ (joinWith cDot p ++ ([cEq] ++ (joinWith cSlash (is.map ISeg.render) ++ [cRBrace]))) := by
          simp [Seg.render]
        rw [e]; intro hm
        rcases List.mem_append.mp hm with h | h
        · revert h; decide
        · rcases List.mem_append.mp h with h | h
          · exact hpath h
          · rcases List.mem_append.mp h with h | h
            · revert h; decide
            · rcases List.mem_append.mp h with h | h
              · exact hin h
              · revert h; decide
    | wild => simp [Seg.text] at hs
    | deep => simp [Seg.text] at hs
    | lit l => simp [Seg.text] at hs

theorem seg_render_ne_nil (r : Bool) (s : Seg) (h : s.wfB r = true) : s.render ≠ [] := by
  cases hs : s.text with
  | some x =>
    obtain ⟨h1, _, h3, _⟩ := seg_text_facts h hs
    rw [h1]; exact h3
  | none =>
    cases s with
    | var p inner => cases inner <;> simp [Seg.render]
    | wild => simp [Seg.text] at hs
    | deep => simp [Seg.text] at hs
    | lit l => simp [Seg.text] at hs

/-- the first token of a segment is not the eof token -/
theorem seg_toks_head (r : Bool) (s : Seg) (h : s.wfB r = true) :
    ∃ hd tl, s.toks = hd :: tl ∧ hd ≠ eofTok ∧ hd ≠ [cSlash] := by
  cases hs : s.text with
  | some x =>
    obtain ⟨_, h2, h3, h4⟩ := seg_text_facts h hs
    refine ⟨x, [], h2, ?_, ?_⟩
    · intro he; subst he; exact pchars_no_nul h4 (by decide)
    · intro he; subst he; revert h4; decide
  | none =>
    cases s with
    | var p inner =>
      cases inner with
      | none => exact ⟨[cLBrace], _, rfl, by decide, by decide⟩
      | some is => exact ⟨[cLBrace], _, rfl, by decide, by decide⟩
    | wild => simp [Seg.text] at hs
    | deep => simp [Seg.text] at hs
    | lit l => simp [Seg.text] at hs

/-- the last token of a variable is "}" -/
theorem var_toks_last (p : List Bytes) (inner : Option (List ISeg)) :
    ∃ ini, (Seg.var p inner).toks = ini ++ [[cRBrace]] := by
  cases inner with
  | none => exact ⟨[cLBrace] :: inter [cDot] p, by simp [Seg.toks]⟩
  | some is => exact ⟨[cLBrace] :: inter [cDot] p ++ [cEq] :: inter [cSlash] (is.map ISeg.render), by simp [Seg.toks]⟩

end GB.C20
