import GB.C20.Bridge
import GB.C20.ProofsRecog
import GB.C03.ProofsPath
/- C20 → C03, the part that needs nothing of C06: the gwbased parser model returns the grammar's abstract syntax
   (`gwParse_full`, `gwC03_some_iff`), and that syntax, written in C03's AST (`tmplC03`), has the parser shape
   `Tmpl.ShapeOk` and complete escapes in literals and verb (`tmplC03_ok`). Imported by GB.C03.Props for the
   composed theorem `C03_parsed_template_matcher` and by BridgeProofs.lean (C06 side). -/
namespace GB.C20
open GB

set_option linter.unusedSimpArgs false
set_option linter.unusedVariables false

theorem iseg_emb_c03 (i : ISeg) : i.emb.toVSeg = i.c03 := by cases i <;> rfl

theorem seg_emb_c03 (s : Seg) : s.emb.toC03 = s.c03 := by
  cases s with
  | wild => rfl
  | deep => rfl
  | lit l => rfl
  | var p inner =>
    cases inner with
    | none => rfl
    | some is =>
      simp only [Seg.emb, PSeg.toC03, Seg.c03, List.map_map]
      congr 1
      apply List.map_congr_left
      intro i _
      exact iseg_emb_c03 i

theorem toC03_of (t : Tmpl) (g : GwTemplate) (hs : g.segs = gwSegsOf t) (hv : g.verb = t.verbStr) :
    toC03 g = tmplC03 t := by
  unfold toC03 tmplC03
  rw [hs, hv]
  congr 1
  unfold gwSegsOf
  by_cases he : t.segs.isEmpty = true
  · simp [he, PSeg.toC03, C03.eof, eofTok]
  · simp only [he, Bool.false_eq_true, if_false, List.map_map]
    apply List.map_congr_left
    intro s _
    exact seg_emb_c03 s

/-- everything `Parse` returns is the grammar's: language, verb and segments -/
theorem gwParse_full (s : Bytes) (g : GwTemplate) (h : gwParse s = .ok g) :
    ∃ t : Tmpl, t.wfB true = true ∧ t.render = s ∧ g.segs = gwSegsOf t ∧ g.verb = t.verbStr := by
  obtain ⟨t, hw, hr, hv⟩ := gwParse_sound s g h
  obtain ⟨g', h1, h2, h3, _⟩ := gwParse_render true t hw
  rw [hr, h] at h1
  have : g = g' := Except.ok.inj h1
  subst this
  exact ⟨t, hw, hr, h2, hv⟩

theorem gwC03_some_iff (s : Bytes) (T : C03.Tmpl) :
    gwC03 s = some T ↔ ∃ t, DerivesRelaxed s t ∧ T = tmplC03 t := by
  unfold gwC03
  constructor
  · intro h
    cases hg : gwParse s with
    | error e => simp [hg, Except.toOption] at h
    | ok g =>
      simp only [hg, Except.toOption, Option.map_some, Option.some.injEq] at h
      obtain ⟨t, hw, hr, hs, hv⟩ := gwParse_full s g hg
      exact ⟨t, ⟨hw, hr⟩, by rw [← h]; exact toC03_of t g hs hv⟩
  · rintro ⟨t, ⟨hw, hr⟩, rfl⟩
    obtain ⟨g, h1, h2, h3, _⟩ := gwParse_render true t hw
    rw [hr] at h1
    simp [h1, Except.toOption, toC03_of t g h2 h3]

/-! ### shape and escapes -/

theorem ishex_eq (c : UInt8) : C03.ishex c = isHexDigit c := by
  simp only [C03.ishex, isHexDigit, isDigit]
  cases (48 ≤ c && c ≤ 57) <;> cases (97 ≤ c && c ≤ 102) <;> cases (65 ≤ c && c ≤ 70) <;> rfl

theorem pchars_escapesOk : ∀ l : Bytes, pcharsB l = true → C03.escapesOk l = true := by
  intro l h
  fun_induction pcharsB l with
  | case1 => rfl
  | case2 c r hc ih =>
    have : c ≠ 37 := by intro he; subst he; revert hc; decide
    unfold C03.escapesOk
    simp [this, ih h]
  | case3 c hc hp h1 h2 r' ih =>
    have hc' : c = cPct := by simpa using hp
    subst hc'
    simp only [Bool.and_eq_true] at h
    have : cPct = 37 := rfl
    unfold C03.escapesOk
    simp [this, ishex_eq, h.1.1, h.1.2, ih h.2]
  | case4 c r hc hp hr => simp at h
  | case5 c r hc hp => simp at h

theorem wellEscaped_of_pchars (l : Bytes) (h : pcharsB l = true) : C03.WellEscaped l :=
  (C03.wellEscaped_iff l).mpr (pchars_escapesOk l h)

theorem iseg_c03_facts (i : ISeg) (h : i.wfB = true) : i.c03.sym.ShapeOk ∧ i.c03.litsOk := by
  cases i with
  | wild => exact ⟨trivial, trivial⟩
  | deep => exact ⟨trivial, trivial⟩
  | lit l =>
    obtain ⟨h1, h2, _, _⟩ := literal_facts (by simpa [ISeg.wfB] using h)
    refine ⟨h1, ?_⟩
    have hne : l ≠ C03.eof := by intro he; rw [he] at h2; revert h2; decide
    simp only [ISeg.c03, C03.VSeg.litsOk, C03.litText, hne, if_false]
    exact wellEscaped_of_pchars l h2

theorem seg_c03_facts (s : Seg) (h : s.wfB true = true) : s.c03.ShapeOk ∧ ∀ p ∈ s.c03.atoms, p.litsOk := by
  cases s with
  | wild => exact ⟨trivial, by intro p hp; simp [Seg.c03, C03.Seg.atoms] at hp; subst hp; trivial⟩
  | deep => exact ⟨trivial, by intro p hp; simp [Seg.c03, C03.Seg.atoms] at hp; subst hp; trivial⟩
  | lit l =>
    have := iseg_c03_facts (.lit l) (by simpa [ISeg.wfB, Seg.wfB] using h)
    exact ⟨this.1, by intro p hp; simp [Seg.c03, C03.Seg.atoms] at hp; subst hp; exact this.2⟩
  | var p inner =>
    obtain ⟨hp, hi⟩ := seg_var_facts h
    obtain ⟨j1, j2⟩ := path_join_facts p hp
    have hx1 : joinWith cDot p ≠ [] := by intro he; rw [he] at j1; simp at j1
    have hx2 : joinWith cDot p ≠ C03.eof := by
      intro he; rw [he] at j2; revert j2; decide
    cases inner with
    | none =>
      refine ⟨⟨hx1, hx2, by simp, ?_⟩, ?_⟩
      · intro q hq; simp at hq; subst hq; trivial
      · intro q hq; simp [Seg.c03, C03.Seg.atoms] at hq; subst hq; trivial
    | some is =>
      obtain ⟨hne, hwf⟩ := hi is rfl
      refine ⟨⟨hx1, hx2, by simpa using hne, ?_⟩, ?_⟩
      · intro q hq
        obtain ⟨i, hi1, rfl⟩ := List.mem_map.mp hq
        exact (iseg_c03_facts i (List.all_eq_true.mp hwf i hi1)).1
      · intro q hq
        simp only [Seg.c03, C03.Seg.atoms] at hq
        obtain ⟨i, hi1, rfl⟩ := List.mem_map.mp hq
        exact (iseg_c03_facts i (List.all_eq_true.mp hwf i hi1)).2

theorem tmplC03_ok (t : Tmpl) (h : t.wfB true = true) :
    (tmplC03 t).ShapeOk ∧ (∀ p ∈ C03.atomsOf (tmplC03 t).segs, p.litsOk) ∧ C03.WellEscaped (tmplC03 t).verb := by
  have hv := verbStr_pchars true t h
  have hsegs : t.segs.all (Seg.wfB true) = true := by
    simp only [Tmpl.wfB, Bool.and_eq_true] at h; exact h.1.1
  refine ⟨?_, ?_, wellEscaped_of_pchars _ hv⟩
  · intro sg hsg
    simp only [tmplC03] at hsg
    by_cases he : t.segs.isEmpty = true
    · simp only [he, if_true, List.mem_singleton] at hsg
      subst hsg
      show C03.eof ≠ []
      decide
    · simp only [he, Bool.false_eq_true, if_false] at hsg
      obtain ⟨s, hs, rfl⟩ := List.mem_map.mp hsg
      exact (seg_c03_facts s (List.all_eq_true.mp hsegs s hs)).1
  · intro q hq
    simp only [tmplC03, C03.atomsOf] at hq
    by_cases he : t.segs.isEmpty = true
    · simp only [he, if_true, List.flatMap_cons, List.flatMap_nil, C03.Seg.atoms, List.append_nil,
        List.mem_singleton] at hq
      subst hq
      simp only [C03.VSeg.litsOk, C03.litText, if_true]
      exact (C03.wellEscaped_iff []).mpr rfl
    · simp only [he, Bool.false_eq_true, if_false, List.mem_flatMap] at hq
      obtain ⟨sg, hsg, hq'⟩ := hq
      obtain ⟨s, hs, rfl⟩ := List.mem_map.mp hsg
      exact (seg_c03_facts s (List.all_eq_true.mp hsegs s hs)).2 q hq'

/-- what `gwbased.Parse` guarantees about its output, for every accepted byte string: parser shape, complete escapes
    in every literal, complete escapes in the verb (fix D27) -/
theorem gwParse_shape (s : Bytes) (g : GwTemplate) (h : gwParse s = .ok g) :
    (toC03 g).ShapeOk ∧ (∀ p ∈ C03.atomsOf (toC03 g).segs, p.litsOk) ∧ C03.WellEscaped (toC03 g).verb := by
  obtain ⟨t, hw, hr, hs, hv⟩ := gwParse_full s g h
  rw [toC03_of t g hs hv]
  exact tmplC03_ok t hw

end GB.C20
