import GB.C20.ProofsSync
/- C20 — strict parser: what a successful parse tells, under the synchronisation invariant. -/
namespace GB.C20
open GB

set_option linter.unusedSimpArgs false
set_option linter.unusedVariables false

theorem eof_facts : eofTok ≠ [cStar] ∧ eofTok ≠ [cStar, cStar] ∧ pcharsB eofTok = false ∧ eofTok ≠ [cLBrace] ∧
    identB eofTok = false ∧ eofTok ≠ [] ∧ eofTok ≠ [cSlash] ∧ eofTok ≠ [cDot] ∧ eofTok ≠ [cEq] ∧ eofTok ≠ [cRBrace] := by
  decide

/-- a token made of one of the bytes `/ { }` -/
theorem special_tok_facts (d : UInt8) (h : d = cSlash ∨ d = cLBrace ∨ d = cRBrace) :
    ([d] : Tok) ≠ [cStar] ∧ ([d] : Tok) ≠ [cStar, cStar] ∧ pcharsB [d] = false ∧ identB [d] = false ∧ ([d] : Tok) ≠ eofTok := by
  rcases h with h | h | h <;> subst h <;> decide

theorem delim_not_ident (st : TSt) (d : UInt8) (h : isDelim st d = true) : identB [d] = false ∧ ([d] : Tok) ≠ eofTok ∧ ([d] : Tok) ≠ [] := by
  cases st with
  | seg => rcases delim_seg h with h | h <;> subst h <;> decide
  | nest => rcases delim_nest h with h | h <;> subst h <;> decide
  | fld => rcases delim_fld h with h | h | h <;> subst h <;> decide

/-- `variable()` fails on a token list that does not start with a "{" followed by an identifier -/
theorem stVariable_reject_of (f : Nat) (t : Tok) (rest : List Tok) (r : (PSeg × Bool) × List Tok)
    (h : stVariable f (t :: rest) = .ok r)
    (hno : t = [cLBrace] → ∃ u rest', rest = u :: rest' ∧ u ≠ [] ∧ identB u = false) : False := by
  cases f with
  | zero => simp [stVariable] at h
  | succ f =>
    simp only [stVariable, stAcc_lbrace] at h
    by_cases ht : t = [cLBrace]
    · obtain ⟨u, rest', hr, hu, hi⟩ := hno ht
      subst hr
      simp only [ht, if_true, tryP_ok, stFieldPath, stAcc_ident u rest' hu, hi, Bool.false_eq_true, if_false,
        tryP_reject] at h
      simp at h
    · simp [ht] at h

/-! ### inside a variable pattern (state `nest`) -/

theorem bdry_head_not_ident {st : TSt} {rest : List Tok} (h : Bdry st rest) :
    ∃ u rest', rest = u :: rest' ∧ u ≠ [] ∧ identB u = false := by
  rcases h with h | ⟨d, r, h, hd, _⟩
  · exact ⟨eofTok, [], h, eof_facts.2.2.2.2.2.1, eof_facts.2.2.2.2.1⟩
  · obtain ⟨h1, _, h3⟩ := delim_not_ident st d hd
    exact ⟨[d], r, h, h3, h1⟩

theorem stSegment_nest (f : Nat) (ts : List Tok) (s : PSeg) (ms : Bool) (rest : List Tok)
    (hv : ValidE .nest ts) (h : stSegment f ts = .ok ((s, ms), rest)) :
    ∃ i : ISeg, s = i.emb ∧ i.wfB = true ∧ ts = i.render :: rest ∧ ms = i.isDeep ∧ Bdry .nest rest := by
  cases f with
  | zero => simp [stSegment] at h
  | succ f =>
    rcases validE_cases hv with hts | ⟨d, r, hts, hd, hvr⟩ | ⟨t, rest0, hts, ht, hb⟩
    · subst hts
      obtain ⟨e1, e2, e3, e4, _⟩ := eof_facts
      simp only [stSegment, stAcc_star, e1, if_false, tryP_reject, stAcc_dstar, e2, stAcc_literal, e3,
        Bool.false_eq_true] at h
      exact (stVariable_reject_of f _ _ _ h (fun he => absurd he e4)).elim
    · subst hts
      have hd' : d = cSlash ∨ d = cLBrace ∨ d = cRBrace := by
        rcases delim_nest hd with h | h
        · exact .inl h
        · exact .inr (.inr h)
      obtain ⟨e1, e2, e3, _, _⟩ := special_tok_facts d hd'
      simp only [stSegment, stAcc_star, e1, if_false, tryP_reject, stAcc_dstar, e2, stAcc_literal, e3,
        Bool.false_eq_true] at h
      refine (stVariable_reject_of f _ _ _ h ?_).elim
      intro he
      simp at he
      rcases delim_nest hd with h' | h' <;> rw [h'] at he <;> exact absurd he (by decide)
    · subst hts
      simp only [stSegment, stAcc_star, stAcc_dstar, stAcc_literal] at h
      by_cases h1 : t = [cStar]
      · simp only [h1, if_true, tryP_ok, Except.ok.injEq, Prod.mk.injEq] at h
        exact ⟨.wild, h.1.1.symm, rfl, by rw [h1, ← h.2]; rfl, h.1.2.symm, by rw [← h.2]; exact hb⟩
      · simp only [h1, if_false, tryP_reject] at h
        by_cases h2 : t = [cStar, cStar]
        · simp only [h2, if_true, tryP_ok, Except.ok.injEq, Prod.mk.injEq] at h
          exact ⟨.deep, h.1.1.symm, rfl, by rw [h2, ← h.2]; rfl, h.1.2.symm, by rw [← h.2]; exact hb⟩
        · simp only [h2, if_false, tryP_reject] at h
          by_cases h3 : pcharsB t = true
          · simp only [h3, if_true, tryP_ok, Except.ok.injEq, Prod.mk.injEq] at h
            refine ⟨.lit t, h.1.1.symm, ?_, by rw [← h.2]; rfl, h.1.2.symm, by rw [← h.2]; exact hb⟩
            have hne : t.isEmpty = false := by
              cases t with
              | nil => exact absurd rfl (isText_ne_nil ht)
              | cons _ _ => rfl
            simp [ISeg.wfB, literalB, hne, h3, h1, h2]
          · simp only [h3, Bool.false_eq_true, if_false, tryP_reject] at h
            exact (stVariable_reject_of f _ _ _ h (fun _ => bdry_head_not_ident hb)).elim

theorem stSegments_nest : ∀ (f : Nat) (acc : List PSeg) (ts : List Tok) (segs : List PSeg) (m : Bool) (rest : List Tok),
    ValidE .nest ts → stSegments f acc ts = .ok ((segs, m), rest) →
    ∃ is : List ISeg, is ≠ [] ∧ segs = acc ++ is.map ISeg.emb ∧ is.all ISeg.wfB = true ∧
      onlyLast ISeg.isDeep is = true ∧ m = is.any ISeg.isDeep ∧
      ts = inter [cSlash] (is.map ISeg.render) ++ rest ∧ Bdry .nest rest := by
  intro f
  induction f with
  | zero => intro acc ts segs m rest _ h; simp [stSegments] at h
  | succ f ih =>
    intro acc ts segs m rest hv h
    simp only [stSegments] at h
    cases hs : stSegment f ts with
    | error e => cases e <;> simp [hs, tryP] at h
    | ok r =>
      obtain ⟨⟨s, ms⟩, ts'⟩ := r
      simp only [hs, tryP_ok] at h
      obtain ⟨i, hi1, hi2, hi3, hi4, hb⟩ := stSegment_nest f ts s ms ts' hv hs
      by_cases hms : ms = true
      · simp only [hms, if_true, Except.ok.injEq, Prod.mk.injEq] at h
        refine ⟨[i], by simp, by rw [← h.1.1, hi1]; simp, by simp [hi2], by simp [onlyLast], ?_, ?_, by rw [← h.2]; exact hb⟩
        · rw [← h.1.2]; simp [← hi4, hms]
        · rw [hi3, ← h.2]; simp [inter]
      · have hnd : i.isDeep = false := by rw [← hi4]; simpa using hms
        simp only [hms, Bool.false_eq_true, if_false] at h
        rcases hb with hb | ⟨d, r, hb, hd, hvr⟩
        · subst hb
          simp only [stAcc_slash, eof_facts.2.2.2.2.2.2.1, if_false, tryP_reject, Except.ok.injEq, Prod.mk.injEq] at h
          refine ⟨[i], by simp, by rw [← h.1.1, hi1]; simp, by simp [hi2], by simp [onlyLast], ?_, ?_, by rw [← h.2]; exact .inl rfl⟩
          · rw [← h.1.2]; simp [hnd]
          · rw [hi3, ← h.2]; simp [inter]
        · subst hb
          simp only [stAcc_slash] at h
          by_cases hds : ([d] : Tok) = [cSlash]
          · have hd' : d = cSlash := by simpa using hds
            subst hd'
            simp only [if_true, tryP_ok] at h
            have hn : nextSt .nest cSlash = .nest := by decide
            rw [hn] at hvr
            obtain ⟨is, h1, h2, h3, h4, h5, h6, h7⟩ := ih (acc ++ [s]) r segs m rest hvr h
            obtain ⟨j, js, rfl⟩ : ∃ j js, is = j :: js := by
              cases is with
              | nil => exact absurd rfl h1
              | cons a b => exact ⟨a, b, rfl⟩
            refine ⟨i :: j :: js, by simp, ?_, ?_, ?_, ?_, ?_, h7⟩
            · rw [h2, hi1]; simp
            · simp only [List.all_cons, Bool.and_eq_true] at h3 ⊢; exact ⟨hi2, h3⟩
            · simp only [onlyLast, Bool.and_eq_true, Bool.not_eq_true']; exact ⟨hnd, h4⟩
            · rw [h5]; simp [hnd]
            · rw [hi3, h6]; simp [inter]
          · simp only [hds, if_false, tryP_reject, Except.ok.injEq, Prod.mk.injEq] at h
            refine ⟨[i], by simp, by rw [← h.1.1, hi1]; simp, by simp [hi2], by simp [onlyLast], ?_, ?_, ?_⟩
            · rw [← h.1.2]; simp [hnd]
            · rw [hi3, ← h.2]; simp [inter]
            · rw [← h.2]; exact .inr ⟨d, r, rfl, hd, hvr⟩

/-! ### field path (state `fld`) -/

theorem stFieldLoop_fld : ∀ (n : Nat) (ts : List Tok), ts.length ≤ n → ∀ (comps : List Bytes) (r : List Bytes) (rest : List Tok),
    Bdry .fld ts → stFieldLoop comps ts = .ok (r, rest) →
    ∃ ps : List Bytes, r = comps ++ ps ∧ ps.all identB = true ∧
      ts = ps.flatMap (fun y => [[cDot], y]) ++ rest ∧ Bdry .fld rest ∧ (∀ r', rest ≠ [cDot] :: r') := by
  intro n
  induction n with
  | zero =>
    intro ts hl comps r rest hb h
    have : ts = [] := by cases ts with
      | nil => rfl
      | cons _ _ => simp at hl
    subst this
    simp [stFieldLoop] at h
  | succ n ih =>
    intro ts hl comps r rest hb h
    rcases hb with hb | ⟨d, r0, hb, hd, hvr⟩
    · subst hb
      unfold stFieldLoop at h
      simp only [stAcc_dot, eof_facts.2.2.2.2.2.2.2.1, if_false, Except.ok.injEq, Prod.mk.injEq] at h
      refine ⟨[], by simp [h.1], by simp, by simp [h.2], by rw [← h.2]; exact .inl rfl, ?_⟩
      intro r' he; rw [← h.2] at he; simp at he; exact eof_facts.2.2.2.2.2.2.2.1 he.1
    · subst hb
      unfold stFieldLoop at h
      simp only [stAcc_dot] at h
      by_cases hdd : ([d] : Tok) = [cDot]
      · have hd' : d = cDot := by simpa using hdd
        subst hd'
        simp only [if_true] at h
        have hn : nextSt .fld cDot = .fld := by decide
        rw [hn] at hvr
        rcases validE_cases hvr with hts | ⟨d2, r2, hts, hd2, _⟩ | ⟨t, rest0, hts, ht, hb0⟩
        · subst hts
          have : stCheckIdent eofTok = false := by decide
          simp [this] at h
        · subst hts
          have : stCheckIdent [d2] = false := by
            rw [stCheckIdent_eq _ (by simp)]; exact (delim_not_ident .fld d2 hd2).1
          simp [this] at h
        · subst hts
          simp only at h
          by_cases hi : stCheckIdent t = true
          · simp only [hi, if_true] at h
            obtain ⟨ps, h1, h2, h3, h4, h5⟩ := ih rest0 (by simp at hl; omega) (comps ++ [t]) r rest hb0 h
            refine ⟨t :: ps, by rw [h1]; simp, ?_, by rw [h3]; simp, h4, h5⟩
            simp only [List.all_cons, Bool.and_eq_true]
            exact ⟨by rw [← stCheckIdent_eq t (isText_ne_nil ht)]; exact hi, h2⟩
          · simp [hi] at h
      · simp only [hdd, if_false, Except.ok.injEq, Prod.mk.injEq] at h
        refine ⟨[], by simp [h.1], by simp, by simp [h.2], by rw [← h.2]; exact .inr ⟨d, r0, rfl, hd, hvr⟩, ?_⟩
        intro r' he; rw [← h.2] at he; simp at he; exact hdd (by simp [he.1])

theorem stFieldPath_fld (ts : List Tok) (path : List Bytes) (rest : List Tok)
    (hv : ValidE .fld ts) (h : stFieldPath ts = .ok (path, rest)) :
    path ≠ [] ∧ path.all identB = true ∧ ts = inter [cDot] path ++ rest ∧ Bdry .fld rest ∧ (∀ r', rest ≠ [cDot] :: r') := by
  unfold stFieldPath at h
  rcases validE_cases hv with hts | ⟨d, r, hts, hd, _⟩ | ⟨t, rest0, hts, ht, hb⟩
  · subst hts
    simp [stAcc_ident _ _ eof_facts.2.2.2.2.2.1, eof_facts.2.2.2.2.1] at h
  · subst hts
    obtain ⟨h1, _, h3⟩ := delim_not_ident .fld d hd
    simp [stAcc_ident _ _ h3, h1] at h
  · subst hts
    simp only [stAcc_ident _ _ (isText_ne_nil ht)] at h
    by_cases hi : identB t = true
    · simp only [hi, if_true, tryP_ok] at h
      obtain ⟨ps, h1, h2, h3, h4, h5⟩ := stFieldLoop_fld rest0.length rest0 (Nat.le_refl _) [t] path rest hb h
      refine ⟨by rw [h1]; simp, ?_, ?_, h4, h5⟩
      · rw [h1]; simp only [List.singleton_append, List.all_cons, Bool.and_eq_true]; exact ⟨hi, h2⟩
      · rw [h1, h3]; simp [inter_cons]
    · simp [hi] at h

/-! ### one variable, one segment, the segment list at top level (state `seg`) -/

theorem stVariable_seg (f : Nat) (ts : List Tok) (s : PSeg) (m : Bool) (rest : List Tok)
    (hv : ValidE .seg ts) (h : stVariable f ts = .ok ((s, m), rest)) :
    ∃ (p : List Bytes) (inner : Option (List ISeg)), s = (Seg.var p inner).emb ∧ (Seg.var p inner).wfB false = true ∧
      m = (Seg.var p inner).isMulti ∧ ts = (Seg.var p inner).toks ++ rest ∧ ValidE .seg rest := by
  cases f with
  | zero => simp [stVariable] at h
  | succ f =>
    rcases validE_cases hv with hts | ⟨d, r, hts, hd, hvr⟩ | ⟨t, rest0, hts, ht, hb⟩
    · subst hts
      simp [stVariable, stAcc_lbrace, eof_facts.2.2.2.1] at h
    · subst hts
      simp only [stVariable, stAcc_lbrace] at h
      by_cases hdl : ([d] : Tok) = [cLBrace]
      · have hd' : d = cLBrace := by simpa using hdl
        subst hd'
        simp only [if_true, tryP_ok] at h
        have hn : nextSt .seg cLBrace = .fld := by decide
        rw [hn] at hvr
        cases hfp : stFieldPath r with
        | error e => cases e <;> simp [hfp, tryP] at h
        | ok pr =>
          obtain ⟨path, ts1⟩ := pr
          simp only [hfp, tryP_ok] at h
          obtain ⟨hp1, hp2, hp3, hp4, hp5⟩ := stFieldPath_fld r path ts1 hvr hfp
          have hpne : path.isEmpty = false := by
            cases path with
            | nil => exact absurd rfl hp1
            | cons _ _ => rfl
          rcases hp4 with hb1 | ⟨d1, r1, hb1, hd1, hvr1⟩
          · subst hb1
            simp [stAcc_eq, eof_facts.2.2.2.2.2.2.2.2.1, stAcc_rbrace, eof_facts.2.2.2.2.2.2.2.2.2] at h
          · subst hb1
            simp only [stAcc_eq] at h
            by_cases hde : ([d1] : Tok) = [cEq]
            · have hd1' : d1 = cEq := by simpa using hde
              subst hd1'
              simp only [if_true, tryP_ok] at h
              have hn2 : nextSt .fld cEq = .nest := by decide
              rw [hn2] at hvr1
              cases hss : stSegments f [] r1 with
              | error e => cases e <;> simp [hss, tryP] at h
              | ok pr2 =>
                obtain ⟨⟨segs, multi⟩, ts2⟩ := pr2
                simp only [hss, tryP_ok] at h
                obtain ⟨is, i1, i2, i3, i4, i5, i6, i7⟩ := stSegments_nest f [] r1 segs multi ts2 hvr1 hss
                rcases i7 with hb2 | ⟨d2, r2, hb2, hd2, hvr2⟩
                · subst hb2
                  simp [stAcc_rbrace, eof_facts.2.2.2.2.2.2.2.2.2] at h
                · subst hb2
                  simp only [stAcc_rbrace] at h
                  by_cases hdr : ([d2] : Tok) = [cRBrace]
                  · have hd2' : d2 = cRBrace := by simpa using hdr
                    subst hd2'
                    simp only [if_true, tryP_ok, Except.ok.injEq, Prod.mk.injEq] at h
                    have hn3 : nextSt .nest cRBrace = .seg := by decide
                    rw [hn3] at hvr2
                    have hine : is.isEmpty = false := by
                      cases is with
                      | nil => exact absurd rfl i1
                      | cons _ _ => rfl
                    refine ⟨path, some is, ?_, ?_, ?_, ?_, by rw [← h.2]; exact hvr2⟩
                    · rw [← h.1.1, i2]; simp [Seg.emb]
                    · simp [Seg.wfB, innerWfB, hpne, hp2, hine, i3, i4]
                    · rw [← h.1.2, i5]; simp [Seg.isMulti]
                    · rw [hp3, i6, ← h.2]; simp [Seg.toks]
                  · simp [hdr] at h
            · simp only [hde, if_false, tryP_reject, stAcc_rbrace] at h
              by_cases hdr : ([d1] : Tok) = [cRBrace]
              · have hd1' : d1 = cRBrace := by simpa using hdr
                subst hd1'
                simp only [if_true, tryP_ok, Except.ok.injEq, Prod.mk.injEq] at h
                have hn3 : nextSt .fld cRBrace = .seg := by decide
                rw [hn3] at hvr1
                refine ⟨path, none, ?_, ?_, ?_, ?_, by rw [← h.2]; exact hvr1⟩
                · rw [← h.1.1]; simp [Seg.emb]
                · simp [Seg.wfB, hpne, hp2]
                · rw [← h.1.2]; simp [Seg.isMulti]
                · rw [hp3, ← h.2]; simp [Seg.toks]
              · simp [hdr] at h
      · simp [hdl] at h
    · subst hts
      have : t ≠ [cLBrace] := isText_ne_delim ht cLBrace (by decide)
      simp [stVariable, stAcc_lbrace, this] at h

theorem stSegment_top (f : Nat) (ts : List Tok) (s : PSeg) (m : Bool) (rest : List Tok)
    (hv : ValidE .seg ts) (h : stSegment f ts = .ok ((s, m), rest)) :
    ∃ sg : Seg, s = sg.emb ∧ sg.wfB false = true ∧ m = sg.isMulti ∧ ts = sg.toks ++ rest ∧ ValidE .seg rest ∧
      (sg.isVar = false → Bdry .seg rest) := by
  cases f with
  | zero => simp [stSegment] at h
  | succ f =>
    have hvar : ∀ r, stVariable f ts = .ok r → r = ((s, m), rest) →
        ∃ sg : Seg, s = sg.emb ∧ sg.wfB false = true ∧ m = sg.isMulti ∧ ts = sg.toks ++ rest ∧ ValidE .seg rest ∧
          (sg.isVar = false → Bdry .seg rest) := by
      intro r hr he
      subst he
      obtain ⟨p, inner, h1, h2, h3, h4, h5⟩ := stVariable_seg f ts s m rest hv hr
      exact ⟨.var p inner, h1, h2, h3, h4, h5, by simp [Seg.isVar]⟩
    rcases validE_cases hv with hts | ⟨d, r, hts, hd, hvr⟩ | ⟨t, rest0, hts, ht, hb⟩
    · subst hts
      obtain ⟨e1, e2, e3, e4, _⟩ := eof_facts
      simp only [stSegment, stAcc_star, e1, if_false, tryP_reject, stAcc_dstar, e2, stAcc_literal, e3,
        Bool.false_eq_true] at h
      exact hvar _ h rfl
    · subst hts
      have hd' : d = cSlash ∨ d = cLBrace ∨ d = cRBrace := by
        rcases delim_seg hd with h | h
        · exact .inl h
        · exact .inr (.inl h)
      obtain ⟨e1, e2, e3, _, _⟩ := special_tok_facts d hd'
      simp only [stSegment, stAcc_star, e1, if_false, tryP_reject, stAcc_dstar, e2, stAcc_literal, e3,
        Bool.false_eq_true] at h
      exact hvar _ h rfl
    · subst hts
      simp only [stSegment, stAcc_star, stAcc_dstar, stAcc_literal] at h
      by_cases h1 : t = [cStar]
      · simp only [h1, if_true, tryP_ok, Except.ok.injEq, Prod.mk.injEq] at h
        exact ⟨.wild, h.1.1.symm, rfl, h.1.2.symm, by rw [h1, ← h.2]; rfl, by rw [← h.2]; exact hb.valid,
          fun _ => by rw [← h.2]; exact hb⟩
      · simp only [h1, if_false, tryP_reject] at h
        by_cases h2 : t = [cStar, cStar]
        · simp only [h2, if_true, tryP_ok, Except.ok.injEq, Prod.mk.injEq] at h
          exact ⟨.deep, h.1.1.symm, rfl, h.1.2.symm, by rw [h2, ← h.2]; rfl, by rw [← h.2]; exact hb.valid,
            fun _ => by rw [← h.2]; exact hb⟩
        · simp only [h2, if_false, tryP_reject] at h
          by_cases h3 : pcharsB t = true
          · simp only [h3, if_true, tryP_ok, Except.ok.injEq, Prod.mk.injEq] at h
            have hne : t.isEmpty = false := by
              cases t with
              | nil => exact absurd rfl (isText_ne_nil ht)
              | cons _ _ => rfl
            exact ⟨.lit t, h.1.1.symm, by simp [Seg.wfB, literalB, hne, h3, h1, h2], h.1.2.symm, by rw [← h.2]; rfl,
              by rw [← h.2]; exact hb.valid, fun _ => by rw [← h.2]; exact hb⟩
          · simp only [h3, Bool.false_eq_true, if_false, tryP_reject] at h
            exact hvar _ h rfl

theorem stSegments_top_sound : ∀ (f : Nat) (acc : List PSeg) (ts : List Tok) (segs : List PSeg) (m : Bool) (rest : List Tok),
    ValidE .seg ts → stSegments f acc ts = .ok ((segs, m), rest) →
    ∃ sgs : List Seg, sgs ≠ [] ∧ segs = acc ++ sgs.map Seg.emb ∧ sgs.all (Seg.wfB false) = true ∧
      onlyLast Seg.isMulti sgs = true ∧ ts = segsToks sgs ++ rest ∧ ValidE .seg rest ∧
      (∀ L, sgs.getLast? = some L → L.isVar = false → Bdry .seg rest) := by
  intro f
  induction f with
  | zero => intro acc ts segs m rest _ h; simp [stSegments] at h
  | succ f ih =>
    intro acc ts segs m rest hv h
    simp only [stSegments] at h
    cases hs : stSegment f ts with
    | error e => cases e <;> simp [hs, tryP] at h
    | ok r =>
      obtain ⟨⟨s, ms⟩, ts'⟩ := r
      simp only [hs, tryP_ok] at h
      obtain ⟨sg, g1, g2, g3, g4, g5, g6⟩ := stSegment_top f ts s ms ts' hv hs
      have single : ts' = rest → segs = acc ++ [s] →
          ∃ sgs : List Seg, sgs ≠ [] ∧ segs = acc ++ sgs.map Seg.emb ∧ sgs.all (Seg.wfB false) = true ∧
            onlyLast Seg.isMulti sgs = true ∧ ts = segsToks sgs ++ rest ∧ ValidE .seg rest ∧
            (∀ L, sgs.getLast? = some L → L.isVar = false → Bdry .seg rest) := by
        intro e1 e2
        subst e1
        refine ⟨[sg], by simp, by rw [e2, g1]; simp, by simp [g2], by simp [onlyLast], by rw [g4]; simp [segsToks], g5, ?_⟩
        intro L hL hnv
        simp at hL; subst hL
        exact g6 hnv
      by_cases hms : ms = true
      · simp only [hms, if_true, Except.ok.injEq, Prod.mk.injEq] at h
        exact single h.2 h.1.1.symm
      · have hnm : sg.isMulti = false := by rw [← g3]; simpa using hms
        simp only [hms, Bool.false_eq_true, if_false] at h
        rcases validE_cases g5 with hts | ⟨d, r, hts, hd, hvr⟩ | ⟨t, rest0, hts, ht, hb⟩
        · subst hts
          simp only [stAcc_slash, eof_facts.2.2.2.2.2.2.1, if_false, tryP_reject, Except.ok.injEq, Prod.mk.injEq] at h
          exact single h.2 h.1.1.symm
        · subst hts
          simp only [stAcc_slash] at h
          by_cases hds : ([d] : Tok) = [cSlash]
          · have hd' : d = cSlash := by simpa using hds
            subst hd'
            simp only [if_true, tryP_ok] at h
            have hn : nextSt .seg cSlash = .seg := by decide
            rw [hn] at hvr
            obtain ⟨sgs, h1, h2, h3, h4, h5, h6, h7⟩ := ih (acc ++ [s]) r segs m rest hvr h
            obtain ⟨j, js, rfl⟩ : ∃ j js, sgs = j :: js := by
              cases sgs with
              | nil => exact absurd rfl h1
              | cons a b => exact ⟨a, b, rfl⟩
            refine ⟨sg :: j :: js, by simp, ?_, ?_, ?_, ?_, h6, ?_⟩
            · rw [h2, g1]; simp
            · simp only [List.all_cons, Bool.and_eq_true] at h3 ⊢; exact ⟨g2, h3⟩
            · simp only [onlyLast, Bool.and_eq_true, Bool.not_eq_true']; exact ⟨hnm, h4⟩
            · rw [g4, h5]; simp [segsToks]
            · intro L hL; rw [List.getLast?_cons_cons] at hL; exact h7 L hL
          · simp only [hds, if_false, tryP_reject, Except.ok.injEq, Prod.mk.injEq] at h
            exact single h.2 h.1.1.symm
        · subst hts
          have : t ≠ [cSlash] := isText_ne_delim ht cSlash (by decide)
          simp only [stAcc_slash, this, if_false, tryP_reject, Except.ok.injEq, Prod.mk.injEq] at h
          exact single h.2 h.1.1.symm

end GB.C20
