import GB.C20.Chars
/-
  C20 — the specification: the path-template grammar of internal/httprule/httprule.bnf.

  The grammar is written the way a grammar is read: an abstract syntax (`Tmpl`), the well-formedness
  conditions of the BNF on it (`Tmpl.WF`), and the concrete syntax it prints to (`Tmpl.render`).
  A byte string is derivable iff it is the print of a well-formed template:

      Derives s t  :=  t.WF ∧ t.render = s

  Reading of the BNF (docs/notes/C20.md, DESIGN.md 5.20):
  * `LITERAL` as a path segment is `1*UriPchar` and is not one of the reserved words `*`, `**`
    (the BNF's `*UriPchar` would make every empty segment a literal and `**` a literal that may
    stand in the middle of a path; both parsers and http.proto read it as above). The root
    template "/" (optionally with a verb) is the one template without segments.
  * Segments inside a variable are `*`, `**`, LITERAL — a variable cannot contain a variable
    (http.proto; the BNF's `SingleSegment` inside `SingleSegments` is read without `Variable`).
  * `MultiSegments = [SingleSegments "/"] MultiSegment` (the BNF omits the "/" by mistake).
  * `:` is both a pchar and the verb separator; the BNF is ambiguous there. The reading is the one of
    http.proto / grpc-gateway: when the last segment is not a variable, the *last* colon of the last
    segment starts the verb (so the verb has no colon, and a last literal without verb has none);
    after a closing `}` the verb is everything after the colon. `Verb = ":" *UriPchar`.
  `relaxed = true` drops the one restriction the gwbased parser does not implement (`**` only at the
  very end); it is used to state what gwbased rejects, never for what it must accept.
-/
namespace GB.C20
open GB

/-! ### lexical classes -/

/-- `*UriPchar` -/
inductive PChars : Bytes → Prop
  | nil : PChars []
  | byte {c : UInt8} {r : Bytes} : isPcharByte c = true → PChars r → PChars (c :: r)
  | pct {h1 h2 : UInt8} {r : Bytes} : isHexDigit h1 = true → isHexDigit h2 = true → PChars r → PChars (cPct :: h1 :: h2 :: r)

/-- decision procedure for `PChars` (spec side) -/
def pcharsB : Bytes → Bool
  | [] => true
  | c :: r =>
    if isPcharByte c then pcharsB r
    else if c == cPct then
      match r with
      | h1 :: h2 :: r' => isHexDigit h1 && isHexDigit h2 && pcharsB r'
      | _ => false
    else false

/-- `IDENT = (ALPHA / "_") *(ALPHA / DIGIT / "_")` -/
def identB : Bytes → Bool
  | [] => false
  | c :: r => isIdentStart c && r.all isIdentByte

/-- `LITERAL` as a segment -/
def literalB (l : Bytes) : Bool := !l.isEmpty && pcharsB l && l != [cStar] && l != [cStar, cStar]

/-! ### abstract syntax -/

/-- segment inside a variable -/
inductive ISeg where
  | wild
  | deep
  | lit (l : Bytes)
  deriving DecidableEq, Repr

inductive Seg where
  | wild
  | deep
  | lit (l : Bytes)
  /-- `{path}` when `inner = none`, `{path=inner}` otherwise -/
  | var (path : List Bytes) (inner : Option (List ISeg))
  deriving DecidableEq, Repr

structure Tmpl where
  segs : List Seg
  /-- `none`: no `:`; `some v`: `:` followed by `v` -/
  verb : Option Bytes
  deriving DecidableEq, Repr

/-! ### concrete syntax -/

def ISeg.render : ISeg → Bytes
  | .wild => [cStar]
  | .deep => [cStar, cStar]
  | .lit l => l

def Seg.render : Seg → Bytes
  | .wild => [cStar]
  | .deep => [cStar, cStar]
  | .lit l => l
  | .var path none => cLBrace :: joinWith cDot path ++ [cRBrace]
  | .var path (some inner) => cLBrace :: joinWith cDot path ++ cEq :: joinWith cSlash (inner.map ISeg.render) ++ [cRBrace]

def renderVerb : Option Bytes → Bytes
  | none => []
  | some v => cColon :: v

def Tmpl.render (t : Tmpl) : Bytes :=
  cSlash :: joinWith cSlash (t.segs.map Seg.render) ++ renderVerb t.verb

/-! ### well-formedness (the side conditions of the BNF) -/

def ISeg.isDeep : ISeg → Bool
  | .deep => true
  | _ => false

def ISeg.wfB : ISeg → Bool
  | .lit l => literalB l
  | _ => true

/-- no element but the last satisfies `p` -/
def onlyLast {α : Type} (p : α → Bool) : List α → Bool
  | [] => true
  | [_] => true
  | x :: y :: r => !p x && onlyLast p (y :: r)

def innerWfB (relaxed : Bool) (inner : List ISeg) : Bool :=
  !inner.isEmpty && inner.all ISeg.wfB && (relaxed || onlyLast ISeg.isDeep inner)

/-- `**`, or a variable whose pattern ends in `**` (MultiSegment / MultiSegVariable) -/
def Seg.isMulti : Seg → Bool
  | .deep => true
  | .var _ (some inner) => inner.any ISeg.isDeep
  | _ => false

def Seg.wfB (relaxed : Bool) : Seg → Bool
  | .lit l => literalB l
  | .var path inner =>
    !path.isEmpty && path.all identB &&
    (match inner with
     | none => true
     | some is => innerWfB relaxed is)
  | _ => true

def Seg.isVar : Seg → Bool
  | .var _ _ => true
  | _ => false

def hasColon (b : Bytes) : Bool := b.contains cColon

/-- the verb conditions (reading of `:` described above) -/
def verbWfB (segs : List Seg) (verb : Option Bytes) : Bool :=
  match segs.getLast? with
  | some (.var _ _) =>
    (match verb with
     | none => true
     | some v => pcharsB v)
  | last =>
    (match verb with
     | none => (match last with
                | some (.lit l) => !hasColon l
                | _ => true)
     | some v => pcharsB v && !hasColon v)

def Tmpl.wfB (relaxed : Bool) (t : Tmpl) : Bool :=
  t.segs.all (Seg.wfB relaxed) && (relaxed || onlyLast Seg.isMulti t.segs) && verbWfB t.segs t.verb

/-- `Template = "/" Segments [Verb]` with the BNF's side conditions -/
def Tmpl.WF (t : Tmpl) : Prop := t.wfB false = true

/-- **The grammar**: `s` is derivable, with the abstract syntax `t`. -/
def Derives (s : Bytes) (t : Tmpl) : Prop := t.WF ∧ t.render = s

/-- the language of the relaxed grammar (only used to state rejection by gwbased) -/
def DerivesRelaxed (s : Bytes) (t : Tmpl) : Prop := t.wfB true = true ∧ t.render = s

/-- what the grammar assigns: the verb … -/
def Tmpl.verbStr (t : Tmpl) : Bytes :=
  match t.verb with
  | none => []
  | some v => v

/-- … and the field paths of the variables, in order -/
def Tmpl.fields (t : Tmpl) : List Bytes :=
  t.segs.filterMap (fun s => match s with
    | .var path _ => some (joinWith cDot path)
    | _ => none)

/-! ### recogniser

  An independent, character-level reading of the same grammar: cut the body at the `/` outside
  braces, cut the verb off the last piece, read every piece on its own. The candidate is then
  checked against `wfB` and `render`, so a `some` answer is a derivation by construction
  (`specParse_sound`). -/

/-- cut at the `/` outside braces -/
def splitTop : Bool → Bytes → List Bytes
  | _, [] => [[]]
  | inVar, c :: r =>
    if !inVar && c == cSlash then [] :: splitTop false r
    else
      let inVar' := if c == cLBrace then true else if c == cRBrace then false else inVar
      match splitTop inVar' r with
      | [] => [[c]]
      | x :: xs => (c :: x) :: xs

def readISeg (b : Bytes) : ISeg :=
  if b == [cStar] then .wild else if b == [cStar, cStar] then .deep else .lit b

/-- read one top-level piece that is not followed by a verb -/
def readSeg (b : Bytes) : Option Seg :=
  match b with
  | c :: r =>
    if c == cLBrace then
      match r.getLast? with
      | some e =>
        if e == cRBrace then
          let content := r.dropLast
          match splitFirst cEq content with
          | none => some (.var (splitOnByte cDot content) none)
          | some (fp, pat) => some (.var (splitOnByte cDot fp) (some ((splitOnByte cSlash pat).map readISeg)))
        else none
      | none => none
    else if b == [cStar] then some .wild
    else if b == [cStar, cStar] then some .deep
    else some (.lit b)
  | [] => none

/-- cut the verb off the last piece: `(segment text, verb)` -/
def cutVerb (last : Bytes) : Bytes × Option Bytes :=
  match last with
  | c :: _ =>
    if c == cLBrace then
      match splitFirst cRBrace last with
      | some (v, rest) =>
        (match rest with
         | c' :: verb => if c' == cColon then (v ++ [cRBrace], some verb) else (last, none)
         | [] => (last, none))
      | none => (last, none)
    else
      match splitLast cColon last with
      | some (b, v) => (b, some v)
      | none => (last, none)
  | [] => ([], none)

def allSome {α : Type} : List (Option α) → Option (List α)
  | [] => some []
  | none :: _ => none
  | some a :: r => match allSome r with
    | some as => some (a :: as)
    | none => none

/-- candidate abstract syntax of `s` -/
def specCandidate (s : Bytes) : Option Tmpl :=
  match s with
  | c :: body =>
    if c != cSlash then none
    else
      let pieces := splitTop false body
      match pieces.getLast? with
      | none => none
      | some last =>
        let (segText, verb) := cutVerb last
        if pieces.length == 1 && segText.isEmpty then some { segs := [], verb := verb }
        else
          match allSome ((pieces.dropLast ++ [segText]).map readSeg) with
          | some segs => some { segs := segs, verb := verb }
          | none => none
  | [] => none

def specParseWith (relaxed : Bool) (s : Bytes) : Option Tmpl :=
  match specCandidate s with
  | some t => if t.wfB relaxed && t.render == s then some t else none
  | none => none

/-- the recogniser of the grammar, with the abstract syntax -/
def specParse (s : Bytes) : Option Tmpl := specParseWith false s

def inGrammar (s : Bytes) : Bool := (specParse s).isSome

/-! ### the classes of strings the property wants rejected (each decidable) -/

def noLeadingSlash (s : Bytes) : Bool :=
  match s with
  | c :: _ => c != cSlash
  | [] => true

/-- bytes that can occur in a template at all: pchar bytes, `%`, `/`, `{`, `}` -/
def isTemplateByte (c : UInt8) : Bool := isPcharByte c || c == cPct || c == cSlash || c == cLBrace || c == cRBrace

def illegalChar (s : Bytes) : Bool := s.any (fun c => !isTemplateByte c)

/-- a `%` that is not followed by two hex digits (an ill-formed pchar) -/
def badPercent : Bytes → Bool
  | [] => false
  | c :: r =>
    (c == cPct && (match r with
      | h1 :: h2 :: _ => !(isHexDigit h1 && isHexDigit h2)
      | _ => true)) || badPercent r

/-- brace scan: `none` = unbalanced or nested; `some d` = depth at the end -/
def braceScan : Bool → Bytes → Option Bool
  | d, [] => some d
  | d, c :: r =>
    if c == cLBrace then (if d then none else braceScan true r)
    else if c == cRBrace then (if d then braceScan false r else none)
    else braceScan d r

/-- unbalanced or nested variable braces -/
def badBraces (s : Bytes) : Bool := braceScan false s != some false

/-- the text between a `{` and the next `=` or `}` (or the end) is not a `FieldPath` -/
def badFieldPathFrom : Bytes → Bool
  | [] => false
  | c :: r =>
    (if c == cLBrace then
      let fp := r.takeWhile (fun x => x != cEq && x != cRBrace)
      !((splitOnByte cDot fp).all identB)
    else false) || badFieldPathFrom r

def badFieldPath (s : Bytes) : Bool := badFieldPathFrom s

/-- scanner state of `emptySegScan`: 0 = between top-level segments, 1 = in a field path, 2 = in a variable pattern -/
abbrev ScanSt := Nat

/-- `atStart`: a segment has to start at this position -/
def emptySegScan : ScanSt → Bool → Bytes → Bool
  | _, atStart, [] => atStart
  | st, atStart, c :: r =>
    if st == 1 then
      (if c == cEq then emptySegScan 2 true r
       else if c == cRBrace then emptySegScan 0 false r
       else emptySegScan 1 false r)
    else if c == cSlash then atStart || emptySegScan st true r
    else if c == cRBrace && st == 2 then atStart || emptySegScan 0 false r
    else if c == cLBrace && st == 0 then emptySegScan 1 false r
    else emptySegScan st false r

/-- an empty path segment (`//`, `/a/`, `/{a=/b}`, `/{a=b/}`, `/{a=}`); the root template "/" has none -/
def emptySegment (s : Bytes) : Bool :=
  match s with
  | c :: body => c == cSlash && !body.isEmpty && emptySegScan 0 true body
  | [] => false

/-! ### matching a path (for the trie clause) -/

inductive MKey where
  | lit (l : Bytes)
  | wild
  | multi
  deriving DecidableEq, Repr

/-- `*` matches any one component, `**` (last) any remaining components, a literal itself -/
def matchKeys : List MKey → List Bytes → Bool
  | [], cs => cs.isEmpty
  | .multi :: ks, _ => ks.isEmpty
  | .lit l :: ks, c :: cs => l == c && matchKeys ks cs
  | .lit _ :: _, [] => false
  | .wild :: ks, _ :: cs => matchKeys ks cs
  | .wild :: _, [] => false

/-- remove `":" ++ verb` from the end of the last component (nothing to remove for the empty verb) -/
def stripVerb (verb : Bytes) : List Bytes → Option (List Bytes)
  | [] => none
  | [c] =>
    if verb.isEmpty then some [c]
    else if (cColon :: verb).isSuffixOf c then some [c.take (c.length - (verb.length + 1))] else none
  | c :: d :: r => match stripVerb verb (d :: r) with
    | some cs => some (c :: cs)
    | none => none

/-- A template with key sequence `keys` and verb `verb` matches the path whose components
    (split at "/", leading "/" removed) are `comps`. -/
def matchesB (keys : List MKey) (verb : Bytes) (comps : List Bytes) : Bool :=
  match stripVerb verb comps with
  | some cs => matchKeys keys cs
  | none => false

/-- append `":" ++ verb` to the last component (nothing for the empty verb) -/
def addVerb (verb : Bytes) : List Bytes → List Bytes
  | [] => []
  | [c] => [if verb.isEmpty then c else c ++ cColon :: verb]
  | c :: d :: r => c :: addVerb verb (d :: r)

/-- **Matching**: the path components are components the keys match, with the verb at the very end. -/
def Matches (keys : List MKey) (verb : Bytes) (comps : List Bytes) : Prop :=
  ∃ cs, matchKeys keys cs = true ∧ comps = addVerb verb cs

def ISeg.mkey : ISeg → MKey
  | .wild => .wild
  | .deep => .multi
  | .lit l => .lit l

def Seg.mkeys : Seg → List MKey
  | .wild => [.wild]
  | .deep => [.multi]
  | .lit l => [.lit l]
  | .var _ none => [.wild]
  | .var _ (some inner) => inner.map ISeg.mkey

/-- key sequence of a template; the root template is the single empty literal -/
def Tmpl.mkeys (t : Tmpl) : List MKey :=
  if t.segs.isEmpty then [.lit []] else t.segs.flatMap Seg.mkeys

end GB.C20
