import GB.C20.ProofsTrie
/- C20 — completeness of the strict trie (`dfs`, `dfsLeaf`, `Trie.find`) for template sets in which no child of a
   trie node shadows a sibling (round 6). The side condition is stated on the added entries, not on trie nodes. -/
namespace GB.C20
open GB

set_option linter.unusedSimpArgs false
set_option linter.unusedVariables false

/-- Two key paths, at the first position where they differ, differ in two literals (or one is a prefix of the
    other): the trie node where they part has no `*` / `**` child next to another child. -/
def divergeOk : List Key → List Key → Bool
  | [], _ => true
  | _ :: _, [] => true
  | a :: as, b :: bs =>
    if a == b then divergeOk as bs
    else match a, b with
      | .lit _, .lit _ => true
      | _, _ => false

/-- `e1` = `π/l:verb`, and `e2` passes through the literal child `"l:verb"` of the same node `π`: the path `π/l:verb`
    walks into that literal child and never tries the verb split. -/
def verbShadow (e1 e2 : Entry) : Bool :=
  match e1.keys.getLast? with
  | some (.lit l) => !e1.verb.isEmpty && (e1.keys.dropLast ++ [Key.lit (l ++ cColon :: e1.verb)]).isPrefixOf e2.keys
  | _ => false

/-- **The side condition** (decidable, on the set of added templates): any two templates of the same method part in
    two literals, and no literal child spells `literal:verb` of a sibling with a verb. -/
def Trie.unshadowed (t : Trie) : Bool :=
  t.all fun e1 => t.all fun e2 =>
    e1.method != e2.method || (divergeOk e1.keys e2.keys && !verbShadow e1 e2)

/-- declarative key matching in which `**` takes at least one component (what `dfs` can do: it reaches a `**` child
    only with a component in hand). `matchKeys` also lets `**` match zero components: see
    `C20_trie_multi_zero_fails`. -/
def matchKeys1 : List Key → List Bytes → Bool
  | [], cs => cs.isEmpty
  | .multi :: ks, cs => ks.isEmpty && !cs.isEmpty
  | .lit l :: ks, c :: cs => l == c && matchKeys1 ks cs
  | .lit _ :: _, [] => false
  | .wild :: ks, _ :: cs => matchKeys1 ks cs
  | .wild :: _, [] => false

def Matches1 (keys : List Key) (verb : Bytes) (comps : List Bytes) : Prop :=
  ∃ cs, matchKeys1 keys cs = true ∧ comps = addVerb verb cs

theorem matchKeys1_imp : ∀ (ks : List Key) (cs : List Bytes), matchKeys1 ks cs = true →
    matchKeys (ks.map Key.mkey) cs = true := by
  intro ks
  induction ks with
  | nil => intro cs h; simpa [matchKeys1, matchKeys] using h
  | cons k ks ih =>
    intro cs h
    cases k with
    | lit l =>
      cases cs with
      | nil => simp [matchKeys1] at h
      | cons c cs =>
        simp [matchKeys1] at h
        simp [Key.mkey, matchKeys, h.1, ih cs h.2]
    | wild =>
      cases cs with
      | nil => simp [matchKeys1] at h
      | cons c cs =>
        simp [matchKeys1] at h
        simp [Key.mkey, matchKeys, ih cs h]
    | multi =>
      simp [matchKeys1] at h
      simp [Key.mkey, matchKeys, h.1]

theorem Matches1.matches {keys : List Key} {verb : Bytes} {comps : List Bytes} (h : Matches1 keys verb comps) :
    Matches (keys.map Key.mkey) verb comps := by
  obtain ⟨cs, h1, h2⟩ := h
  exact ⟨cs, matchKeys1_imp keys cs h1, h2⟩

/-- the per-method entry list `dfs` works on satisfies the pairwise condition -/
def ExclL (es : List Entry) : Prop :=
  ∀ e1 ∈ es, ∀ e2 ∈ es, divergeOk e1.keys e2.keys = true ∧ verbShadow e1 e2 = false

theorem exclL_of_unshadowed (t : Trie) (hu : t.unshadowed = true) (m : Bytes) :
    ExclL (t.filter (fun e => e.method == m)) := by
  intro e1 h1 e2 h2
  have m1 := List.mem_filter.mp h1
  have m2 := List.mem_filter.mp h2
  unfold Trie.unshadowed at hu
  rw [List.all_eq_true] at hu
  have := hu e1 m1.1
  rw [List.all_eq_true] at this
  have := this e2 m2.1
  have e1m : e1.method = m := by simpa using m1.2
  have e2m : e2.method = m := by simpa using m2.2
  simp [e1m, e2m] at this
  exact this

theorem divergeOk_split : ∀ (π : List Key) (k1 k2 : Key) (r1 r2 : List Key),
    divergeOk (π ++ k1 :: r1) (π ++ k2 :: r2) = true → k1 ≠ k2 → ∃ a b, k1 = .lit a ∧ k2 = .lit b := by
  intro π
  induction π with
  | nil =>
    intro k1 k2 r1 r2 h hne
    simp only [List.nil_append, divergeOk] at h
    have : (k1 == k2) = false := by simpa using hne
    simp only [this] at h
    cases k1 <;> cases k2 <;> simp at h
    exact ⟨_, _, rfl, rfl⟩
  | cons x π ih =>
    intro k1 k2 r1 r2 h hne
    simp only [List.cons_append, divergeOk, beq_self_eq_true, if_true] at h
    exact ih k1 k2 r1 r2 h hne

theorem nodeExists_iff {es : List Entry} {π : List Key} :
    nodeExists es π = true ↔ ∃ e ∈ es, ∃ r, e.keys = π ++ r := by
  unfold nodeExists
  rw [List.any_eq_true]
  constructor
  · rintro ⟨e, he, hp⟩
    rw [List.isPrefixOf_iff_prefix] at hp
    obtain ⟨r, hr⟩ := hp
    exact ⟨e, he, r, hr.symm⟩
  · rintro ⟨e, he, r, hr⟩
    refine ⟨e, he, ?_⟩
    rw [List.isPrefixOf_iff_prefix]
    exact ⟨r, hr.symm⟩

/-- under the condition a node with a `*` / `**` child has no other child -/
theorem no_sibling {es : List Entry} (hx : ExclL es) {e : Entry} (he : e ∈ es) {π : List Key} {k : Key}
    {r : List Key} (hk : e.keys = π ++ k :: r) (k' : Key) (hne : k ≠ k')
    (hw : (∀ a, k ≠ .lit a) ∨ (∀ a, k' ≠ .lit a)) : nodeExists es (π ++ [k']) = false := by
  cases hn : nodeExists es (π ++ [k']) with
  | false => rfl
  | true =>
    exfalso
    obtain ⟨e2, he2, r2, hr2⟩ := nodeExists_iff.mp hn
    have hd := (hx e he e2 he2).1
    rw [hk, hr2] at hd
    simp only [List.append_assoc, List.singleton_append] at hd
    obtain ⟨a, b, h1, h2⟩ := divergeOk_split π k k' r r2 hd hne
    rcases hw with hw | hw
    · exact hw a h1
    · exact hw b h2

/-- under the condition the literal child `"l:verb"` does not exist next to the template `π/l:verb` -/
theorem no_verb_shadow {es : List Entry} (hx : ExclL es) {e : Entry} (he : e ∈ es) {π : List Key} {l : Bytes}
    (hk : e.keys = π ++ [.lit l]) (hv : e.verb ≠ []) :
    nodeExists es (π ++ [.lit (l ++ cColon :: e.verb)]) = false := by
  cases hn : nodeExists es (π ++ [.lit (l ++ cColon :: e.verb)]) with
  | false => rfl
  | true =>
    exfalso
    obtain ⟨e2, he2, r2, hr2⟩ := nodeExists_iff.mp hn
    have hd := (hx e he e2 he2).2
    unfold verbShadow at hd
    have hve : e.verb.isEmpty = false := by
      cases h : e.verb with
      | nil => exact absurd h hv
      | cons _ _ => rfl
    rw [hk] at hd
    simp only [List.getLast?_append, List.getLast?_singleton, Option.some_or, List.dropLast_concat, hve,
      Bool.not_false, Bool.true_and] at hd
    have : (π ++ [Key.lit (l ++ cColon :: e.verb)]).isPrefixOf e2.keys = true := by
      rw [List.isPrefixOf_iff_prefix]; exact ⟨r2, hr2.symm⟩
    rw [this] at hd
    exact absurd hd (by simp)

theorem find?_reverse_isSome {α} (p : α → Bool) (es : List α) (e : α) (he : e ∈ es) (hp : p e = true) :
    ∃ e', es.reverse.find? p = some e' := by
  have : (es.reverse.find? p).isSome = true := by
    rw [List.find?_isSome]
    exact ⟨e, by simpa using he, hp⟩
  exact Option.isSome_iff_exists.mp this

theorem leafTmpl_some {es : List Entry} {e : Entry} (he : e ∈ es) (hv : e.verb = []) :
    ∃ e', leafTmpl es e.keys = some e' := by
  unfold leafTmpl
  exact find?_reverse_isSome _ es e he (by simp [hv])

theorem verbTmpl_some {es : List Entry} {e : Entry} (he : e ∈ es) (hv : e.verb ≠ []) :
    ∃ e', verbTmpl es e.keys e.verb = some e' := by
  unfold verbTmpl
  have hve : e.verb.isEmpty = false := by
    cases h : e.verb with
    | nil => exact absurd h hv
    | cons _ _ => rfl
  simp only [hve, Bool.false_eq_true, if_false]
  exact find?_reverse_isSome _ es e he (by simp)

theorem dfsLeaf_plain_ne {es : List Entry} {e : Entry} (he : e ∈ es) (hv : e.verb = []) (orig : Bytes) (w : Bool) :
    dfsLeaf es e.keys orig w ≠ [] := by
  obtain ⟨e', h⟩ := leafTmpl_some he hv
  unfold dfsLeaf
  simp [h]

theorem dfsLeaf_wild_ne {es : List Entry} {e : Entry} (he : e ∈ es) (orig : Bytes)
    (hsuf : e.verb ≠ [] → (cColon :: e.verb) <:+ orig) : dfsLeaf es e.keys orig true ≠ [] := by
  by_cases hv : e.verb = []
  · exact dfsLeaf_plain_ne he hv orig true
  · unfold dfsLeaf
    cases hl : leafTmpl es e.keys with
    | some e' => simp
    | none =>
      simp only [Bool.not_true, Bool.false_eq_true, if_false]
      obtain ⟨e', h'⟩ := verbTmpl_some he hv
      intro hnil
      have hmem : e' ∈ (es.filter (fun e0 => e0.keys == e.keys && !e0.verb.isEmpty &&
          (cColon :: e0.verb).isSuffixOf orig)).filterMap (fun e0 => verbTmpl es e.keys e0.verb) := by
        rw [List.mem_filterMap]
        refine ⟨e, ?_, h'⟩
        rw [List.mem_filter]
        refine ⟨he, ?_⟩
        have hve : e.verb.isEmpty = false := by
          cases h : e.verb with
          | nil => exact absurd h hv
          | cons _ _ => rfl
        have hs : (cColon :: e.verb).isSuffixOf orig = true := by
          rw [List.isSuffixOf_iff_suffix]; exact hsuf hv
        simp [hve, hs]
      rw [hnil] at hmem
      simp at hmem

theorem colonSplits_mem : ∀ (l v : Bytes), (l, v) ∈ colonSplits (l ++ cColon :: v) := by
  intro l
  induction l with
  | nil => intro v; simp [colonSplits]
  | cons x l ih =>
    intro v
    simp only [List.cons_append, colonSplits, List.mem_append, List.mem_map]
    left
    exact ⟨(l, v), ih v, rfl⟩

/-! one step of `dfs` -/

theorem dfs_lit_step {es : List Entry} {orig : Bytes} {π : List Key} {c : Bytes} {rest : List Bytes} {w : Bool}
    (h : nodeExists es (π ++ [.lit c]) = true) :
    dfs es orig π (c :: rest) w = dfs es orig (π ++ [.lit c]) rest false := by
  simp [dfs, h]

theorem dfs_wild_step {es : List Entry} {orig : Bytes} {π : List Key} {c : Bytes} {rest : List Bytes} {w : Bool}
    (h1 : nodeExists es (π ++ [.lit c]) = false) (h2 : nodeExists es (π ++ [.wild]) = true)
    (h : dfs es orig (π ++ [.wild]) rest true ≠ []) : dfs es orig π (c :: rest) w ≠ [] := by
  simp only [dfs, h1, Bool.false_eq_true, if_false]
  split
  · simp
  · simp only [h2, if_true]; exact h

theorem dfs_multi_step {es : List Entry} {orig : Bytes} {π : List Key} {c : Bytes} {rest : List Bytes} {w : Bool}
    (h1 : nodeExists es (π ++ [.lit c]) = false) (h2 : nodeExists es (π ++ [.wild]) = false)
    (h3 : nodeExists es (π ++ [.multi]) = true)
    (h : dfsLeaf es (π ++ [.multi]) orig true ≠ []) : dfs es orig π (c :: rest) w ≠ [] := by
  simp only [dfs, h1, Bool.false_eq_true, if_false]
  split
  · simp
  · simp only [h2, h3, Bool.false_eq_true, if_false, if_true]; exact h

theorem dfs_verb_step {es : List Entry} {orig : Bytes} {π : List Key} {c : Bytes} {w : Bool}
    (h1 : nodeExists es (π ++ [.lit c]) = false) {l v : Bytes} (hm : (l, v) ∈ colonSplits c) {e' : Entry}
    (hv : verbTmpl es (π ++ [.lit l]) v = some e') : dfs es orig π [c] w ≠ [] := by
  simp only [dfs, h1, Bool.false_eq_true, if_false, List.isEmpty_nil, if_true]
  cases hf : (colonSplits c).findSome? (fun x => verbTmpl es (π ++ [.lit x.1]) x.2) with
  | some x => simp
  | none =>
    exfalso
    rw [List.findSome?_eq_none_iff] at hf
    have := hf (l, v) hm
    simp [hv] at this

theorem nodeExists_of_mem {es : List Entry} {e : Entry} (he : e ∈ es) {π r : List Key} (hk : e.keys = π ++ r) :
    nodeExists es π = true := nodeExists_iff.mpr ⟨e, he, r, hk⟩

theorem matchKeys1_nil_right : ∀ ks : List Key, matchKeys1 ks [] = true → ks = [] := by
  intro ks h
  cases ks with
  | nil => rfl
  | cons k ks => cases k <;> simp [matchKeys1] at h

/-- **`dfs` is complete under the condition**: started at a node `π` the witness template passes through, with the
    components the rest of its keys matches, it returns something. -/
theorem dfs_complete (es : List Entry) (hx : ExclL es) (e : Entry) (he : e ∈ es) (orig : Bytes)
    (hsuf : e.verb ≠ [] → (cColon :: e.verb) <:+ orig) :
    ∀ (cs : List Bytes), cs ≠ [] → ∀ (π ks : List Key) (w : Bool), e.keys = π ++ ks → matchKeys1 ks cs = true →
      dfs es orig π (addVerb e.verb cs) w ≠ [] := by
  intro cs
  induction cs with
  | nil => intro h; exact absurd rfl h
  | cons c rest ih =>
    intro _ π ks w hk hm
    cases ks with
    | nil => simp [matchKeys1] at hm
    | cons k ks =>
      have hkn : nodeExists es (π ++ [k]) = true :=
        nodeExists_of_mem he (r := ks) (by rw [hk]; simp)
      cases rest with
      | nil =>
        -- last component
        cases k with
        | lit l =>
          simp only [matchKeys1, Bool.and_eq_true, beq_iff_eq] at hm
          obtain ⟨hl, hks⟩ := hm
          have hks := matchKeys1_nil_right ks hks
          subst hl; subst hks
          by_cases hv : e.verb = []
          · simp only [addVerb, hv, List.isEmpty_nil, if_true]
            rw [dfs_lit_step hkn]
            simp only [dfs]
            rw [← hk]
            exact dfsLeaf_plain_ne he hv orig false
          · have hve : e.verb.isEmpty = false := by
              cases h : e.verb with
              | nil => exact absurd h hv
              | cons _ _ => rfl
            simp only [addVerb, hve, Bool.false_eq_true, if_false]
            obtain ⟨e', h'⟩ := verbTmpl_some he hv
            rw [hk] at h'
            exact dfs_verb_step (no_verb_shadow hx he hk hv) (colonSplits_mem l e.verb) h'
        | wild =>
          simp only [matchKeys1] at hm
          have hks := matchKeys1_nil_right ks hm
          subst hks
          simp only [addVerb]
          refine dfs_wild_step (no_sibling hx he hk _ (by simp) (Or.inl (by simp))) hkn ?_
          simp only [dfs]
          rw [← hk]
          exact dfsLeaf_wild_ne he orig hsuf
        | multi =>
          simp only [matchKeys1, Bool.and_eq_true, List.isEmpty_iff] at hm
          have hks := hm.1
          subst hks
          simp only [addVerb]
          refine dfs_multi_step (no_sibling hx he hk _ (by simp) (Or.inl (by simp)))
            (no_sibling hx he hk _ (by simp) (Or.inl (by simp))) hkn ?_
          rw [← hk]
          exact dfsLeaf_wild_ne he orig hsuf
      | cons d r =>
        simp only [addVerb]
        cases k with
        | lit l =>
          simp only [matchKeys1, Bool.and_eq_true, beq_iff_eq] at hm
          obtain ⟨hl, hks⟩ := hm
          subst hl
          rw [dfs_lit_step hkn]
          exact ih (by simp) (π ++ [.lit l]) ks false (by rw [hk]; simp) hks
        | wild =>
          simp only [matchKeys1] at hm
          refine dfs_wild_step (no_sibling hx he hk _ (by simp) (Or.inl (by simp))) hkn ?_
          exact ih (by simp) (π ++ [.wild]) ks true (by rw [hk]; simp) hm
        | multi =>
          simp only [matchKeys1, Bool.and_eq_true, List.isEmpty_iff] at hm
          have hks := hm.1
          subst hks
          refine dfs_multi_step (no_sibling hx he hk _ (by simp) (Or.inl (by simp)))
            (no_sibling hx he hk _ (by simp) (Or.inl (by simp))) hkn ?_
          rw [← hk]
          exact dfsLeaf_wild_ne he orig hsuf

theorem suffix_joinWith_last (sep : UInt8) : ∀ (xs : List Bytes) (c : Bytes), c <:+ joinWith sep (xs ++ [c]) := by
  intro xs
  induction xs with
  | nil => intro c; simp [joinWith]
  | cons x xs ih =>
    intro c
    cases hxs : xs ++ [c] with
    | nil => simp at hxs
    | cons y ys =>
      simp only [List.cons_append, hxs, joinWith]
      have := ih c
      rw [hxs] at this
      obtain ⟨t, ht⟩ := this
      exact ⟨x ++ sep :: t, by simp [ht]⟩

theorem find_complete (t : Trie) (hu : t.unshadowed = true) (m p : Bytes) (e : Entry) (he : e ∈ t)
    (hm : e.method = m) (hM : Matches1 e.keys e.verb (splitOnByte cSlash (trimLeadingSlash p))) :
    t.find m p ≠ [] := by
  obtain ⟨cs, h1, h2⟩ := hM
  have hef : e ∈ t.filter (fun e => e.method == m) := List.mem_filter.mpr ⟨he, by simp [hm]⟩
  unfold Trie.find
  simp only
  have hes : (t.filter (fun e => e.method == m)).isEmpty = false := by
    cases h : t.filter (fun e => e.method == m) with
    | nil => rw [h] at hef; simp at hef
    | cons _ _ => rfl
  simp only [hes, Bool.false_eq_true, if_false]
  generalize trimLeadingSlash p = p' at h2 ⊢
  have hj : joinWith cSlash (splitSlash p') = p' := join_split cSlash p'
  have hne : cs ≠ [] := by
    intro h; subst h
    simp only [addVerb] at h2
    exact splitOnByte_ne_nil cSlash p' h2
  have hsuf : e.verb ≠ [] → (cColon :: e.verb) <:+ p' := by
    intro hv
    have hve : e.verb.isEmpty = false := by
      cases h : e.verb with
      | nil => exact absurd h hv
      | cons _ _ => rfl
    obtain ⟨init, last, hil⟩ : ∃ init last, cs = init ++ [last] :=
      ⟨cs.dropLast, cs.getLast hne, (List.dropLast_concat_getLast hne).symm⟩
    rw [← hj]
    unfold splitSlash
    rw [h2, hil, addVerb_snoc]
    simp only [hve, Bool.false_eq_true, if_false]
    have := suffix_joinWith_last cSlash init (last ++ cColon :: e.verb)
    exact List.IsSuffix.trans ⟨last, rfl⟩ this
  have := dfs_complete _ (exclL_of_unshadowed t hu m) e hef p' hsuf cs hne [] e.keys false (by simp) h1
  unfold splitSlash
  rw [h2]
  exact this

theorem addVerb_length (v : Bytes) : ∀ cs : List Bytes, (addVerb v cs).length = cs.length := by
  intro cs
  induction cs with
  | nil => simp [addVerb]
  | cons c cs ih =>
    cases cs with
    | nil => simp [addVerb]
    | cons d r => simp [addVerb] at ih ⊢; exact ih

/-- `matchKeys1` is `matchKeys` plus "there are at least as many components as keys" (`**` is always the last key:
    it then takes at least one component) -/
theorem matchKeys1_of_length : ∀ (ks : List Key) (cs : List Bytes), matchKeys (ks.map Key.mkey) cs = true →
    ks.length ≤ cs.length → matchKeys1 ks cs = true := by
  intro ks
  induction ks with
  | nil => intro cs h _; simpa [matchKeys1, matchKeys] using h
  | cons k ks ih =>
    intro cs h hl
    cases k with
    | lit l =>
      cases cs with
      | nil => simp [Key.mkey, matchKeys] at h
      | cons c cs =>
        simp [Key.mkey, matchKeys] at h
        simp at hl
        simp [matchKeys1, h.1, ih cs h.2 hl]
    | wild =>
      cases cs with
      | nil => simp [Key.mkey, matchKeys] at h
      | cons c cs =>
        simp [Key.mkey, matchKeys] at h
        simp at hl
        simp [matchKeys1, ih cs h hl]
    | multi =>
      simp [Key.mkey, matchKeys] at h
      subst h
      cases cs with
      | nil => simp at hl
      | cons c cs => simp [matchKeys1]

theorem Matches1.of_matches {keys : List Key} {verb : Bytes} {comps : List Bytes}
    (h : Matches (keys.map Key.mkey) verb comps) (hl : keys.length ≤ comps.length) : Matches1 keys verb comps := by
  obtain ⟨cs, h1, h2⟩ := h
  refine ⟨cs, matchKeys1_of_length keys cs h1 ?_, h2⟩
  rw [h2, addVerb_length] at hl
  exact hl

end GB.C20
