import GB.C20.Model
import GB.C20.Spec
/- C20 — shared lemmas: lexical classes, the tokenizer on printed templates. -/
namespace GB.C20
open GB

set_option linter.unusedSimpArgs false
set_option linter.unusedVariables false

/-! ### pchars -/

theorem gwExpectPChars_eq : ∀ l : Bytes, gwExpectPChars 0 l = pcharsB l := by
  intro l
  fun_induction pcharsB l with
  | case1 => simp [gwExpectPChars]
  | case2 c r h ih => simp [gwExpectPChars, h, ih]
  | case3 c h hc h1 h2 r' ih =>
    have hc' : c = cPct := by simpa using hc
    subst hc'
    simp [gwExpectPChars, h, ih, Bool.and_assoc]
  | case4 c r h hc hr =>
    have hc' : c = cPct := by simpa using hc
    subst hc'
    cases r with
    | nil => simp [gwExpectPChars, h]
    | cons a r =>
      cases r with
      | nil => simp [gwExpectPChars, h]
      | cons b r => exact absurd rfl (hr a b r)
  | case5 c r h hc => simp [gwExpectPChars, h, hc]

theorem stCheckLiteral_eq : ∀ l : Bytes, stCheckLiteral l = pcharsB l := by
  intro l
  fun_induction pcharsB l with
  | case1 => simp [stCheckLiteral]
  | case2 c r h ih => unfold stCheckLiteral; simp [h, ih]
  | case3 c h hc h1 h2 r' ih =>
    have hc' : c = cPct := by simpa using hc
    subst hc'
    simp [stCheckLiteral, h, ih]
  | case4 c r h hc hr =>
    have hc' : c = cPct := by simpa using hc
    subst hc'
    cases r with
    | nil => simp [stCheckLiteral, h]
    | cons a r =>
      cases r with
      | nil => simp [stCheckLiteral, h]
      | cons b r => exact absurd rfl (hr a b r)
  | case5 c r h hc =>
    unfold stCheckLiteral
    have : c ≠ cPct := by simpa using hc
    simp [h, this]

theorem pcharsB_iff : ∀ l : Bytes, pcharsB l = true ↔ PChars l := by
  intro l
  constructor
  · intro h
    fun_induction pcharsB l with
    | case1 => exact .nil
    | case2 c r hc ih => exact .byte hc (ih h)
    | case3 c hc hp h1 h2 r' ih =>
      have hc' : c = cPct := by simpa using hp
      subst hc'
      simp [hc] at h
      exact .pct h.1.1 h.1.2 (ih h.2)
    | case4 c r hc hp hr =>
      exfalso
      cases r with
      | nil => simp [pcharsB, hc, hp] at h
      | cons a r =>
        cases r with
        | nil => simp [pcharsB, hc, hp] at h
        | cons b r => exact hr a b r rfl
    | case5 c r hc hp => simp [pcharsB, hc, hp] at h
  · intro h
    induction h with
    | nil => simp [pcharsB]
    | byte hc _ ih => unfold pcharsB; simp [hc, ih]
    | pct h1 h2 _ ih =>
      have : isPcharByte cPct = false := by decide
      simp [pcharsB, this, h1, h2, ih]

/-- bytes that never occur inside a pchar string -/
def isSpecial (c : UInt8) : Bool := c == cSlash || c == cLBrace || c == cRBrace || c == 0

theorem pcharByte_not_special (c : UInt8) (h : isPcharByte c = true) : isSpecial c = false := by
  by_cases h1 : c = cSlash
  · subst h1; revert h; decide
  by_cases h2 : c = cLBrace
  · subst h2; revert h; decide
  by_cases h3 : c = cRBrace
  · subst h3; revert h; decide
  by_cases h4 : c = 0
  · subst h4; revert h; decide
  simp [isSpecial, h1, h2, h3, h4]

theorem hexDigit_not_special (c : UInt8) (h : isHexDigit c = true) : isSpecial c = false := by
  by_cases h1 : c = cSlash
  · subst h1; revert h; decide
  by_cases h2 : c = cLBrace
  · subst h2; revert h; decide
  by_cases h3 : c = cRBrace
  · subst h3; revert h; decide
  by_cases h4 : c = 0
  · subst h4; revert h; decide
  simp [isSpecial, h1, h2, h3, h4]

theorem pchars_no_special : ∀ l : Bytes, pcharsB l = true → l.all (fun c => !isSpecial c) = true := by
  intro l h
  fun_induction pcharsB l with
  | case1 => simp
  | case2 c r hc ih => simp [pcharByte_not_special c hc, ih h]
  | case3 c hc hp h1 h2 r' ih =>
    have hc' : c = cPct := by simpa using hp
    subst hc'
    simp [pcharsB, hc] at h
    have : isSpecial cPct = false := by decide
    simp [this, hexDigit_not_special _ h.1.1, hexDigit_not_special _ h.1.2, ih h.2]
  | case4 c r hc hp hr =>
    exfalso
    cases r with
    | nil => simp [pcharsB, hc, hp] at h
    | cons a r =>
      cases r with
      | nil => simp [pcharsB, hc, hp] at h
      | cons b r => exact hr a b r rfl
  | case5 c r hc hp => simp [pcharsB, hc, hp] at h

/-! ### identifiers -/

theorem gwExpectIdent_eq (l : Bytes) : gwExpectIdent l = identB l := by
  cases l <;> simp [gwExpectIdent, identB]

theorem stCheckIdent_eq (l : Bytes) (h : l ≠ []) : stCheckIdent l = identB l := by
  cases l with
  | nil => exact absurd rfl h
  | cons _ _ => simp [stCheckIdent, identB]

/-- bytes that never occur inside an identifier -/
def isFldSpecial (c : UInt8) : Bool := c == cDot || c == cEq || c == cRBrace || c == 0 || c == cSlash || c == cLBrace

theorem identByte_not_special (c : UInt8) (h : isIdentByte c = true) : isFldSpecial c = false := by
  by_cases h1 : c = cDot
  · subst h1; revert h; decide
  by_cases h2 : c = cEq
  · subst h2; revert h; decide
  by_cases h3 : c = cRBrace
  · subst h3; revert h; decide
  by_cases h4 : c = 0
  · subst h4; revert h; decide
  by_cases h5 : c = cSlash
  · subst h5; revert h; decide
  by_cases h6 : c = cLBrace
  · subst h6; revert h; decide
  simp [isFldSpecial, h1, h2, h3, h4, h5, h6]

theorem identStart_identByte (c : UInt8) (h : isIdentStart c = true) : isIdentByte c = true := by
  simp [isIdentStart, isIdentByte] at h ⊢
  rcases h with h | h
  · simp [h]
  · simp [h]

theorem ident_no_special (l : Bytes) (h : identB l = true) : l.all (fun c => !isFldSpecial c) = true := by
  cases l with
  | nil => simp
  | cons c r =>
    simp [identB] at h
    simp only [List.all_cons, Bool.and_eq_true, Bool.not_eq_true', List.all_eq_true]
    refine ⟨identByte_not_special c (identStart_identByte c h.1), ?_⟩
    intro x hx
    exact identByte_not_special x (h.2 x hx)

theorem ident_ne_nil (l : Bytes) (h : identB l = true) : l ≠ [] := by
  cases l with
  | nil => simp [identB] at h
  | cons _ _ => simp

/-! ### tokenizer -/

/-- text without delimiters of the current state moves into the accumulator -/
theorem tokCore_text (st : TSt) : ∀ (x acc rest : Bytes), x.all (fun c => !isDelim st c) = true →
    tokCore st acc (x ++ rest) = tokCore st (acc ++ x) rest := by
  intro x
  induction x with
  | nil => intro acc rest _; simp
  | cons c x ih =>
    intro acc rest h
    simp at h
    simp only [List.cons_append, tokCore, h.1]
    simp only [Bool.false_eq_true, if_false]
    rw [ih (acc ++ [c]) rest (by simpa using h.2)]
    simp

theorem tokCore_delim (st : TSt) (acc : Bytes) (c : UInt8) (rest : Bytes) (h : isDelim st c = true) :
    tokCore st acc (c :: rest) = flush acc ++ [c] :: tokCore (nextSt st c) [] rest := by
  simp [tokCore, h]

theorem flush_ne (acc : Bytes) (h : acc ≠ []) : flush acc = [acc] := by
  cases acc with
  | nil => exact absurd rfl h
  | cons _ _ => simp [flush]

theorem flush_nil : flush [] = [] := by simp [flush]

/-- every token is non-empty -/
theorem tokCore_nonempty : ∀ (s : Bytes) (st : TSt) (acc : Bytes), ∀ t ∈ tokCore st acc s, t ≠ [] := by
  intro s
  induction s with
  | nil =>
    intro st acc t ht
    simp only [tokCore, flush] at ht
    by_cases h : acc.isEmpty = true
    · simp [h] at ht
    · simp [h] at ht; subst ht; simpa using h
  | cons c s ih =>
    intro st acc t ht
    simp only [tokCore] at ht
    by_cases hd : isDelim st c = true
    · simp only [hd, if_true, List.mem_append, List.mem_cons] at ht
      rcases ht with ht | ht | ht
      · simp only [flush] at ht
        by_cases h : acc.isEmpty = true
        · simp [h] at ht
        · simp [h] at ht; subst ht; simpa using h
      · subst ht; simp
      · exact ih _ _ t ht
    · simp only [hd] at ht
      exact ih _ _ t ht

/-- the tokens concatenate to the input -/
theorem tokCore_concat : ∀ (s : Bytes) (st : TSt) (acc : Bytes), (tokCore st acc s).flatten = acc ++ s := by
  intro s
  induction s with
  | nil =>
    intro st acc
    simp only [tokCore, flush]
    by_cases h : acc.isEmpty = true
    · simp [h]; simpa using h
    · simp [h]
  | cons c s ih =>
    intro st acc
    simp only [tokCore]
    by_cases hd : isDelim st c = true
    · simp only [hd, if_true, List.flatten_append, List.flatten_cons, ih]
      simp only [flush]
      by_cases h : acc.isEmpty = true
      · simp [h]; simpa using h
      · simp [h]
    · simp only [hd, Bool.false_eq_true, if_false]
      rw [ih]; simp

end GB.C20
