import GB.C20.ProofsLegal
import GB.C20.ProofsVerb
/- C20 — gwbased `Parse` accepts no string with an illegal path character (glue for `gw_consumed`). -/
namespace GB.C20
open GB

set_option linter.unusedSimpArgs false
set_option linter.unusedVariables false

theorem splitFirst_spec (c : UInt8) : ∀ (l b v : Bytes), splitFirst c l = some (b, v) → l = b ++ c :: v := by
  intro l
  induction l with
  | nil => intro b v h; simp [splitFirst] at h
  | cons x r ih =>
    intro b v h
    simp only [splitFirst] at h
    by_cases hx : (x == c) = true
    · simp only [hx, if_true, Option.some.injEq, Prod.mk.injEq] at h
      obtain ⟨h1, h2⟩ := h
      subst h1; subst h2
      simp at hx; simp [hx]
    · simp only [hx, Bool.false_eq_true, if_false] at h
      cases hr : splitFirst c r with
      | some p =>
        obtain ⟨a, w⟩ := p
        simp only [hr, Option.some.injEq, Prod.mk.injEq] at h
        obtain ⟨h1, h2⟩ := h
        subst h1; subst h2
        simp [ih a w hr]
      | none => simp [hr] at h

/-- the first occurrence of a separator element determines the split -/
theorem split_at_first {α : Type} (a : α) : ∀ (X c : List α) (ts : List α), a ∉ X → a ∉ c →
    X ++ [a] = c ++ a :: ts → X = c ∧ ts = [] := by
  intro X
  induction X with
  | nil =>
    intro c ts _ hc h
    cases c with
    | nil => simp at h; exact ⟨rfl, h⟩
    | cons y c' =>
      simp at h
  | cons x X ih =>
    intro c ts hX hc h
    cases c with
    | nil =>
      simp at h
      exact absurd (by rw [h.1]; simp) hX
    | cons y c' =>
      simp only [List.cons_append, List.cons.injEq] at h
      obtain ⟨h1, h2⟩ := ih c' ts (fun hm => hX (by simp [hm])) (fun hm => hc (by simp [hm])) h.2
      exact ⟨by rw [h.1, h1], h2⟩

theorem legalTok_no_nul (t : Tok) (h : legalTok t = true) : t ≠ eofTok := by
  intro he; subst he; revert h; decide

theorem legal_flatten (X : List Tok) (h : ∀ t ∈ X, legalTok t = true) : ∀ c ∈ X.flatten, isTemplateByte c = true := by
  intro c hc
  obtain ⟨t, ht, hct⟩ := List.mem_flatten.mp hc
  exact List.all_eq_true.mp (h t ht) c hct

/-- what a successful `topLevelSegments` tells about the token list `X ++ [eof]` -/
theorem gwTopLevel_legal (f : Nat) (X : List Tok) (segs : List PSeg) (hX : eofTok ∉ X)
    (h : gwTopLevel true f (X ++ [eofTok]) = .ok segs) : ∀ t ∈ X, legalTok t = true := by
  unfold gwTopLevel at h
  cases X with
  | nil => simp
  | cons x X' =>
    have hxe : x ≠ eofTok := fun he => hX (by simp [he])
    simp only [List.cons_append, gwAcc_eof, hxe, if_false] at h
    cases hs : gwSegments true f (x :: (X' ++ [eofTok])) with
    | error e => simp [hs] at h
    | ok p =>
      obtain ⟨segs', ts⟩ := p
      simp only [hs] at h
      obtain ⟨c, hc, hcl⟩ := (gw_consumed f).1 _ _ _ hs
      cases ts with
      | nil => simp [gwAccept] at h
      | cons t ts' =>
        simp only [gwAcc_eof] at h
        by_cases hte : t = eofTok
        · subst hte
          have hcn : eofTok ∉ c := fun hm => legalTok_no_nul _ (hcl _ hm) rfl
          have := split_at_first eofTok (x :: X') c ts' hX hcn (by simpa using hc)
          rw [this.1]; exact hcl
        · simp [hte] at h

/-- **gwbased accepts template bytes only.** -/
theorem gwParse_legal (s : Bytes) (g : GwTemplate) (h : gwParse s = .ok g) : illegalChar s = false := by
  unfold gwParse gwParseWith at h
  cases s with
  | nil => simp at h
  | cons c0 body =>
    simp only at h
    by_cases hc0 : (c0 != cSlash) = true
    · simp [hc0] at h
    · simp only [hc0, Bool.false_eq_true, if_false] at h
      have hc0' : c0 = cSlash := by simpa using hc0
      by_cases hnul : (c0 :: body).contains 0 = true
      · rw [if_pos hnul] at h; exact absurd h (by simp)
      · simp only [hnul, Bool.false_eq_true, if_false] at h
        have hbnul : (0 : UInt8) ∉ body := by
          intro hm; apply hnul; simp [hm]
        -- it suffices that every byte of the body is a template byte
        suffices hbody : ∀ c ∈ body, isTemplateByte c = true by
          unfold illegalChar
          rw [Bool.eq_false_iff]
          intro hany
          simp only [List.any_eq_true, Bool.not_eq_true'] at hany
          obtain ⟨c, hc, hcf⟩ := hany
          rcases List.mem_cons.mp hc with hc | hc
          · rw [hc, hc0'] at hcf; revert hcf; decide
          · rw [hbody c hc] at hcf; exact absurd hcf (by simp)
        cases htk : gwTokenize body with
        | error e => simp [htk] at h
        | ok p =>
          obtain ⟨tokens, verb⟩ := p
          simp only [htk] at h
          by_cases hvp : gwExpectPChars 0 verb = true
          · simp only [hvp, Bool.not_true, Bool.false_eq_true, if_false] at h
            rw [gwExpectPChars_eq] at hvp
            cases htl : gwTopLevel true (parseFuel tokens) tokens with
            | error e => simp [htl] at h
            | ok segs =>
              have hverbL : ∀ c ∈ verb, isTemplateByte c = true :=
                fun c hc => List.all_eq_true.mp (pchars_legal verb hvp) c hc
              -- analyse tokenize
              unfold gwTokenize at htk
              by_cases hbe : body.isEmpty = true
              · have : body = [] := by simpa using hbe
                subst this; simp
              · simp only [hbe, Bool.false_eq_true, if_false] at htk
                have hflat := tokCore_concat body .seg []
                simp only [List.nil_append] at hflat
                cases hlast : (tokCore .seg [] body).getLast? with
                | none => simp [hlast] at htk
                | some t =>
                  simp only [hlast] at htk
                  have hdl : (tokCore .seg [] body).dropLast ++ [t] = tokCore .seg [] body := by
                    obtain ⟨ys, hys⟩ := List.getLast?_eq_some_iff.mp hlast
                    rw [hys]; simp
                  generalize hini : (tokCore .seg [] body).dropLast = ini at htk hdl
                  have hbody_eq : body = ini.flatten ++ t := by
                    rw [← hflat, ← hdl]; simp
                  have hini_no : eofTok ∉ ini := by
                    intro hm
                    apply hbnul
                    rw [hbody_eq]
                    exact List.mem_append_left _ (List.mem_flatten.mpr ⟨eofTok, hm, by decide⟩)
                  have hcolon : isTemplateByte cColon = true := by decide
                  -- the three outcomes of the colon search
                  split at htk
                  · -- idx == 0
                    rename_i v hsp
                    simp only [Except.ok.injEq, Prod.mk.injEq] at htk
                    obtain ⟨ht1, ht2⟩ := htk
                    subst ht1; subst ht2
                    have hts : t = cColon :: v := by
                      split at hsp
                      · simpa using splitFirst_spec cColon t [] v hsp
                      · simpa using splitLast_spec cColon t [] v hsp
                    have hleg := gwTopLevel_legal _ ini segs hini_no htl
                    intro c hc
                    rw [hbody_eq, hts] at hc
                    rcases List.mem_append.mp hc with hc | hc
                    · exact legal_flatten ini hleg c hc
                    · rcases List.mem_cons.mp hc with hc | hc
                      · rw [hc]; exact hcolon
                      · exact hverbL c hc
                  · -- idx > 0
                    rename_i b v hbne hsp
                    simp only [Except.ok.injEq, Prod.mk.injEq] at htk
                    obtain ⟨ht1, ht2⟩ := htk
                    subst ht1; subst ht2
                    have hts : t = b ++ cColon :: v := by
                      split at hsp
                      · exact splitFirst_spec cColon t b v hsp
                      · exact splitLast_spec cColon t b v hsp
                    have hb_no : b ≠ eofTok := by
                      intro he
                      apply hbnul
                      rw [hbody_eq, hts, he]
                      simp [eofTok]
                    have hX_no : eofTok ∉ ini ++ [b] := by
                      intro hm
                      rcases List.mem_append.mp hm with hm | hm
                      · exact hini_no hm
                      · simp at hm; exact hb_no hm.symm
                    have hleg := gwTopLevel_legal _ (ini ++ [b]) segs hX_no htl
                    intro c hc
                    rw [hbody_eq, hts] at hc
                    rcases List.mem_append.mp hc with hc | hc
                    · exact legal_flatten ini (fun t ht => hleg t (by simp [ht])) c hc
                    · rcases List.mem_append.mp hc with hc | hc
                      · exact List.all_eq_true.mp (hleg b (by simp)) c hc
                      · rcases List.mem_cons.mp hc with hc | hc
                        · rw [hc]; exact hcolon
                        · exact hverbL c hc
                  · -- no colon
                    simp only [Except.ok.injEq, Prod.mk.injEq] at htk
                    obtain ⟨ht1, ht2⟩ := htk
                    subst ht1
                    have hX_no : eofTok ∉ tokCore .seg [] body := by
                      intro hm
                      apply hbnul
                      rw [← hflat]
                      exact List.mem_flatten.mpr ⟨eofTok, hm, by decide⟩
                    have hleg := gwTopLevel_legal _ _ segs hX_no htl
                    intro c hc
                    rw [← hflat] at hc
                    exact legal_flatten _ hleg c hc
          · simp [hvp] at h

end GB.C20
