import GB.C20.ProofsGw
import GB.C20.ProofsBody
/- C20 — gwbased `Parse` on printed well-formed templates (completeness), and `Compile` fields. -/
namespace GB.C20
open GB

set_option linter.unusedSimpArgs false
set_option linter.unusedVariables false

/-! ### tokenize -/

theorem gwTok_of (body : Bytes) (hne : body ≠ []) (ini : List Tok) (t : Tok)
    (htok : tokCore .seg [] body = ini ++ [t]) :
    gwTokenize body =
      (match (if (ini.getLast? == some [cRBrace]) = true then splitFirst cColon t else splitLast cColon t) with
       | some ([], v) => .ok (ini ++ [eofTok], v)
       | some (b, v) => .ok (ini ++ [b] ++ [eofTok], v)
       | none => .ok (ini ++ [t] ++ [eofTok], [])) := by
  unfold gwTokenize
  have : body.isEmpty = false := by cases body with
    | nil => exact absurd rfl hne
    | cons _ _ => rfl
  simp only [this, Bool.false_eq_true, if_false, htok, List.getLast?_append, List.getLast?_singleton,
    Option.some_or, List.dropLast_concat]
  rfl

theorem hasColon_false_of {b : Bytes} (h : hasColon b = false) : b.contains cColon = false := h

theorem verb_tail_nodelim (v : Bytes) (h : pcharsB v = true) :
    (cColon :: v).all (fun c => !isDelim .seg c) = true := by
  simp only [List.all_cons, Bool.and_eq_true]
  exact ⟨by decide, pchars_nodelim_seg h⟩

/-- what `tokenize` returns for the body of a printed well-formed template -/
theorem gwTokenize_render (r : Bool) (t : Tmpl) (h : t.wfB r = true) :
    gwTokenize (joinWith cSlash (t.segs.map Seg.render) ++ renderVerb t.verb) =
      .ok ((if t.segs.isEmpty then [] else segsToks t.segs) ++ [eofTok], t.verbStr) := by
  obtain ⟨segs, verb⟩ := t
  simp only [Tmpl.wfB, Bool.and_eq_true] at h
  obtain ⟨⟨hsegs, _⟩, hverb⟩ := h
  simp only [Tmpl.verbStr]
  rcases List.eq_nil_or_concat segs with hs | ⟨pre, L, hs⟩
  · -- root
    subst hs
    cases verb with
    | none => simp [joinWith, renderVerb, gwTokenize]
    | some v =>
      simp only [verbWfB, List.getLast?_nil, Bool.and_eq_true, Bool.not_eq_true'] at hverb
      have htok : tokCore .seg [] (cColon :: v) = [] ++ [cColon :: v] := by
        have := tokCore_text .seg (cColon :: v) [] [] (verb_tail_nodelim v hverb.1)
        simp only [List.append_nil, List.nil_append] at this
        rw [this]; simp [tokCore, flush]
      have := gwTok_of (cColon :: v) (by simp) [] (cColon :: v) htok
      simp only [List.map_nil, joinWith, List.nil_append, renderVerb, List.isEmpty_nil, if_true]
      rw [this]
      have hs := splitLast_append [] v cColon hverb.2
      simp only [List.nil_append] at hs
      simp [hs]
  · subst hs
    simp only [List.concat_eq_append] at hsegs hverb ⊢
    have hwL : L.wfB r = true := List.all_eq_true.mp hsegs L (by simp)
    have hne : (pre ++ [L]).isEmpty = false := by simp
    have hbne : ∀ tail, joinWith cSlash ((pre ++ [L]).map Seg.render) ++ tail ≠ [] := by
      intro tail
      cases pre with
      | nil =>
        simp only [List.nil_append, List.map_cons, List.map_nil, joinWith]
        intro hh
        exact seg_render_ne_nil r L hwL (List.append_eq_nil_iff.mp hh).1
      | cons s pre =>
        have hws : s.wfB r = true := List.all_eq_true.mp hsegs s (by simp)
        simp only [List.cons_append, List.map_cons, joinWith_cons]
        intro hh
        exact seg_render_ne_nil r s hws (List.append_eq_nil_iff.mp (List.append_eq_nil_iff.mp hh).1).1
    simp only [hne, Bool.false_eq_true, if_false]
    simp only [verbWfB, List.getLast?_append, List.getLast?_singleton, Option.some_or] at hverb
    cases hL : L.text with
    | some x =>
      obtain ⟨h1, h2, h3, h4⟩ := seg_text_facts hwL hL
      cases verb with
      | none =>
        have hb := body_tokens r pre L [] hsegs (by simp)
        rw [hL] at hb
        simp only [List.append_nil] at hb
        have hnc : hasColon x = false := by
          cases L with
          | wild => simp [Seg.text] at hL; subst hL; decide
          | deep => simp [Seg.text] at hL; subst hL; decide
          | lit l => simp [Seg.text] at hL; subst hL; simpa using hverb
          | var _ _ => simp [Seg.text] at hL
        have := gwTok_of _ (hbne []) (preToks pre) x (by simpa using hb)
        simp only [renderVerb, List.append_nil] at this ⊢
        rw [this, splitFirst_none hnc, splitLast_none hnc]
        simp [segsToks_snoc, h2]
      | some v =>
        have hv : pcharsB v = true ∧ hasColon v = false := by
          cases L with
          | wild => simpa using hverb
          | deep => simpa using hverb
          | lit l => simpa using hverb
          | var _ _ => simp [Seg.text] at hL
        have hb := body_tokens r pre L (cColon :: v) hsegs (verb_tail_nodelim v hv.1)
        rw [hL] at hb
        have := gwTok_of _ (hbne (cColon :: v)) (preToks pre) (x ++ cColon :: v) (by simpa using hb)
        simp only [renderVerb]
        rw [this, preToks_getLast, splitLast_append x v cColon hv.2]
        cases x with
        | nil => exact absurd rfl h3
        | cons c x' => simp [segsToks_snoc, h2]
    | none =>
      cases L with
      | var p inner =>
        obtain ⟨ini, hini⟩ := var_toks_last p inner
        cases verb with
        | none =>
          have hb := body_tokens r pre (.var p inner) [] hsegs (by simp)
          rw [hL] at hb
          simp only [flush_nil, List.append_nil, hini, ← List.append_assoc] at hb
          simp only [renderVerb, List.append_nil]
          have := gwTok_of _ (by simpa using hbne []) _ _ hb
          rw [this]
          have e1 : splitFirst cColon [cRBrace] = none := by decide
          have e2 : splitLast cColon [cRBrace] = none := by decide
          simp only [e1, e2, ite_self]
          simp [segsToks_snoc, hini]
        | some v =>
          have hv : pcharsB v = true := by simpa using hverb
          have hb := body_tokens r pre (.var p inner) (cColon :: v) hsegs (verb_tail_nodelim v hv)
          rw [hL] at hb
          have hfl : flush (cColon :: v) = [cColon :: v] := by simp [flush]
          simp only [hfl] at hb
          have := gwTok_of _ (hbne (cColon :: v)) _ _ hb
          simp only [renderVerb]
          rw [this]
          have hlast : ((preToks pre ++ (Seg.var p inner).toks).getLast? == some [cRBrace]) = true := by
            rw [hini, ← List.append_assoc, List.getLast?_append]; simp
          rw [hlast]
          simp [splitFirst_head, segsToks_snoc]
      | wild => simp [Seg.text] at hL
      | deep => simp [Seg.text] at hL
      | lit l => simp [Seg.text] at hL

/-! ### the whole Parse -/

theorem render_no_nul (r : Bool) (t : Tmpl) (h : t.wfB r = true) : t.render.contains 0 = false := by
  obtain ⟨segs, verb⟩ := t
  simp only [Tmpl.wfB, Bool.and_eq_true] at h
  obtain ⟨⟨hsegs, _⟩, hverb⟩ := h
  rw [Bool.eq_false_iff]
  intro hc0
  have hm : (0 : UInt8) ∈ cSlash :: (joinWith cSlash (segs.map Seg.render) ++ renderVerb verb) := by
    simpa [Tmpl.render] using hc0
  have hc := (List.mem_cons.mp hm).imp_right List.mem_append.mp
  rcases hc with hc | hc | hc
  · revert hc; decide
  · refine joinWith_not_mem 0 cSlash (by decide) _ ?_ hc
    intro x hx
    obtain ⟨s, hs, rfl⟩ := List.mem_map.mp hx
    exact seg_render_no_nul r s (List.all_eq_true.mp hsegs s hs)
  · cases verb with
    | none => simp [renderVerb] at hc
    | some v =>
      have hv : pcharsB v = true := by
        simp only [verbWfB] at hverb
        split at hverb
        · simpa using hverb
        · simp only [Bool.and_eq_true] at hverb; exact hverb.1
      simp only [renderVerb, List.mem_cons] at hc
      rcases hc with hc | hc
      · revert hc; decide
      · exact pchars_no_nul hv hc

theorem verbStr_pchars (r : Bool) (t : Tmpl) (h : t.wfB r = true) : pcharsB t.verbStr = true := by
  obtain ⟨segs, verb⟩ := t
  simp only [Tmpl.wfB, Bool.and_eq_true] at h
  obtain ⟨_, hverb⟩ := h
  cases verb with
  | none => simp [Tmpl.verbStr, pcharsB]
  | some v =>
    simp only [Tmpl.verbStr]
    simp only [verbWfB] at hverb
    split at hverb
    · simpa using hverb
    · simp only [Bool.and_eq_true] at hverb; exact hverb.1

/-- segments `Parse` returns for a well-formed template: the root template is the literal eof token -/
def gwSegsOf (t : Tmpl) : List PSeg := if t.segs.isEmpty then [.lit eofTok] else t.segs.map Seg.emb

theorem gwParse_render (r : Bool) (t : Tmpl) (h : t.wfB r = true) :
    ∃ g, gwParse t.render = .ok g ∧ g.segs = gwSegsOf t ∧ g.verb = t.verbStr ∧ g.tmpl = t.render := by
  obtain ⟨segs, verb⟩ := t
  have htok := gwTokenize_render r ⟨segs, verb⟩ h
  have hnul := render_no_nul r ⟨segs, verb⟩ h
  have hvp := verbStr_pchars r ⟨segs, verb⟩ h
  unfold gwParse gwParseWith
  dsimp only [Tmpl.verbStr] at htok hvp
  simp only [Tmpl.render, List.cons_append] at hnul ⊢
  have hs : (cSlash != cSlash) = false := by decide
  simp only [hs, Bool.false_eq_true, if_false, hnul]
  rw [htok]
  simp only [gwExpectPChars_eq, hvp, Bool.not_true, Bool.false_eq_true, if_false]
  simp only [Tmpl.wfB, Bool.and_eq_true] at h
  obtain ⟨⟨hsegs, _⟩, _⟩ := h
  cases segs with
  | nil =>
    simp [gwTopLevel, gwAcc_eof, gwSegsOf, Tmpl.verbStr]
  | cons s rest =>
    have hws : s.wfB r = true := List.all_eq_true.mp hsegs s (by simp)
    obtain ⟨hd, tl, htoks, hhd, _⟩ := seg_toks_head r s hws
    have hne : (s :: rest).isEmpty = false := rfl
    simp only [hne, Bool.false_eq_true, if_false]
    have hshape : segsToks (s :: rest) ++ [eofTok] = hd :: (tl ++ rest.flatMap (fun t => [cSlash] :: t.toks) ++ [eofTok]) := by
      simp [segsToks, htoks]
    have heofne : eofTok ≠ [cSlash] := by decide
    have hsegments := gwSegments_top r s rest (parseFuel (segsToks (s :: rest) ++ [eofTok])) eofTok [] hsegs heofne
      (by simp [parseFuel]; omega)
    unfold gwTopLevel
    rw [hshape, gwAcc_eof]
    simp only [hhd, if_false]
    rw [← hshape, hsegments]
    simp [gwAcc_eof, gwSegsOf, Tmpl.verbStr]

/-! ### Compile: the fields are the captures -/

def capStr (op : Op) : Bytes := if op.str.isEmpty then op.str else if op.str == eofTok then [] else op.str

def caps (ops : List Op) : List Bytes := (ops.filter (fun op => op.code == opCapture)).map capStr

theorem caps_append (a b : List Op) : caps (a ++ b) = caps a ++ caps b := by simp [caps]

theorem compileOps_fields : ∀ (ops : List Op) (a : List Nat) (pool fields : List Bytes),
    (compileOps ops a pool fields).2.2 = fields ++ caps ops := by
  intro ops
  induction ops with
  | nil => intro a pool fields; simp [compileOps, caps]
  | cons op ops ih =>
    intro a pool fields
    unfold compileOps
    by_cases he : op.str.isEmpty = true
    · simp only [he, if_true, ih]
      by_cases hc : (op.code == opCapture) = true
      · simp [hc, caps, capStr, he]
      · simp [hc, caps]
    · simp only [he, Bool.false_eq_true, if_false, ih]
      by_cases hc : (op.code == opCapture) = true
      · simp [hc, caps, capStr, he]
      · simp [hc, caps]

theorem compile_fields (g : GwTemplate) : g.compile.fields = caps (compileSegs g.segs) := by
  unfold GwTemplate.compile
  have := compileOps_fields (compileSegs g.segs) [] [] []
  rcases hc : compileOps (compileSegs g.segs) [] [] [] with ⟨a, b, c⟩
  rw [hc] at this
  simp at this ⊢
  exact this

theorem caps_inner : ∀ is : List ISeg, caps (compileSegs (is.map ISeg.emb)) = [] := by
  intro is
  induction is with
  | nil => simp [compileSegs, caps]
  | cons i is ih =>
    simp only [List.map_cons, compileSegs, caps_append, ih, List.append_nil]
    cases i <;> simp [ISeg.emb, PSeg.compile, caps, opPush, opPushM, opLitPush, opCapture]

theorem path_join_facts (p : List Bytes) (hp : p ≠ [] ∧ p.all identB = true) :
    (joinWith cDot p).isEmpty = false ∧ (joinWith cDot p == eofTok) = false := by
  obtain ⟨p1, ps, rfl⟩ : ∃ p1 ps, p = p1 :: ps := by
    cases p with
    | nil => exact absurd rfl hp.1
    | cons a b => exact ⟨a, b, rfl⟩
  have h1 : identB p1 = true := List.all_eq_true.mp hp.2 p1 (by simp)
  cases p1 with
  | nil => simp [identB] at h1
  | cons c r =>
    simp only [identB, Bool.and_eq_true] at h1
    rw [joinWith_cons]
    refine ⟨by simp, ?_⟩
    rw [Bool.eq_false_iff]
    intro he
    simp only [List.cons_append, eofTok, beq_iff_eq, List.cons.injEq] at he
    have hc := he.1
    subst hc
    have := h1.1
    revert this; decide

theorem caps_seg (r : Bool) (s : Seg) (h : s.wfB r = true) :
    caps s.emb.compile = (match s with | .var p _ => [joinWith cDot p] | _ => []) := by
  cases s with
  | wild => simp [Seg.emb, PSeg.compile, caps, opPush, opCapture]
  | deep => simp [Seg.emb, PSeg.compile, caps, opPushM, opCapture]
  | lit l => simp [Seg.emb, PSeg.compile, caps, opLitPush, opCapture]
  | var p inner =>
    obtain ⟨hp, _⟩ := seg_var_facts h
    obtain ⟨h1, h2⟩ := path_join_facts p hp
    cases inner with
    | none =>
      simp only [Seg.emb, PSeg.compile, caps_append]
      simp [compileSegs, PSeg.compile, caps, capStr, opPush, opConcatN, opCapture, h1, h2]
    | some is =>
      simp only [Seg.emb, PSeg.compile, caps_append, caps_inner]
      simp [caps, capStr, opConcatN, opCapture, h1, h2]

theorem caps_segs (r : Bool) : ∀ segs : List Seg, segs.all (Seg.wfB r) = true →
    caps (compileSegs (segs.map Seg.emb)) =
      segs.filterMap (fun s => match s with | .var path _ => some (joinWith cDot path) | _ => none) := by
  intro segs
  induction segs with
  | nil => intro _; simp [compileSegs, caps]
  | cons s segs ih =>
    intro h
    simp only [List.all_cons, Bool.and_eq_true] at h
    simp only [List.map_cons, compileSegs, caps_append, ih h.2, caps_seg r s h.1]
    cases s <;> simp [List.filterMap_cons]

theorem gw_fields (r : Bool) (t : Tmpl) (h : t.wfB r = true) (g : GwTemplate) (hg : g.segs = gwSegsOf t) :
    g.compile.fields = t.fields := by
  rw [compile_fields, hg]
  obtain ⟨segs, verb⟩ := t
  simp only [Tmpl.wfB, Bool.and_eq_true] at h
  cases segs with
  | nil => simp [gwSegsOf, compileSegs, PSeg.compile, caps, Tmpl.fields, opLitPush, opCapture]
  | cons s rest =>
    have hne : (s :: rest).isEmpty = false := rfl
    simp only [gwSegsOf, hne, Bool.false_eq_true, if_false, Tmpl.fields]
    exact caps_segs r (s :: rest) h.1.1

end GB.C20
