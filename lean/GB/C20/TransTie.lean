import GB.Generated.Trans
import GB.Base.TransLemmas
import GB.C20.Model
/-
  C20 — SOURCE-TO-LEAN TRANSLATOR TIE for the hex-digit tests of both path-template parsers:
  `isHex(c byte)` (internal/httprule/parse.go) and `isHexDigit(r rune)` (internal/httprule/gwbased/parse.go),
  regenerated from the sources on every run, equal the model's `GB.C20.isHexDigit` (Chars.lean).
  The gwbased function takes a rune (`Int`): on a byte value it is the model's test, outside 0…255 it is false
  (the model is byte-level; Chars.lean explains why that is exact).
-/
set_option linter.unusedSimpArgs false

open GB GB.Trans

set_option maxRecDepth 100000 in
/-- internal/httprule `isHex` -/
theorem C20_trans_isHex : ∀ c : UInt8, GB.Generated.Trans.isHex c = GB.C20.isHexDigit c := by
  intro c
  have := byte_forall (fun c => GB.Generated.Trans.isHex c == GB.C20.isHexDigit c) (by decide) c
  simpa using this

set_option maxRecDepth 100000 in
/-- internal/httprule/gwbased `isHexDigit` on a byte value -/
theorem C20_trans_isHexDigit : ∀ c : UInt8, GB.Generated.Trans.isHexDigit (ofByte c) = GB.C20.isHexDigit c := by
  intro c
  have := byte_forall (fun c => GB.Generated.Trans.isHexDigit (ofByte c) == GB.C20.isHexDigit c) (by decide) c
  simpa using this

/-- … and on every rune that is not a byte value it rejects -/
theorem C20_trans_isHexDigit_nonbyte : ∀ r : Int, (r < 0 ∨ r > 255) → GB.Generated.Trans.isHexDigit r = false := by
  intro r h
  unfold GB.Generated.Trans.isHexDigit
  have h1 : ¬ ((48 : Int) ≤ r ∧ r ≤ 57) := by omega
  have h2 : ¬ ((65 : Int) ≤ r ∧ r ≤ 70) := by omega
  have h3 : ¬ ((97 : Int) ≤ r ∧ r ≤ 102) := by omega
  simp [h1, h2, h3]

/-! ### `consumePchar` (internal/httprule/parse.go): one step of the model's `stCheckLiteral` -/

/-- the single-byte rows of `consumePchar` (the two `switch` statements with their `fallthrough`s) -/
def GB.C20.TransTie.rows (c : UInt8) : Bool :=
  (decide (48 ≤ c) && decide (c ≤ 57)) || (decide (65 ≤ c) && decide (c ≤ 90)) || (decide (97 ≤ c) && decide (c ≤ 122)) ||
  (c == 45 || c == 46 || c == 95 || c == 126) ||
  (c == 33 || c == 36 || c == 38 || c == 39 || c == 40 || c == 41 || c == 42 || c == 43 || c == 44 || c == 59 || c == 61) ||
  (c == 58 || c == 64)

set_option maxRecDepth 100000 in
theorem GB.C20.TransTie.rows_eq (c : UInt8) : GB.C20.TransTie.rows c = GB.C20.isPcharByte c := by
  have := byte_forall (fun c => GB.C20.TransTie.rows c == GB.C20.isPcharByte c) (by decide) c
  simpa using this

/-- `consumePchar` on a non-empty rest, as one expression -/
theorem GB.C20.TransTie.consumePchar_cons (whole : Bytes) (c : UInt8) (r : Bytes) :
    GB.Generated.Trans.consumePchar whole (c :: r) =
      if GB.C20.isPcharByte c then (r, false)
      else if c != 37 then ([], true)
      else if (decide (len r < 2) || !GB.C20.isHexDigit (idx r 0)) || !GB.C20.isHexDigit (idx r 1) then ([], true)
      else (slice r 2 (len r), false) := by
  have hidx : idx (c :: r) 0 = c := by simp [idx]
  have hsl : slice (c :: r) 1 (len (c :: r)) = r := by
    have : ((r.length : Int) + 1).toNat = r.length + 1 := by omega
    simp [slice, len, this]
  rw [← GB.C20.TransTie.rows_eq]
  unfold GB.Generated.Trans.consumePchar GB.C20.TransTie.rows
  simp only [hidx, hsl, C20_trans_isHex]
  by_cases h1 : (decide (48 ≤ c) && decide (c ≤ 57)) = true
  · simp [h1]
  by_cases h2 : (decide (65 ≤ c) && decide (c ≤ 90)) = true
  · simp [h1, h2]
  by_cases h3 : (decide (97 ≤ c) && decide (c ≤ 122)) = true
  · simp [h1, h2, h3]
  by_cases h4 : (c == 45 || c == 46 || c == 95 || c == 126) = true
  · simp [h1, h2, h3, h4]
  by_cases h5 : (c == 33 || c == 36 || c == 38 || c == 39 || c == 40 || c == 41 || c == 42 || c == 43 || c == 44 || c == 59 || c == 61) = true
  · simp [h1, h2, h3, h4, h5]
  by_cases h6 : (c == 58 || c == 64) = true
  · simp [h1, h2, h3, h4, h5, h6]
  simp [h1, h2, h3, h4, h5, h6]

theorem GB.C20.TransTie.stCheckLiteral_cons (c : UInt8) (r : Bytes) :
    GB.C20.stCheckLiteral (c :: r) =
      if GB.C20.isPcharByte c then GB.C20.stCheckLiteral r
      else if c != GB.C20.cPct then false
      else match r with
        | h1 :: h2 :: r' => GB.C20.isHexDigit h1 && GB.C20.isHexDigit h2 && GB.C20.stCheckLiteral r'
        | _ => false := by
  cases r with
  | nil => first | rfl | simp [GB.C20.stCheckLiteral]
  | cons h1 t =>
    cases t with
    | nil => first | rfl | simp [GB.C20.stCheckLiteral]
    | cons h2 r' => first | rfl | simp [GB.C20.stCheckLiteral]

/-- internal/httprule `consumePchar`: the model's `stCheckLiteral` is `checkLiteral`'s loop
    `for s != "" { s, err = consumePchar(original, s); if err != nil { return err } }` over the regenerated
    `consumePchar` — one unfolding, for every non-empty input -/
theorem C20_trans_consumePchar : ∀ (whole : GB.Bytes) (c : UInt8) (r : GB.Bytes),
    GB.C20.stCheckLiteral (c :: r) =
      (match GB.Generated.Trans.consumePchar whole (c :: r) with
       | (rest, false) => GB.C20.stCheckLiteral rest
       | (_, true) => false) := by
  intro whole c r
  rw [GB.C20.TransTie.consumePchar_cons]
  rw [GB.C20.TransTie.stCheckLiteral_cons]
  by_cases hp : GB.C20.isPcharByte c = true
  · simp [hp]
  · have hp' : GB.C20.isPcharByte c = false := by simpa using hp
    by_cases h37 : c = 37
    · subst h37
      cases r with
      | nil => simp [hp', GB.C20.cPct, len]
      | cons h1 t =>
        cases t with
        | nil => simp [hp', GB.C20.cPct, len]
        | cons h2 r' =>
          have hl : ¬ (len (h1 :: h2 :: r') < 2) := by simp only [len, Int.ofNat_eq_natCast, List.length_cons]; omega
          have i0 : idx (h1 :: h2 :: r') 0 = h1 := by simp [idx]
          have i1 : idx (h1 :: h2 :: r') 1 = h2 := by simp [idx]
          have sl : slice (h1 :: h2 :: r') 2 (len (h1 :: h2 :: r')) = r' := by
            have : ((r'.length : Int) + 1 + 1).toNat = r'.length + 2 := by omega
            simp [slice, len, this]
          simp only [hp', GB.C20.cPct, hl, i0, i1, sl, bne_self_eq_false, Bool.false_eq_true, if_false, decide_false, Bool.false_or]
          cases GB.C20.isHexDigit h1 <;> cases GB.C20.isHexDigit h2 <;> simp
    · have : (c != 37) = true := by simp [h37]
      simp [hp', this, GB.C20.cPct]

/-! ### `checkIdent` (internal/httprule) and `expectIdent` (gwbased): RUNE loops over a string

Both Go functions iterate `for i, r := range s` (UTF-8 runes, `GB.Trans.runes`); the hand model iterates BYTES and
Chars.lean argues informally that this is exact.  Here it is a theorem: every rune ≥ 0x80 is rejected, a byte ≥ 0x80
never decodes to an ASCII rune (`decodeRune_nonascii`), so the rune loop equals the byte loop (`loop_runes_bytes`). -/

/-- the `switch` of both functions; `z` = "offset is 0", `c` = the rune -/
def GB.C20.TransTie.identBody (z : Bool) (c : Int) : Ctl Bool Unit :=
  if (decide ((48 : Int) ≤ c) && decide (c ≤ (57 : Int))) then (if z then Ctl.ret true else Ctl.next ())
  else if (decide ((65 : Int) ≤ c) && decide (c ≤ (90 : Int))) then Ctl.next ()
  else if (decide ((97 : Int) ≤ c) && decide (c ≤ (122 : Int))) then Ctl.next ()
  else if (c == (95 : Int)) then Ctl.next ()
  else Ctl.ret true

open GB.C20.TransTie

set_option maxRecDepth 100000 in
theorem GB.C20.TransTie.identBody_first (b : UInt8) :
    identBody true (Int.ofNat b.toNat) = if GB.C20.isIdentStart b then Ctl.next () else Ctl.ret true := by
  have := byte_forall (fun b => decide (identBody true (Int.ofNat b.toNat) = if GB.C20.isIdentStart b then Ctl.next () else Ctl.ret true))
    (by decide) b
  exact of_decide_eq_true this

set_option maxRecDepth 100000 in
theorem GB.C20.TransTie.identBody_later (b : UInt8) :
    identBody false (Int.ofNat b.toNat) = if GB.C20.isIdentByte b then Ctl.next () else Ctl.ret true := by
  have := byte_forall (fun b => decide (identBody false (Int.ofNat b.toNat) = if GB.C20.isIdentByte b then Ctl.next () else Ctl.ret true))
    (by decide) b
  exact of_decide_eq_true this

theorem GB.C20.TransTie.identBody_stop (z : Bool) (r : Int) (h : 128 ≤ r) : identBody z r = Ctl.ret true := by
  have h1 : ¬ ((48 : Int) ≤ r ∧ r ≤ 57) := by omega
  have h2 : ¬ ((65 : Int) ≤ r ∧ r ≤ 90) := by omega
  have h3 : ¬ ((97 : Int) ≤ r ∧ r ≤ 122) := by omega
  have h4 : ¬ (r = 95) := by omega
  simp [identBody, h1, h2, h3, h4]

theorem GB.C20.TransTie.ident_tail : ∀ (r : Bytes) (off : Int), 0 < off →
    loop (enumFrom off r) () (fun p (_ : Unit) => identBody (p.1 == 0) (Int.ofNat p.2.toNat)) =
      if r.all GB.C20.isIdentByte then Out.done () else Out.ret true := by
  intro r
  induction r with
  | nil => intro off _; rfl
  | cons b r ih =>
    intro off hoff
    have hz : (off == 0) = false := by simp; omega
    simp only [enumFrom, loop, hz, identBody_later, List.all_cons]
    by_cases hb : GB.C20.isIdentByte b = true
    · simpa [hb] using ih (off + 1) (by omega)
    · have hb' : GB.C20.isIdentByte b = false := by simpa using hb
      simp [hb']

theorem GB.C20.TransTie.ident_loop (s : Bytes) :
    loop (runes s) () (fun p (_ : Unit) => identBody (p.1 == 0) p.2) =
      match s with
      | [] => Out.done ()
      | c :: r => if GB.C20.isIdentStart c && r.all GB.C20.isIdentByte then Out.done () else Out.ret true := by
  rw [loop_runes_bytes (fun p (_ : Unit) => identBody (p.1 == 0) p.2) true (fun off r st h => identBody_stop _ r h)]
  cases s with
  | nil => rfl
  | cons c r =>
    have hz : ((0 : Int) == 0) = true := by decide
    simp only [enumFrom, loop, hz, identBody_first]
    by_cases hc : GB.C20.isIdentStart c = true
    · have := ident_tail r (0 + 1) (by omega)
      simp only [hc, if_true, Bool.true_and]
      rw [this]
    · have hc' : GB.C20.isIdentStart c = false := by simpa using hc
      simp [hc']

/-- internal/httprule `checkIdent` (error ⇔ the model rejects), for EVERY byte string (valid UTF-8 or not) -/
theorem C20_trans_checkIdent : ∀ s : GB.Bytes, GB.Generated.Trans.checkIdent s = !GB.C20.stCheckIdent s := by
  intro s
  show (match loop (runes s) () (fun p (_ : Unit) => identBody (p.1 == 0) p.2) with
        | Out.ret r => r
        | Out.done _ => false) = _
  rw [ident_loop]
  cases s with
  | nil => rfl
  | cons c r =>
    simp only [GB.C20.stCheckIdent]
    cases (GB.C20.isIdentStart c && r.all GB.C20.isIdentByte) <;> rfl

/-- gwbased `expectIdent` (error ⇔ the model rejects; the empty identifier is an error) -/
theorem C20_trans_expectIdent : ∀ s : GB.Bytes, GB.Generated.Trans.expectIdent s = !GB.C20.gwExpectIdent s := by
  intro s
  cases s with
  | nil => rfl
  | cons c r =>
    show (if ((c :: r) == ([] : GB.Bytes)) then true else
          (match loop (runes (c :: r)) () (fun p (_ : Unit) => identBody (p.1 == 0) p.2) with
            | Out.ret r => r
            | Out.done _ => false)) = _
    rw [ident_loop]
    have hne : ((c :: r) == ([] : GB.Bytes)) = false := by simp
    simp only [hne, Bool.false_eq_true, if_false, GB.C20.gwExpectIdent]
    cases (GB.C20.isIdentStart c && r.all GB.C20.isIdentByte) <;> rfl

/-- not vacuous: "é" (C3 A9) is rejected through the rune path, "a1" accepted, "1a" rejected -/
example : GB.Generated.Trans.checkIdent [195, 169] = true := by decide
example : GB.Generated.Trans.checkIdent [97, 49] = false := by decide
example : GB.Generated.Trans.expectIdent [49, 97] = true := by decide

/-! ### gwbased `expectPChars`: a RUNE loop with the state `st` (0 = init, 1 = pct1, 2 = pct2) -/

/-- the loop body of `expectPChars`: state `st`, rune `r` -/
def GB.C20.TransTie.pcBody (st : Int) (r : Int) : Ctl Bool Int :=
  if (st != (0 : Int)) then
    if (!(GB.Generated.Trans.isHexDigit r)) then Ctl.ret true
    else
      if (st == (1 : Int)) then Ctl.next (2 : Int)
      else if (st == (2 : Int)) then Ctl.next (0 : Int)
      else Ctl.next st
  else
    if ((decide ((65 : Int) ≤ r)) && (decide (r ≤ (90 : Int)))) then Ctl.next st
    else if ((decide ((97 : Int) ≤ r)) && (decide (r ≤ (122 : Int)))) then Ctl.next st
    else if ((decide ((48 : Int) ≤ r)) && (decide (r ≤ (57 : Int)))) then Ctl.next st
    else
      if ((r == (45 : Int)) || (r == (46 : Int)) || (r == (95 : Int)) || (r == (126 : Int))) then Ctl.next st
      else if ((r == (33 : Int)) || (r == (36 : Int)) || (r == (38 : Int)) || (r == (39 : Int)) || (r == (40 : Int)) || (r == (41 : Int)) || (r == (42 : Int)) || (r == (43 : Int)) || (r == (44 : Int)) || (r == (59 : Int)) || (r == (61 : Int))) then Ctl.next st
      else if ((r == (58 : Int)) || (r == (64 : Int))) then Ctl.next st
      else if (r == (37 : Int)) then Ctl.next (1 : Int)
      else Ctl.ret true

/-- what `expectPChars` returns after the loop -/
def GB.C20.TransTie.pcFin : Out Bool Int → Bool
  | .ret r => r
  | .done st => if (st != (0 : Int)) then true else false

set_option maxRecDepth 100000 in
theorem GB.C20.TransTie.pcBody0 (b : UInt8) : pcBody 0 (Int.ofNat b.toNat) =
    if GB.C20.isPcharByte b then Ctl.next 0 else if b == GB.C20.cPct then Ctl.next 1 else Ctl.ret true := by
  have := byte_forall (fun b => decide (pcBody 0 (Int.ofNat b.toNat) =
    if GB.C20.isPcharByte b then Ctl.next 0 else if b == GB.C20.cPct then Ctl.next 1 else Ctl.ret true)) (by decide) b
  exact of_decide_eq_true this

set_option maxRecDepth 100000 in
theorem GB.C20.TransTie.pcBody1 (b : UInt8) : pcBody 1 (Int.ofNat b.toNat) =
    if GB.C20.isHexDigit b then Ctl.next 2 else Ctl.ret true := by
  have := byte_forall (fun b => decide (pcBody 1 (Int.ofNat b.toNat) = if GB.C20.isHexDigit b then Ctl.next 2 else Ctl.ret true)) (by decide) b
  exact of_decide_eq_true this

set_option maxRecDepth 100000 in
theorem GB.C20.TransTie.pcBody2 (b : UInt8) : pcBody 2 (Int.ofNat b.toNat) =
    if GB.C20.isHexDigit b then Ctl.next 0 else Ctl.ret true := by
  have := byte_forall (fun b => decide (pcBody 2 (Int.ofNat b.toNat) = if GB.C20.isHexDigit b then Ctl.next 0 else Ctl.ret true)) (by decide) b
  exact of_decide_eq_true this

theorem GB.C20.TransTie.isHexDigit_high (r : Int) (h : 103 ≤ r) : GB.Generated.Trans.isHexDigit r = false := by
  unfold GB.Generated.Trans.isHexDigit
  have h1 : ¬ ((48 : Int) ≤ r ∧ r ≤ 57) := by omega
  have h2 : ¬ ((65 : Int) ≤ r ∧ r ≤ 70) := by omega
  have h3 : ¬ ((97 : Int) ≤ r ∧ r ≤ 102) := by omega
  simp [h1, h2, h3]

theorem GB.C20.TransTie.pcBody_stop (st r : Int) (h : 128 ≤ r) : pcBody st r = Ctl.ret true := by
  have hx : GB.Generated.Trans.isHexDigit r = false := isHexDigit_high r (by omega)
  unfold pcBody
  by_cases hs : st = 0
  · subst hs
    have h1 : ¬ ((65 : Int) ≤ r ∧ r ≤ 90) := by omega
    have h2 : ¬ ((97 : Int) ≤ r ∧ r ≤ 122) := by omega
    have h3 : ¬ ((48 : Int) ≤ r ∧ r ≤ 57) := by omega
    have e : ∀ k : Int, k < 128 → (r == k) = false := by
      intro k hk; exact beq_false_of_ne (by omega)
    simp [h1, h2, h3, e]
  · simp [hs, hx]

/-- the byte-level loop = the model's state machine, in each of its three states -/
theorem GB.C20.TransTie.pc_bytes : ∀ (t : Bytes) (off : Int),
    pcFin (loop (enumFrom off t) (0 : Int) (fun p st => pcBody st (Int.ofNat p.2.toNat))) = (!GB.C20.gwExpectPChars 0 t) ∧
    pcFin (loop (enumFrom off t) (1 : Int) (fun p st => pcBody st (Int.ofNat p.2.toNat))) = (!GB.C20.gwExpectPChars 1 t) ∧
    pcFin (loop (enumFrom off t) (2 : Int) (fun p st => pcBody st (Int.ofNat p.2.toNat))) = (!GB.C20.gwExpectPChars 2 t) := by
  intro t
  induction t with
  | nil => intro off; exact ⟨rfl, rfl, rfl⟩
  | cons b r ih =>
    intro off
    obtain ⟨ih0, ih1, ih2⟩ := ih (off + 1)
    have hb0 := pcBody0 b
    have hb1 := pcBody1 b
    have hb2 := pcBody2 b
    refine ⟨?_, ?_, ?_⟩
    · simp only [enumFrom, GB.C20.gwExpectPChars]
      by_cases h1 : GB.C20.isPcharByte b = true
      · rw [loop_cons_next _ _ _ (0 : Int) _ (by simp only [hb0, h1, if_true])]
        simp only [h1, if_true]; exact ih0
      · have h1' : GB.C20.isPcharByte b = false := by simpa using h1
        by_cases h2 : (b == GB.C20.cPct) = true
        · rw [loop_cons_next _ _ _ (1 : Int) _ (by simp only [hb0, h1', h2, Bool.false_eq_true, if_false, if_true])]
          simp only [h1', h2, Bool.false_eq_true, if_false, if_true]; exact ih1
        · have h2' : (b == GB.C20.cPct) = false := by simpa using h2
          rw [loop_cons_ret _ _ _ true _ (by simp only [hb0, h1', h2', Bool.false_eq_true, if_false])]
          simp [h1', h2', pcFin]
    · simp only [enumFrom, GB.C20.gwExpectPChars]
      by_cases h1 : GB.C20.isHexDigit b = true
      · rw [loop_cons_next _ _ _ (2 : Int) _ (by simp only [hb1, h1, if_true])]
        simp only [h1, Bool.true_and]; exact ih2
      · have h1' : GB.C20.isHexDigit b = false := by simpa using h1
        rw [loop_cons_ret _ _ _ true _ (by simp only [hb1, h1', Bool.false_eq_true, if_false])]
        simp [h1', pcFin]
    · simp only [enumFrom, GB.C20.gwExpectPChars]
      by_cases h1 : GB.C20.isHexDigit b = true
      · rw [loop_cons_next _ _ _ (0 : Int) _ (by simp only [hb2, h1, if_true])]
        simp only [h1, Bool.true_and]; exact ih0
      · have h1' : GB.C20.isHexDigit b = false := by simpa using h1
        rw [loop_cons_ret _ _ _ true _ (by simp only [hb2, h1', Bool.false_eq_true, if_false])]
        simp [h1', pcFin]

/-- gwbased `expectPChars` (error ⇔ the model's state machine rejects), for EVERY byte string -/
theorem C20_trans_expectPChars : ∀ t : GB.Bytes, GB.Generated.Trans.expectPChars t = !GB.C20.gwExpectPChars 0 t := by
  intro t
  show pcFin (loop (runes t) (0 : Int) (fun p st => pcBody st p.2)) = _
  rw [loop_runes_bytes (fun p st => pcBody st p.2) true (fun off r st h => pcBody_stop st r h)]
  exact (pc_bytes t 0).1

example : GB.Generated.Trans.expectPChars [37, 52, 49] = false := by decide   -- "%41"
example : GB.Generated.Trans.expectPChars [37, 52] = true := by decide        -- "%4"
