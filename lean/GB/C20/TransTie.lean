import GB.Generated.Trans
import GB.Base.TransLemmas
import GB.C20.Chars
/-
  C20 — SOURCE-TO-LEAN TRANSLATOR TIE for the hex-digit tests of both path-template parsers:
  `isHex(c byte)` (internal/httprule/parse.go) and `isHexDigit(r rune)` (internal/httprule/gwbased/parse.go),
  regenerated from the sources on every run, equal the model's `GB.C20.isHexDigit` (Chars.lean).
  The gwbased function takes a rune (`Int`): on a byte value it is the model's test, outside 0…255 it is false
  (the model is byte-level; Chars.lean explains why that is exact).
-/
set_option linter.unusedSimpArgs false

open GB GB.Trans

set_option maxRecDepth 100000 in
/-- internal/httprule `isHex` -/
theorem C20_trans_isHex : ∀ c : UInt8, GB.Generated.Trans.isHex c = GB.C20.isHexDigit c := by
  intro c
  have := byte_forall (fun c => GB.Generated.Trans.isHex c == GB.C20.isHexDigit c) (by decide) c
  simpa using this

set_option maxRecDepth 100000 in
/-- internal/httprule/gwbased `isHexDigit` on a byte value -/
theorem C20_trans_isHexDigit : ∀ c : UInt8, GB.Generated.Trans.isHexDigit (ofByte c) = GB.C20.isHexDigit c := by
  intro c
  have := byte_forall (fun c => GB.Generated.Trans.isHexDigit (ofByte c) == GB.C20.isHexDigit c) (by decide) c
  simpa using this

/-- … and on every rune that is not a byte value it rejects -/
theorem C20_trans_isHexDigit_nonbyte : ∀ r : Int, (r < 0 ∨ r > 255) → GB.Generated.Trans.isHexDigit r = false := by
  intro r h
  unfold GB.Generated.Trans.isHexDigit
  have h1 : ¬ ((48 : Int) ≤ r ∧ r ≤ 57) := by omega
  have h2 : ¬ ((65 : Int) ≤ r ∧ r ≤ 70) := by omega
  have h3 : ¬ ((97 : Int) ≤ r ∧ r ≤ 102) := by omega
  simp [h1, h2, h3]
