import GB.Generated.Trans
import GB.Base.TransLemmas
import GB.C20.Model
/-
  C20 — SOURCE-TO-LEAN TRANSLATOR TIE for the hex-digit tests of both path-template parsers:
  `isHex(c byte)` (internal/httprule/parse.go) and `isHexDigit(r rune)` (internal/httprule/gwbased/parse.go),
  regenerated from the sources on every run, equal the model's `GB.C20.isHexDigit` (Chars.lean).
  The gwbased function takes a rune (`Int`): on a byte value it is the model's test, outside 0…255 it is false
  (the model is byte-level; Chars.lean explains why that is exact).
-/
set_option linter.unusedSimpArgs false

open GB GB.Trans

set_option maxRecDepth 100000 in
/-- internal/httprule `isHex` -/
theorem C20_trans_isHex : ∀ c : UInt8, GB.Generated.Trans.isHex c = GB.C20.isHexDigit c := by
  intro c
  have := byte_forall (fun c => GB.Generated.Trans.isHex c == GB.C20.isHexDigit c) (by decide) c
  simpa using this

set_option maxRecDepth 100000 in
/-- internal/httprule/gwbased `isHexDigit` on a byte value -/
theorem C20_trans_isHexDigit : ∀ c : UInt8, GB.Generated.Trans.isHexDigit (ofByte c) = GB.C20.isHexDigit c := by
  intro c
  have := byte_forall (fun c => GB.Generated.Trans.isHexDigit (ofByte c) == GB.C20.isHexDigit c) (by decide) c
  simpa using this

/-- … and on every rune that is not a byte value it rejects -/
theorem C20_trans_isHexDigit_nonbyte : ∀ r : Int, (r < 0 ∨ r > 255) → GB.Generated.Trans.isHexDigit r = false := by
  intro r h
  unfold GB.Generated.Trans.isHexDigit
  have h1 : ¬ ((48 : Int) ≤ r ∧ r ≤ 57) := by omega
  have h2 : ¬ ((65 : Int) ≤ r ∧ r ≤ 70) := by omega
  have h3 : ¬ ((97 : Int) ≤ r ∧ r ≤ 102) := by omega
  simp [h1, h2, h3]

/-! ### `consumePchar` (internal/httprule/parse.go): one step of the model's `stCheckLiteral` -/

/-- the single-byte rows of `consumePchar` (the two `switch` statements with their `fallthrough`s) -/
def GB.C20.TransTie.rows (c : UInt8) : Bool :=
  (decide (48 ≤ c) && decide (c ≤ 57)) || (decide (65 ≤ c) && decide (c ≤ 90)) || (decide (97 ≤ c) && decide (c ≤ 122)) ||
  (c == 45 || c == 46 || c == 95 || c == 126) ||
  (c == 33 || c == 36 || c == 38 || c == 39 || c == 40 || c == 41 || c == 42 || c == 43 || c == 44 || c == 59 || c == 61) ||
  (c == 58 || c == 64)

set_option maxRecDepth 100000 in
theorem GB.C20.TransTie.rows_eq (c : UInt8) : GB.C20.TransTie.rows c = GB.C20.isPcharByte c := by
  have := byte_forall (fun c => GB.C20.TransTie.rows c == GB.C20.isPcharByte c) (by decide) c
  simpa using this

/-- `consumePchar` on a non-empty rest, as one expression -/
theorem GB.C20.TransTie.consumePchar_cons (whole : Bytes) (c : UInt8) (r : Bytes) :
    GB.Generated.Trans.consumePchar whole (c :: r) =
      if GB.C20.isPcharByte c then (r, false)
      else if c != 37 then ([], true)
      else if (decide (len r < 2) || !GB.C20.isHexDigit (idx r 0)) || !GB.C20.isHexDigit (idx r 1) then ([], true)
      else (slice r 2 (len r), false) := by
  have hidx : idx (c :: r) 0 = c := by simp [idx]
  have hsl : slice (c :: r) 1 (len (c :: r)) = r := by
    have : ((r.length : Int) + 1).toNat = r.length + 1 := by omega
    simp [slice, len, this]
  rw [← GB.C20.TransTie.rows_eq]
  unfold GB.Generated.Trans.consumePchar GB.C20.TransTie.rows
  simp only [hidx, hsl, C20_trans_isHex]
  by_cases h1 : (decide (48 ≤ c) && decide (c ≤ 57)) = true
  · simp [h1]
  by_cases h2 : (decide (65 ≤ c) && decide (c ≤ 90)) = true
  · simp [h1, h2]
  by_cases h3 : (decide (97 ≤ c) && decide (c ≤ 122)) = true
  · simp [h1, h2, h3]
  by_cases h4 : (c == 45 || c == 46 || c == 95 || c == 126) = true
  · simp [h1, h2, h3, h4]
  by_cases h5 : (c == 33 || c == 36 || c == 38 || c == 39 || c == 40 || c == 41 || c == 42 || c == 43 || c == 44 || c == 59 || c == 61) = true
  · simp [h1, h2, h3, h4, h5]
  by_cases h6 : (c == 58 || c == 64) = true
  · simp [h1, h2, h3, h4, h5, h6]
  simp [h1, h2, h3, h4, h5, h6]

theorem GB.C20.TransTie.stCheckLiteral_cons (c : UInt8) (r : Bytes) :
    GB.C20.stCheckLiteral (c :: r) =
      if GB.C20.isPcharByte c then GB.C20.stCheckLiteral r
      else if c != GB.C20.cPct then false
      else match r with
        | h1 :: h2 :: r' => GB.C20.isHexDigit h1 && GB.C20.isHexDigit h2 && GB.C20.stCheckLiteral r'
        | _ => false := by
  cases r with
  | nil => first | rfl | simp [GB.C20.stCheckLiteral]
  | cons h1 t =>
    cases t with
    | nil => first | rfl | simp [GB.C20.stCheckLiteral]
    | cons h2 r' => first | rfl | simp [GB.C20.stCheckLiteral]

/-- internal/httprule `consumePchar`: the model's `stCheckLiteral` is `checkLiteral`'s loop
    `for s != "" { s, err = consumePchar(original, s); if err != nil { return err } }` over the regenerated
    `consumePchar` — one unfolding, for every non-empty input -/
theorem C20_trans_consumePchar : ∀ (whole : GB.Bytes) (c : UInt8) (r : GB.Bytes),
    GB.C20.stCheckLiteral (c :: r) =
      (match GB.Generated.Trans.consumePchar whole (c :: r) with
       | (rest, false) => GB.C20.stCheckLiteral rest
       | (_, true) => false) := by
  intro whole c r
  rw [GB.C20.TransTie.consumePchar_cons]
  rw [GB.C20.TransTie.stCheckLiteral_cons]
  by_cases hp : GB.C20.isPcharByte c = true
  · simp [hp]
  · have hp' : GB.C20.isPcharByte c = false := by simpa using hp
    by_cases h37 : c = 37
    · subst h37
      cases r with
      | nil => simp [hp', GB.C20.cPct, len]
      | cons h1 t =>
        cases t with
        | nil => simp [hp', GB.C20.cPct, len]
        | cons h2 r' =>
          have hl : ¬ (len (h1 :: h2 :: r') < 2) := by simp only [len, Int.ofNat_eq_natCast, List.length_cons]; omega
          have i0 : idx (h1 :: h2 :: r') 0 = h1 := by simp [idx]
          have i1 : idx (h1 :: h2 :: r') 1 = h2 := by simp [idx]
          have sl : slice (h1 :: h2 :: r') 2 (len (h1 :: h2 :: r')) = r' := by
            have : ((r'.length : Int) + 1 + 1).toNat = r'.length + 2 := by omega
            simp [slice, len, this]
          simp only [hp', GB.C20.cPct, hl, i0, i1, sl, bne_self_eq_false, Bool.false_eq_true, if_false, decide_false, Bool.false_or]
          cases GB.C20.isHexDigit h1 <;> cases GB.C20.isHexDigit h2 <;> simp
    · have : (c != 37) = true := by simp [h37]
      simp [hp', this, GB.C20.cPct]
