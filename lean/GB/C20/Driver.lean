import GB.Base.Proto
namespace GB.C20
open GB GB.Proto

/-- stub: replaced when the C20 slice is built -/
def handle : Handler := fun _ _ => "BAD c20 unimplemented"

end GB.C20
