import GB.Base.Proto
import GB.C20.Model
import GB.C20.Spec
import GB.C20.Bridge
import GB.C03.Driver
import GB.C06.Compose
/-
  C20 driver. Case lines (byte strings hex-encoded, lists comma-separated, `-` = empty list):

    gw <tmpl>    => err | ok <String()> <OpCodes> <Pool> <Verb> <Fields>     gwbased Parse + Compile
    st <tmpl>    => err | ok <VerifDump()>                                   strict Parse
    ga <tmpl>    => ERR | <ast>                                              gwbased Parse, structural export, in the
                                                                             format of the C03 slice (`C03.showAst`)
    build <tmpl> => reject | ok <ops> <pool> <vars> <stacksize> <tailLen> <verb>   routing.buildPattern (the glue
                                                                             PatternRouter uses), pattern read by reflection
    route <tmpl> <path> => found | code:<grpc code>                          a real PatternRouter: Watch, UpdateDesc with
                                                                             the template as the one GET binding, RouteHTTP
    gtok <path>  => <tokens> <verb>                                          gwbased tokenize
    stok <path>  => <tokens>                                                 strict tokenize
    trie <method:tmpl,…> <method> <path> => none | found <tmpl>              strict Trie Add*/Find

  Specification side (VIOL): the grammar recogniser `specParse` (Spec.lean) decides membership and
  assigns verb / field paths; `matchesB` decides whether a template matches a path.
  Model side (DIFF): the outputs of the models in Model.lean.
-/
namespace GB.C20
open GB GB.Proto

def hexList (xs : List Bytes) : String :=
  if xs.isEmpty then "-" else ",".intercalate (xs.map toHex)

def natList (xs : List Nat) : String :=
  if xs.isEmpty then "-" else ",".intercalate (xs.map toString)

def parseHexList (s : String) : Option (List Bytes) :=
  if s == "-" then some [] else allSome ((s.splitOn ",").map parseHex)

def errName : PErr → String
  | .reject => "err"
  | .panic => "PANIC"
  | .fuel => "FUEL"

def gwOut (s : Bytes) : String :=
  match gwParse s with
  | .error e => errName e
  | .ok t =>
    let c := t.compile
    s!"ok {toHex t.str} {natList c.ops} {hexList c.pool} {toHex c.verb} {hexList c.fields}"

def stOut (s : Bytes) : String :=
  match stParse s with
  | .error e => errName e
  | .ok t => s!"ok {toHex t.dump}"

def gtokOut (s : Bytes) : String :=
  match gwTokenize s with
  | .error e => errName e
  | .ok (ts, v) => s!"{hexList ts} {toHex v}"

/-- the class of a string outside the (relaxed) grammar, in the words of the property -/
def rejectClass (s : Bytes) : String :=
  if noLeadingSlash s then "no-leading-slash"
  else if illegalChar s then "illegal-char"
  else if badPercent s then "illegal-char(percent-encoding)"
  else if badBraces s then "unbalanced-or-nested-variable"
  else if badFieldPath s then "bad-field-path"
  else if emptySegment s then "empty-segment"
  else "other"

def firstWord (out : List String) : String :=
  match out with
  | w :: _ => if w.startsWith "PANIC" then "PANIC" else w
  | [] => ""

def plausible (s : Bytes) : Bool :=
  match s with
  | c :: _ :: _ => c == cSlash
  | _ => false

def handleGw (s : Bytes) (out : List String) : String :=
  let implOk := firstWord out == "ok"
  let m := gwOut s
  let impl := " ".intercalate (if firstWord out == "PANIC" then ["PANIC"] else out)
  let nt := if implOk || plausible s then " nt" else ""
  match specParse s with
  | some t =>
    if !implOk then s!"VIOL gw rejects a string of the grammar (model={m})"
    else
      match out with
      | [_, _, _, _, v, fs] =>
        if v != toHex t.verbStr then s!"VIOL gw verb differs from the grammar's: want {toHex t.verbStr}"
        else if fs != hexList t.fields then s!"VIOL gw field paths differ from the grammar's: want {hexList t.fields}"
        else if impl != m then s!"DIFF model={m}"
        else s!"OK{nt} b=gw-grammar"
      | _ => "BAD gw ok line"
  | none =>
    match specParseWith true s with
    | some _ =>
      -- outside the grammar only because of a `**` that is not last: gwbased may accept it
      if impl != m then s!"DIFF model={m}" else s!"OK{nt} b=gw-relaxed-{firstWord out}"
    | none =>
      let cls := rejectClass s
      if implOk && cls != "other" then s!"VIOL gw accepts a string with {cls} (model={m})"
      else if impl != m then s!"DIFF model={m}"
      else s!"OK{nt} b=gw-{firstWord out}-{cls}"

def handleSt (s : Bytes) (out : List String) : String :=
  let implOk := firstWord out == "ok"
  let m := stOut s
  let impl := " ".intercalate (if firstWord out == "PANIC" then ["PANIC"] else out)
  let nt := if implOk || plausible s then " nt" else ""
  let g := inGrammar s
  if g && !implOk then s!"VIOL strict parser rejects a string of the grammar (model={m})"
  else if !g && implOk then s!"VIOL strict parser accepts a string outside the grammar: {rejectClass s} (model={m})"
  else if impl != m then s!"DIFF model={m}"
  else s!"OK{nt} b=st-{firstWord out}"

def parseEntries (s : String) : Option (List (Bytes × Bytes)) :=
  if s == "-" then some []
  else allSome ((s.splitOn ",").map (fun e =>
    match e.splitOn ":" with
    | [m, t] => match parseHex m, parseHex t with
      | some m, some t => some (m, t)
      | _, _ => none
    | _ => none))

def buildTrie (es : List (Bytes × Bytes)) : Trie :=
  es.foldl (fun tr (m, t) => match stParse t with
    | .ok tm => tr.add m tm
    | .error _ => tr) []

def trimSlash (p : Bytes) : Bytes :=
  match p with
  | c :: r => if c == cSlash then r else p
  | [] => p

def handleTrie (es : List (Bytes × Bytes)) (method path : Bytes) (out : List String) : String :=
  let permitted := ((buildTrie es).find method path).map (·.tmpl)
  let mstr := if permitted.isEmpty then "none" else "found " ++ hexList permitted
  match out with
  | ["none"] =>
    -- soundness is the property; completeness does NOT hold (greedy descent, `C20_trie_incomplete_fails`): a miss although
    -- an added template matches is reported in the histogram only
    let anyMatch := es.any (fun (m, t) => m == method && (match specParse t with
      | some tm => matchesB tm.mkeys tm.verbStr (splitOnByte cSlash (trimSlash path))
      | none => false))
    if permitted.isEmpty then (if anyMatch then "OK nt b=trie-none-though-match" else "OK b=trie-none")
    else s!"DIFF model={mstr}"
  | ["found", hx] =>
    match parseHex hx with
    | none => "BAD trie hex"
    | some t =>
      -- specification: the template was added under this method, and matches the path
      if !es.contains (method, t) then s!"VIOL trie returns a template that was not added"
      else match specParse t with
        | none => s!"VIOL trie returns a template outside the grammar"
        | some tm =>
          if !matchesB tm.mkeys tm.verbStr (splitOnByte cSlash (trimSlash path)) then
            s!"VIOL trie returns a template that does not match the path (model={mstr})"
          else if !permitted.contains t then s!"DIFF model={mstr}"
          else "OK nt b=trie-found"
  | w :: _ => if w.startsWith "PANIC" then s!"DIFF model={mstr} impl=PANIC" else "BAD trie out"
  | [] => "BAD trie out"

def showPattern (p : C03.Pattern) : String :=
  let ops := if p.ops.isEmpty then "-" else ",".intercalate (p.ops.map (fun o => s!"{o.code}.{o.operand}"))
  s!"ok {ops} {hexList p.pool} {hexList p.vars} {p.stacksize} {p.tailLen} {toHex p.verb}"

/-- `build`: accept iff `validTemplateB` (= Valid, `C20_buildPattern_is_parse_compile`), pattern = model's -/
def handleBuild (s : Bytes) (out : List String) : String :=
  let implOk := firstWord out == "ok"
  let m := match buildPatternM s with
    | some p => showPattern p
    | none => "reject"
  let impl := " ".intercalate (if firstWord out == "PANIC" then ["PANIC"] else out)
  let derivable := (specParseWith true s).isSome
  let valid := validTemplateB s
  if implOk && !derivable then s!"VIOL invalid-template-accepted-by-buildPattern: {rejectClass s} (model={m})"
  else if !implOk && valid then s!"VIOL valid-template-rejected by buildPattern (model={m})"
  else if impl != m then s!"DIFF model={m}"
  else s!"OK{if implOk || plausible s then " nt" else ""} b=build-{firstWord out}"

def oneBindingDesc (tmpl : Bytes) : C06.Desc :=
  ⟨[116], 1, [⟨[83], [⟨[47, 83, 47, 77], [⟨[71, 69, 84], tmpl⟩]⟩]⟩]⟩

/-- `route`: the chain model (`C20_route_chain`) on the one-binding description -/
def handleRoute (tmpl path : Bytes) (out : List String) : String :=
  let st := C06.PatState.init.run (C06.validC gwC03) [.watch [116], .update [116] (oneBindingDesc tmpl)]
  let m := match C06.routeHTTPm gwC03 (fun _ => true) st.static [71, 69, 84] path with
    | .found _ _ _ _ => "found"
    | .status c => s!"code:{c}"
  let impl := " ".intercalate (if firstWord out == "PANIC" then ["PANIC"] else out)
  if !(specParseWith true tmpl).isSome && impl != "code:5" then
    s!"VIOL invalid-template-routed: a binding whose template is outside the grammar ({rejectClass tmpl}) answers {impl}, want NotFound"
  else if impl != m then s!"DIFF model={m}"
  else s!"OK{if m == "found" then " nt" else ""} b=route-{m}"

def handle : Handler
  | ["gw", hx], out =>
    match parseHex hx with
    | some s => handleGw s out
    | none => "BAD hex"
  | ["st", hx], out =>
    match parseHex hx with
    | some s => handleSt s out
    | none => "BAD hex"
  | ["ga", hx], out =>
    match parseHex hx with
    | some s =>
      -- the adapter `toC03` applied to the parser model's result, rendered the way C03 renders its AST
      let m := match gwParse s with
        | .ok g => C03.showAst (toC03 g)
        | .error _ => "ERR"
      if " ".intercalate out != m then s!"DIFF model={m}" else (if m == "ERR" then "OK b=ga-err" else "OK nt b=ga-ast")
    | none => "BAD hex"
  | ["build", hx], out =>
    match parseHex hx with
    | some s => handleBuild s out
    | none => "BAD hex"
  | ["route", hx, px], out =>
    match parseHex hx, parseHex px with
    | some s, some p => handleRoute s p out
    | _, _ => "BAD hex"
  | ["gtok", hx], out =>
    match parseHex hx with
    | some s =>
      let m := gtokOut s
      if " ".intercalate out != m then s!"DIFF model={m}" else "OK b=gtok"
    | none => "BAD hex"
  | ["stok", hx], out =>
    match parseHex hx with
    | some s =>
      let m := hexList (stTokenize s)
      if " ".intercalate out != m then s!"DIFF model={m}" else "OK b=stok"
    | none => "BAD hex"
  | ["trie", es, m, p], out =>
    match parseEntries es, parseHex m, parseHex p with
    | some es, some m, some p => handleTrie es m p out
    | _, _, _ => "BAD trie line"
  | _, _ => "BAD c20 line"

end GB.C20
