import GB.C20.ProofsSt
import GB.C20.ProofsGwMain
/- C20 — strict `Parse` on printed well-formed templates (completeness); verbs of parsed templates. -/
namespace GB.C20
open GB

set_option linter.unusedSimpArgs false
set_option linter.unusedVariables false

theorem pcharsB_append (a b : Bytes) (ha : pcharsB a = true) (hb : pcharsB b = true) : pcharsB (a ++ b) = true := by
  fun_induction pcharsB a with
  | case1 => simpa using hb
  | case2 c r hc ih =>
    simp only [List.cons_append]
    unfold pcharsB
    simp [hc, ih ha]
  | case3 c hc hp h1 h2 r' ih =>
    simp only [Bool.and_eq_true] at ha
    simp only [List.cons_append]
    unfold pcharsB
    simp [hc, hp, ha.1.1, ha.1.2, ih ha.2]
  | case4 c r hc hp hr => simp at ha
  | case5 c r hc hp => simp at ha

theorem pcharsB_colon (v : Bytes) : pcharsB (cColon :: v) = pcharsB v := by
  have : isPcharByte cColon = true := by decide
  conv => lhs; unfold pcharsB
  simp [this]

theorem onlyLast_replace_last {α : Type} (p : α → Bool) : ∀ (pre : List α) (a b : α),
    onlyLast p (pre ++ [a]) = true → onlyLast p (pre ++ [b]) = true := by
  intro pre
  induction pre with
  | nil => intro a b _; simp [onlyLast]
  | cons x pre ih =>
    intro a b h
    cases pre with
    | nil => simpa [onlyLast] using h
    | cons y pre' =>
      simp only [List.cons_append, onlyLast, Bool.and_eq_true] at h ⊢
      exact ⟨h.1, ih a b h.2⟩

theorem has_colon_ne_star (y : Bytes) (h : cColon ∈ y) : y ≠ [cStar] ∧ y ≠ [cStar, cStar] := by
  constructor <;> intro he <;> rw [he] at h <;> revert h <;> decide

theorem colon_tok_facts (v : Bytes) :
    (cColon :: v) ≠ eofTok ∧ (cColon :: v) ≠ [cStar] ∧ (cColon :: v) ≠ [cStar, cStar] ∧ (cColon :: v) ≠ [cSlash] := by
  refine ⟨?_, ?_, ?_, ?_⟩ <;> intro h <;> simp [eofTok] at h <;> exact absurd h.1 (by decide)

theorem stFinish_eof_text (segs : List PSeg) (hl : ∀ l, segs.getLast? ≠ some (.lit l)) (hv : ∀ p i, segs.getLast? ≠ some (.var p i))
    (hne : segs ≠ []) : stFinish segs [eofTok] = .ok (segs, []) := by
  unfold stFinish
  cases h : segs.getLast? with
  | none => simp at h; exact absurd h hne
  | some s =>
    cases s with
    | wild => simp [stAcc_eof]
    | deep => simp [stAcc_eof]
    | lit l => exact absurd h (hl l)
    | var p i => exact absurd h (hv p i)

/-- the strict parser accepts the printed form of every well-formed template, with the grammar's verb -/
theorem stTemplate_render (t : Tmpl) (h : t.wfB false = true) :
    ∃ segs, stTemplate (parseFuel (stTokenize (joinWith cSlash (t.segs.map Seg.render) ++ renderVerb t.verb)))
        (stTokenize (joinWith cSlash (t.segs.map Seg.render) ++ renderVerb t.verb)) = .ok (segs, t.verbStr) := by
  obtain ⟨segs, verb⟩ := t
  simp only [Tmpl.wfB, Bool.and_eq_true, Bool.false_or] at h
  obtain ⟨⟨hsegs, hol⟩, hverb⟩ := h
  simp only [Tmpl.verbStr, stTokenize]
  rcases List.eq_nil_or_concat segs with hs | ⟨pre, L, hs⟩
  · subst hs
    cases verb with
    | none => exact ⟨[.lit []], by simp [joinWith, renderVerb, tokCore, flush, stTemplate, stAcc_eof]⟩
    | some v =>
      simp only [verbWfB, List.getLast?_nil, Bool.and_eq_true, Bool.not_eq_true'] at hverb
      have htok : tokCore .seg [] (cColon :: v) = [cColon :: v] := by
        have := tokCore_text .seg (cColon :: v) [] [] (verb_tail_nodelim v hverb.1)
        simp only [List.append_nil, List.nil_append] at this
        rw [this]; simp [tokCore, flush]
      obtain ⟨c1, c2, c3, c4⟩ := colon_tok_facts v
      have hs := splitLast_append [] v cColon hverb.2
      simp only [List.nil_append] at hs
      have hpc : pcharsB (cColon :: v) = true := by rw [pcharsB_colon]; exact hverb.1
      have hwL' : (Seg.lit (cColon :: v)).wfB false = true := by
        simp only [Seg.wfB, literalB, Bool.and_eq_true, Bool.not_eq_true', hpc]
        refine ⟨⟨⟨rfl, trivial⟩, ?_⟩, ?_⟩
        · simpa using c2
        · simpa using c3
      have heofne : eofTok ≠ [cSlash] := by decide
      obtain ⟨m, hm⟩ := stSegments_top [] (.lit (cColon :: v)) [] (parseFuel ([cColon :: v] ++ [eofTok])) eofTok []
        (by simp [hwL']) (by simp [onlyLast]) heofne (by simp [parseFuel, segsToks, Seg.toks])
      refine ⟨[.lit []], ?_⟩
      simp only [List.map_nil, joinWith, List.nil_append, renderVerb, htok]
      simp only [segsToks, Seg.toks, List.flatMap_nil, List.append_nil, List.singleton_append] at hm
      unfold stTemplate
      simp only [List.singleton_append, stAcc_eof, c1, if_false]
      rw [hm]
      simp [stFinish, Seg.emb, hs, stAcc_eof]
  · subst hs
    simp only [List.concat_eq_append] at hsegs hverb hol ⊢
    have hwL : L.wfB false = true := List.all_eq_true.mp hsegs L (by simp)
    simp only [verbWfB, List.getLast?_append, List.getLast?_singleton, Option.some_or] at hverb
    have heofne : eofTok ≠ [cSlash] := by decide
    have hfuel : ∀ (toks : List Tok) (extra : List Tok), toks.length + 3 ≤ parseFuel (toks ++ extra) := by
      intro toks extra; simp [parseFuel]; omega
    -- the segment list as s :: rest, for the parser lemma
    obtain ⟨s0, rest0, hs0⟩ : ∃ s rest, pre ++ [L] = s :: rest := by
      cases h : pre ++ [L] with
      | nil => simp at h
      | cons a b => exact ⟨a, b, rfl⟩
    cases hL : L.text with
    | some x =>
      obtain ⟨h1, h2, h3, h4⟩ := seg_text_facts hwL hL
      cases verb with
      | none =>
        have hb := body_tokens false pre L [] hsegs (by simp)
        rw [hL] at hb
        dsimp only at hb
        simp only [List.append_nil] at hb
        have hnc : hasColon x = false := by
          cases L with
          | wild => simp [Seg.text] at hL; subst hL; decide
          | deep => simp [Seg.text] at hL; subst hL; decide
          | lit l => simp [Seg.text] at hL; subst hL; simpa using hverb
          | var _ _ => simp [Seg.text] at hL
        have htoks : tokCore .seg [] (joinWith cSlash ((pre ++ [L]).map Seg.render)) = segsToks (pre ++ [L]) := by
          rw [hb, segsToks_snoc, h2]
        simp only [renderVerb, List.append_nil, htoks]
        rw [hs0] at hsegs hol ⊢
        obtain ⟨m, hm⟩ := stSegments_top rest0 s0 [] (parseFuel (segsToks (s0 :: rest0) ++ [eofTok])) eofTok []
          hsegs hol heofne (hfuel _ _)
        obtain ⟨hd, tl, hhd, hne, _⟩ := seg_toks_head false s0 (List.all_eq_true.mp hsegs s0 (by simp))
        have hshape : segsToks (s0 :: rest0) ++ [eofTok] = hd :: (tl ++ rest0.flatMap (fun t => [cSlash] :: t.toks) ++ [eofTok]) := by
          simp [segsToks, hhd]
        refine ⟨(s0 :: rest0).map Seg.emb, ?_⟩
        unfold stTemplate
        rw [hshape, stAcc_eof]
        simp only [hne, if_false]
        rw [← hshape, hm]
        simp only [List.nil_append]
        -- stFinish: the last parsed segment is emb L
        have hlast : ((s0 :: rest0).map Seg.emb).getLast? = some L.emb := by
          rw [← hs0]; simp
        unfold stFinish
        rw [hlast]
        cases L with
        | wild => simp [Seg.emb, stAcc_eof]
        | deep => simp [Seg.emb, stAcc_eof]
        | lit l =>
          simp [Seg.text] at hL; subst hL
          simp [Seg.emb, splitLast_none hnc, stAcc_eof]
        | var _ _ => simp [Seg.text] at hL
      | some v =>
        have hv : pcharsB v = true ∧ hasColon v = false := by
          cases L with
          | wild => simpa using hverb
          | deep => simpa using hverb
          | lit l => simpa using hverb
          | var _ _ => simp [Seg.text] at hL
        have hb := body_tokens false pre L (cColon :: v) hsegs (verb_tail_nodelim v hv.1)
        rw [hL] at hb
        dsimp only at hb
        -- read the last token as one literal segment
        let L' : Seg := .lit (x ++ cColon :: v)
        have hxl : pcharsB (x ++ cColon :: v) = true := pcharsB_append x _ h4 (by rw [pcharsB_colon]; exact hv.1)
        have hwL' : L'.wfB false = true := by
          have hmem : cColon ∈ x ++ cColon :: v := by simp
          obtain ⟨hn1, hn2⟩ := has_colon_ne_star _ hmem
          have hne' : (x ++ cColon :: v).isEmpty = false := by cases x <;> rfl
          simp [L', Seg.wfB, literalB, hxl, hn1, hn2, hne']
        have hsegs' : (pre ++ [L']).all (Seg.wfB false) = true := by
          simp only [List.all_append, List.all_cons, List.all_nil, Bool.and_true, Bool.and_eq_true] at hsegs ⊢
          exact ⟨hsegs.1, hwL'⟩
        have hol' : onlyLast Seg.isMulti (pre ++ [L']) = true := onlyLast_replace_last _ pre L L' hol
        have htoks : tokCore .seg [] (joinWith cSlash ((pre ++ [L]).map Seg.render) ++ cColon :: v) = segsToks (pre ++ [L']) := by
          rw [hb, segsToks_snoc]; rfl
        obtain ⟨s1, rest1, hs1⟩ : ∃ s rest, pre ++ [L'] = s :: rest := by
          cases h : pre ++ [L'] with
          | nil => simp at h
          | cons a b => exact ⟨a, b, rfl⟩
        simp only [renderVerb, htoks]
        rw [hs1] at hsegs' hol' ⊢
        obtain ⟨m, hm⟩ := stSegments_top rest1 s1 [] (parseFuel (segsToks (s1 :: rest1) ++ [eofTok])) eofTok []
          hsegs' hol' heofne (hfuel _ _)
        obtain ⟨hd, tl, hhd, hne, _⟩ := seg_toks_head false s1 (List.all_eq_true.mp hsegs' s1 (by simp))
        have hshape : segsToks (s1 :: rest1) ++ [eofTok] = hd :: (tl ++ rest1.flatMap (fun t => [cSlash] :: t.toks) ++ [eofTok]) := by
          simp [segsToks, hhd]
        refine ⟨((s1 :: rest1).map Seg.emb).dropLast ++ [.lit x], ?_⟩
        unfold stTemplate
        rw [hshape, stAcc_eof]
        simp only [hne, if_false]
        rw [← hshape, hm]
        simp only [List.nil_append]
        have hlast : ((s1 :: rest1).map Seg.emb).getLast? = some (.lit (x ++ cColon :: v)) := by
          rw [← hs1]; simp [L', Seg.emb]
        unfold stFinish
        rw [hlast]
        simp only [splitLast_append x v cColon hv.2]
        have hxe : x.isEmpty = false := by
          cases x with
          | nil => exact absurd rfl h3
          | cons _ _ => rfl
        simp [hxe, stAcc_eof]
    | none =>
      cases L with
      | var p inner =>
        have hlastE : ((s0 :: rest0).map Seg.emb).getLast? = some (Seg.var p inner).emb := by
          rw [← hs0]; simp
        cases verb with
        | none =>
          have hb := body_tokens false pre (.var p inner) [] hsegs (by simp)
          rw [hL] at hb
          dsimp only at hb
          simp only [flush_nil, List.append_nil] at hb
          have htoks : tokCore .seg [] (joinWith cSlash ((pre ++ [Seg.var p inner]).map Seg.render)) = segsToks (pre ++ [Seg.var p inner]) := by
            rw [hb, segsToks_snoc]
          simp only [renderVerb, List.append_nil, htoks]
          rw [hs0] at hsegs hol ⊢
          obtain ⟨m, hm⟩ := stSegments_top rest0 s0 [] (parseFuel (segsToks (s0 :: rest0) ++ [eofTok])) eofTok []
            hsegs hol heofne (hfuel _ _)
          obtain ⟨hd, tl, hhd, hne, _⟩ := seg_toks_head false s0 (List.all_eq_true.mp hsegs s0 (by simp))
          have hshape : segsToks (s0 :: rest0) ++ [eofTok] = hd :: (tl ++ rest0.flatMap (fun t => [cSlash] :: t.toks) ++ [eofTok]) := by
            simp [segsToks, hhd]
          refine ⟨(s0 :: rest0).map Seg.emb, ?_⟩
          unfold stTemplate
          rw [hshape, stAcc_eof]
          simp only [hne, if_false]
          rw [← hshape, hm]
          simp only [List.nil_append]
          unfold stFinish
          rw [hlastE]
          cases inner <;> simp [Seg.emb, stAcc_eof]
        | some v =>
          have hv : pcharsB v = true := by simpa using hverb
          have hb := body_tokens false pre (.var p inner) (cColon :: v) hsegs (verb_tail_nodelim v hv)
          rw [hL] at hb
          dsimp only at hb
          have hfl : flush (cColon :: v) = [cColon :: v] := by simp [flush]
          simp only [hfl] at hb
          have htoks : tokCore .seg [] (joinWith cSlash ((pre ++ [Seg.var p inner]).map Seg.render) ++ cColon :: v) =
              segsToks (pre ++ [Seg.var p inner]) ++ [cColon :: v] := by
            rw [hb, segsToks_snoc]
          obtain ⟨c1, c2, c3, c4⟩ := colon_tok_facts v
          simp only [renderVerb, htoks]
          rw [hs0] at hsegs hol ⊢
          obtain ⟨m, hm⟩ := stSegments_top rest0 s0 [] (parseFuel (segsToks (s0 :: rest0) ++ [cColon :: v] ++ [eofTok]))
            (cColon :: v) [eofTok] hsegs hol c4 (by simp [parseFuel]; omega)
          obtain ⟨hd, tl, hhd, hne, _⟩ := seg_toks_head false s0 (List.all_eq_true.mp hsegs s0 (by simp))
          have hshape : segsToks (s0 :: rest0) ++ [cColon :: v] ++ [eofTok] =
              hd :: (tl ++ rest0.flatMap (fun t => [cSlash] :: t.toks) ++ [cColon :: v] ++ [eofTok]) := by
            simp [segsToks, hhd]
          have hshape2 : segsToks (s0 :: rest0) ++ [cColon :: v] ++ [eofTok] =
              segsToks (s0 :: rest0) ++ (cColon :: v) :: [eofTok] := by simp
          refine ⟨(s0 :: rest0).map Seg.emb, ?_⟩
          unfold stTemplate
          rw [hshape, stAcc_eof]
          simp only [hne, if_false]
          rw [hshape2] at hm
          rw [← hshape, hshape2, hm]
          simp only [List.nil_append]
          unfold stFinish
          rw [hlastE]
          cases inner <;>
            simp [Seg.emb, stAcc_eof, c1, stAccept, stCheckLiteral_eq, pcharsB_colon, hv]
      | wild => simp [Seg.text] at hL
      | deep => simp [Seg.text] at hL
      | lit l => simp [Seg.text] at hL

theorem stParse_render (t : Tmpl) (h : t.wfB false = true) :
    ∃ T, stParse t.render = .ok T ∧ T.verb = t.verbStr ∧ T.tmpl = t.render := by
  obtain ⟨segs, htmpl⟩ := stTemplate_render t h
  have hnul := render_no_nul false t h
  unfold stParse
  simp only [Tmpl.render, List.cons_append] at hnul ⊢
  have hs : (cSlash != cSlash) = false := by decide
  simp only [hs, Bool.false_eq_true, if_false, hnul]
  rw [htmpl]
  exact ⟨_, rfl, rfl, rfl⟩

end GB.C20
