import GB.C20.ProofsGw
import GB.C20.ProofsBody
/- C20 — strict parser: completeness on printed well-formed templates; the verb of a parsed template. -/
namespace GB.C20
open GB

set_option linter.unusedSimpArgs false
set_option linter.unusedVariables false

/-! ### `accept` on a known head token -/

theorem stAcc_star (t : Tok) (r : List Tok) :
    stAccept .star (t :: r) = if t = [cStar] then .ok (t, r) else .error .reject := by
  by_cases h : t = [cStar] <;> simp [stAccept, Term.punct, h]
theorem stAcc_dstar (t : Tok) (r : List Tok) :
    stAccept .dstar (t :: r) = if t = [cStar, cStar] then .ok (t, r) else .error .reject := by
  by_cases h : t = [cStar, cStar] <;> simp [stAccept, Term.punct, h]
theorem stAcc_slash (t : Tok) (r : List Tok) :
    stAccept .slash (t :: r) = if t = [cSlash] then .ok (t, r) else .error .reject := by
  by_cases h : t = [cSlash] <;> simp [stAccept, Term.punct, h]
theorem stAcc_dot (t : Tok) (r : List Tok) :
    stAccept .dot (t :: r) = if t = [cDot] then .ok (t, r) else .error .reject := by
  by_cases h : t = [cDot] <;> simp [stAccept, Term.punct, h]
theorem stAcc_eq (t : Tok) (r : List Tok) :
    stAccept .eq (t :: r) = if t = [cEq] then .ok (t, r) else .error .reject := by
  by_cases h : t = [cEq] <;> simp [stAccept, Term.punct, h]
theorem stAcc_lbrace (t : Tok) (r : List Tok) :
    stAccept .lbrace (t :: r) = if t = [cLBrace] then .ok (t, r) else .error .reject := by
  by_cases h : t = [cLBrace] <;> simp [stAccept, Term.punct, h]
theorem stAcc_rbrace (t : Tok) (r : List Tok) :
    stAccept .rbrace (t :: r) = if t = [cRBrace] then .ok (t, r) else .error .reject := by
  by_cases h : t = [cRBrace] <;> simp [stAccept, Term.punct, h]
theorem stAcc_literal (t : Tok) (r : List Tok) :
    stAccept .literal (t :: r) = if pcharsB t = true then .ok (t, r) else .error .reject := by
  simp [stAccept, stCheckLiteral_eq]
theorem stAcc_ident (t : Tok) (r : List Tok) (ht : t ≠ []) :
    stAccept .ident (t :: r) = if identB t = true then .ok (t, r) else .error .reject := by
  simp [stAccept, stCheckIdent_eq t ht]
theorem stAcc_eof (t : Tok) (r : List Tok) :
    stAccept .eof (t :: r) = if t = eofTok then .ok (t, r) else .error .reject := by
  by_cases h : t = eofTok <;> simp [stAccept, h]

/-! ### field path -/

theorem stFieldLoop_complete : ∀ (ps comps : List Bytes) (t : Tok) (rest : List Tok),
    ps.all identB = true → t ≠ [cDot] →
    stFieldLoop comps (ps.flatMap (fun y => [[cDot], y]) ++ t :: rest) = .ok (comps ++ ps, t :: rest) := by
  intro ps
  induction ps with
  | nil =>
    intro comps t rest _ ht
    unfold stFieldLoop
    simp [stAcc_dot, ht]
  | cons p ps ih =>
    intro comps t rest h ht
    simp only [List.all_cons, Bool.and_eq_true] at h
    simp only [List.flatMap_cons, List.cons_append, List.nil_append]
    unfold stFieldLoop
    simp only [stAcc_dot, if_true, stCheckIdent_eq p (ident_ne_nil p h.1), h.1]
    rw [ih (comps ++ [p]) t rest h.2 ht]
    simp

theorem stFieldPath_complete (p : Bytes) (ps : List Bytes) (t : Tok) (rest : List Tok)
    (h : (p :: ps).all identB = true) (ht : t ≠ [cDot]) :
    stFieldPath (inter [cDot] (p :: ps) ++ t :: rest) = .ok (p :: ps, t :: rest) := by
  simp only [List.all_cons, Bool.and_eq_true] at h
  rw [inter_cons]
  simp only [stFieldPath, List.cons_append, stAcc_ident _ _ (ident_ne_nil p h.1), h.1, if_true, tryP_ok]
  rw [stFieldLoop_complete ps [p] t rest h.2 ht]
  simp

/-! ### segments inside a variable -/

theorem stSegment_iseg (i : ISeg) (h : i.wfB = true) (f0 : Nat) (hf0 : 1 ≤ f0) (rest : List Tok) :
    stSegment f0 (i.render :: rest) = .ok ((i.emb, i.isDeep), rest) := by
  obtain ⟨f, rfl⟩ : ∃ f, f0 = f + 1 := ⟨f0 - 1, by omega⟩
  cases i with
  | wild => simp [stSegment, ISeg.render, ISeg.emb, ISeg.isDeep, stAcc_star]
  | deep =>
    have : ([cStar, cStar] : Tok) ≠ [cStar] := by decide
    simp [stSegment, ISeg.render, ISeg.emb, ISeg.isDeep, stAcc_star, stAcc_dstar, this]
  | lit l =>
    obtain ⟨h1, h2, h3, h4⟩ := literal_facts (by simpa [ISeg.wfB] using h)
    simp [stSegment, ISeg.render, ISeg.emb, ISeg.isDeep, stAcc_star, stAcc_dstar, stAcc_literal, h2, h3, h4]

theorem stSegments_inner : ∀ (is : List ISeg) (i : ISeg) (acc : List PSeg) (f : Nat) (t : Tok) (rest : List Tok),
    (i :: is).all ISeg.wfB = true → onlyLast ISeg.isDeep (i :: is) = true → t ≠ [cSlash] → is.length + 2 ≤ f →
    stSegments f acc (inter [cSlash] ((i :: is).map ISeg.render) ++ t :: rest) =
      .ok ((acc ++ (i :: is).map ISeg.emb, (i :: is).any ISeg.isDeep), t :: rest) := by
  intro is
  induction is with
  | nil =>
    intro i acc f t rest h _ ht hf
    simp only [List.all_cons, Bool.and_eq_true] at h
    obtain ⟨f', rfl⟩ : ∃ f', f = f' + 1 := ⟨f - 1, by omega⟩
    simp only [List.map_cons, List.map_nil, inter, List.cons_append, List.nil_append, stSegments]
    rw [stSegment_iseg i h.1 f' (by simp at hf; omega)]
    simp only [tryP_ok]
    by_cases hd : i.isDeep = true
    · simp [hd]
    · simp [hd, stAcc_slash, ht]
  | cons j js ih =>
    intro i acc f t rest h hol ht hf
    simp only [List.all_cons, Bool.and_eq_true] at h
    simp only [onlyLast, Bool.and_eq_true, Bool.not_eq_true'] at hol
    obtain ⟨f', rfl⟩ : ∃ f', f = f' + 1 := ⟨f - 1, by omega⟩
    simp only [List.map_cons, inter, List.cons_append, stSegments]
    rw [stSegment_iseg i h.1 f' (by simp at hf; omega)]
    simp only [tryP_ok, hol.1, Bool.false_eq_true, if_false, stAcc_slash, if_true]
    have := ih j (acc ++ [i.emb]) f' t rest (by simp [h.2]) hol.2 ht (by simp at hf ⊢; omega)
    simp only [List.map_cons] at this
    rw [this]
    simp [hol.1]

/-! ### one top-level segment -/

theorem stSegment_seg (s : Seg) (h : s.wfB false = true) (f : Nat) (rest : List Tok)
    (hf : s.toks.length + 2 ≤ f) :
    stSegment f (s.toks ++ rest) = .ok ((s.emb, s.isMulti), rest) := by
  obtain ⟨f', rfl⟩ : ∃ f', f = f' + 1 := ⟨f - 1, by omega⟩
  cases s with
  | wild => simp [stSegment, Seg.toks, Seg.emb, Seg.isMulti, stAcc_star]
  | deep =>
    have : ([cStar, cStar] : Tok) ≠ [cStar] := by decide
    simp [stSegment, Seg.toks, Seg.emb, Seg.isMulti, stAcc_star, stAcc_dstar, this]
  | lit l =>
    obtain ⟨h1, h2, h3, h4⟩ := literal_facts (by simpa [Seg.wfB] using h)
    simp [stSegment, Seg.toks, Seg.emb, Seg.isMulti, stAcc_star, stAcc_dstar, stAcc_literal, h2, h3, h4]
  | var p inner =>
    obtain ⟨⟨hp1, hp2⟩, hi⟩ := seg_var_facts h
    obtain ⟨p1, ps, rfl⟩ : ∃ p1 ps, p = p1 :: ps := by
      cases p with
      | nil => exact absurd rfl hp1
      | cons a b => exact ⟨a, b, rfl⟩
    have hb1 : ([cLBrace] : Tok) ≠ [cStar] := by decide
    have hb2 : ([cLBrace] : Tok) ≠ [cStar, cStar] := by decide
    have hb3 : pcharsB [cLBrace] = false := by decide
    have hr1 : ([cRBrace] : Tok) ≠ [cDot] := by decide
    have hr2 : ([cRBrace] : Tok) ≠ [cEq] := by decide
    have hr3 : ([cRBrace] : Tok) ≠ [cSlash] := by decide
    have he1 : ([cEq] : Tok) ≠ [cDot] := by decide
    obtain ⟨f'', rfl⟩ : ∃ f'', f' = f'' + 1 := ⟨f' - 1, by simp [Seg.toks] at hf; omega⟩
    cases inner with
    | none =>
      simp only [Seg.toks, List.cons_append, List.append_assoc, stSegment, stAcc_star, hb1, if_false, tryP_reject,
        stAcc_dstar, hb2, stAcc_literal, hb3, Bool.false_eq_true, stVariable, stAcc_lbrace, if_true, tryP_ok, List.nil_append]
      rw [stFieldPath_complete p1 ps [cRBrace] rest hp2 hr1]
      simp [stAcc_eq, hr2, stAcc_rbrace, Seg.emb, Seg.isMulti]
    | some is =>
      obtain ⟨hne, hwf⟩ := hi is rfl
      obtain ⟨i1, is', rfl⟩ : ∃ i1 is', is = i1 :: is' := by
        cases is with
        | nil => exact absurd rfl hne
        | cons a b => exact ⟨a, b, rfl⟩
      have hol : onlyLast ISeg.isDeep (i1 :: is') = true := by
        simp only [Seg.wfB, innerWfB, Bool.and_eq_true, Bool.false_or] at h
        exact h.2.2
      simp only [Seg.toks, List.cons_append, List.append_assoc, stSegment, stAcc_star, hb1, if_false, tryP_reject,
        stAcc_dstar, hb2, stAcc_literal, hb3, Bool.false_eq_true, stVariable, stAcc_lbrace, if_true, tryP_ok, List.nil_append]
      rw [stFieldPath_complete p1 ps [cEq] _ hp2 he1]
      simp only [tryP_ok, stAcc_eq, if_true]
      have hlen : is'.length + 2 ≤ f'' := by
        simp [Seg.toks, inter_length] at hf
        omega
      have := stSegments_inner is' i1 [] f'' [cRBrace] rest hwf hol hr3 hlen
      rw [this]
      simp [stAcc_rbrace, Seg.emb, Seg.isMulti]

/-! ### the top-level segment list -/

theorem stSegments_top : ∀ (segs : List Seg) (s : Seg) (acc : List PSeg) (f : Nat) (t : Tok) (rest : List Tok),
    (s :: segs).all (Seg.wfB false) = true → onlyLast Seg.isMulti (s :: segs) = true → t ≠ [cSlash] →
    (segsToks (s :: segs)).length + 3 ≤ f →
    ∃ m, stSegments f acc (segsToks (s :: segs) ++ t :: rest) = .ok ((acc ++ (s :: segs).map Seg.emb, m), t :: rest) := by
  intro segs
  induction segs with
  | nil =>
    intro s acc f t rest h _ ht hf
    simp only [List.all_cons, Bool.and_eq_true] at h
    obtain ⟨f', rfl⟩ : ∃ f', f = f' + 1 := ⟨f - 1, by omega⟩
    simp only [segsToks, List.flatMap_nil, List.append_nil, List.length_append] at hf ⊢
    simp only [stSegments]
    rw [stSegment_seg s h.1 f' _ (by omega)]
    simp only [tryP_ok]
    by_cases hd : s.isMulti = true
    · exact ⟨true, by simp [hd]⟩
    · exact ⟨false, by simp [hd, stAcc_slash, ht]⟩
  | cons u us ih =>
    intro s acc f t rest h hol ht hf
    simp only [List.all_cons, Bool.and_eq_true] at h
    simp only [onlyLast, Bool.and_eq_true, Bool.not_eq_true'] at hol
    obtain ⟨f', rfl⟩ : ∃ f', f = f' + 1 := ⟨f - 1, by omega⟩
    simp only [segsToks, List.flatMap_cons, List.length_append, List.length_cons] at hf
    have hshape : segsToks (s :: u :: us) ++ t :: rest = s.toks ++ ([cSlash] :: (segsToks (u :: us) ++ t :: rest)) := by
      simp [segsToks]
    rw [hshape]
    simp only [stSegments]
    rw [stSegment_seg s h.1 f' _ (by omega)]
    simp only [tryP_ok, hol.1, Bool.false_eq_true, if_false, stAcc_slash, if_true]
    obtain ⟨m, hm⟩ := ih u (acc ++ [s.emb]) f' t rest (by simpa using h.2) hol.2 ht
      (by simp only [segsToks, List.length_append]; omega)
    exact ⟨m, by rw [hm]; simp⟩

end GB.C20
