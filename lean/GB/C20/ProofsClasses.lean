import GB.C20.ProofsGwSoundMain
/-
  C20 — the named rejection classes are disjoint from the (relaxed) grammar's language:
  a printed well-formed template has well-formed percent-escapes, balanced non-nested braces,
  well-formed field paths and no empty segment.
-/
namespace GB.C20
open GB

set_option linter.unusedSimpArgs false
set_option linter.unusedVariables false

/-! ### bytes of the pieces -/

theorem pchars_bytes {l : Bytes} (h : pcharsB l = true) : ∀ c ∈ l, c ≠ cSlash ∧ c ≠ cLBrace ∧ c ≠ cRBrace := by
  intro c hc
  have := List.all_eq_true.mp (pchars_no_special l h) c hc
  simp [isSpecial] at this
  exact ⟨this.1.1.1, this.1.1.2, this.1.2⟩

theorem ident_bytes {l : Bytes} (h : identB l = true) :
    ∀ c ∈ l, c ≠ cDot ∧ c ≠ cEq ∧ c ≠ cRBrace ∧ c ≠ cSlash ∧ c ≠ cLBrace ∧ c ≠ cPct := by
  intro c hc
  have := List.all_eq_true.mp (ident_no_special l h) c hc
  simp [isFldSpecial] at this
  refine ⟨this.1.1.1.1.1, this.1.1.1.1.2, this.1.1.1.2, this.1.2, this.2, ?_⟩
  intro he
  subst he
  cases l with
  | nil => simp at hc
  | cons a r =>
    simp only [identB, Bool.and_eq_true, List.all_eq_true] at h
    rcases List.mem_cons.mp hc with hc | hc
    · have := identStart_identByte a h.1; rw [← hc] at this; revert this; decide
    · have := h.2 _ hc; revert this; decide

theorem joinWith_forall (P : UInt8 → Prop) (sep : UInt8) (hsep : P sep) : ∀ xs : List Bytes,
    (∀ x ∈ xs, ∀ c ∈ x, P c) → ∀ c ∈ joinWith sep xs, P c := by
  intro xs
  induction xs with
  | nil => intro _ c hc; simp [joinWith] at hc
  | cons x xs ih =>
    intro h c hc
    rw [joinWith_cons] at hc
    rcases List.mem_append.mp hc with hc | hc
    · exact h x (by simp) c hc
    · obtain ⟨y, hy, hcy⟩ := List.mem_flatMap.mp hc
      rcases List.mem_cons.mp hcy with hcy | hcy
      · rw [hcy]; exact hsep
      · exact h y (by simp [hy]) c hcy

/-- the field path text: no `= } / { %` (dots allowed) -/
theorem path_bytes {p : List Bytes} (hp : p.all identB = true) :
    ∀ c ∈ joinWith cDot p, c ≠ cEq ∧ c ≠ cRBrace ∧ c ≠ cSlash ∧ c ≠ cLBrace ∧ c ≠ cPct := by
  apply joinWith_forall (fun c => c ≠ cEq ∧ c ≠ cRBrace ∧ c ≠ cSlash ∧ c ≠ cLBrace ∧ c ≠ cPct) cDot (by decide)
  intro x hx c hc
  have := ident_bytes (List.all_eq_true.mp hp x hx) c hc
  exact ⟨this.2.1, this.2.2.1, this.2.2.2.1, this.2.2.2.2.1, this.2.2.2.2.2⟩

/-- the pattern text of a variable: no braces -/
theorem pattern_bytes {is : List ISeg} (hw : is.all ISeg.wfB = true) :
    ∀ c ∈ joinWith cSlash (is.map ISeg.render), c ≠ cLBrace ∧ c ≠ cRBrace := by
  apply joinWith_forall (fun c => c ≠ cLBrace ∧ c ≠ cRBrace) cSlash (by decide)
  intro x hx c hc
  obtain ⟨i, hi, rfl⟩ := List.mem_map.mp hx
  have := pchars_bytes (iseg_render_facts (List.all_eq_true.mp hw i hi)).2 c hc
  exact ⟨this.2.1, this.2.2⟩

/-! ### percent-escapes -/

theorem bp_append : ∀ a b : Bytes, badPercent a = false → badPercent b = false → badPercent (a ++ b) = false := by
  intro a
  induction a with
  | nil => intro b _ hb; simpa using hb
  | cons c r ih =>
    intro b ha hb
    simp only [badPercent, Bool.or_eq_false_iff] at ha
    simp only [List.cons_append, badPercent, Bool.or_eq_false_iff]
    refine ⟨?_, ih b ha.2 hb⟩
    by_cases hc : (c == cPct) = true
    · have h1 := ha.1
      simp only [hc, Bool.true_and] at h1 ⊢
      cases r with
      | nil => simp at h1
      | cons h1' r' =>
        cases r' with
        | nil => simp at h1
        | cons h2' r'' => simpa using h1
    · simp [hc]

theorem bp_nopct : ∀ w : Bytes, (∀ c ∈ w, c ≠ cPct) → badPercent w = false := by
  intro w
  induction w with
  | nil => intro _; rfl
  | cons c r ih =>
    intro h
    have hc : (c == cPct) = false := by simpa using h c (by simp)
    simp [badPercent, hc, ih (fun x hx => h x (by simp [hx]))]

theorem bp_pchars : ∀ l : Bytes, pcharsB l = true → badPercent l = false := by
  intro l h
  fun_induction pcharsB l with
  | case1 => rfl
  | case2 c r hc ih =>
    have : (c == cPct) = false := by
      rw [Bool.eq_false_iff]; intro he
      have : c = cPct := by simpa using he
      subst this; revert hc; decide
    simp [badPercent, this, ih h]
  | case3 c hc hp h1 h2 r' ih =>
    simp only [Bool.and_eq_true] at h
    have n1 : (h1 == cPct) = false := by
      rw [Bool.eq_false_iff]; intro he
      have e1 : h1 = cPct := by simpa using he
      have hh := h.1.1; rw [e1] at hh; revert hh; decide
    have n2 : (h2 == cPct) = false := by
      rw [Bool.eq_false_iff]; intro he
      have e2 : h2 = cPct := by simpa using he
      have hh := h.1.2; rw [e2] at hh; revert hh; decide
    simp [badPercent, h.1.1, h.1.2, n1, n2, ih h.2]
  | case4 c r hc hp hr => simp at h
  | case5 c r hc hp => simp at h

theorem bp_join (sep : UInt8) (hsep : sep ≠ cPct) : ∀ xs : List Bytes, (∀ x ∈ xs, badPercent x = false) →
    badPercent (joinWith sep xs) = false := by
  intro xs
  induction xs with
  | nil => intro _; rfl
  | cons x xs ih =>
    intro h
    cases xs with
    | nil => simpa [joinWith] using h x (by simp)
    | cons y ys =>
      simp only [joinWith]
      apply bp_append _ _ (h x (by simp))
      have : badPercent (sep :: joinWith sep (y :: ys)) = false := by
        have hs : (sep == cPct) = false := by simpa using hsep
        simp [badPercent, hs, ih (fun z hz => h z (by simp [hz]))]
      exact this

theorem bp_seg (r : Bool) (s : Seg) (h : s.wfB r = true) : badPercent s.render = false := by
  cases hs : s.text with
  | some x =>
    obtain ⟨h1, _, _, h4⟩ := seg_text_facts h hs
    rw [h1]; exact bp_pchars x h4
  | none =>
    cases s with
    | var p inner =>
      obtain ⟨⟨hp1, hp2⟩, hi⟩ := seg_var_facts h
      have hpath : badPercent (joinWith cDot p) = false := bp_nopct _ (fun c hc => (path_bytes hp2 c hc).2.2.2.2)
      have hb : ∀ c : UInt8, c ≠ cPct → badPercent [c] = false := by
        intro c hc; simp [badPercent, hc]
      cases inner with
      | none =>
        have e : (Seg.var p none).render = [cLBrace] ++ (joinWith cDot p ++ [cRBrace]) := by simp [Seg.render]
        rw [e]
        exact bp_append _ _ (hb _ (by decide)) (bp_append _ _ hpath (hb _ (by decide)))
      | some is =>
        obtain ⟨_, hwf⟩ := hi is rfl
        have hpat : badPercent (joinWith cSlash (is.map ISeg.render)) = false := by
          apply bp_join cSlash (by decide)
          intro x hx
          obtain ⟨i, hi1, rfl⟩ := List.mem_map.mp hx
          exact bp_pchars _ (iseg_render_facts (List.all_eq_true.mp hwf i hi1)).2
        have e : (Seg.var p (some is)).render =
            [cLBrace] ++ (joinWith cDot p ++ ([cEq] ++ (joinWith cSlash (is.map ISeg.render) ++ [cRBrace]))) := by
          simp [Seg.render]
        rw [e]
        exact bp_append _ _ (hb _ (by decide)) (bp_append _ _ hpath (bp_append _ _ (hb _ (by decide))
          (bp_append _ _ hpat (hb _ (by decide)))))
    | wild => simp [Seg.text] at hs
    | deep => simp [Seg.text] at hs
    | lit l => simp [Seg.text] at hs

theorem render_badPercent (r : Bool) (t : Tmpl) (h : t.wfB r = true) : badPercent t.render = false := by
  have hv := verbStr_pchars r t h
  obtain ⟨segs, verb⟩ := t
  simp only [Tmpl.wfB, Bool.and_eq_true] at h
  have e : Tmpl.render ⟨segs, verb⟩ = [cSlash] ++ (joinWith cSlash (segs.map Seg.render) ++ renderVerb verb) := by
    simp [Tmpl.render]
  rw [e]
  apply bp_append _ _ (by decide)
  apply bp_append
  · apply bp_join cSlash (by decide)
    intro x hx
    obtain ⟨s, hs, rfl⟩ := List.mem_map.mp hx
    exact bp_seg r s (List.all_eq_true.mp h.1.1 s hs)
  · cases verb with
    | none => rfl
    | some v =>
      have : badPercent (cColon :: v) = false := by
        have hc : (cColon == cPct) = false := by decide
        simp only [Tmpl.verbStr] at hv
        simp [badPercent, hc, bp_pchars v hv]
      simpa [renderVerb] using this

/-! ### braces -/

theorem bs_nobrace : ∀ (w : Bytes) (d : Bool) (rest : Bytes), (∀ c ∈ w, c ≠ cLBrace ∧ c ≠ cRBrace) →
    braceScan d (w ++ rest) = braceScan d rest := by
  intro w
  induction w with
  | nil => intro d rest _; rfl
  | cons c r ih =>
    intro d rest h
    have hc := h c (by simp)
    have h1 : (c == cLBrace) = false := by simpa using hc.1
    have h2 : (c == cRBrace) = false := by simpa using hc.2
    simp only [List.cons_append, braceScan, h1, h2, Bool.false_eq_true, if_false]
    exact ih d rest (fun x hx => h x (by simp [hx]))

theorem bs_seg (r : Bool) (s : Seg) (h : s.wfB r = true) (rest : Bytes) :
    braceScan false (s.render ++ rest) = braceScan false rest := by
  cases hs : s.text with
  | some x =>
    obtain ⟨h1, _, _, h4⟩ := seg_text_facts h hs
    rw [h1]
    exact bs_nobrace x false rest (fun c hc => ⟨(pchars_bytes h4 c hc).2.1, (pchars_bytes h4 c hc).2.2⟩)
  | none =>
    cases s with
    | var p inner =>
      obtain ⟨⟨hp1, hp2⟩, hi⟩ := seg_var_facts h
      have hpath : ∀ c ∈ joinWith cDot p, c ≠ cLBrace ∧ c ≠ cRBrace :=
        fun c hc => ⟨(path_bytes hp2 c hc).2.2.2.1, (path_bytes hp2 c hc).2.1⟩
      cases inner with
      | none =>
        have e : (Seg.var p none).render ++ rest = cLBrace :: (joinWith cDot p ++ (cRBrace :: rest)) := by
          simp [Seg.render]
        rw [e]
        simp only [braceScan, beq_self_eq_true, if_true, Bool.false_eq_true, if_false]
        rw [bs_nobrace _ true _ hpath]
        have hrl : (cRBrace == cLBrace) = false := by decide
        simp [braceScan, hrl]
      | some is =>
        obtain ⟨_, hwf⟩ := hi is rfl
        have e : (Seg.var p (some is)).render ++ rest =
            cLBrace :: (joinWith cDot p ++ ([cEq] ++ (joinWith cSlash (is.map ISeg.render) ++ (cRBrace :: rest)))) := by
          simp [Seg.render]
        rw [e]
        simp only [braceScan, beq_self_eq_true, if_true, Bool.false_eq_true, if_false]
        rw [bs_nobrace _ true _ hpath, bs_nobrace [cEq] true _ (by intro c hc; simp at hc; subst hc; decide),
          bs_nobrace _ true _ (pattern_bytes hwf)]
        have hrl : (cRBrace == cLBrace) = false := by decide
        simp [braceScan, hrl]
    | wild => simp [Seg.text] at hs
    | deep => simp [Seg.text] at hs
    | lit l => simp [Seg.text] at hs

theorem bs_segs (r : Bool) : ∀ (segs : List Seg) (rest : Bytes), segs.all (Seg.wfB r) = true →
    braceScan false (segs.flatMap (fun s => cSlash :: s.render) ++ rest) = braceScan false rest := by
  intro segs
  induction segs with
  | nil => intro rest _; rfl
  | cons s segs ih =>
    intro rest h
    simp only [List.all_cons, Bool.and_eq_true] at h
    simp only [List.flatMap_cons, List.cons_append, List.append_assoc]
    have : braceScan false (cSlash :: (s.render ++ (segs.flatMap (fun s => cSlash :: s.render) ++ rest))) =
        braceScan false (s.render ++ (segs.flatMap (fun s => cSlash :: s.render) ++ rest)) := by
      have h1 : (cSlash == cLBrace) = false := by decide
      have h2 : (cSlash == cRBrace) = false := by decide
      simp [braceScan, h1, h2]
    rw [this, bs_seg r s h.1, ih rest h.2]

/-- the printed form as `/s₁/s₂…/sₙ` ++ verb part (the root template is "/" ++ verb part) -/
theorem render_eq (t : Tmpl) : t.render =
    (if t.segs.isEmpty then [cSlash] else t.segs.flatMap (fun s => cSlash :: s.render)) ++ renderVerb t.verb := by
  obtain ⟨segs, verb⟩ := t
  cases segs with
  | nil => simp [Tmpl.render, joinWith]
  | cons s rest =>
    simp only [Tmpl.render, List.isEmpty_cons, Bool.false_eq_true, if_false]
    have := render_flatMap s rest (renderVerb verb)
    simp only [List.cons_append] at this ⊢
    exact this

theorem verb_bytes (r : Bool) (t : Tmpl) (h : t.wfB r = true) :
    ∀ c ∈ renderVerb t.verb, c ≠ cSlash ∧ c ≠ cLBrace ∧ c ≠ cRBrace := by
  have hv := verbStr_pchars r t h
  intro c hc
  cases hvb : t.verb with
  | none => rw [hvb] at hc; simp [renderVerb] at hc
  | some v =>
    rw [hvb] at hc
    simp only [Tmpl.verbStr, hvb] at hv
    simp only [renderVerb, List.mem_cons] at hc
    rcases hc with hc | hc
    · subst hc; decide
    · exact pchars_bytes hv c hc

theorem render_badBraces (r : Bool) (t : Tmpl) (h : t.wfB r = true) : badBraces t.render = false := by
  have hvb := verb_bytes r t h
  have hsegs : t.segs.all (Seg.wfB r) = true := by
    simp only [Tmpl.wfB, Bool.and_eq_true] at h; exact h.1.1
  unfold badBraces
  rw [render_eq]
  have hverb : braceScan false (renderVerb t.verb) = some false := by
    have := bs_nobrace (renderVerb t.verb) false [] (fun c hc => ⟨(hvb c hc).2.1, (hvb c hc).2.2⟩)
    simpa [braceScan] using this
  by_cases he : t.segs.isEmpty = true
  · simp only [he, if_true, List.cons_append, List.nil_append]
    have h1 : (cSlash == cLBrace) = false := by decide
    have h2 : (cSlash == cRBrace) = false := by decide
    simp [braceScan, h1, h2, hverb]
  · simp only [he, Bool.false_eq_true, if_false]
    rw [bs_segs r t.segs _ hsegs, hverb]
    rfl

/-! ### field paths -/

theorem fp_nolbrace : ∀ (w rest : Bytes), (∀ c ∈ w, c ≠ cLBrace) →
    badFieldPathFrom (w ++ rest) = badFieldPathFrom rest := by
  intro w
  induction w with
  | nil => intro rest _; rfl
  | cons c r ih =>
    intro rest h
    have h1 : (c == cLBrace) = false := by simpa using h c (by simp)
    simp only [List.cons_append, badFieldPathFrom, h1, Bool.false_eq_true, if_false, Bool.false_or]
    exact ih rest (fun x hx => h x (by simp [hx]))

theorem takeWhile_stop (w rest : Bytes) (d : UInt8) (p : UInt8 → Bool) (hw : ∀ c ∈ w, p c = true) (hd : p d = false) :
    (w ++ d :: rest).takeWhile p = w := by
  induction w with
  | nil => simp [List.takeWhile, hd]
  | cons c r ih =>
    simp only [List.cons_append, List.takeWhile, hw c (by simp)]
    rw [ih (fun x hx => hw x (by simp [hx]))]

/-- a prefix without the separator stays in the first piece -/
theorem split_prefix (sep : UInt8) : ∀ (x rest y : Bytes) (ys : List Bytes), sep ∉ x →
    splitOnByte sep rest = y :: ys → splitOnByte sep (x ++ rest) = (x ++ y) :: ys := by
  intro x
  induction x with
  | nil => intro rest y ys _ h; simpa using h
  | cons c x ih =>
    intro rest y ys hx h
    have hc : (c == sep) = false := by
      rw [Bool.eq_false_iff]; intro he
      have : c = sep := by simpa using he
      exact hx (by simp [this])
    have := ih rest y ys (fun hm => hx (by simp [hm])) h
    simp only [List.cons_append]
    unfold splitOnByte
    simp only [hc, Bool.false_eq_true, if_false, this]

/-- splitting a joined list gives the list back when no element contains the separator -/
theorem split_join (sep : UInt8) : ∀ (xs : List Bytes) (x : Bytes), (∀ y ∈ x :: xs, sep ∉ y) →
    splitOnByte sep (joinWith sep (x :: xs)) = x :: xs := by
  intro xs
  induction xs with
  | nil =>
    intro x h
    have := split_prefix sep x [] [] [] (h x (by simp)) (by simp [splitOnByte])
    simpa [joinWith] using this
  | cons y ys ih =>
    intro x h
    have hrec := ih y (fun z hz => h z (by simp [List.mem_cons] at hz ⊢; right; exact hz))
    have hsep : splitOnByte sep (sep :: joinWith sep (y :: ys)) = [] :: y :: ys := by
      conv => lhs; unfold splitOnByte
      simp [hrec]
    have := split_prefix sep x _ [] (y :: ys) (h x (by simp)) hsep
    simpa [joinWith] using this

theorem fp_seg (r : Bool) (s : Seg) (h : s.wfB r = true) (rest : Bytes) :
    badFieldPathFrom (s.render ++ rest) = badFieldPathFrom rest := by
  cases hs : s.text with
  | some x =>
    obtain ⟨h1, _, _, h4⟩ := seg_text_facts h hs
    rw [h1]
    exact fp_nolbrace x rest (fun c hc => (pchars_bytes h4 c hc).2.1)
  | none =>
    cases s with
    | var p inner =>
      obtain ⟨⟨hp1, hp2⟩, hi⟩ := seg_var_facts h
      obtain ⟨p1, ps, rfl⟩ : ∃ p1 ps, p = p1 :: ps := by
        cases p with
        | nil => exact absurd rfl hp1
        | cons a b => exact ⟨a, b, rfl⟩
      have hpb := path_bytes hp2
      have hq : ∀ c ∈ joinWith cDot (p1 :: ps), (c != cEq && c != cRBrace) = true := by
        intro c hc; simp [(hpb c hc).1, (hpb c hc).2.1]
      have hsplit : splitOnByte cDot (joinWith cDot (p1 :: ps)) = p1 :: ps :=
        split_join cDot ps p1 (fun y hy hm => (ident_bytes (List.all_eq_true.mp hp2 y hy) cDot hm).1 rfl)
      have hnl : ∀ c ∈ joinWith cDot (p1 :: ps), c ≠ cLBrace := fun c hc => (hpb c hc).2.2.2.1
      cases inner with
      | none =>
        have e : (Seg.var (p1 :: ps) none).render ++ rest = cLBrace :: (joinWith cDot (p1 :: ps) ++ cRBrace :: rest) := by
          simp [Seg.render]
        rw [e]
        simp only [badFieldPathFrom, beq_self_eq_true, if_true]
        rw [takeWhile_stop _ rest cRBrace _ hq (by decide), hsplit, hp2, fp_nolbrace _ _ hnl]
        have : (cRBrace == cLBrace) = false := by decide
        simp [badFieldPathFrom, this]
      | some is =>
        obtain ⟨_, hwf⟩ := hi is rfl
        have e : (Seg.var (p1 :: ps) (some is)).render ++ rest =
            cLBrace :: (joinWith cDot (p1 :: ps) ++ cEq :: ((joinWith cSlash (is.map ISeg.render) ++ [cRBrace]) ++ rest)) := by
          simp [Seg.render]
        rw [e]
        simp only [badFieldPathFrom, beq_self_eq_true, if_true]
        rw [takeWhile_stop _ _ cEq _ hq (by decide), hsplit, hp2, fp_nolbrace _ _ hnl]
        have h1 : (cEq == cLBrace) = false := by decide
        simp only [badFieldPathFrom, h1, Bool.false_eq_true, if_false, Bool.not_true, Bool.false_or]
        apply fp_nolbrace
        intro c hc
        rcases List.mem_append.mp hc with hc | hc
        · exact (pattern_bytes hwf c hc).1
        · simp at hc; subst hc; decide
    | wild => simp [Seg.text] at hs
    | deep => simp [Seg.text] at hs
    | lit l => simp [Seg.text] at hs

theorem fp_segs (r : Bool) : ∀ (segs : List Seg) (rest : Bytes), segs.all (Seg.wfB r) = true →
    badFieldPathFrom (segs.flatMap (fun s => cSlash :: s.render) ++ rest) = badFieldPathFrom rest := by
  intro segs
  induction segs with
  | nil => intro rest _; rfl
  | cons s segs ih =>
    intro rest h
    simp only [List.all_cons, Bool.and_eq_true] at h
    simp only [List.flatMap_cons, List.cons_append, List.append_assoc]
    have h1 : (cSlash == cLBrace) = false := by decide
    simp only [badFieldPathFrom, h1, Bool.false_eq_true, if_false, Bool.false_or]
    rw [fp_seg r s h.1, ih rest h.2]

theorem render_badFieldPath (r : Bool) (t : Tmpl) (h : t.wfB r = true) : badFieldPath t.render = false := by
  have hvb := verb_bytes r t h
  have hsegs : t.segs.all (Seg.wfB r) = true := by
    simp only [Tmpl.wfB, Bool.and_eq_true] at h; exact h.1.1
  unfold badFieldPath
  rw [render_eq]
  have hverb : badFieldPathFrom (renderVerb t.verb) = false := by
    have := fp_nolbrace (renderVerb t.verb) [] (fun c hc => (hvb c hc).2.1)
    simpa [badFieldPathFrom] using this
  by_cases he : t.segs.isEmpty = true
  · simp only [he, if_true, List.cons_append, List.nil_append]
    have h1 : (cSlash == cLBrace) = false := by decide
    simp [badFieldPathFrom, h1, hverb]
  · simp only [he, Bool.false_eq_true, if_false]
    rw [fp_segs r t.segs _ hsegs, hverb]

/-! ### empty segments -/

theorem es_plain (st : Nat) (hst : (st == 1) = false) : ∀ (w : Bytes) (a : Bool) (rest : Bytes), w ≠ [] →
    (∀ c ∈ w, c ≠ cSlash ∧ c ≠ cLBrace ∧ c ≠ cRBrace) →
    emptySegScan st a (w ++ rest) = emptySegScan st false rest := by
  intro w
  induction w with
  | nil => intro a rest h; exact absurd rfl h
  | cons c r ih =>
    intro a rest _ h
    have hc := h c (by simp)
    have h1 : (c == cSlash) = false := by simpa using hc.1
    have h2 : (c == cLBrace) = false := by simpa using hc.2.1
    have h3 : (c == cRBrace) = false := by simpa using hc.2.2
    simp only [List.cons_append, emptySegScan, hst, Bool.false_eq_true, if_false, h1, h2, h3, Bool.false_and]
    cases r with
    | nil => rfl
    | cons d r' => exact ih false rest (by simp) (fun x hx => h x (by simp [hx]))

theorem es_fld : ∀ (w : Bytes) (a : Bool) (rest : Bytes), w ≠ [] → (∀ c ∈ w, c ≠ cEq ∧ c ≠ cRBrace) →
    emptySegScan 1 a (w ++ rest) = emptySegScan 1 false rest := by
  intro w
  induction w with
  | nil => intro a rest h; exact absurd rfl h
  | cons c r ih =>
    intro a rest _ h
    have hc := h c (by simp)
    have h1 : (c == cEq) = false := by simpa using hc.1
    have h2 : (c == cRBrace) = false := by simpa using hc.2
    simp only [List.cons_append, emptySegScan, beq_self_eq_true, if_true, h1, h2, Bool.false_eq_true, if_false]
    cases r with
    | nil => rfl
    | cons d r' => exact ih false rest (by simp) (fun x hx => h x (by simp [hx]))

theorem es_pattern_loop : ∀ (is : List ISeg) (rest : Bytes), is.all ISeg.wfB = true →
    emptySegScan 2 false (is.flatMap (fun i => cSlash :: i.render) ++ cRBrace :: rest) = emptySegScan 0 false rest := by
  intro is
  induction is with
  | nil =>
    intro rest _
    have h1 : (cRBrace == cSlash) = false := by decide
    simp [emptySegScan, h1]
  | cons i is ih =>
    intro rest h
    simp only [List.all_cons, Bool.and_eq_true] at h
    obtain ⟨f1, f2⟩ := iseg_render_facts h.1
    simp only [List.flatMap_cons, List.cons_append, List.append_assoc]
    have : emptySegScan 2 false (cSlash :: (i.render ++ (is.flatMap (fun i => cSlash :: i.render) ++ cRBrace :: rest))) =
        emptySegScan 2 true (i.render ++ (is.flatMap (fun i => cSlash :: i.render) ++ cRBrace :: rest)) := by
      simp [emptySegScan]
    rw [this, es_plain 2 (by decide) _ true _ f1 (pchars_bytes f2), ih rest h.2]

theorem es_seg (r : Bool) (s : Seg) (h : s.wfB r = true) (a : Bool) (rest : Bytes) :
    emptySegScan 0 a (s.render ++ rest) = emptySegScan 0 false rest := by
  cases hs : s.text with
  | some x =>
    obtain ⟨h1, _, h3, h4⟩ := seg_text_facts h hs
    rw [h1]
    exact es_plain 0 (by decide) x a rest h3 (pchars_bytes h4)
  | none =>
    cases s with
    | var p inner =>
      obtain ⟨⟨hp1, hp2⟩, hi⟩ := seg_var_facts h
      have hpb := path_bytes hp2
      have hjne : joinWith cDot p ≠ [] := by
        have := (path_join_facts p ⟨hp1, hp2⟩).1
        intro he; rw [he] at this; simp at this
      have hjb : ∀ c ∈ joinWith cDot p, c ≠ cEq ∧ c ≠ cRBrace := fun c hc => ⟨(hpb c hc).1, (hpb c hc).2.1⟩
      have hl1 : (cLBrace == cSlash) = false := by decide
      have hl2 : (cLBrace == cRBrace) = false := by decide
      cases inner with
      | none =>
        have e : (Seg.var p none).render ++ rest = cLBrace :: (joinWith cDot p ++ cRBrace :: rest) := by
          simp [Seg.render]
        rw [e]
        simp only [emptySegScan, hl1, hl2, Bool.false_eq_true, if_false, Bool.false_and, beq_self_eq_true, Bool.and_self,
          if_true, Nat.reduceBEq]
        rw [es_fld _ false _ hjne hjb]
        have : (cRBrace == cEq) = false := by decide
        simp [emptySegScan, this]
      | some is =>
        obtain ⟨hne, hwf⟩ := hi is rfl
        obtain ⟨i1, is', rfl⟩ : ∃ i1 is', is = i1 :: is' := by
          cases is with
          | nil => exact absurd rfl hne
          | cons a b => exact ⟨a, b, rfl⟩
        simp only [List.all_cons, Bool.and_eq_true] at hwf
        obtain ⟨f1, f2⟩ := iseg_render_facts hwf.1
        have e : (Seg.var p (some (i1 :: is'))).render ++ rest =
            cLBrace :: (joinWith cDot p ++ cEq :: (i1.render ++ (is'.flatMap (fun i => cSlash :: i.render) ++ cRBrace :: rest))) := by
          simp [Seg.render, joinWith_cons, List.flatMap_map]
        rw [e]
        simp only [emptySegScan, hl1, hl2, Bool.false_eq_true, if_false, Bool.false_and, beq_self_eq_true, Bool.and_self,
          if_true, Nat.reduceBEq]
        rw [es_fld _ false _ hjne hjb]
        simp only [emptySegScan, beq_self_eq_true, if_true]
        rw [es_plain 2 (by decide) _ true _ f1 (pchars_bytes f2), es_pattern_loop is' rest hwf.2]
    | wild => simp [Seg.text] at hs
    | deep => simp [Seg.text] at hs
    | lit l => simp [Seg.text] at hs

theorem es_segs (r : Bool) : ∀ (segs : List Seg) (rest : Bytes), segs.all (Seg.wfB r) = true →
    emptySegScan 0 false (segs.flatMap (fun s => cSlash :: s.render) ++ rest) = emptySegScan 0 false rest := by
  intro segs
  induction segs with
  | nil => intro rest _; rfl
  | cons s segs ih =>
    intro rest h
    simp only [List.all_cons, Bool.and_eq_true] at h
    simp only [List.flatMap_cons, List.cons_append, List.append_assoc]
    have : emptySegScan 0 false (cSlash :: (s.render ++ (segs.flatMap (fun s => cSlash :: s.render) ++ rest))) =
        emptySegScan 0 true (s.render ++ (segs.flatMap (fun s => cSlash :: s.render) ++ rest)) := by
      simp [emptySegScan]
    rw [this, es_seg r s h.1, ih rest h.2]

theorem render_emptySegment (r : Bool) (t : Tmpl) (h : t.wfB r = true) : emptySegment t.render = false := by
  have hvb := verb_bytes r t h
  have hsegs : t.segs.all (Seg.wfB r) = true := by
    simp only [Tmpl.wfB, Bool.and_eq_true] at h; exact h.1.1
  have hverb : ∀ a, renderVerb t.verb ≠ [] → emptySegScan 0 a (renderVerb t.verb) = false := by
    intro a hne
    have := es_plain 0 (by decide) (renderVerb t.verb) a [] hne hvb
    simpa [emptySegScan] using this
  have hverb' : emptySegScan 0 false (renderVerb t.verb) = false := by
    by_cases hne : renderVerb t.verb = []
    · rw [hne]; rfl
    · exact hverb false hne
  obtain ⟨segs, verb⟩ := t
  cases segs with
  | nil =>
    simp only [Tmpl.render, List.map_nil, joinWith, List.cons_append, List.nil_append, emptySegment, beq_self_eq_true,
      Bool.true_and]
    by_cases hne : renderVerb verb = []
    · simp [hne]
    · rw [hverb true hne]; simp
  | cons s rest =>
    simp only [List.all_cons, Bool.and_eq_true] at hsegs
    have e : Tmpl.render ⟨s :: rest, verb⟩ =
        cSlash :: (s.render ++ (rest.flatMap (fun s => cSlash :: s.render) ++ renderVerb verb)) := by
      simp [Tmpl.render, joinWith_cons, List.flatMap_map]
    rw [e]
    simp only [emptySegment, beq_self_eq_true, Bool.true_and]
    rw [es_seg r s hsegs.1, es_segs r rest _ hsegs.2, hverb']
    simp

end GB.C20
