import GB.C11.FineProofs
/-
  C11 (wave 7) — RUN-level fine-to-coarse simulation for single-key observers.

  `CoarseObs P k c rs`: from the coarse state `c` there is a run of the COARSE LTS along which the values
  `rs` can be read, in this order, by `routes.Load(k)` (every sample is `loadRes x.routes k` of the state `x`
  the run stands in at that moment). `ftrace P k fs ls`: what a `routes.Load(k)` returns in EVERY state a fine run
  visits (the view of the half-done loop) — the results of the lookups of `k` that actually happen in the run
  are a subsequence of it (`fstep` records exactly `loadRes view.routes key`).
-/
set_option linter.unusedSimpArgs false
set_option linter.unusedVariables false
namespace GB.C11
open GB.LTS

inductive CoarseObs (P : Progs) (k : Svc) : State → List Res → Prop
  | nil (c : State) : CoarseObs P k c []
  | sample {c : State} {rs : List Res} : CoarseObs P k c rs → CoarseObs P k c (loadRes c.routes k :: rs)
  | step {c c' : State} {l : Label} {rs : List Res} : step P c l = some c' → CoarseObs P k c' rs → CoarseObs P k c rs

/-- the value a `routes.Load(k)` would return in every state visited by the fine run `ls` from `fs` -/
def ftrace (P : Progs) (k : Svc) : FState → List Label → List Res
  | fs, [] => [loadRes (fs.view P.storeSame).routes k]
  | fs, l :: ls => loadRes (fs.view P.storeSame).routes k ::
      (match fstep P fs l with
       | some fs1 => ftrace P k fs1 ls
       | none => [])

/-- one-step coherence of the fine LTS for key `k`: the base stays or makes the same coarse step, and the value
    of `k` in the view stays, unless it still was the value in the base -/
def StepCoh (P : Progs) (k : Svc) (fs fs1 : FState) (l : Label) : Prop :=
  (fs1.base = fs.base ∨ step P fs.base l = some fs1.base) ∧
  ((fs1.view P.storeSame).routes k = (fs.view P.storeSame).routes k ∨
   (fs.view P.storeSame).routes k = fs.base.routes k)

theorem loadRes_congr {r r' : Svc → Option Entry} {k : Svc} (h : r k = r' k) : loadRes r k = loadRes r' k := by
  unfold loadRes; rw [h]

theorem coarseObs_samples {P : Progs} {k : Svc} {c : State} {rs : List Res} (n : Nat) (h : CoarseObs P k c rs) :
    CoarseObs P k c (List.replicate n (loadRes c.routes k) ++ rs) := by
  induction n with
  | zero => simpa using h
  | succ n ih => simp only [List.replicate_succ, List.cons_append]; exact .sample ih

theorem rep_shift {α : Type} (n : Nat) (a : α) (T : List α) :
    List.replicate n a ++ a :: T = List.replicate (n + 1) a ++ T := by
  rw [List.replicate_succ', List.append_assoc]; rfl

theorem coarseObs_sublist {P : Progs} {k : Svc} {c : State} {rs : List Res} (h : CoarseObs P k c rs) :
    ∀ rs', rs'.Sublist rs → CoarseObs P k c rs' := by
  induction h with
  | nil c => intro rs' hs; cases hs; exact .nil c
  | sample _ ih =>
    intro rs' hs
    cases hs with
    | cons _ h' => exact ih _ h'
    | cons_cons _ h' => exact .sample (ih _ h')
  | step hst _ ih => intro rs' hs; exact .step hst (ih _ hs)


theorem view_frame (ss : Bool) (fs : FState) (L : Loop) (th : Thread) (b : State) (o : List (Tid × Res))
    (hl : fs.loop = some L) (h1 : fs.base.threads L.t = some th) (h1' : b.threads L.t = some th)
    (hr : b.routes = fs.base.routes) (hw : b.waiting = fs.base.waiting) (hv : b.svcRoutes = fs.base.svcRoutes) :
    (FState.view ss { fs with base := b, obs := o }).routes = (fs.view ss).routes := by
  simp only [FState.view, hl, h1, h1']
  have hd : delWaiting b th = delWaiting fs.base th := by unfold delWaiting; rw [hw]
  cases hk : L.kind <;> simp [viewOf, hk, hd, hr, hw, hv]

/-- the abstract simulation argument: one-step coherence gives the run-level statement -/
theorem fine_run_sim {P : Progs} (hP : P.wf = true) (k : Svc)
    (coh : ∀ fs l fs1, Reachable (fstep P) finit fs → fstep P fs l = some fs1 → StepCoh P k fs fs1 l) :
    ∀ (ls : List Label) (fs fs' : FState), Reachable (fstep P) finit fs → run (fstep P) fs ls = some fs' →
      ∀ n, CoarseObs P k fs.base
        (List.replicate n (loadRes (fs.view P.storeSame).routes k) ++ ftrace P k fs ls) := by
  intro ls
  induction ls with
  | nil =>
    intro fs fs' hr _ n
    obtain ⟨x, _, hx, _, _, _, hv⟩ := fine_single_key hP fs hr k
    simp only [ftrace]
    rw [rep_shift, loadRes_congr hv]
    have := coarseObs_samples (n + 1) (CoarseObs.nil (P := P) (k := k) x)
    rcases hx with rfl | ⟨L, _, hst⟩
    · exact this
    · exact .step hst this
  | cons l ls ih =>
    intro fs fs' hr hrun n
    cases hs : fstep P fs l with
    | none => simp [run, hs] at hrun
    | some fs1 =>
      simp only [run, hs] at hrun
      have hr1 : Reachable (fstep P) finit fs1 := Reachable.step hr hs
      obtain ⟨hb, hv⟩ := coh fs l fs1 hr hs
      simp only [ftrace, hs]
      rw [rep_shift]
      rcases hv with hv | hv
      · have h1 := ih fs1 fs' hr1 hrun (n + 1)
        rw [loadRes_congr hv] at h1
        rcases hb with hb | hb
        · rw [← hb]; exact h1
        · exact .step hb h1
      · rw [loadRes_congr hv]
        apply coarseObs_samples
        have h1 := ih fs1 fs' hr1 hrun 0
        simp only [List.replicate_zero, List.nil_append] at h1
        rcases hb with hb | hb
        · rw [← hb]; exact h1
        · exact .step hb h1

end GB.C11
