import GB.C11.Proofs
/-
  C11 — every step of the LTS preserves the invariant (for programs accepted by the checker).
-/
set_option linter.unusedSimpArgs false
set_option linter.unusedVariables false
namespace GB.C11

theorem step_spawn {P : Progs} (hP : P.wf = true) {s s' : State} {t : Tid} {op : Op} (h : Inv P s)
    (hs : step P s (.spawn t op) = some s') : Inv P s' := by
  simp only [step] at hs
  split at hs
  · rename_i hc
    simp only [Bool.and_eq_true, Option.isNone_iff_eq_none] at hc
    cases hs
    exact inv_spawn hP op h hc.1
  · cases hs

/-- in skip mode (after an early return or a panic) only deferred unlocks have an effect -/
theorem step_skip {P : Progs} {s s' : State} {t : Tid} {th : Thread} {i : Instr} {rest : List Instr} (h : Inv P s)
    (ht : s.threads t = some th) (hsk : th.skip = true)
    (hs : exec P.svc P.storeSame s t { th with code := rest } i = some s') : Inv P s' := by
  have i0 := h.th t th ht
  obtain ⟨op, code, skip, a, snap, cr, pres, res⟩ := th
  simp only at hsk; subst hsk
  have tinv : ∀ a2 : A, (a2.hw = true → a.hw = true) → (a2.ht = true → a.ht = true) → (a2.chk = true → a2.hw = true ∧ a.chk = true) →
      a2.cl = a.cl → a2.rs = a.rs → a2.rm = a.rm → (a2.mid = true → a2.ht = true) → a2.nc = a.nc → a2.mid = false →
      ∀ r : Res, TInv P.svc s t ⟨op, rest, true, a2, snap, cr, pres, r⟩ := by
    intro a2 b1 b2 b3 b4 b5 b6 b7 b8 b9 r
    refine ⟨by simp, ?_, ?_, ?_, ?_, ?_, ?_, ?_, ?_⟩
    · intro hh; exact i0.hw (b1 hh)
    · intro hh; exact i0.ht (b2 hh)
    · intro hh; exact ⟨(b3 hh).1, (i0.chk (b3 hh).2).2⟩
    · intro hh; exact i0.cl (b4 ▸ hh)
    · intro hh; simp only at hh ⊢; rw [b6]; exact i0.rsrm (b5 ▸ hh)
    · exact b7
    · intro hh; exact i0.nc (b8 ▸ hh)
    · intro _; exact b9
  have same : ∀ r : Res, Inv P (setThread s t ⟨op, rest, true, a, snap, cr, pres, r⟩) := by
    intro r
    exact inv_setThread_simple h ht (tinv a id id (fun hh => ⟨(i0.chk hh).1, hh⟩) rfl rfl rfl i0.mid rfl (i0.sm rfl) r) rfl rfl rfl rfl rfl rfl rfl (fun x => x)
  unfold exec at hs
  simp only [if_true] at hs
  cases i
  case unlockW =>
    simp only at hs
    split at hs
    · rename_i hhw
      obtain ⟨wt, hwt, hmu⟩ := i0.hw hhw
      have hwt' : s.watchers (Thread.w ⟨op, rest, true, a, snap, cr, pres, res⟩) = some wt := hwt
      simp only [hwt'] at hs
      cases hs
      have h1 : Inv P (setThread s t ⟨op, rest, true, { a with hw := false, chk := false }, snap, cr, pres, res⟩) :=
        inv_setThread_simple h ht (tinv { a with hw := false, chk := false } (by simp) id (by simp) rfl rfl rfl i0.mid rfl (i0.sm rfl) res) rfl rfl rfl rfl rfl rfl rfl (fun x => x)
      refine inv_mu none h1 hwt ?_
      intro t0 th0 h0 hh0 hw0
      rcases upd_some_cases h0 with ⟨rfl, rfl⟩ | ⟨ne, h0'⟩
      · simp at hh0
      · obtain ⟨wt0, h2, h3⟩ := (h.th t0 th0 h0').hw hh0
        rw [hw0] at h2
        have h2' : s.watchers (Thread.w ⟨op, code, true, a, snap, cr, pres, res⟩) = some wt0 := h2
        rw [hwt] at h2'; cases h2'; rw [hmu] at h3; cases h3; exact absurd rfl ne
    · cases hs; exact same res
  case unlockT =>
    simp only at hs
    split at hs
    · rename_i hht
      cases hs
      have nomid : a.mid = true → False := by
        intro hm; have := i0.sm rfl; simp only at this hm; rw [this] at hm; cases hm
      have h1 : Inv P (setThread s t ⟨op, rest, true, { a with ht := false }, snap, cr, pres, res⟩) := by
        refine inv_setThread_simple h ht (tinv { a with ht := false } id (by simp) (fun hh => ⟨(i0.chk hh).1, hh⟩) rfl rfl rfl ?_ rfl (i0.sm rfl) res) rfl rfl rfl rfl rfl rfl rfl (fun x => x)
        intro hm; exact (nomid hm).elim
      refine inv_tmu h1 none ?_
      intro t0 th0 h0 hh0
      rcases upd_some_cases h0 with ⟨rfl, rfl⟩ | ⟨ne, h0'⟩
      · simp at hh0
      · have := (h.th t0 th0 h0').ht hh0
        rw [i0.ht hht] at this; cases this; exact absurd rfl ne
    · cases hs; exact same res
  case ret => simp only at hs; cases hs; exact same _
  all_goals (simp only at hs; cases hs; exact same res)


theorem quiet_mid {a : A} (h : a.quiet = true) : a.mid = false := by
  simp only [A.quiet, Bool.and_eq_true, Bool.not_eq_true'] at h; exact h.1.1

/-- building the thread-local invariant of the advanced thread from the one before the statement -/
theorem TInv.next {svc : Bool} {s2 : State} {t : Tid} {op : Op} {code rest : List Instr} {a a2 : A}
    {snap sn : List Entry} {cr c2 : List Wid} {pres p : List Svc} {res r : Res}
    (j : TInv svc s2 t ⟨op, code, false, a, snap, cr, pres, res⟩) (hwf : wfCode svc a2 rest = true)
    (b1 : a2.hw = true → a.hw = true ∨ ∃ wt, s2.watchers (Thread.w ⟨op, code, false, a, snap, cr, pres, res⟩) = some wt ∧ wt.mu = some t)
    (b2 : a2.ht = true → a.ht = true ∨ s2.tmu = some t)
    (b3 : a2.chk = true → a2.hw = true ∧ (a.chk = true ∨ closedOf s2 (Thread.w ⟨op, code, false, a, snap, cr, pres, res⟩) = false))
    (b4 : a2.cl = true → a.cl = true ∨ closedOf s2 (Thread.w ⟨op, code, false, a, snap, cr, pres, res⟩) = true)
    (b5 : a2.rs = true → a2.rm = true)
    (b6 : a2.mid = true → a2.ht = true)
    (b7 : a2.nc = true → a.nc = true ∨
      nameOf s2 (Thread.w ⟨op, code, false, a, snap, cr, pres, res⟩) = some (Thread.desc ⟨op, code, false, a, snap, cr, pres, res⟩).name) :
    TInv svc s2 t ⟨op, rest, false, a2, sn, c2, p, r⟩ := by
  refine ⟨fun _ => hwf, ?_, ?_, ?_, ?_, b5, b6, ?_, by simp⟩
  · intro hh; rcases b1 hh with h1 | h1
    · exact j.hw h1
    · exact h1
  · intro hh; rcases b2 hh with h1 | h1
    · exact j.ht h1
    · exact h1
  · intro hh; refine ⟨(b3 hh).1, ?_⟩
    rcases (b3 hh).2 with h1 | h1
    · exact (j.chk h1).2
    · exact h1
  · intro hh; rcases b4 hh with h1 | h1
    · exact j.cl h1
    · exact h1
  · intro hh; rcases b7 hh with h1 | h1
    · exact j.nc h1
    · exact h1

theorem step_run {P : Progs} {s s' : State} {t : Tid} {th : Thread} {i : Instr} {rest : List Instr} (h : Inv P s)
    (ht : s.threads t = some th) (hsk : th.skip = false) (hcode : th.code = i :: rest)
    (hs : exec P.svc P.storeSame s t { th with code := rest } i = some s') : Inv P s' := by
  have i0 := h.th t th ht
  obtain ⟨op, code, skip, a, snap, cr, pres, res⟩ := th
  simp only at hsk hcode; subst hsk; subst hcode
  have hwf0 := i0.wf rfl
  simp only [wfCode] at hwf0
  cases hst : a.step P.svc i with
  | none => simp [hst] at hwf0
  | some a' =>
  simp only [hst] at hwf0
  unfold exec at hs
  simp only [Bool.false_eq_true, if_false, hst, Option.getD_some] at hs
  -- the frequent case: only thread-local data changes and the new flags follow from the old ones
  have simple : ∀ (sn : List Entry) (c2 : List Wid) (r : Res), a' = a →
      Inv P (setThread s t ⟨op, rest, false, a', sn, c2, pres, r⟩) := by
    intro sn c2 r e; subst e
    exact inv_setThread_simple h ht
      (i0.next hwf0 (fun x => .inl x) (fun x => .inl x) (fun x => ⟨(i0.chk x).1, .inl x⟩) (fun x => .inl x) i0.rsrm i0.mid (fun x => .inl x))
      rfl rfl rfl rfl rfl rfl rfl (fun x => x)
  cases i
  case hook n => simp only at hs; cases hs; exact simple _ _ _ (by simpa [A.step] using hst.symm)
  case pLoad => simp only at hs; cases hs; exact simple _ _ _ (by simpa [A.step] using hst.symm)
  case pIter => simp only at hs; cases hs; exact simple _ _ _ (by simpa [A.step] using hst.symm)
  case sLoad => simp only at hs; cases hs; exact simple _ _ _ (by simpa [A.step] using hst.symm)
  case setRemove =>
    simp only at hs
    have hm : a' = { a with sr := true } := by
      have hst2 := hst
      simp only [A.step] at hst2; split at hst2
      · exact (Option.some.inj hst2).symm
      · cases hst2
    subst hm
    split at hs
    · cases hs
      exact inv_wset (inv_setThread_simple h ht
        (i0.next hwf0 (fun x => .inl x) (fun x => .inl x) (fun x => ⟨(i0.chk x).1, .inl x⟩) (fun x => .inl x) i0.rsrm i0.mid (fun x => .inl x))
        rfl rfl rfl rfl rfl rfl rfl (fun _ => rfl)) _
    · cases hs
  case setAdd =>
    simp only at hs
    have ea : a' = a := by simpa [A.step] using hst.symm
    split at hs
    · cases hs; exact simple _ _ _ ea
    · cases hs; exact inv_newWatcher _ (inv_wset (simple _ _ _ ea) _)
  case ret =>
    simp only at hs
    have ea : a' = a := by
      have hst2 := hst
      simp only [A.step] at hst2; split at hst2
      · exact (Option.some.inj hst2).symm
      · cases hst2
    have hcln : a.cleaned P.svc = true := by
      have hst2 := hst
      simp only [A.step] at hst2; split at hst2
      · rename_i hc; simp only [Bool.and_eq_true] at hc; exact hc.2
      · cases hst2
    split at hs
    · rename_i hcl
      cases hs
      refine inv_closeRet (simple _ _ _ ea) _ ?_
      exact ⟨t, ⟨op, rest, false, a', snap, cr, pres, if res = .pending then .ok else res⟩, by simp [setThread], rfl,
        by subst ea; exact hcl, by subst ea; exact hcln⟩
    · cases hs; exact simple _ _ _ ea
  case nameCheck =>
    simp only at hs
    have hm : a.mid = false ∧ a' = { a with nc := true } := by
      simp only [A.step] at hst; split at hst
      · rename_i hc; exact ⟨quiet_mid hc, (Option.some.inj hst).symm⟩
      · cases hst
    obtain ⟨hm, rfl⟩ := hm
    split at hs
    · rename_i wt hwt
      split at hs
      · rename_i hnm
        cases hs
        refine inv_setThread_simple h ht (i0.next hwf0 (fun x => .inl x) (fun x => .inl x) (fun x => ⟨(i0.chk x).1, .inl x⟩) (fun x => .inl x) i0.rsrm i0.mid ?_) rfl rfl rfl rfl rfl rfl rfl (fun x => x)
        intro _; right
        simp only [nameOf, Thread.w, Thread.desc] at hwt hnm ⊢
        rw [hwt]; simp [hnm]
      · cases hs
        exact inv_setThread_simple h ht ⟨by simp, i0.hw, i0.ht, i0.chk, i0.cl, i0.rsrm, i0.mid, i0.nc, fun _ => hm⟩ rfl rfl rfl rfl rfl rfl rfl (fun x => x)
    · cases hs
  case loadClosed =>
    simp only at hs
    have hm : a.hw = true ∧ a.mid = false ∧ a' = { a with chk := true } := by
      simp only [A.step] at hst; split at hst
      · rename_i hc; simp only [Bool.and_eq_true, Bool.not_eq_true'] at hc
        exact ⟨hc.1, quiet_mid hc.2, (Option.some.inj hst).symm⟩
      · cases hst
    obtain ⟨hhw, hm, rfl⟩ := hm
    split at hs
    · rename_i wt hwt
      split at hs
      · cases hs
        exact inv_setThread_simple h ht ⟨by simp, i0.hw, i0.ht, i0.chk, i0.cl, i0.rsrm, i0.mid, i0.nc, fun _ => hm⟩ rfl rfl rfl rfl rfl rfl rfl (fun x => x)
      · rename_i hnc
        cases hs
        refine inv_setThread_simple h ht (i0.next hwf0 (fun x => .inl x) (fun x => .inl x) ?_ (fun x => .inl x) i0.rsrm i0.mid (fun x => .inl x)) rfl rfl rfl rfl rfl rfl rfl (fun x => x)
        intro _; refine ⟨hhw, .inr ?_⟩
        simp only [closedOf, Thread.w] at hwt ⊢
        rw [hwt]; simpa using hnc
    · cases hs
  case lockT =>
    simp only at hs
    have hm : a' = { a with ht := true } := by
      have hst2 := hst
      simp only [A.step] at hst2; split at hst2
      · cases hst2
      · exact (Option.some.inj hst2).symm
    subst hm
    split at hs
    · rename_i hnone
      cases hs
      have h1 : Inv P { s with tmu := some t } := by
        refine inv_tmu h _ ?_
        intro t0 th0 h0 hh0
        have := (h.th t0 th0 h0).ht hh0
        rw [this] at hnone; simp at hnone
      have j := h1.th t _ ht
      exact inv_setThread_simple h1 ht
        (j.next hwf0 (fun x => .inl x) (fun _ => .inr rfl) (fun x => ⟨(j.chk x).1, .inl x⟩) (fun x => .inl x) j.rsrm (fun _ => rfl) (fun x => .inl x))
        rfl rfl rfl rfl rfl rfl rfl (fun x => x)
    · cases hs
  case unlockT =>
    simp only at hs
    have hm : a.ht = true ∧ a.mid = false ∧ a' = { a with ht := false } := by
      have hst2 := hst
      simp only [A.step] at hst2; split at hst2
      · rename_i hc; simp only [Bool.and_eq_true, Bool.not_eq_true'] at hc
        exact ⟨hc.1, quiet_mid hc.2, (Option.some.inj hst2).symm⟩
      · cases hst2
    obtain ⟨hht, hmid, rfl⟩ := hm
    simp only [hht, if_true] at hs
    cases hs
    have h1 : Inv P (setThread s t ⟨op, rest, false, { a with ht := false }, snap, cr, pres, res⟩) :=
      inv_setThread_simple h ht
        (i0.next hwf0 (fun x => .inl x) (fun x => by simp at x) (fun x => ⟨(i0.chk x).1, .inl x⟩) (fun x => .inl x) i0.rsrm
          (fun x => by simp only at x; rw [hmid] at x; cases x) (fun x => .inl x))
        rfl rfl rfl rfl rfl rfl rfl (fun x => x)
    refine inv_tmu h1 none ?_
    intro t0 th0 h0 hh0
    rcases upd_some_cases h0 with ⟨rfl, rfl⟩ | ⟨ne, h0'⟩
    · simp at hh0
    · have := (h.th t0 th0 h0').ht hh0
      rw [i0.ht hht] at this; cases this; exact absurd rfl ne
  case lockW =>
    simp only at hs
    have hm : a' = { a with hw := true } := by
      have hst2 := hst
      simp only [A.step] at hst2; split at hst2
      · cases hst2
      · exact (Option.some.inj hst2).symm
    subst hm
    split at hs
    · rename_i wt hwt
      split at hs
      · rename_i hnone
        cases hs
        have h1 := inv_mu (P := P) (some t) h hwt (by
          intro t0 th0 h0 hh0 hw0
          obtain ⟨wt0, h2, h3⟩ := (h.th t0 th0 h0).hw hh0
          rw [hw0] at h2
          have h2' : s.watchers (Thread.w ⟨op, rest, false, a, snap, cr, pres, res⟩) = some wt0 := h2
          rw [hwt] at h2'; cases h2'; rw [h3] at hnone; simp at hnone)
        have j := h1.th t _ ht
        refine inv_setThread_simple h1 ht
          (j.next hwf0 (fun _ => .inr ⟨{ wt with mu := some t }, ?_, rfl⟩) (fun x => .inl x) (fun x => ⟨rfl, .inl x⟩) (fun x => .inl x) j.rsrm j.mid (fun x => .inl x))
          rfl rfl rfl rfl rfl rfl rfl (fun x => x)
        show upd s.watchers _ _ _ = _
        exact upd_same _ _ _
      · cases hs
    · cases hs
  case unlockW =>
    simp only at hs
    have hm : a.hw = true ∧ a' = { a with hw := false, chk := false } := by
      have hst2 := hst
      simp only [A.step] at hst2; split at hst2
      · rename_i hc; simp only [Bool.and_eq_true] at hc
        exact ⟨hc.1.1, (Option.some.inj hst2).symm⟩
      · cases hst2
    obtain ⟨hhw, rfl⟩ := hm
    simp only [hhw, if_true] at hs
    obtain ⟨wt, hwt, hmu⟩ := i0.hw hhw
    have hwt' : s.watchers (Thread.w ⟨op, rest, false, a, snap, cr, pres, res⟩) = some wt := hwt
    simp only [hwt'] at hs
    cases hs
    have h1 : Inv P (setThread s t ⟨op, rest, false, { a with hw := false, chk := false }, snap, cr, pres, res⟩) :=
      inv_setThread_simple h ht
        (i0.next hwf0 (fun x => by simp at x) (fun x => .inl x) (fun x => by simp at x) (fun x => .inl x) i0.rsrm i0.mid (fun x => .inl x))
        rfl rfl rfl rfl rfl rfl rfl (fun x => x)
    refine inv_mu none h1 hwt ?_
    intro t0 th0 h0 hh0 hw0
    rcases upd_some_cases h0 with ⟨rfl, rfl⟩ | ⟨ne, h0'⟩
    · simp at hh0
    · obtain ⟨wt0, h2, h3⟩ := (h.th t0 th0 h0').hw hh0
      rw [hw0] at h2
      have h2' : s.watchers (Thread.w ⟨op, rest, false, a, snap, cr, pres, res⟩) = some wt0 := h2
      rw [hwt'] at h2'; cases h2'; rw [hmu] at h3; cases h3; exact absurd rfl ne
  case casClosed =>
    simp only at hs
    have hm : a.hw = true ∧ a.mid = false ∧ a' = { a with cl := true, chk := false, rm := false, rs := false, rr := false } := by
      have hst2 := hst
      simp only [A.step] at hst2; split at hst2
      · rename_i hc; simp only [Bool.and_eq_true, Bool.not_eq_true'] at hc
        exact ⟨hc.1, quiet_mid hc.2, (Option.some.inj hst2).symm⟩
      · cases hst2
    obtain ⟨hhw, hmid, rfl⟩ := hm
    split at hs
    · rename_i wt hwt
      split at hs
      · cases hs
        exact inv_setThread_simple h ht ⟨by simp, i0.hw, i0.ht, i0.chk, i0.cl, i0.rsrm, i0.mid, i0.nc, fun _ => hmid⟩ rfl rfl rfl rfl rfl rfl rfl (fun x => x)
      · rename_i hnc
        cases hs
        exact inv_cas (th := ⟨op, .casClosed :: rest, false, a, snap, cr, pres, res⟩)
          (th' := ⟨op, rest, false, { a with cl := true, chk := false, rm := false, rs := false, rr := false }, snap, cr, pres, res⟩) h ht hwt (by simpa using hnc) hhw rfl (fun _ => hwf0) rfl rfl rfl rfl rfl rfl rfl rfl rfl rfl (by simp)
    · cases hs
  case pAdd =>
    simp only at hs
    have hm : a.hw = true ∧ a.ht = true ∧ a.chk = true ∧ a.nc = true ∧ P.svc = false ∧ a' = { a with pa := true } := by
      have hst2 := hst
      simp only [A.step] at hst2; split at hst2
      · rename_i hc; simp only [Bool.and_eq_true, Bool.not_eq_true'] at hc
        obtain ⟨⟨⟨⟨⟨⟨h1, h2⟩, h3⟩, h4⟩, h5⟩, h6⟩, h7⟩ := hc
        exact ⟨h1, h2, h3, h4, h5, (Option.some.inj hst2).symm⟩
      · cases hst2
    obtain ⟨hhw, hht, hchk, hnc, hsvc, rfl⟩ := hm
    cases hs
    refine inv_mtab (inv_setThread_simple h ht
      (i0.next hwf0 (fun x => .inl x) (fun x => .inl x) (fun x => ⟨(i0.chk x).1, .inl x⟩) (fun x => .inl x) i0.rsrm i0.mid (fun x => .inl x))
      rfl rfl rfl rfl rfl rfl rfl (fun x => x)) _ ?_ (by intro h'; rw [hsvc] at h'; cases h')
    intro e he
    rcases mem_tblAdd he with h1 | rfl
    · left; exact h1
    · right; exact ⟨(i0.chk hchk).2, i0.nc hnc⟩
  case pRemove =>
    simp only at hs
    have hm : a' = { a with rm := true, pr := true } := by
      have hst2 := hst
      simp only [A.step] at hst2; split at hst2
      · exact (Option.some.inj hst2).symm
      · cases hst2
    subst hm
    split at hs
    · rename_i wt hwt
      cases hs
      have h1 : Inv P { s with mtab := tblRemove wt.name s.mtab } :=
        inv_mtab h _ (fun e he => .inl (List.mem_filter.1 he).1) (fun hs' => by rw [(h.kindP hs').1]; rfl)
      have j := h1.th t _ ht
      refine inv_setThread h1 ht
        (j.next hwf0 (fun x => .inl x) (fun x => .inl x) (fun x => ⟨(j.chk x).1, .inl x⟩) (fun x => .inl x) (fun _ => rfl) j.mid (fun x => .inl x))
        rfl rfl ?_ ?_ ?_
      · intro _; right; intro e he hown
        have hf := List.mem_filter.1 he
        have hn := h.ownM e hf.1
        rw [hown] at hn
        simp only [nameOf, Thread.w] at hn hwt
        rw [hwt] at hn
        simp only [Option.map_some, Option.some.injEq] at hn
        have := hf.2; simp at this; exact this hn.symm
      · intro _; left; exact id
      · intro hc hcln
        simp only [A.cleaned] at hcln ⊢
        cases hsv : P.svc <;> simp_all
    · cases hs
  case pStore =>
    simp only at hs
    have hm : a' = { a with rs := a.rm, pa := false, pr := false } := by
      have hst2 := hst
      simp only [A.step] at hst2; split at hst2
      · exact (Option.some.inj hst2).symm
      · cases hst2
    subst hm
    cases hs
    have h1 : Inv P { s with static := s.mtab } := by
      refine inv_static h _ ?_ (fun hs' => (h.kindP hs').1)
      intro e he
      rcases h.mtab e he with x | ⟨t0, th0, h0, hw0, hc0, hp0⟩
      · left; exact x
      · right
        refine ⟨t0, th0, h0, hw0, hc0, ?_⟩
        cases hrs : th0.a.rs with
        | false => simp [hrs]
        | true => have := (h.th t0 th0 h0).rsrm hrs; simp [this] at hp0
    have j := h1.th t _ ht
    refine inv_setThread h1 ht
      (j.next hwf0 (fun x => .inl x) (fun x => .inl x) (fun x => ⟨(j.chk x).1, .inl x⟩) (fun x => .inl x) (fun x => x) j.mid (fun x => .inl x))
      rfl rfl ?_ ?_ ?_
    · intro _; left; exact id
    · intro hcl
      cases hrm : a.rm with
      | false => left; intro x; simp [hrm] at x
      | true =>
        right; intro e he hown
        have he' : e ∈ s.mtab := he
        rcases h.mtab e he' with x | ⟨t0, th0, h0, hw0, hc0, hp0⟩
        · rw [hown, i0.cl hcl] at x; cases x
        · have := h.clU t0 t th0 _ h0 ht hc0 hcl (hw0.trans hown)
          subst this; rw [ht] at h0; cases h0; simp [hrm] at hp0
    · intro hc hcln
      simp only [A.cleaned] at hcln ⊢
      cases hsv : P.svc <;> simp_all
  case sAdd =>
    simp only at hs
    have hm : a' = { a with mid := true } ∧ a.ht = true := by
      have hst2 := hst
      simp only [A.step] at hst2; split at hst2
      · rename_i hc; simp only [Bool.and_eq_true, Bool.not_eq_true'] at hc
        exact ⟨(Option.some.inj hst2).symm, hc.1.1.1.1.2⟩
      · cases hst2
    obtain ⟨rfl, hht⟩ := hm
    cases hs
    refine inv_svcTables (inv_setThread h ht
      (i0.next hwf0 (fun x => .inl x) (fun x => .inl x) (fun x => ⟨(i0.chk x).1, .inl x⟩) (fun x => .inl x) i0.rsrm (fun _ => hht) (fun x => .inl x))
      rfl rfl ?_ ?_ ?_) _ _ _
    · intro _; left; exact id
    · intro _; left; exact id
    · intro _ x; exact x
  case sDel =>
    simp only at hs
    have hm : a' = { a with mid := false } := by
      have hst2 := hst
      simp only [A.step] at hst2; split at hst2
      · exact (Option.some.inj hst2).symm
      · cases hst2
    subst hm
    cases hs
    refine inv_svcTables (inv_setThread h ht
      (i0.next hwf0 (fun x => .inl x) (fun x => .inl x) (fun x => ⟨(i0.chk x).1, .inl x⟩) (fun x => .inl x) i0.rsrm (fun x => by simp at x) (fun x => .inl x))
      rfl rfl ?_ ?_ ?_) _ _ _
    · intro _; left; exact id
    · intro _; left; exact id
    · intro _ x; exact x
  case sRemove =>
    simp only at hs
    have hm : a' = { a with rr := true } := by
      have hst2 := hst
      simp only [A.step] at hst2; split at hst2
      · exact (Option.some.inj hst2).symm
      · cases hst2
    subst hm
    split at hs
    · cases hs
      refine inv_svcTables (inv_setThread h ht
        (i0.next hwf0 (fun x => .inl x) (fun x => .inl x) (fun x => ⟨(i0.chk x).1, .inl x⟩) (fun x => .inl x) i0.rsrm i0.mid (fun x => .inl x))
        rfl rfl ?_ ?_ ?_) _ _ _
      · intro _; left; exact id
      · intro _; left; exact id
      · intro hc hcln
        simp only [A.cleaned] at hcln ⊢
        cases hsv : P.svc <;> simp_all
    · cases hs

/-- every step preserves the invariant -/
theorem inv_step {P : Progs} (hP : P.wf = true) {s s' : State} {l : Label} (h : Inv P s)
    (hs : step P s l = some s') : Inv P s' := by
  cases l with
  | spawn t op => exact step_spawn hP h hs
  | tau t =>
    simp only [step] at hs
    split at hs
    · cases hs
    · rename_i th hth
      split at hs
      · cases hs
      · rename_i i rest hcode
        cases hsk : th.skip with
        | true => exact step_skip h hth hsk hs
        | false => exact step_run h hth hsk hcode hs

theorem inv_reachable {P : Progs} (hP : P.wf = true) (s : State)
    (h : GB.LTS.Reachable (step P) init s) : Inv P s :=
  GB.LTS.invariant (step P) init (Inv P) (inv_init P) (fun _ _ _ hi hs => inv_step hP hi hs) s h


/-! ### consequences -/

/-- once Close has returned, nothing of that watcher is left in the pattern tables and no UpdateDesc of it
    is past its closed check (the service tables are covered by the second invariant layer) -/
theorem Inv.noRes {P : Progs} {s : State} (h : Inv P s) {w : Wid} (hw : w ∈ s.closeRet) :
    closedOf s w = true ∧ (∀ e ∈ s.mtab, e.owner ≠ w) ∧ (∀ e ∈ s.static, e.owner ≠ w) ∧
    (∀ t th, s.threads t = some th → th.w = w → th.a.chk = false) := by
  obtain ⟨t0, th0, h0, hw0, hc0, hcl0⟩ := h.cr w hw
  have hclosed : closedOf s w = true := hw0 ▸ (h.th t0 th0 h0).cl hc0
  simp only [A.cleaned, hc0, Bool.not_true, Bool.false_or] at hcl0
  refine ⟨hclosed, ?_, ?_, ?_⟩
  · intro e he hown
    cases hsv : P.svc with
    | true => rw [(h.kindP hsv).1] at he; cases he
    | false =>
      simp only [hsv, Bool.false_eq_true, if_false, Bool.and_eq_true] at hcl0
      rcases h.mtab e he with x | ⟨t1, th1, h1, hw1, hc1, hp1⟩
      · rw [hown, hclosed] at x; cases x
      · have := h.clU t1 t0 th1 th0 h1 h0 hc1 hc0 (by rw [hw1, hown, hw0])
        subst this; rw [h0] at h1; cases h1; simp [hcl0.1.1] at hp1
  · intro e he hown
    cases hsv : P.svc with
    | true => rw [(h.kindP hsv).2] at he; cases he
    | false =>
      simp only [hsv, Bool.false_eq_true, if_false, Bool.and_eq_true] at hcl0
      rcases h.static e he with x | ⟨t1, th1, h1, hw1, hc1, hp1⟩
      · rw [hown, hclosed] at x; cases x
      · have := h.clU t1 t0 th1 th0 h1 h0 hc1 hc0 (by rw [hw1, hown, hw0])
        subst this; rw [h0] at h1; cases h1; simp [hcl0.1.2] at hp1
  · intro t th ht hwt
    cases hx : th.a.chk with
    | false => rfl
    | true => have := ((h.th t th ht).chk hx).2; rw [hwt, hclosed] at this; cases this

end GB.C11
