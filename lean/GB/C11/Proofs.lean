import GB.C11.Model
import GB.Base.LTS
/-
  C11 — invariants of the router LTS, for every program set accepted by the lock-discipline checker.
-/
set_option linter.unusedSimpArgs false
set_option linter.unusedVariables false
namespace GB.C11

def closedOf (s : State) (w : Wid) : Bool :=
  match s.watchers w with
  | some wt => wt.closed
  | none => false

def nameOf (s : State) (w : Wid) : Option Name := (s.watchers w).map (·.name)

theorem upd_some_cases {α : Type} {f : Nat → Option α} {k : Nat} {v : α} {i : Nat} {x : α}
    (h : upd f k (some v) i = some x) : (i = k ∧ x = v) ∨ (i ≠ k ∧ f i = some x) := by
  unfold upd at h
  split at h
  · left; exact ⟨by assumption, (Option.some.inj h).symm⟩
  · right; exact ⟨by assumption, h⟩

@[simp] theorem upd_same {α : Type} (f : Nat → α) (k : Nat) (v : α) : upd f k v k = v := by simp [upd]
theorem upd_other {α : Type} (f : Nat → α) (k : Nat) (v : α) (i : Nat) (h : i ≠ k) : upd f k v i = f i := by
  simp [upd, h]

/-- the thread-local part of the invariant -/
structure TInv (svc : Bool) (s : State) (t : Tid) (th : Thread) : Prop where
  wf : th.skip = false → wfCode svc th.a th.code = true
  hw : th.a.hw = true → ∃ wt, s.watchers th.w = some wt ∧ wt.mu = some t
  ht : th.a.ht = true → s.tmu = some t
  chk : th.a.chk = true → th.a.hw = true ∧ closedOf s th.w = false
  cl : th.a.cl = true → closedOf s th.w = true
  rsrm : th.a.rs = true → th.a.rm = true
  mid : th.a.mid = true → th.a.ht = true
  nc : th.a.nc = true → nameOf s th.w = some th.desc.name
  sm : th.skip = true → th.a.mid = false


/-- some thread flipped `w`'s closed flag and its flags satisfy `p` -/
def ClW (s : State) (w : Wid) (p : A → Bool) : Prop :=
  ∃ t th, s.threads t = some th ∧ th.w = w ∧ th.a.cl = true ∧ p th.a = true

structure Inv (P : Progs) (s : State) : Prop where
  th : ∀ t th, s.threads t = some th → TInv P.svc s t th
  clU : ∀ t t' th th', s.threads t = some th → s.threads t' = some th' →
    th.a.cl = true → th'.a.cl = true → th.w = th'.w → t = t'
  mtab : ∀ e ∈ s.mtab, closedOf s e.owner = false ∨ ClW s e.owner (fun a => !a.rm)
  static : ∀ e ∈ s.static, closedOf s e.owner = false ∨ ClW s e.owner (fun a => !a.rs)
  ownM : ∀ e ∈ s.mtab, nameOf s e.owner = some e.desc.name
  cr : ∀ w ∈ s.closeRet, ClW s w (fun a => a.cleaned P.svc)
  kindP : P.svc = true → s.mtab = [] ∧ s.static = []
  fresh : ∀ w, s.nextW ≤ w → s.watchers w = none

theorem inv_init (P : Progs) : Inv P init := by
  constructor <;> simp [init, ClW]


/-! ### frame lemmas -/

theorem TInv.frame {svc : Bool} {s s2 : State} {t : Tid} {th : Thread} (h : TInv svc s t th)
    (hw : s2.watchers th.w = s.watchers th.w) (ht : s2.tmu = s.tmu) : TInv svc s2 t th := by
  refine ⟨h.wf, ?_, ?_, ?_, ?_, h.rsrm, h.mid, ?_, h.sm⟩
  · rw [hw]; exact h.hw
  · rw [ht]; exact h.ht
  · simpa [closedOf, hw] using h.chk
  · simpa [closedOf, hw] using h.cl
  · simpa [nameOf, hw] using h.nc

theorem ClW_setThread {s : State} {t : Tid} {th th' : Thread} {w : Wid} {p : A → Bool}
    (ht : s.threads t = some th) (hop : th'.op = th.op) (hcl : th'.a.cl = th.a.cl)
    (hp : p th.a = true → th.w = w → p th'.a = true)
    (h : ClW s w p) : ClW (setThread s t th') w p := by
  obtain ⟨t0, th0, h0, hw, hc, hp0⟩ := h
  by_cases e : t0 = t
  · subst e
    rw [ht] at h0; cases h0
    exact ⟨t0, th', by simp [setThread], by simp [Thread.w, hop] at hw ⊢; exact hw, by rw [hcl]; exact hc, hp hp0 hw⟩
  · exact ⟨t0, th0, by simp [setThread, upd, e]; exact h0, hw, hc, hp0⟩

/-- only the record of thread `t` changes -/
theorem inv_setThread {P : Progs} {s : State} {t : Tid} {th th' : Thread} (h : Inv P s)
    (ht : s.threads t = some th) (hT : TInv P.svc s t th')
    (hop : th'.op = th.op) (hcl : th'.a.cl = th.a.cl)
    (hrm : th.a.cl = true → (th'.a.rm = true → th.a.rm = true) ∨ ∀ e ∈ s.mtab, e.owner ≠ th.w)
    (hrs : th.a.cl = true → (th'.a.rs = true → th.a.rs = true) ∨ ∀ e ∈ s.static, e.owner ≠ th.w)
    (hcr : th.a.cl = true → th.a.cleaned P.svc = true → th'.a.cleaned P.svc = true) :
    Inv P (setThread s t th') := by
  have hw : th'.w = th.w := by simp [Thread.w, hop]
  have hd : th'.desc = th.desc := by simp [Thread.desc, hop]
  constructor
  · intro t0 th0 h0
    rcases upd_some_cases h0 with ⟨rfl, rfl⟩ | ⟨ne, h0'⟩
    · exact hT.frame rfl rfl
    · exact (h.th t0 th0 h0').frame rfl rfl
  · intro t0 t1 th0 th1 h0 h1 c0 c1 hw01
    rcases upd_some_cases h0 with ⟨rfl, rfl⟩ | ⟨ne0, h0'⟩ <;> rcases upd_some_cases h1 with ⟨rfl, rfl⟩ | ⟨ne1, h1'⟩
    · rfl
    · exact h.clU _ _ _ _ ht h1' (hcl ▸ c0) c1 (hw ▸ hw01)
    · exact h.clU _ _ _ _ h0' ht c0 (hcl ▸ c1) (hw ▸ hw01)
    · exact h.clU _ _ _ _ h0' h1' c0 c1 hw01
  · intro e he
    rcases h.mtab e he with h1 | h1
    · left; exact h1
    · right
      obtain ⟨t0, th0, h0, hw0, hc0, hp0⟩ := h1
      by_cases e0 : t0 = t
      · subst e0; rw [ht] at h0; cases h0
        rcases hrm hc0 with h2 | h2
        · exact ⟨t0, th', by simp [setThread], hw ▸ hw0, hcl ▸ hc0, by
            simp only [Bool.not_eq_eq_eq_not, Bool.not_true] at hp0 ⊢
            cases hx : th'.a.rm with
            | false => rfl
            | true => rw [h2 hx] at hp0; cases hp0⟩
        · exact absurd hw0.symm (h2 e he)
      · exact ⟨t0, th0, by simp [setThread, upd, e0]; exact h0, hw0, hc0, hp0⟩
  · intro e he
    rcases h.static e he with h1 | h1
    · left; exact h1
    · right
      obtain ⟨t0, th0, h0, hw0, hc0, hp0⟩ := h1
      by_cases e0 : t0 = t
      · subst e0; rw [ht] at h0; cases h0
        rcases hrs hc0 with h2 | h2
        · exact ⟨t0, th', by simp [setThread], hw ▸ hw0, hcl ▸ hc0, by
            simp only [Bool.not_eq_eq_eq_not, Bool.not_true] at hp0 ⊢
            cases hx : th'.a.rs with
            | false => rfl
            | true => rw [h2 hx] at hp0; cases hp0⟩
        · exact absurd hw0.symm (h2 e he)
      · exact ⟨t0, th0, by simp [setThread, upd, e0]; exact h0, hw0, hc0, hp0⟩
  · exact h.ownM
  · intro w hwc
    obtain ⟨t0, th0, h0, hw0, hc0, hp0⟩ := h.cr w hwc
    by_cases e0 : t0 = t
    · subst e0; rw [ht] at h0; cases h0
      exact ⟨t0, th', by simp [setThread], hw ▸ hw0, hcl ▸ hc0, hcr hc0 hp0⟩
    · exact ⟨t0, th0, by simp [setThread, upd, e0]; exact h0, hw0, hc0, hp0⟩
  · exact h.kindP
  · exact h.fresh

/-- flags-only special case: nothing any other part of the invariant looks at changes -/
theorem inv_setThread_simple {P : Progs} {s : State} {t : Tid} {th th' : Thread} (h : Inv P s)
    (ht : s.threads t = some th) (hT : TInv P.svc s t th')
    (hop : th'.op = th.op) (hcl : th'.a.cl = th.a.cl) (hrm : th'.a.rm = th.a.rm) (hrs : th'.a.rs = th.a.rs)
    (hrr : th'.a.rr = th.a.rr) (hmid : th'.a.mid = th.a.mid) (hpres : th'.present = th.present)
    (hsr : th.a.sr = true → th'.a.sr = true) :
    Inv P (setThread s t th') := by
  refine inv_setThread h ht hT hop hcl ?_ ?_ ?_
  · intro _; left; rw [hrm]; exact id
  · intro _; left; rw [hrs]; exact id
  · intro hc hcln
    simp only [A.cleaned, hcl, hrm, hrs, hrr, hc, Bool.not_true, Bool.false_or, Bool.and_eq_true] at hcln ⊢
    exact ⟨hcln.1, hsr hcln.2⟩

theorem inv_wset {P : Progs} {s : State} (h : Inv P s) (x : List Name) : Inv P { s with wset := x } :=
  ⟨fun t th h0 => (h.th t th h0).frame rfl rfl, h.clU, h.mtab, h.static, h.ownM, h.cr, h.kindP, h.fresh⟩

theorem inv_mtab {P : Progs} {s : State} (h : Inv P s) (m' : List Entry)
    (h1 : ∀ e ∈ m', e ∈ s.mtab ∨ (closedOf s e.owner = false ∧ nameOf s e.owner = some e.desc.name))
    (hk : P.svc = true → m' = []) : Inv P { s with mtab := m' } := by
  refine ⟨fun t th h0 => (h.th t th h0).frame rfl rfl, h.clU, ?_, h.static, ?_, h.cr, ?_, h.fresh⟩
  · intro e he
    rcases h1 e he with h2 | ⟨h2, _⟩
    · exact h.mtab e h2
    · left; exact h2
  · intro e he
    rcases h1 e he with h2 | ⟨_, h2⟩
    · exact h.ownM e h2
    · exact h2
  · intro hs; exact ⟨hk hs, (h.kindP hs).2⟩

theorem inv_static {P : Progs} {s : State} (h : Inv P s) (x : List Entry)
    (h1 : ∀ e ∈ x, closedOf s e.owner = false ∨ ClW s e.owner (fun a => !a.rs))
    (hk : P.svc = true → x = []) : Inv P { s with static := x } :=
  ⟨fun t th h0 => (h.th t th h0).frame rfl rfl, h.clU, h.mtab, h1, h.ownM, h.cr, fun hs => ⟨(h.kindP hs).1, hk hs⟩, h.fresh⟩

/-- the service tables are not mentioned by this layer of the invariant -/
theorem inv_svcTables {P : Progs} {s : State} (h : Inv P s) (r' : Svc → Option Entry) (v' : Name → List Svc)
    (w' : Svc → List Entry) : Inv P { s with routes := r', svcRoutes := v', waiting := w' } :=
  ⟨fun t th h0 => (h.th t th h0).frame rfl rfl, h.clU, h.mtab, h.static, h.ownM, h.cr, h.kindP, h.fresh⟩

theorem inv_tmu {P : Progs} {s : State} (h : Inv P s) (x : Option Tid)
    (hx : ∀ t th, s.threads t = some th → th.a.ht = true → x = some t) : Inv P { s with tmu := x } := by
  refine ⟨?_, h.clU, h.mtab, h.static, h.ownM, h.cr, h.kindP, h.fresh⟩
  intro t th h0
  have := h.th t th h0
  exact ⟨this.wf, this.hw, hx t th h0, this.chk, this.cl, this.rsrm, this.mid, this.nc, this.sm⟩

theorem inv_closeRet {P : Progs} {s : State} (h : Inv P s) (w : Wid)
    (hw : ClW s w (fun a => a.cleaned P.svc)) : Inv P { s with closeRet := w :: s.closeRet } := by
  refine ⟨fun t th h0 => (h.th t th h0).frame rfl rfl, h.clU, h.mtab, h.static, h.ownM, ?_, h.kindP, h.fresh⟩
  intro w' hw'
  rcases List.mem_cons.1 hw' with rfl | h2
  · exact hw
  · exact h.cr w' h2


/-! ### statements that touch the watcher table -/

theorem inv_mu {P : Progs} {s : State} {w : Wid} {wt : Watcher} (x : Option Tid) (h : Inv P s)
    (hw : s.watchers w = some wt)
    (hx : ∀ t th, s.threads t = some th → th.a.hw = true → th.w = w → x = some t) :
    Inv P { s with watchers := upd s.watchers w (some { wt with mu := x }) } := by
  have hc : ∀ w', closedOf { s with watchers := upd s.watchers w (some { wt with mu := x }) } w' = closedOf s w' := by
    intro w'; by_cases e : w' = w
    · subst e; simp [closedOf, upd, hw]
    · simp [closedOf, upd, e]
  have hn : ∀ w', nameOf { s with watchers := upd s.watchers w (some { wt with mu := x }) } w' = nameOf s w' := by
    intro w'; by_cases e : w' = w
    · subst e; simp [nameOf, upd, hw]
    · simp [nameOf, upd, e]
  refine ⟨?_, h.clU, ?_, ?_, ?_, h.cr, h.kindP, ?_⟩
  · intro t th h0
    have i := h.th t th h0
    refine ⟨i.wf, ?_, i.ht, ?_, ?_, i.rsrm, i.mid, ?_, i.sm⟩
    · intro hh
      by_cases e : th.w = w
      · refine ⟨{ wt with mu := x }, by simp [upd, e], ?_⟩
        exact hx t th h0 hh e
      · simpa [upd, e] using i.hw hh
    · rw [hc]; exact i.chk
    · rw [hc]; exact i.cl
    · rw [hn]; exact i.nc
  · intro e he; rw [hc]; exact h.mtab e he
  · intro e he; rw [hc]; exact h.static e he
  · intro e he; rw [hn]; exact h.ownM e he
  · intro w' hw'
    by_cases e : w' = w
    · subst e; rw [h.fresh w' hw'] at hw; cases hw
    · simpa [upd, e] using h.fresh w' hw'

theorem inv_newWatcher {P : Progs} {s : State} (n : Name) (h : Inv P s) :
    Inv P { s with watchers := upd s.watchers s.nextW (some { name := n }), nextW := s.nextW + 1 } := by
  have hf : s.watchers s.nextW = none := h.fresh _ (Nat.le_refl _)
  have hc : ∀ w', closedOf { s with watchers := upd s.watchers s.nextW (some { name := n }), nextW := s.nextW + 1 } w' = closedOf s w' := by
    intro w'; by_cases e : w' = s.nextW
    · subst e; simp [closedOf, upd, hf]
    · simp [closedOf, upd, e]
  have hn : ∀ w' x, nameOf s w' = some x →
      nameOf { s with watchers := upd s.watchers s.nextW (some { name := n }), nextW := s.nextW + 1 } w' = some x := by
    intro w' x hx
    have : w' ≠ s.nextW := by intro e; subst e; simp [nameOf, hf] at hx
    simpa [nameOf, upd, this] using hx
  refine ⟨?_, h.clU, ?_, ?_, ?_, h.cr, h.kindP, ?_⟩
  · intro t th h0
    have i := h.th t th h0
    refine ⟨i.wf, ?_, i.ht, ?_, ?_, i.rsrm, i.mid, ?_, i.sm⟩
    · intro hh
      obtain ⟨wt, h1, h2⟩ := i.hw hh
      have : th.w ≠ s.nextW := by intro e; rw [e, hf] at h1; cases h1
      exact ⟨wt, by simpa [upd, this] using h1, h2⟩
    · rw [hc]; exact i.chk
    · rw [hc]; exact i.cl
    · intro hh; exact hn _ _ (i.nc hh)
  · intro e he; rw [hc]; exact h.mtab e he
  · intro e he; rw [hc]; exact h.static e he
  · intro e he; exact hn _ _ (h.ownM e he)
  · intro w' hw'
    have hw'' : s.nextW + 1 ≤ w' := hw'
    have : w' ≠ s.nextW := Nat.ne_of_gt hw''
    simp only [upd, this, if_false]
    exact h.fresh w' (Nat.le_of_succ_le hw'')

theorem inv_spawn {P : Progs} (hP : P.wf = true) {s : State} {t : Tid} (op : Op) (h : Inv P s)
    (hn : s.threads t = none) : Inv P (setThread s t { op := op, code := P.of op }) := by
  have hne : ∀ t0 th0, s.threads t0 = some th0 → t0 ≠ t := by
    intro t0 th0 h0 e; subst e; rw [hn] at h0; cases h0
  have keep : ∀ t0 th0, s.threads t0 = some th0 → (setThread s t { op := op, code := P.of op }).threads t0 = some th0 := by
    intro t0 th0 h0; simp [setThread, upd, hne t0 th0 h0]; exact h0
  have clw : ∀ w p, ClW s w p → ClW (setThread s t { op := op, code := P.of op }) w p := by
    rintro w p ⟨t0, th0, h0, r⟩; exact ⟨t0, th0, keep t0 th0 h0, r⟩
  refine ⟨?_, ?_, ?_, ?_, h.ownM, ?_, h.kindP, h.fresh⟩
  · intro t0 th0 h0
    rcases upd_some_cases h0 with ⟨rfl, rfl⟩ | ⟨ne, h0'⟩
    · refine ⟨?_, by simp, by simp, by simp, by simp, by simp, by simp, by simp, by simp⟩
      intro _
      simp only [Progs.wf, Bool.and_eq_true] at hP
      cases op <;> simp [Progs.of, hP]
    · exact (h.th t0 th0 h0').frame rfl rfl
  · intro t0 t1 th0 th1 h0 h1 c0 c1 hw01
    rcases upd_some_cases h0 with ⟨rfl, rfl⟩ | ⟨ne0, h0'⟩
    · simp at c0
    · rcases upd_some_cases h1 with ⟨rfl, rfl⟩ | ⟨ne1, h1'⟩
      · simp at c1
      · exact h.clU _ _ _ _ h0' h1' c0 c1 hw01
  · intro e he; exact (h.mtab e he).imp id (clw _ _)
  · intro e he; exact (h.static e he).imp id (clw _ _)
  · intro w hw; exact clw _ _ (h.cr w hw)

/-- `closed.CompareAndSwap(false, true)` succeeding, executed while holding the watcher mutex -/
theorem inv_cas {P : Progs} {s : State} {t : Tid} {th th' : Thread} {wt : Watcher} (h : Inv P s)
    (ht : s.threads t = some th) (hwt : s.watchers th.w = some wt) (hcl0 : wt.closed = false)
    (hhw : th.a.hw = true)
    (hop : th'.op = th.op) (hwf : th'.skip = false → wfCode P.svc th'.a th'.code = true)
    (a1 : th'.a.cl = true) (a2 : th'.a.chk = false) (a3 : th'.a.rm = false) (a4 : th'.a.rs = false)
    (a5 : th'.a.rr = false) (a6 : th'.a.hw = th.a.hw) (a7 : th'.a.ht = th.a.ht) (a8 : th'.a.mid = th.a.mid)
    (a9 : th'.a.nc = th.a.nc) (a10 : th'.present = th.present) (hsm : th'.skip = true → th'.a.mid = false) :
    Inv P { setThread s t th' with watchers := upd s.watchers th.w (some { wt with closed := true }) } := by
  have hw : th'.w = th.w := by simp [Thread.w, hop]
  have hd : th'.desc = th.desc := by simp [Thread.desc, hop]
  have i := h.th t th ht
  have hclf : closedOf s th.w = false := by simp [closedOf, hwt, hcl0]
  have thcl : th.a.cl = false := by
    cases hx : th.a.cl with
    | false => rfl
    | true => rw [i.cl hx] at hclf; cases hclf
  have hc : ∀ w', w' ≠ th.w → closedOf { setThread s t th' with watchers := upd s.watchers th.w (some { wt with closed := true }) } w' = closedOf s w' := by
    intro w' ne; simp [closedOf, setThread, upd, ne]
  have hc1 : closedOf { setThread s t th' with watchers := upd s.watchers th.w (some { wt with closed := true }) } th.w = true := by
    simp [closedOf, setThread, upd]
  have hn : ∀ w', nameOf { setThread s t th' with watchers := upd s.watchers th.w (some { wt with closed := true }) } w' = nameOf s w' := by
    intro w'; by_cases e : w' = th.w
    · subst e; simp [nameOf, setThread, upd, hwt]
    · simp [nameOf, setThread, upd, e]
  have mu1 : ∃ wt1, s.watchers th.w = some wt1 ∧ wt1.mu = some t := i.hw hhw
  have keepClW : ∀ w p, ClW s w p → ClW { setThread s t th' with watchers := upd s.watchers th.w (some { wt with closed := true }) } w p := by
    rintro w p ⟨t0, th0, h0, hw0, hc0, hp0⟩
    have : t0 ≠ t := by intro e; subst e; rw [ht] at h0; cases h0; rw [thcl] at hc0; cases hc0
    exact ⟨t0, th0, by simp [setThread, upd, this]; exact h0, hw0, hc0, hp0⟩
  have ent : ∀ (o : Wid) (p : A → Bool), p th'.a = true → (closedOf s o = false ∨ ClW s o p) →
      closedOf { setThread s t th' with watchers := upd s.watchers th.w (some { wt with closed := true }) } o = false ∨
      ClW { setThread s t th' with watchers := upd s.watchers th.w (some { wt with closed := true }) } o p := by
    intro o p hp h1
    by_cases e : o = th.w
    · right; subst e; exact ⟨t, th', by simp [setThread], hw, a1, hp⟩
    · rcases h1 with h1 | h1
      · left; rw [hc o e]; exact h1
      · right; exact keepClW _ _ h1
  refine ⟨?_, ?_, ?_, ?_, ?_, ?_, h.kindP, ?_⟩
  · intro t0 th0 h0
    rcases upd_some_cases h0 with ⟨rfl, rfl⟩ | ⟨ne, h0'⟩
    · refine ⟨hwf, ?_, ?_, by simp [a2], ?_, by simp [a4], ?_, ?_, hsm⟩
      · intro _; rw [hw]; obtain ⟨wt1, h1, h2⟩ := mu1
        rw [hwt] at h1; cases h1
        exact ⟨{ wt with closed := true }, by simp [upd], h2⟩
      · rw [a7]; exact i.ht
      · intro _; rw [hw]; exact hc1
      · rw [a8, a7]; exact i.mid
      · rw [a9, hn, hw, hd]; exact i.nc
    · have j := h.th t0 th0 h0'
      have chkF : th0.w = th.w → th0.a.chk = false := by
        intro e
        cases hx : th0.a.chk with
        | false => rfl
        | true =>
          obtain ⟨wt0, h1, h2⟩ := j.hw (j.chk hx).1
          obtain ⟨wt1, h3, h4⟩ := mu1
          rw [e, h3] at h1; cases h1; rw [h4] at h2; cases h2; exact absurd rfl ne
      refine ⟨j.wf, ?_, j.ht, ?_, ?_, j.rsrm, j.mid, ?_, j.sm⟩
      · intro hh
        obtain ⟨wt0, h1, h2⟩ := j.hw hh
        by_cases e : th0.w = th.w
        · rw [e, hwt] at h1; cases h1
          exact ⟨{ wt with closed := true }, by simp [upd, e], h2⟩
        · exact ⟨wt0, by simpa [upd, e] using h1, h2⟩
      · intro hh
        by_cases e : th0.w = th.w
        · rw [chkF e] at hh; cases hh
        · rw [hc _ e]; exact j.chk hh
      · intro hh
        by_cases e : th0.w = th.w
        · rw [e]; exact hc1
        · rw [hc _ e]; exact j.cl hh
      · rw [hn]; exact j.nc
  · intro t0 t1 th0 th1 h0 h1 c0 c1 hw01
    rcases upd_some_cases h0 with ⟨rfl, rfl⟩ | ⟨ne0, h0'⟩ <;> rcases upd_some_cases h1 with ⟨rfl, rfl⟩ | ⟨ne1, h1'⟩
    · rfl
    · have := (h.th _ _ h1').cl c1; rw [← hw01, hw, hclf] at this; cases this
    · have := (h.th _ _ h0').cl c0; rw [hw01, hw, hclf] at this; cases this
    · exact h.clU _ _ _ _ h0' h1' c0 c1 hw01
  · intro e he; exact ent _ _ (by simp [a3]) (h.mtab e he)
  · intro e he; exact ent _ _ (by simp [a4]) (h.static e he)
  · intro e he; rw [hn]; exact h.ownM e he
  · intro w hwc; exact keepClW _ _ (h.cr w hwc)
  · intro w' hw'
    by_cases e : w' = th.w
    · subst e; rw [h.fresh _ hw'] at hwt; cases hwt
    · simpa [setThread, upd, e] using h.fresh w' hw'


/-! ### table operations -/

theorem mem_tblAdd {x e : Entry} {m : List Entry} (h : e ∈ tblAdd x m) : e ∈ m ∨ e = x := by
  unfold tblAdd at h
  split at h
  · left; exact (List.mem_filter.1 h).1
  · split at h
    · obtain ⟨y, hy, rfl⟩ := List.mem_map.1 h
      split
      · right; rfl
      · left; exact hy
    · rcases List.mem_append.1 h with h | h
      · left; exact h
      · right; simpa using h

theorem svcDelete_some {l : List Svc} {r : Svc → Option Entry} {k : Svc} {e : Entry} :
    svcDelete l r k = some e ↔ r k = some e ∧ k ∉ l := by
  induction l generalizing r with
  | nil => simp [svcDelete]
  | cons x xs ih =>
    simp only [svcDelete, ih, List.mem_cons, not_or]
    by_cases hk : k = x
    · subst hk; simp [upd]
    · simp [upd, hk]

theorem svcAdd_some {ss : Bool} {x : Entry} {l : List Svc} {r : Svc → Option Entry} {pres : List Svc}
    {k : Svc} {e : Entry} (h : (svcAdd ss x l r pres).1 k = some e) :
    r k = some e ∨ (e = x ∧ k ∈ (svcAdd ss x l r pres).2) := by
  have mono : ∀ (l : List Svc) (r : Svc → Option Entry) (pres : List Svc) (k : Svc), k ∈ pres → k ∈ (svcAdd ss x l r pres).2 := by
    intro l
    induction l with
    | nil => intro r pres k hk; simpa [svcAdd] using hk
    | cons y ys ih =>
      intro r pres k hk
      simp only [svcAdd]
      split
      · exact ih _ _ _ (List.mem_append_left _ hk)
      · split
        · exact ih _ _ _ (List.mem_append_left _ hk)
        · exact ih _ _ _ hk
  induction l generalizing r pres with
  | nil => left; simpa [svcAdd] using h
  | cons y ys ih =>
    simp only [svcAdd] at h ⊢
    split at h
    · rename_i hn
      rcases ih h with h1 | h1
      · by_cases hk : k = y
        · subst hk; simp only [upd_same] at h1; cases h1
          right; exact ⟨rfl, mono _ _ _ _ (by simp)⟩
        · left; simpa [upd, hk] using h1
      · right; exact h1
    · rename_i old ho
      by_cases hnm : old.desc.name = x.desc.name
      · simp only [hnm, if_true] at h ⊢
        rcases ih h with h1 | h1
        · by_cases hk : k = y
          · subst hk
            cases ss with
            | false => left; simpa using h1
            | true =>
              simp only [if_true, upd_same] at h1; cases h1
              right; exact ⟨rfl, mono _ _ _ _ (by simp)⟩
          · left
            cases ss with
            | false => simpa using h1
            | true => simpa [upd, hk] using h1
        · right; exact h1
      · simp only [hnm, if_false] at h ⊢
        exact ih h


theorem svcAdd_mono {ss : Bool} {x : Entry} (l : List Svc) (r : Svc → Option Entry) (pres : List Svc) (k : Svc)
    (hk : k ∈ pres) : k ∈ (svcAdd ss x l r pres).2 := by
  induction l generalizing r pres with
  | nil => simpa [svcAdd] using hk
  | cons y ys ih =>
    simp only [svcAdd]
    split
    · exact ih _ _ (List.mem_append_left _ hk)
    · split
      · exact ih _ _ (List.mem_append_left _ hk)
      · exact ih _ _ hk

/-- the add phase never removes a key -/
theorem svcAdd_keeps {ss : Bool} {x : Entry} (l : List Svc) (r : Svc → Option Entry) (pres : List Svc) (k : Svc)
    (h : (r k).isSome = true) : ((svcAdd ss x l r pres).1 k).isSome = true := by
  induction l generalizing r pres with
  | nil => simpa [svcAdd] using h
  | cons y ys ih =>
    simp only [svcAdd]
    split
    · apply ih; unfold upd; split <;> simp [h]
    · split
      · apply ih; cases ss
        · simpa using h
        · simp only [if_true]; unfold upd; split <;> simp [h]
      · exact ih _ _ h

/-- a listed key that the same target already owns ends up in the present list (so the delete phase skips it) -/
theorem svcAdd_present {ss : Bool} {x : Entry} (l : List Svc) (r : Svc → Option Entry) (pres : List Svc) (k : Svc)
    (hk : k ∈ l) (h : ∃ e, r k = some e ∧ e.desc.name = x.desc.name) : k ∈ (svcAdd ss x l r pres).2 := by
  induction l generalizing r pres with
  | nil => cases hk
  | cons y ys ih =>
    obtain ⟨e, he, hn⟩ := h
    simp only [svcAdd]
    by_cases hy : k = y
    · subst hy
      simp only [he, hn, if_true]
      exact svcAdd_mono _ _ _ _ (by simp)
    · have hk' : k ∈ ys := by
        rcases List.mem_cons.1 hk with h1 | h1
        · exact absurd h1 hy
        · exact h1
      split
      · exact ih _ _ hk' ⟨e, by simp [upd, hy, he], hn⟩
      · split
        · refine ih _ _ hk' ⟨e, ?_, hn⟩
          cases ss
          · simpa using he
          · simp [upd, hy, he]
        · exact ih _ _ hk' ⟨e, he, hn⟩

end GB.C11
