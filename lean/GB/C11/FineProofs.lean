import GB.C11.Fine
import GB.C11.Runs
/-
  C11 (round 5) — the fine LTS (one service key per step) against the coarse LTS:
   * the unrolled loops compose to the coarse statements (`addLoop_eq_coarse`, `relLoop_append`);
   * a SINGLE key observed in the middle of a loop has either its value before the loop statement or its
     value after it (`addLoop_prefix_key`, `relLoop_prefix_key`);
   * the base of every fine-reachable state is coarse-reachable and the loop bookkeeping is consistent
     (`finv_reachable`), hence every value a single-key lookup reads in the fine LTS is the value of that key
     in some coarse-reachable state with the same watchers / closeRet (`fine_single_key`).
-/
set_option linter.unusedSimpArgs false
set_option linter.unusedVariables false
namespace GB.C11
open GB.LTS

/-! ### the add loop -/

theorem addLoop_append (ss : Bool) (e : Entry) (a b : List Svc) (q : AddSt) :
    addLoop ss e (a ++ b) q = addLoop ss e b (addLoop ss e a q) := by
  induction a generalizing q with
  | nil => rfl
  | cons x xs ih => simp only [List.cons_append, addLoop]; exact ih _

/-- the routes in front of an add loop (`r0`) and in the middle of it (`r`) agree up to entries of the
    updater's own name -/
def AddRel (e : Entry) (r0 r : Svc → Option Entry) : Prop :=
  ∀ k, (∀ old, r0 k = some old → old.desc.name ≠ e.desc.name → r k = some old) ∧
       (∀ old, r0 k = some old → old.desc.name = e.desc.name → ∃ o, r k = some o ∧ o.desc.name = e.desc.name) ∧
       (r0 k = none → r k = none ∨ ∃ o, r k = some o ∧ o.desc.name = e.desc.name)

theorem AddRel.refl (e : Entry) (r : Svc → Option Entry) : AddRel e r r := by
  intro k
  exact ⟨fun _ h _ => h, fun old h hn => ⟨old, h, hn⟩, fun h => Or.inl h⟩

theorem AddRel.store {e : Entry} {r0 r : Svc → Option Entry} (h : AddRel e r0 r) (k : Svc)
    (hk : r k = none ∨ ∃ o, r k = some o ∧ o.desc.name = e.desc.name) : AddRel e r0 (upd r k (some e)) := by
  intro x
  by_cases hx : x = k
  · subst hx
    simp only [upd_same]
    obtain ⟨a, b, c⟩ := h x
    refine ⟨?_, ?_, ?_⟩
    · intro old h0 hn
      have := a old h0 hn
      rcases hk with hk | ⟨o, hk, ho⟩
      · rw [hk] at this; cases this
      · rw [hk] at this; cases this; exact absurd ho hn
    · intro old _ _; exact ⟨e, rfl, rfl⟩
    · intro _; right; exact ⟨e, rfl, rfl⟩
  · simp only [upd, hx, if_false]; exact h x

/-- **The unrolled add loop is the coarse `sAdd` statement**: running the loop body key by key gives the map
    `svcAdd` computes, the claims `svcClaim` records (whose decisions the model takes on the routes IN FRONT of
    the loop) and the same `present` list. -/
theorem addLoop_eq (ss : Bool) (e : Entry) (r0 : Svc → Option Entry) :
    ∀ (ks : List Svc) (r : Svc → Option Entry) (w : Svc → List Entry) (pres : List Svc), AddRel e r0 r →
      (addLoop ss e ks ⟨r, w, pres⟩).r = (svcAdd ss e ks r pres).1 ∧
      (addLoop ss e ks ⟨r, w, pres⟩).w = svcClaim e r0 ks w ∧
      (addLoop ss e ks ⟨r, w, pres⟩).pres = (svcAdd ss e ks r pres).2 := by
  intro ks
  induction ks with
  | nil => intro r w pres _; exact ⟨rfl, rfl, rfl⟩
  | cons k ks ih =>
    intro r w pres hrel
    obtain ⟨ha, hb, hc⟩ := hrel k
    cases hrk : r k with
    | none =>
      have h0 : r0 k = none := by
        cases h0 : r0 k with
        | none => rfl
        | some old =>
          by_cases hn : old.desc.name = e.desc.name
          · obtain ⟨o, h1, _⟩ := hb old h0 hn; rw [hrk] at h1; cases h1
          · have := ha old h0 hn; rw [hrk] at this; cases this
      have := ih (upd r k (some e)) w (pres ++ [k]) (hrel.store k (Or.inl hrk))
      simp only [addLoop, addOne, hrk, svcAdd, svcClaim_cons_none h0]
      exact this
    | some old =>
      by_cases hn : old.desc.name = e.desc.name
      · have h0 : svcClaim e r0 (k :: ks) w = svcClaim e r0 ks w := by
          cases h0 : r0 k with
          | none => exact svcClaim_cons_none h0
          | some o0 =>
            by_cases hn0 : o0.desc.name = e.desc.name
            · exact svcClaim_cons_same h0 hn0
            · have := ha o0 h0 hn0; rw [hrk] at this; cases this; exact absurd hn hn0
        have hrel' : AddRel e r0 (if ss then upd r k (some e) else r) := by
          cases ss
          · exact hrel
          · exact hrel.store k (Or.inr ⟨old, hrk, hn⟩)
        have := ih (if ss then upd r k (some e) else r) w (pres ++ [k]) hrel'
        simp only [addLoop, addOne, hrk, hn, if_true, svcAdd, h0]
        exact this
      · have h0 : r0 k = some old := by
          cases h0 : r0 k with
          | none =>
            rcases hc h0 with h1 | ⟨o, h1, h2⟩
            · rw [hrk] at h1; cases h1
            · rw [hrk] at h1; cases h1; exact absurd h2 hn
          | some o0 =>
            by_cases hn0 : o0.desc.name = e.desc.name
            · obtain ⟨o, h1, h2⟩ := hb o0 h0 hn0; rw [hrk] at h1; cases h1; exact absurd h2 hn
            · have := ha o0 h0 hn0; rw [hrk] at this; cases this; rfl
        have := ih r (upd w k (recordClaim (w k) e)) pres hrel
        simp only [addLoop, addOne, hrk, hn, if_false, svcAdd, svcClaim_cons_other h0 hn]
        exact this

/-- … from the state in front of the loop -/
theorem addLoop_eq_coarse (ss : Bool) (e : Entry) (ks : List Svc) (r : Svc → Option Entry) (w : Svc → List Entry) :
    (addLoop ss e ks ⟨r, w, []⟩).r = (svcAdd ss e ks r []).1 ∧
    (addLoop ss e ks ⟨r, w, []⟩).w = svcClaim e r ks w ∧
    (addLoop ss e ks ⟨r, w, []⟩).pres = (svcAdd ss e ks r []).2 :=
  addLoop_eq ss e r ks r w [] (AddRel.refl e r)

theorem addOne_r_other (ss : Bool) (e : Entry) (q : AddSt) (k x : Svc) (h : x ≠ k) : (addOne ss e q k).r x = q.r x := by
  unfold addOne
  split
  · simp [upd, h]
  · split
    · cases ss <;> simp [upd, h]
    · rfl

/-- the value of a key after its iteration does not change when the key is processed again -/
def AddStable (ss : Bool) (e : Entry) (v : Option Entry) : Prop :=
  ∃ o, v = some o ∧ (o.desc.name ≠ e.desc.name ∨ ss = false ∨ o = e)

theorem addOne_stable_self (ss : Bool) (e : Entry) (q : AddSt) (k : Svc) : AddStable ss e ((addOne ss e q k).r k) := by
  unfold addOne
  split
  · exact ⟨e, by simp, Or.inr (Or.inr rfl)⟩
  · rename_i old hold
    split
    · cases ss
      · exact ⟨old, by simpa using hold, Or.inr (Or.inl rfl)⟩
      · exact ⟨e, by simp, Or.inr (Or.inr rfl)⟩
    · rename_i hn
      exact ⟨old, hold, Or.inl hn⟩

theorem addOne_keeps_stable (ss : Bool) (e : Entry) (q : AddSt) (k x : Svc) (h : AddStable ss e (q.r k)) :
    (addOne ss e q x).r k = q.r k := by
  by_cases hx : k = x
  · subst hx
    obtain ⟨o, h1, h2⟩ := h
    unfold addOne
    rw [h1]
    simp only
    split
    · rename_i hn
      rcases h2 with h2 | h2 | h2
      · exact absurd hn h2
      · subst h2; simpa using h1
      · subst h2; cases ss <;> simp [h1]
    · exact h1
  · exact addOne_r_other ss e q x k hx

theorem addLoop_keeps_stable (ss : Bool) (e : Entry) (ks : List Svc) (q : AddSt) (k : Svc)
    (h : AddStable ss e (q.r k)) : (addLoop ss e ks q).r k = q.r k := by
  induction ks generalizing q with
  | nil => rfl
  | cons x xs ih =>
    simp only [addLoop]
    have h1 := addOne_keeps_stable ss e q k x h
    rw [ih _ (h1 ▸ h), h1]

theorem addLoop_r_out (ss : Bool) (e : Entry) (ks : List Svc) (q : AddSt) (k : Svc) (h : k ∉ ks) :
    (addLoop ss e ks q).r k = q.r k := by
  induction ks generalizing q with
  | nil => rfl
  | cons x xs ih =>
    simp only [addLoop]
    rw [ih _ (fun hx => h (List.mem_cons_of_mem _ hx))]
    exact addOne_r_other ss e q x k (fun hx => h (hx ▸ List.mem_cons_self))

/-- **A single key in the middle of the add loop**: after the keys `done` its value is the one in front of the
    loop (when its iteration has not run yet) or already the one after the whole loop `done ++ todo`. -/
theorem addLoop_prefix_key (ss : Bool) (e : Entry) (done todo : List Svc) (q : AddSt) (k : Svc) :
    (addLoop ss e done q).r k = q.r k ∨ (addLoop ss e done q).r k = (addLoop ss e (done ++ todo) q).r k := by
  by_cases hk : k ∈ done
  · right
    induction done generalizing q with
    | nil => cases hk
    | cons x xs ih =>
      simp only [List.cons_append, addLoop]
      by_cases hx : x = k
      · subst hx
        have hs := addOne_stable_self ss e q x
        rw [addLoop_keeps_stable ss e xs _ x hs, addLoop_keeps_stable ss e (xs ++ todo) _ x hs]
      · rcases List.mem_cons.1 hk with h | h
        · exact absurd h.symm hx
        · exact ih _ h
  · left; exact addLoop_r_out ss e done q k hk

/-! ### the release loops -/

theorem relLoop_append (a b : List Svc) (q : RelSt) : relLoop (a ++ b) q = relLoop b (relLoop a q) := by
  induction a generalizing q with
  | nil => rfl
  | cons x xs ih => simp only [List.cons_append, relLoop]; exact ih _

/-- **A single key in the middle of a release loop** (the range has no duplicates): the value in front of the
    loop, or already the value after the whole loop. -/
theorem relLoop_prefix_key (done todo : List Svc) (hn : (done ++ todo).Nodup) (q : RelSt) (k : Svc) :
    (relLoop done q).r k = q.r k ∨ (relLoop done q).r k = (relLoop (done ++ todo) q).r k := by
  by_cases hk : k ∈ done
  · right
    rw [relLoop_append]
    have : k ∉ todo := fun h => (List.nodup_append.1 hn).2.2 k hk k h rfl
    exact (relLoop_out (q := relLoop done q) this).1.symm
  · left; exact (relLoop_out hk).1

/-! ### the fine LTS: invariant and transfer -/

theorem loopKind?_instr {i : Instr} {kind : LoopKind} (h : loopKind? i = some kind) : i = kind.instr := by
  cases i <;> simp [loopKind?] at h <;> subst h <;> rfl

theorem loopKind?_none {i : Instr} (h : loopKind? i = none) : i ≠ .sAdd ∧ i ≠ .sDel ∧ i ≠ .sRemove := by
  cases i <;> simp [loopKind?] at h <;> simp

theorem loopKeys_setThread (s : State) (t : Tid) (x th : Thread) (kind : LoopKind) :
    loopKeys (setThread s t x) th kind = loopKeys s th kind := by
  cases kind <;> rfl

/-- bookkeeping invariant of the fine LTS: the base is a reachable state of the COARSE LTS, and while a loop is in
    progress its thread stands (not in skip mode) in front of the loop statement and `done ++ todo` is the value
    of the loop's range expression on the base -/
structure FInv (P : Progs) (fs : FState) : Prop where
  base : Reachable (step P) init fs.base
  loop : ∀ L, fs.loop = some L → ∃ th rest, fs.base.threads L.t = some th ∧ th.skip = false ∧
    th.code = L.kind.instr :: rest ∧ loopKeys fs.base th L.kind = some (L.done ++ L.todo)

/-- a coarse step of a thread other than the looping one, not executing a loop statement, keeps the invariant -/
theorem finv_other {P : Progs} (hP : P.wf = true) {fs : FState} (h : FInv P fs) {u : Tid} {thu : Thread} {i : Instr}
    {rest0 : List Instr} {b : State} (hth : fs.base.threads u = some thu) (hcode : thu.code = i :: rest0)
    (hb : step P fs.base (.tau u) = some b) (hnl : (i = .sAdd ∨ i = .sDel ∨ i = .sRemove) → thu.skip = true)
    (hu : ∀ L, fs.loop = some L → u ≠ L.t) (o : List (Tid × Res)) : FInv P { fs with base := b, obs := o } := by
  have hr : Reachable (step P) init b := Reachable.step h.base hb
  refine ⟨hr, ?_⟩
  intro L hL
  have hL : fs.loop = some L := hL
  obtain ⟨th, rest, h1, h2, h3, h4⟩ := h.loop L hL
  have hu := hu L hL
  obtain ⟨thu', ht', _⟩ := step_thread hth hcode hb
  have hthr : b.threads L.t = some th := by
    rw [ht']; simp [upd, Ne.symm hu]; exact h1
  have hsv : b.svcRoutes = fs.base.svcRoutes := by
    rcases step_routes hth hcode hb with ⟨_, x, _⟩ | ⟨rfl, x, _⟩ | ⟨rfl, x, _⟩ | ⟨rfl, x, _⟩
    · exact x
    · have := hnl (Or.inl rfl); rw [x] at this; cases this
    · have := hnl (Or.inr (Or.inl rfl)); rw [x] at this; cases this
    · have := hnl (Or.inr (Or.inr rfl)); rw [x] at this; cases this
  have hnm : ∀ w, (fs.base.watchers w).isSome = true → nameOf b w = nameOf fs.base w := by
    intro w hw
    rcases step_wset hth hcode hb with ⟨_, x, _⟩ | ⟨_, _, _, _, x⟩ | ⟨_, _, _, _, _, x⟩
    · exact x w
    · rw [x w]
      have hfr := (inv2_reachable hP fs.base h.base).1.fresh fs.base.nextW (Nat.le_refl _)
      have : w ≠ fs.base.nextW := by intro e; rw [e, hfr] at hw; cases hw
      simp [this]
    · exact x w
  have hkeys : loopKeys b th L.kind = loopKeys fs.base th L.kind := by
    cases hkind : L.kind with
    | add => rfl
    | del => simp only [loopKeys, hsv]
    | rem =>
      rw [hkind] at h4
      simp only [loopKeys] at h4 ⊢
      cases hw : fs.base.watchers th.w with
      | none => simp [hw] at h4
      | some wt =>
        have := hnm th.w (by simp [hw])
        simp only [nameOf, hw, Option.map_some] at this
        cases hw' : b.watchers th.w with
        | none => simp [hw'] at this
        | some wt' =>
          simp only [hw', Option.map_some, Option.some.injEq] at this
          simp only [hsv, this]
  exact ⟨th, rest, hthr, h2, h3, by rw [hkeys]; exact h4⟩

theorem finv_step {P : Progs} (hP : P.wf = true) {fs fs' : FState} {l : Label} (h : FInv P fs)
    (hs : fstep P fs l = some fs') : FInv P fs' := by
  cases l with
  | spawn t op =>
    simp only [fstep, Option.map_eq_some_iff] at hs
    obtain ⟨b, hb, rfl⟩ := hs
    refine ⟨Reachable.step h.base hb, ?_⟩
    intro L hL
    obtain ⟨th, rest, h1, h2, h3, h4⟩ := h.loop L hL
    simp only [step] at hb
    split at hb
    · rename_i hc
      simp only [Bool.and_eq_true, Option.isNone_iff_eq_none] at hc
      cases hb
      have hne : L.t ≠ t := by intro e; rw [e, hc.1] at h1; cases h1
      exact ⟨th, rest, by simp [setThread, upd, hne]; exact h1, h2, h3, by rw [loopKeys_setThread]; exact h4⟩
    · cases hb
  | tau u =>
    cases hth : fs.base.threads u with
    | none => simp [fstep, hth] at hs
    | some thu =>
      cases hcode : thu.code with
      | nil => simp [fstep, hth, hcode] at hs
      | cons i rest0 =>
        -- the three shapes of `lk`
        have lkc : (∃ kind, thu.skip = false ∧ loopKind? i = some kind ∧
              (if thu.skip then none else loopKind? i) = some kind) ∨
            (((i = .sAdd ∨ i = .sDel ∨ i = .sRemove) → thu.skip = true) ∧
              (if thu.skip then none else loopKind? i) = none) := by
          cases hsk : thu.skip with
          | true => right; exact ⟨fun _ => rfl, by simp⟩
          | false =>
            cases hk : loopKind? i with
            | some kind => left; exact ⟨kind, rfl, rfl, by simp⟩
            | none =>
              right
              obtain ⟨a, b, c⟩ := loopKind?_none hk
              exact ⟨fun hi => by rcases hi with x | x | x <;> contradiction, by simp⟩
        cases hloop : fs.loop with
        | none =>
          rcases lkc with ⟨kind, hsk, hk, hlk⟩ | ⟨hnl, hlk⟩
          · simp only [fstep, hth, hcode, hloop, hlk, Option.map_eq_some_iff] at hs
            obtain ⟨ks, hks, rfl⟩ := hs
            refine ⟨h.base, ?_⟩
            intro L hL
            simp only [Option.some.injEq] at hL
            subst hL
            exact ⟨thu, rest0, hth, hsk, by rw [hcode, loopKind?_instr hk], by simpa using hks⟩
          · simp only [fstep, hth, hcode, hloop, hlk] at hs
            cases hb : step P fs.base (.tau u) with
            | none => simp [hb] at hs
            | some b =>
              simp only [hb] at hs
              have fin := finv_other hP h hth hcode hb hnl (fun L hL => by simp [hloop] at hL)
              split at hs
              · cases hs; have f := fin ((u, loadRes fs.base.routes thu.key) :: fs.obs.filter (·.1 ≠ u)); simp only [hloop] at f; exact f
              · cases hs; have f := fin fs.obs; simp only [hloop] at f; exact f
        | some L =>
          obtain ⟨th, rest, h1, h2, h3, h4⟩ := h.loop L hloop
          by_cases hu : u = L.t
          · -- the looping thread: one key, or exit
            subst hu
            simp only [fstep, hth, hcode, hloop, if_true] at hs
            cases htodo : L.todo with
            | cons k ks =>
              simp only [htodo] at hs
              cases hs
              refine ⟨h.base, ?_⟩
              intro L' hL'
              simp only [Option.some.injEq] at hL'
              subst hL'
              exact ⟨th, rest, h1, h2, h3, by rw [h4, htodo]; simp⟩
            | nil =>
              simp only [htodo, Option.map_eq_some_iff] at hs
              obtain ⟨b, hb, rfl⟩ := hs
              exact ⟨Reachable.step h.base hb, fun L' hL' => by simp at hL'⟩
          · rcases lkc with ⟨kind, hsk, hk, hlk⟩ | ⟨hnl, hlk⟩
            · simp [fstep, hth, hcode, hloop, hu, hlk] at hs
            · simp only [fstep, hth, hcode, hloop, hu, if_false, hlk, Option.isSome_none, Bool.false_eq_true] at hs
              cases hb : step P fs.base (.tau u) with
              | none => simp [hb] at hs
              | some b =>
                simp only [hb] at hs
                have fin := finv_other hP h hth hcode hb hnl (fun L' hL' => by
                  have : L' = L := by simpa [hloop] using hL'.symm
                  subst this; exact hu)
                split at hs
                · cases hs
                  have f := fin ((u, loadRes (fs.view P.storeSame).routes thu.key) :: fs.obs.filter (·.1 ≠ u))
                  simp only [hloop] at f; exact f
                · cases hs; have f := fin fs.obs; simp only [hloop] at f; exact f

theorem finv_reachable {P : Progs} (hP : P.wf = true) (fs : FState) (h : Reachable (fstep P) finit fs) : FInv P fs := by
  induction h with
  | init => exact ⟨Reachable.init, fun L hL => by simp [finit] at hL⟩
  | step _ hs ih => exact finv_step hP ih hs

/-- the coarse loop statement is enabled for the looping thread and leaves watchers, watcherSet and the
    ghost set of returned Closes alone -/
theorem loop_step_exists {P : Progs} {s : State} {t : Tid} {th : Thread} {rest : List Instr} (kind : LoopKind)
    (ht : s.threads t = some th) (hsk : th.skip = false) (hc : th.code = kind.instr :: rest)
    (hk : (loopKeys s th kind).isSome = true) :
    ∃ x, step P s (.tau t) = some x ∧ x.watchers = s.watchers ∧ x.closeRet = s.closeRet ∧ x.wset = s.wset := by
  obtain ⟨op, code, skip, a, snap, cr, pres, res⟩ := th
  simp only at hc hsk; subst hc; subst hsk
  cases kind with
  | add =>
    simp only [step, ht, LoopKind.instr, exec, Bool.false_eq_true, if_false]
    exact ⟨_, rfl, rfl, rfl, rfl⟩
  | del =>
    simp only [step, ht, LoopKind.instr, exec, Bool.false_eq_true, if_false]
    exact ⟨_, rfl, rfl, rfl, rfl⟩
  | rem =>
    simp only [loopKeys] at hk
    cases hw : s.watchers (Thread.w ⟨op, LoopKind.rem.instr :: rest, false, a, snap, cr, pres, res⟩) with
    | none => simp [hw] at hk
    | some wt =>
      have hw' : s.watchers (Thread.w ⟨op, rest, false, a, snap, cr, pres, res⟩) = some wt := hw
      simp only [step, ht, LoopKind.instr, exec, Bool.false_eq_true, if_false, hw']
      exact ⟨_, rfl, rfl, rfl, rfl⟩

/-- **Single-key transfer.** In every reachable state of the fine LTS and for every service key `k`, the value
    of `k` in the view — what a `routes.Load(k)` scheduled at this very moment, in the middle of a per-service
    loop, returns — is the value of `k` in a reachable state `x` of the COARSE LTS: the base (the loop statement
    not yet executed) or the state right after the loop statement; `x` has the same watchers (closed flags,
    names), watcherSet and returned Closes. So every state predicate about ONE key proved for the coarse LTS
    holds for what single-key lookups observe in the fine LTS. -/
theorem fine_single_key {P : Progs} (hP : P.wf = true) (fs : FState) (hr : Reachable (fstep P) finit fs) (k : Svc) :
    ∃ x, Reachable (step P) init x ∧
      (x = fs.base ∨ ∃ L, fs.loop = some L ∧ step P fs.base (.tau L.t) = some x) ∧
      x.watchers = fs.base.watchers ∧ x.closeRet = fs.base.closeRet ∧ x.wset = fs.base.wset ∧
      (fs.view P.storeSame).routes k = x.routes k := by
  have h := finv_reachable hP fs hr
  by_cases hnone : fs.loop = none
  · exact ⟨fs.base, h.base, Or.inl rfl, rfl, rfl, rfl, by simp [FState.view, hnone]⟩
  · obtain ⟨L, hloop⟩ := Option.ne_none_iff_exists'.1 hnone
    obtain ⟨th, rest, h1, h2, h3, h4⟩ := h.loop L hloop
    obtain ⟨x, hx, w1, w2, w3⟩ := loop_step_exists (P := P) L.kind h1 h2 h3 (by simp [h4])
    have hrx : Reachable (step P) init x := Reachable.step h.base hx
    have pre : (fs.view P.storeSame).routes k = fs.base.routes k →
        ∃ x, Reachable (step P) init x ∧
          (x = fs.base ∨ ∃ L, fs.loop = some L ∧ step P fs.base (.tau L.t) = some x) ∧
          x.watchers = fs.base.watchers ∧ x.closeRet = fs.base.closeRet ∧ x.wset = fs.base.wset ∧
          (fs.view P.storeSame).routes k = x.routes k :=
      fun e => ⟨fs.base, h.base, Or.inl rfl, rfl, rfl, rfl, e⟩
    have post : (fs.view P.storeSame).routes k = x.routes k →
        ∃ x, Reachable (step P) init x ∧
          (x = fs.base ∨ ∃ L, fs.loop = some L ∧ step P fs.base (.tau L.t) = some x) ∧
          x.watchers = fs.base.watchers ∧ x.closeRet = fs.base.closeRet ∧ x.wset = fs.base.wset ∧
          (fs.view P.storeSame).routes k = x.routes k :=
      fun e => ⟨x, hrx, Or.inr ⟨L, hloop, hx⟩, w1, w2, w3, e⟩
    have hview : fs.view P.storeSame = viewOf P.storeSame fs.base th L := by
      simp [FState.view, hloop, h1]
    rw [hview] at pre post ⊢
    cases hkind : L.kind with
    | add =>
      rw [hkind] at h3 h4
      simp only [loopKeys, Option.some.injEq] at h4
      rcases step_routes h1 h3 hx with ⟨_, _, _, c⟩ | ⟨_, _, _, c, _⟩ | ⟨c, _⟩ | ⟨c, _⟩
      · have := c (Or.inl rfl); rw [h2] at this; cases this
      · rcases addLoop_prefix_key P.storeSame ⟨th.w, th.desc⟩ L.done L.todo ⟨fs.base.routes, fs.base.waiting, []⟩ k with e | e
        · exact pre (by simp only [viewOf, hkind]; exact e)
        · refine post ?_
          simp only [viewOf, hkind]
          rw [e, ← h4, c, (addLoop_eq_coarse P.storeSame ⟨th.w, th.desc⟩ th.desc.svcs fs.base.routes fs.base.waiting).1]
      · cases c
      · cases c
    | del =>
      rw [hkind] at h3 h4
      simp only [loopKeys, Option.some.injEq] at h4
      have hnd : (L.done ++ L.todo).Nodup := by
        rw [← h4]; exact ((inv2_reachable hP fs.base h.base).2.svc.nodup _).filter _
      rcases step_routes h1 h3 hx with ⟨_, _, _, c⟩ | ⟨c, _⟩ | ⟨_, _, q, hq, c, _⟩ | ⟨c, _⟩
      · have := c (Or.inr (Or.inl rfl)); rw [h2] at this; cases this
      · cases c
      · rcases relLoop_prefix_key L.done L.todo hnd ⟨fs.base.routes, delWaiting fs.base th, fs.base.svcRoutes⟩ k with e | e
        · exact pre (by simp only [viewOf, hkind]; exact e)
        · refine post ?_
          simp only [viewOf, hkind]
          rw [e, ← h4, c, hq]; rfl
      · cases c
    | rem =>
      rw [hkind] at h3 h4
      simp only [loopKeys] at h4
      rcases step_routes h1 h3 hx with ⟨_, _, _, c⟩ | ⟨c, _⟩ | ⟨c, _⟩ | ⟨_, _, wt, q, hwt, hq, c, _⟩
      · have := c (Or.inr (Or.inr rfl)); rw [h2] at this; cases this
      · cases c
      · cases c
      · simp only [hwt, Option.some.injEq] at h4
        have hnd : (L.done ++ L.todo).Nodup := by
          rw [← h4]; exact (inv2_reachable hP fs.base h.base).2.svc.nodup _
        rcases relLoop_prefix_key L.done L.todo hnd ⟨fs.base.routes, fs.base.waiting, fs.base.svcRoutes⟩ k with e | e
        · exact pre (by simp only [viewOf, hkind]; exact e)
        · refine post ?_
          simp only [viewOf, hkind]
          rw [e, ← h4, c, hq]

/-- **The exit step is invisible**: when every key of the range has been processed the view's routes are exactly
    the routes after the coarse loop statement — the unrolled loop really is that statement. -/
theorem fine_exit_invisible {P : Progs} (hP : P.wf = true) (fs : FState) (hr : Reachable (fstep P) finit fs)
    (L : Loop) (hloop : fs.loop = some L) (htodo : L.todo = []) (x : State)
    (hx : step P fs.base (.tau L.t) = some x) : (fs.view P.storeSame).routes = x.routes := by
  have h := finv_reachable hP fs hr
  obtain ⟨th, rest, h1, h2, h3, h4⟩ := h.loop L hloop
  have hview : fs.view P.storeSame = viewOf P.storeSame fs.base th L := by
    simp [FState.view, hloop, h1]
  rw [hview, htodo, List.append_nil] at *
  cases hkind : L.kind with
  | add =>
    rw [hkind] at h3 h4
    simp only [loopKeys, Option.some.injEq] at h4
    rcases step_routes h1 h3 hx with ⟨_, _, _, c⟩ | ⟨_, _, _, c, _⟩ | ⟨c, _⟩ | ⟨c, _⟩
    · have := c (Or.inl rfl); rw [h2] at this; cases this
    · simp only [viewOf, hkind]
      rw [← h4, c, (addLoop_eq_coarse P.storeSame ⟨th.w, th.desc⟩ th.desc.svcs fs.base.routes fs.base.waiting).1]
    · cases c
    · cases c
  | del =>
    rw [hkind] at h3 h4
    simp only [loopKeys, Option.some.injEq] at h4
    rcases step_routes h1 h3 hx with ⟨_, _, _, c⟩ | ⟨c, _⟩ | ⟨_, _, q, hq, c, _⟩ | ⟨c, _⟩
    · have := c (Or.inr (Or.inl rfl)); rw [h2] at this; cases this
    · cases c
    · simp only [viewOf, hkind]
      rw [← h4, c, hq]; rfl
    · cases c
  | rem =>
    rw [hkind] at h3 h4
    simp only [loopKeys] at h4
    rcases step_routes h1 h3 hx with ⟨_, _, _, c⟩ | ⟨c, _⟩ | ⟨c, _⟩ | ⟨_, _, wt, q, hwt, hq, c, _⟩
    · have := c (Or.inr (Or.inr rfl)); rw [h2] at this; cases this
    · cases c
    · cases c
    · simp only [hwt, Option.some.injEq] at h4
      simp only [viewOf, hkind]
      rw [← h4, c, hq]

/-- the guard of `fstep` ("no other thread executes a loop statement while a loop is in progress") never
    fires in a reachable state: both threads would hold the table mutex -/
theorem fine_guard_vacuous {P : Progs} (hP : P.wf = true) (fs : FState) (hr : Reachable (fstep P) finit fs)
    (L : Loop) (hloop : fs.loop = some L) (u : Tid) (thu : Thread) (i : Instr) (rest0 : List Instr)
    (hth : fs.base.threads u = some thu) (hcode : thu.code = i :: rest0) (hsk : thu.skip = false)
    (hi : i = .sAdd ∨ i = .sDel ∨ i = .sRemove) : u = L.t := by
  have h := finv_reachable hP fs hr
  obtain ⟨th, rest, h1, h2, h3, _⟩ := h.loop L hloop
  have i1 := (inv2_reachable hP fs.base h.base).1
  have holds : ∀ (t : Tid) (x : Thread) (j : Instr) (r : List Instr), fs.base.threads t = some x → x.skip = false →
      x.code = j :: r → (j = .sAdd ∨ j = .sDel ∨ j = .sRemove) → fs.base.tmu = some t := by
    intro t x j r hx hs hc hj
    have hwf := (i1.th t x hx).wf hs
    rw [hc] at hwf
    simp only [wfCode] at hwf
    have : x.a.ht = true := by
      cases hh : x.a.ht with
      | true => rfl
      | false => rcases hj with rfl | rfl | rfl <;> simp [A.step, hh] at hwf
    exact (i1.th t x hx).ht this
  have a := holds u thu i rest0 hth hsk hcode hi
  have b := holds L.t th L.kind.instr rest h1 h2 h3 (by cases L.kind <;> simp [LoopKind.instr])
  rw [a] at b; exact Option.some.inj b

end GB.C11
