import GB.C11.Model
import GB.Generated.Facts
/-
  C11 — property theorems.
-/
open GB GB.C11

/-- Facts tie: the statement skeletons regenerated from the sources are the model's programs. -/
theorem C11_facts_pattern :
    GB.Generated.c11PatternUpdate = patternProgs.update.map Instr.tag ∧
    GB.Generated.c11PatternClose = patternProgs.close.map Instr.tag ∧
    GB.Generated.c11PatternWatch = patternProgs.watch.map Instr.tag ∧
    GB.Generated.c11PatternLookup = patternProgs.lookupP.map Instr.tag := by decide

theorem C11_facts_service :
    GB.Generated.c11ServiceUpdate = serviceProgs.update.map Instr.tag ∧
    GB.Generated.c11ServiceClose = serviceProgs.close.map Instr.tag ∧
    GB.Generated.c11ServiceWatch = serviceProgs.watch.map Instr.tag ∧
    GB.Generated.c11ServiceLookup = serviceProgs.lookupS.map Instr.tag ∧
    GB.Generated.c11ServiceLookupHTTP = serviceProgs.lookupS.map Instr.tag := by decide
