import GB.Base.Proto
import GB.C11.Model
import GB.C11.Fine
import GB.C11.Methods
import GB.Generated.Facts
/-
  C11 driver: trace validation.  One case line =
     `<P|S> <scenario> <schedule> => <log tokens…>`
  The log is the totally ordered list of events the Go harness observed while it ran the REAL router
  under its one-goroutine-at-a-time scheduler (see harness/c11).  The driver
    1. judges the log against the *specification predicates* of C11 using the log alone
       (mixture / resurrection / re-watch / gap)                                   → `VIOL …`
    2. replays the log through the model LTS (`GB.C11.step`), one macro step (= all statements up to
       the next park point) per scheduler release, trying every order of the goroutines that were
       woken by a mutex release in the same round                                  → `DIFF …`
  Tokens:  r.<t>  s.<t>.U.<wid>.<name>.<ver>.<svcs>  s.<t>.C.<wid>  s.<t>.W.<name>  s.<t>.L.<k>  s.<t>.X
           h.<t>.<n>  b.<t>  e.<t>.ok  e.<t>.w.<wid>  e.<t>.wf  e.<t>.m  e.<t>.h.<tv>.<sv>.<mv>  e.<t>.panic
-/
namespace GB.C11
open GB GB.Proto

inductive Ev
  | rel (t : Nat)
  | startU (t wid name ver : Nat) (svcs : List Nat)
  | startC (t wid : Nat)
  | startW (t name : Nat)
  | startL (t k : Nat)
  | startX (t : Nat)
  | hook (t n : Nat)
  | blocked (t : Nat)
  | endOk (t : Nat)
  | endW (t wid : Nat)
  | endWF (t : Nat)
  | endM (t : Nat)
  | endH (t tv sv mv : Nat)
  | endPanic (t : Nat)
deriving Repr, Inhabited

def Ev.thread : Ev → Nat
  | .rel t => t | .startU t .. => t | .startC t _ => t | .startW t _ => t | .startL t _ => t | .startX t => t
  | .hook t _ => t | .blocked t => t | .endOk t => t | .endW t _ => t | .endWF t => t | .endM t => t
  | .endH t .. => t | .endPanic t => t

def parseDigits (s : String) : Option (List Nat) :=
  if s = "-" then some []
  else s.toList.mapM (fun c => if '0' ≤ c ∧ c ≤ '9' then some (c.toNat - '0'.toNat) else none)

def parseEv (tok : String) : Option Ev :=
  match tok.splitOn "." with
  | ["r", t] => do some (.rel (← t.toNat?))
  | ["s", t, "U", w, n, v, ks] => do some (.startU (← t.toNat?) (← w.toNat?) (← n.toNat?) (← v.toNat?) (← parseDigits ks))
  | ["s", t, "C", w] => do some (.startC (← t.toNat?) (← w.toNat?))
  | ["s", t, "W", n] => do some (.startW (← t.toNat?) (← n.toNat?))
  | ["s", t, "L", k] => do some (.startL (← t.toNat?) (← k.toNat?))
  | ["s", t, "X"] => do some (.startX (← t.toNat?))
  | ["h", t, n] => do some (.hook (← t.toNat?) (← n.toNat?))
  | ["b", t] => do some (.blocked (← t.toNat?))
  | ["e", t, "ok"] => do some (.endOk (← t.toNat?))
  | ["e", t, "w", w] => do some (.endW (← t.toNat?) (← w.toNat?))
  | ["e", t, "wf"] => do some (.endWF (← t.toNat?))
  | ["e", t, "m"] => do some (.endM (← t.toNat?))
  | ["e", t, "h", a, b, c] => do some (.endH (← t.toNat?) (← a.toNat?) (← b.toNat?) (← c.toNat?))
  | ["e", t, "panic"] => do some (.endPanic (← t.toNat?))
  | _ => none

/-! ### 1. specification predicates over the log alone -/

inductive OpRec
  | upd (wid ver : Nat)
  | close (wid : Nat)
  | watch (name : Nat) (crAtStart : List Nat)
  | look (k : Nat) (crAtStart : List Nat) (doneAtStart : List Nat)
  | skip
deriving Repr, Inhabited

structure Issued where
  ver : Nat
  wid : Nat
  name : Nat
  svcs : List Nat
deriving Repr, Inhabited

structure SpecSt where
  svc : Bool                          -- service router (conflicts keep the previous route)
  wname : List (Nat × Nat) := []      -- impl watcher id → name
  issued : List Issued := []          -- every UpdateDesc that has started
  updDone : List Nat := []            -- versions whose UpdateDesc has returned
  closeStarted : List Nat := []
  closeRet : List Nat := []
  cur : List (Nat × OpRec) := []
  viol : Option String := none
deriving Inhabited

def SpecSt.setCur (st : SpecSt) (t : Nat) (o : OpRec) : SpecSt :=
  { st with cur := (t, o) :: st.cur.filter (fun p => p.1 ≠ t) }

def SpecSt.fail (st : SpecSt) (why : String) : SpecSt :=
  match st.viol with
  | some _ => st
  | none => { st with viol := some why }

/-- Conservative "must be routable" rule for a missed lookup of `k` (no false alarm by construction):
    some watcher `w` whose Close had not started when the lookup ended has completed — before the
    lookup started — an update listing `k`, every update ever started through `w` lists `k` and
    carries `w`'s own name. On the service router the key may be routed to another lister (conflict: the earlier
    claimant keeps it; fix D31: a released key is handed over), but it is never absent. -/
def guaranteed (st : SpecSt) (k : Nat) (doneAtStart : List Nat) : Option Nat :=
  let ok (w : Nat × Nat) : Bool :=
    !st.closeStarted.contains w.1 &&
    st.issued.any (fun u => u.wid = w.1 && doneAtStart.contains u.ver) &&
    st.issued.all (fun u => u.wid ≠ w.1 || (u.svcs.contains k && u.name = w.2)) &&
    -- (service router, since fix D31) a differently named target listing `k` does not matter any more:
    -- whoever owns the key, it is routed as long as `w` keeps listing it (owner, or claimant handed over to)
    true
    -- older watchers of the same name do not matter: on a correct router they are fully closed before
    -- this one could be created, and their straggling updates are no-ops
  (st.wname.find? ok).map (·.1)

def specEv (st : SpecSt) : Ev → SpecSt
  | .startU t wid name ver svcs =>
    (st.setCur t (.upd wid ver)) |> fun st => { st with issued := ⟨ver, wid, name, svcs⟩ :: st.issued }
  | .startC t wid => { st.setCur t (.close wid) with closeStarted := wid :: st.closeStarted }
  | .startW t name => st.setCur t (.watch name st.closeRet)
  | .startL t k => st.setCur t (.look k st.closeRet st.updDone)
  | .startX t => st.setCur t .skip
  | .endOk t =>
    match st.cur.lookup t with
    | some (.upd _ ver) => { st with updDone := ver :: st.updDone }
    | some (.close wid) => { st with closeRet := wid :: st.closeRet }
    | _ => st
  | .endW t wid =>
    match st.cur.lookup t with
    | some (.watch name _) =>
      -- Watch must fail while a watcher of that name is registered, i.e. until its Close has returned
      -- (under the controlled scheduler a Close that has passed watcherSet.Remove also returns in the same
      -- macro step, so "returned" and "removed from the set" coincide at every point a Watch can run)
      let st' := { st with wname := (wid, name) :: st.wname }
      match st.wname.find? (fun w => w.2 = name && !st.closeRet.contains w.1) with
      | some w => st'.fail s!"rewatch-too-early: Watch({name}) succeeded although Close of watcher {w.1} of that name had not returned"
      | none => st'
    | _ => st
  | .endWF t =>
    match st.cur.lookup t with
    | some (.watch name cr) =>
      -- every watcher ever created for the name had been closed (Close returned) before this Watch began
      if st.wname.all (fun w => w.2 ≠ name || cr.contains w.1) then
        st.fail s!"rewatch: Watch({name}) failed although Close of every watcher of that name had returned"
      else st
    | _ => st
  | .endM t =>
    match st.cur.lookup t with
    | some (.look k _ doneAtStart) =>
      match guaranteed st k doneAtStart with
      | some w =>
        let wn := (st.wname.lookup w).getD 0
        if st.wname.any (fun w' => w'.1 ≠ w && w'.2 = wn) then
          st.fail s!"lost-routes-of-live-watcher: lookup of service {k} missed although live watcher {w} applied a description listing it (an older watcher of the same name removed them)"
        else st.fail s!"gap: lookup of service {k} missed although live watcher {w} lists it in every description"
      | none => st
    | _ => st
  | .endH t tv sv mv =>
    match st.cur.lookup t with
    | some (.look k cr _) =>
      if tv ≠ sv || tv ≠ mv then st.fail s!"mixture: lookup returned target of description {tv} with service {sv} method {mv}"
      else match st.issued.find? (fun u => u.ver = tv) with
        | none => st.fail s!"unknown description {tv}"
        | some u =>
          if !u.svcs.contains k then st.fail s!"mixture: description {tv} does not list service {k}"
          else if cr.contains u.wid then
            st.fail s!"resurrected: lookup started after Close of watcher {u.wid} returned but was routed to its description {tv}"
          else st
    | _ => st
  | .endPanic t => st.fail s!"panic in thread {t}"
  | _ => st

/-! ### 2. replay through the model -/

inductive Park
  | hook (n : Nat) | blocked | done (r : Res) | stuck
deriving Repr, DecidableEq, Inhabited

/-- Run thread `tid` of the FINE LTS until it parks: after executing a `hook`, when its next statement is
    disabled, when its program is finished — and, when `fine` (input kind `F`: the harness also parks at the
    per-iteration yield points), inside the per-service loops: before every iteration of the add loop
    (`service.update.addIter` = 4) and after every release of the delete loop (`service.update.delIter` = 5) and
    of removeTarget (`service.remove.iter` = 6). With `fine = false` the loops run through without parking. -/
def runToPark (P : Progs) (fine : Bool) : Nat → FState → Tid → FState × Park
  | 0, s, _ => (s, .stuck)
  | fuel + 1, s, tid =>
    match s.base.threads tid with
    | none => (s, .stuck)
    | some th =>
      match th.code with
      | [] => (s, .done (s.resOf tid th))
      | i :: _ =>
        match fstep P s (.tau tid) with
        | none => (s, .blocked)
        | some s' =>
          -- after an early return the yield points are not reached any more
          match i, th.skip with
          | .hook n, false => (s', .hook n)
          | _, _ =>
            match s'.loop with
            | some L =>
              if fine && L.t = tid then
                match L.kind with
                | .add => if L.todo.isEmpty then runToPark P fine fuel s' tid else (s', .hook 4)
                | .del => if L.done.isEmpty then runToPark P fine fuel s' tid else (s', .hook 5)
                | .rem => if L.done.isEmpty then runToPark P fine fuel s' tid else (s', .hook 6)
              else runToPark P fine fuel s' tid
            | none => runToPark P fine fuel s' tid

structure Cand where
  s : FState
  /-- kind `M` (pattern router, two HTTP methods): `s` is the POST component, `g` the GET component of the
      per-method LTS (`GB.C11.MStep`, lockstep) -/
  g : Option FState := none
  cur : List (Nat × Tid) := []     -- harness thread → model thread of its current operation
  nops : List (Nat × Nat) := []    -- harness thread → number of operations started
deriving Inhabited

def Cand.tid (c : Cand) (t : Nat) : Option Tid := c.cur.lookup t

def Cand.start (P : Progs) (c : Cand) (t : Nat) (op : Op) : Option Cand :=
  let n := (c.nops.lookup t).getD 0
  let tid := t * 64 + n
  match c.g with
  | none =>
    match fstep P c.s (.spawn tid op) with
    | none => none
    | some s' => some { s := s', cur := (t, tid) :: c.cur.filter (·.1 ≠ t), nops := (t, n + 1) :: c.nops.filter (·.1 ≠ t) }
  | some g =>
    match mstep2 P { post := c.s, get := g } (.spawn tid op) with
    | none => none
    | some m => some { s := m.post, g := some m.get, cur := (t, tid) :: c.cur.filter (·.1 ≠ t), nops := (t, n + 1) :: c.nops.filter (·.1 ≠ t) }

def matchEv (issued : List Issued) (p : Park) (e : Ev) : Bool :=
  match p, e with
  | .hook n, .hook _ m => n = m
  | .blocked, .blocked _ => true
  | .done .ok, .endOk _ => true
  | .done (.watched w), .endW _ w' => w = w'
  | .done .watchFail, .endWF _ => true
  | .done .miss, .endM _ => true
  | .done (.hit en), .endH _ tv _ _ =>
    en.desc.ver = tv && (match issued.find? (fun u => u.ver = tv) with | some u => u.wid = en.owner | none => false)
  | _, _ => false

def showPark : Park → String
  | .hook n => s!"hook{n}" | .blocked => "blocked" | .stuck => "stuck"
  | .done .ok => "ok" | .done (.watched w) => s!"watched{w}" | .done .watchFail => "watchFail"
  | .done .miss => "miss" | .done (.hit e) => s!"hit(v{e.desc.ver},w{e.owner})" | .done .pending => "pending"

/-- advance thread `t` of candidate `c` one macro step and compare with the observed event -/
def Cand.advance (P : Progs) (fine : Bool) (issued : List Issued) (c : Cand) (e : Ev) : Except String Cand :=
  match c.tid e.thread with
  | none => .error "no-op"
  | some tid =>
    let (s', p) := runToPark P fine 160 c.s tid
    match c.g with
    | none => if matchEv issued p e then .ok { c with s := s' } else .error (showPark p)
    | some g =>
      -- per-method LTS: both method components take the same macro step; they must park alike (the control
      -- flow does not depend on the tables); a lookup is answered by the component of its key's method
      let (g', p2) := runToPark P fine 160 g tid
      let getAnswers := match g.base.threads tid with
        | some th => (match th.op with | .lookupP k => mOf2 k == 0 | _ => false)
        | none => false
      let coherent := match p, p2 with
        | .done (.hit _), .done .miss => !getAnswers
        | .done .miss, .done (.hit _) => getAnswers
        | a, b => a == b
      if !coherent then .error s!"method components park differently: {showPark p} / {showPark p2}"
      else
        let pj := if getAnswers then p2 else p
        if matchEv issued pj e then .ok { c with s := s', g := some g' } else .error (showPark pj)

def insertAll (x : Ev) : List Ev → List (List Ev)
  | [] => [[x]]
  | y :: ys => (x :: y :: ys) :: (insertAll x ys).map (y :: ·)

def perms : List Ev → List (List Ev)
  | [] => [[]]
  | x :: xs => (perms xs).flatMap (insertAll x)

structure Round where
  t : Nat
  start : Option Ev := none
  evs : List Ev := []
deriving Inhabited

def opOfStart : Ev → Option Op
  | .startU _ w n v ks => some (.update w ⟨n, v, ks⟩)
  | .startC _ w => some (.close w)
  | .startW _ n => some (.watch n)
  | .startL _ _ => none   -- filled by kind
  | _ => none

def Cand.round (P : Progs) (svc fine : Bool) (issued : List Issued) (c : Cand) (r : Round) : List Cand × String :=
  -- 1. spawn
  let c1 : Except String Cand :=
    match r.start with
    | none => .ok c
    | some (.startX _) => .ok c
    | some (.startL _ k) => (c.start P r.t (if svc then .lookupS k else .lookupP k)).elim (.error "spawn") .ok
    | some ev => match opOfStart ev with
      | some op => (c.start P r.t op).elim (.error "spawn") .ok
      | none => .error "start"
  match c1 with
  | .error e => ([], e)
  | .ok c1 =>
    let own := r.evs.filter (fun e => e.thread = r.t)
    let woken := r.evs.filter (fun e => e.thread ≠ r.t)
    let c2 : Except String Cand :=
      match own with
      | [] => .ok c1
      | [e] => c1.advance P fine issued e
      | _ => .error "two own events"
    match c2 with
    | .error e => ([], s!"t{r.t}:model={e}")
    | .ok c2 =>
      if woken.length > 4 then ([], "too many woken") else
      let res := (perms woken).map (fun order => order.foldlM (fun c e => c.advance P fine issued e) c2)
      let oks := res.filterMap (fun x => match x with | .ok c => some c | .error _ => none)
      let err := res.findSome? (fun x => match x with | .error e => some e | .ok _ => none)
      (oks, s!"woken:model={err.getD ""}")

def splitRounds : List Ev → List Round → List Round
  | [], acc => acc.reverse
  | .rel t :: rest, acc => splitRounds rest ({ t := t } :: acc)
  | e :: rest, acc =>
    match acc with
    | [] => splitRounds rest acc
    | r :: rs =>
      let isStart := match e with
        | .startU .. => true | .startC .. => true | .startW .. => true | .startL .. => true | .startX .. => true | _ => false
      if isStart && e.thread = r.t then splitRounds rest ({ r with start := some e } :: rs)
      else splitRounds rest ({ r with evs := r.evs ++ [e] } :: rs)

def genProgs (svc : Bool) : Progs :=
  let conv (l : List String) : List Instr := l.filterMap Instr.ofTag
  { update := conv (if svc then Generated.c11ServiceUpdate else Generated.c11PatternUpdate)
    close := conv (if svc then Generated.c11ServiceClose else Generated.c11PatternClose)
    watch := conv (if svc then Generated.c11ServiceWatch else Generated.c11PatternWatch)
    lookupP := conv Generated.c11PatternLookup
    lookupS := conv Generated.c11ServiceLookup
    storeSame := Generated.c11ServiceStoreSame
    svc := svc }

/-- programs used for the replay: the regenerated skeletons as long as they pass the lock-discipline
    checker (then the theorems cover them); otherwise the programs the theorems were instantiated for,
    so that a restructured operation shows up as a correspondence break instead of being followed. -/
def replayProgs (svc : Bool) : Progs :=
  let g := genProgs svc
  if g.wf then g
  else { (if svc then serviceProgs else patternProgs) with storeSame := Generated.c11ServiceStoreSame }

def replay (P : Progs) (svc fine : Bool) (issued : List Issued) : List Round → Nat → List Cand → Option String
  | [], _, _ => none
  | r :: rs, k, cands =>
    let nexts := cands.map (fun c => c.round P svc fine issued r)
    let alive := (nexts.flatMap (·.1)).take 32
    if alive.isEmpty then
      some s!"round={k} {(nexts.head?.map (·.2)).getD ""}"
    else replay P svc fine issued rs (k + 1) alive

/-- `key=value` counters of an uncontrolled stress line -/
def kvNat (out : List String) (key : String) : Option Nat :=
  out.findSome? (fun tok => match tok.splitOn "=" with
    | [k, v] => if k = key then v.toNat? else none
    | _ => none)

def kvStr (out : List String) (key : String) : String :=
  (out.findSome? (fun tok => if tok.startsWith (key ++ "=") then some ((tok.drop (key.length + 1)).toString) else none)).getD "-"

/-- Uncontrolled stress lines are judged against the C11 predicates directly (no model replay):
    the harness only counts observations each of which is a violation by the property text. -/
def handleStress (mode : String) (out : List String) : String :=
  let first := kvStr out "first"
  match kvNat out "lookups" with
  | none => "BAD stress output"
  | some 0 => "BAD stress: no lookups"
  | some _ =>
    if mode = "gap" then
      match kvNat out "missP", kvNat out "missS", kvNat out "mixP", kvNat out "mixS" with
      | some mp, some ms, some xp, some xs =>
        if mp + ms > 0 then s!"VIOL gap: a route/service present in both descriptions was not found during an update (pattern misses={mp} service misses={ms}) {first}"
        else if xp + xs > 0 then s!"VIOL mixture: lookup result not taken from one description (pattern={xp} service={xs}) {first}"
        else "OK nt b=stress-gap"
      | _, _, _, _ => "BAD stress gap output"
    else if mode = "close" then
      match kvNat out "routedAfterClose", kvNat out "rewatchFailed", kvNat out "missAfterUpdate" with
      | some rac, some rwf, some mau =>
        let early := (kvNat out "rewatchTooEarly").getD 0
        let lost := (kvNat out "lostRoutes").getD 0
        if early > 0 then s!"VIOL rewatch-too-early: Watch succeeded while the closing watcher's routes were still installed ({early}) {first}"
        else if lost > 0 then s!"VIOL lost-routes-of-live-watcher: routes installed through a live watcher disappeared ({lost}) {first}"
        else if rac > 0 then s!"VIOL resurrected: lookup routed to a target after its Close returned ({rac}) {first}"
        else if rwf > 0 then s!"VIOL rewatch: Watch failed after Close of the only watcher of the name returned ({rwf}) {first}"
        else if mau > 0 then s!"VIOL gap: route of a live watcher not found after UpdateDesc returned ({mau}) {first}"
        else "OK nt b=stress-close"
      | _, _, _ => "BAD stress close output"
    else if mode = "handover" then
      match kvNat out "miss", kvNat out "ownAfterClose", kvNat out "mix" with
      | some m, some o, some x =>
        if o > 0 then s!"VIOL resurrected: after a hand-over a lookup was routed to a target whose Close had returned ({o}) {first}"
        else if m > 0 then s!"VIOL gap: contested service absent although a live target lists it in every description ({m}) {first}"
        else if x > 0 then s!"VIOL mixture: ({x}) {first}"
        else "OK nt b=stress-handover"
      | _, _, _ => "BAD stress handover output"
    else if mode = "claim" then
      match kvNat out "later", kvNat out "miss", kvNat out "mix" with
      | some l, some m, some x =>
        if l > 0 then s!"VIOL contested-service-routed-to-later-claimant: ({l}) {first}"
        else if m > 0 then s!"VIOL gap: contested service not routable although its owner lists it ({m}) {first}"
        else if x > 0 then s!"VIOL mixture: ({x}) {first}"
        else "OK nt b=stress-claim"
      | _, _, _ => "BAD stress claim output"
    else "BAD stress mode"

def handle : Handler
  | "stress" :: mode :: _, out => handleStress mode out
  | kind :: _, out =>
    if kind ≠ "P" && kind ≠ "S" && kind ≠ "F" && kind ≠ "M" then "BAD kind" else
    -- kind M = the pattern router with two HTTP methods (even keys: GET bindings, odd keys: default POST)
    -- kind F = the service router with the harness parking at the per-iteration yield points as well
    let svc := kind = "S" || kind = "F"
    let fine := kind = "F"
    match out.mapM parseEv with
    | none => s!"BAD token"
    | some evs =>
      let st := evs.foldl specEv { svc := svc }
      let nBlocked := (evs.filter (fun e => match e with | .blocked _ => true | _ => false)).length
      let nHits := (evs.filter (fun e => match e with | .endH .. => true | _ => false)).length
      let rounds := splitRounds evs []
      -- non-trivial: some goroutine ran while another one was parked inside an operation
      let interleaved := (rounds.zip (rounds.drop 1)).any (fun (a, b) =>
        a.t ≠ b.t && a.evs.any (fun e => match e with | .hook .. => true | .blocked _ => true | _ => false))
      let tags := (if interleaved then " nt" else "") ++ s!" b={kind}{if nBlocked > 0 then "-blocked" else ""}{if nHits > 0 then "-hit" else ""}"
      match st.viol with
      | some why => s!"VIOL {why}"
      | none =>
        match replay (replayProgs svc) svc fine st.issued rounds 0 [{ s := finit, g := if kind = "M" then some finit else none }] with
        | some why => s!"DIFF model-rejects-trace {why}"
        | none => s!"OK{tags}"
  | _, _ => "BAD c11 line"

end GB.C11
