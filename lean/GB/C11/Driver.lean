import GB.Base.Proto
namespace GB.C11
open GB GB.Proto

/-- stub: replaced when the C11 slice is built -/
def handle : Handler := fun _ _ => "BAD c11 unimplemented"

end GB.C11
