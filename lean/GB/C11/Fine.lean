import GB.C11.Model
/-
  C11 (round 5) — the FINE LTS: the per-service loops of ServiceRouter.updateRoutes (add loop: one
  LoadOrStore / Store / recordClaim per listed service; delete loop: one release per outdated service) and
  ServiceRouter.removeTarget (one release per owned service) are executed ONE SERVICE KEY PER STEP.

  Construction: a fine state is a coarse state `base` (in which the looping thread still stands in front of
  its loop statement `sAdd | sDel | sRemove`) plus the loop progress (`done`, `todo`). What the other threads
  can see of the half-done loop — the `view` — is computed by running the loop body over the keys `done`.
  The loop steps are  enter (evaluate the range expression) ; one step per key ; exit  (the coarse statement
  on `base`, which by `addLoop_eq_coarse` / `relLoop` is exactly the view after the last key plus the
  bookkeeping that follows the loop). Steps of other threads are coarse steps on `base`; a `routes.Load` of
  another thread reads the VIEW (recorded in `obs`) — this is the only thing a lookup can observe of the loop.
  Core-only Lean (the driver replays real traces, parked inside the loops, through `fstep`).
-/
namespace GB.C11

/-- state threaded through the add loop of updateRoutes -/
structure AddSt where
  r : Svc → Option Entry
  w : Svc → List Entry
  pres : List Svc

/-- ONE iteration of the add loop: `LoadOrStore`; on a conflict `recordClaim`; on the same owner `Store` -/
def addOne (storeSame : Bool) (e : Entry) (q : AddSt) (k : Svc) : AddSt :=
  match q.r k with
  | none => { q with r := upd q.r k (some e), pres := q.pres ++ [k] }
  | some old =>
    if old.desc.name = e.desc.name then
      { q with r := if storeSame then upd q.r k (some e) else q.r, pres := q.pres ++ [k] }
    else { q with w := upd q.w k (recordClaim (q.w k) e) }

def addLoop (storeSame : Bool) (e : Entry) : List Svc → AddSt → AddSt
  | [], q => q
  | k :: ks, q => addLoop storeSame e ks (addOne storeSame e q k)

inductive LoopKind
  | add | del | rem
deriving DecidableEq, Repr, Inhabited

def loopKind? : Instr → Option LoopKind
  | .sAdd => some .add
  | .sDel => some .del
  | .sRemove => some .rem
  | _ => none

def LoopKind.instr : LoopKind → Instr
  | .add => .sAdd
  | .del => .sDel
  | .rem => .sRemove

structure Loop where
  t : Tid
  kind : LoopKind
  done : List Svc := []
  todo : List Svc := []
deriving Repr, Inhabited

structure FState where
  base : State
  loop : Option Loop := none
  /-- what the `routes.Load` of each service lookup returned (it reads the view) -/
  obs : List (Tid × Res) := []
deriving Inhabited

/-- the waiting map after the dropClaim pass that precedes the release loop of updateRoutes -/
def delWaiting (s : State) (th : Thread) : Svc → List Entry :=
  fun k => if th.desc.svcs.contains k then s.waiting k else dropClaim (s.waiting k) th.desc.name

/-- the range expressions of the three loops -/
def loopKeys (s : State) (th : Thread) : LoopKind → Option (List Svc)
  | .add => some th.desc.svcs
  | .del => some ((s.svcRoutes th.desc.name).filter (fun k => !th.present.contains k))
  | .rem => match s.watchers th.w with
    | some wt => some (s.svcRoutes wt.name)
    | none => none

/-- the router state after the loop body has run for the keys `L.done` -/
def viewOf (storeSame : Bool) (s : State) (th : Thread) (L : Loop) : State :=
  match L.kind with
  | .add =>
    let q := addLoop storeSame ⟨th.w, th.desc⟩ L.done ⟨s.routes, s.waiting, []⟩
    { s with routes := q.r, waiting := q.w }
  | .del =>
    let q := relLoop L.done ⟨s.routes, delWaiting s th, s.svcRoutes⟩
    { s with routes := q.r, waiting := q.w, svcRoutes := q.v }
  | .rem =>
    let q := relLoop L.done ⟨s.routes, s.waiting, s.svcRoutes⟩
    { s with routes := q.r, waiting := q.w, svcRoutes := q.v }

def FState.view (storeSame : Bool) (fs : FState) : State :=
  match fs.loop with
  | none => fs.base
  | some L =>
    match fs.base.threads L.t with
    | some th => viewOf storeSame fs.base th L
    | none => fs.base

def loadRes (r : Svc → Option Entry) (k : Svc) : Res :=
  match r k with
  | some e => .hit e
  | none => .miss

/-- One step of the fine LTS. Labels are those of the coarse LTS; `tau t` of a thread standing at a loop
    statement performs enter / one key / exit. While a loop is in progress no other thread can execute a loop
    statement (it would need the table mutex the looping thread holds — `fine_guard_vacuous`). -/
def fstep (P : Progs) (fs : FState) : Label → Option FState
  | .spawn t op => (step P fs.base (.spawn t op)).map (fun b => { fs with base := b })
  | .tau u =>
    match fs.base.threads u with
    | none => none
    | some th =>
      match th.code with
      | [] => none
      | i :: _ =>
        let lk : Option LoopKind := if th.skip then none else loopKind? i
        match fs.loop with
        | some L =>
          if u = L.t then
            match L.todo with
            | k :: ks => some { fs with loop := some { L with done := L.done ++ [k], todo := ks } }
            | [] => (step P fs.base (.tau u)).map (fun b => { fs with base := b, loop := none })
          else if lk.isSome then none
          else
            match step P fs.base (.tau u) with
            | none => none
            | some b =>
              if i = .sLoad ∧ th.skip = false then
                some { fs with base := b, obs := (u, loadRes (fs.view P.storeSame).routes th.key) :: fs.obs.filter (·.1 ≠ u) }
              else some { fs with base := b }
        | none =>
          match lk with
          | some kind =>
            (loopKeys fs.base th kind).map (fun ks => { fs with loop := some { t := u, kind := kind, todo := ks } })
          | none =>
            match step P fs.base (.tau u) with
            | none => none
            | some b =>
              if i = .sLoad ∧ th.skip = false then
                some { fs with base := b, obs := (u, loadRes fs.base.routes th.key) :: fs.obs.filter (·.1 ≠ u) }
              else some { fs with base := b }

def finit : FState := { base := init }

/-- the result of a finished operation in the fine LTS: a service lookup returns what its load observed -/
def FState.resOf (fs : FState) (u : Tid) (th : Thread) : Res :=
  match th.op with
  | .lookupS _ => (fs.obs.lookup u).getD th.res
  | _ => th.res

end GB.C11
