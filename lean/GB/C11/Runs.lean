import GB.C11.Inv2
/-
  C11 — run-level statements (round 5): the per-step preservation theorems lifted to ALL states visited by a
  run of the LTS (not only its end state), and the "code is a suffix of the operation's program" invariant
  that turns statement-level side conditions into operation-level ones for the programs of the code as it is.
-/
set_option linter.unusedSimpArgs false
set_option linter.unusedVariables false
namespace GB.C11
open GB.LTS

/-- the side condition `C` holds at every step the run takes (state before the step, label) -/
def RunAll {σ ℓ : Type} (C : σ → ℓ → Prop) (step : Step σ ℓ) : σ → List ℓ → Prop
  | _, [] => True
  | s, l :: ls => C s l ∧ ∀ s', step s l = some s' → RunAll C step s' ls

/-- An invariant relative to a side condition holds in EVERY state the run visits: for every split
    `ls = pre ++ post` the state after `pre` satisfies `J`. -/
theorem run_all_states {σ ℓ : Type} (step : Step σ ℓ) (C : σ → ℓ → Prop) (J : σ → Prop)
    (hstep : ∀ x l x', J x → C x l → step x l = some x' → J x') :
    ∀ (ls : List ℓ) (s : σ), J s → RunAll C step s ls →
      ∀ pre post, ls = pre ++ post → ∀ x, run step s pre = some x → J x := by
  intro ls
  induction ls with
  | nil =>
    intro s hJ _ pre post he x hx
    have : pre = [] := by
      cases pre with
      | nil => rfl
      | cons a b => cases he
    subst this
    simp [run] at hx; exact hx ▸ hJ
  | cons l ls ih =>
    intro s hJ hall pre post he x hx
    cases pre with
    | nil => simp [run] at hx; exact hx ▸ hJ
    | cons a b =>
      simp only [List.cons_append, List.cons.injEq] at he
      obtain ⟨rfl, he⟩ := he
      simp only [run] at hx
      cases hs : step s l with
      | none => simp [hs] at hx
      | some s1 =>
        rw [hs] at hx
        exact ih s1 (hstep s l s1 hJ hall.1 hs) (hall.2 s1 hs) b post he x hx

/-- weaken the side condition along a run, using a step-closed predicate `R` of the visited states -/
theorem RunAll.mono {σ ℓ : Type} {step : Step σ ℓ} {C C' : σ → ℓ → Prop} (R : σ → Prop)
    (hR : ∀ x l x', R x → step x l = some x' → R x') (himp : ∀ x l, R x → C x l → C' x l) :
    ∀ (ls : List ℓ) (s : σ), R s → RunAll C step s ls → RunAll C' step s ls := by
  intro ls
  induction ls with
  | nil => intro s _ _; trivial
  | cons l ls ih =>
    intro s hs h
    exact ⟨himp s l hs h.1, fun s' hst => ih s' (hR s l s' hs hst) (h.2 s' hst)⟩

/-- executable form of `RunAll` for decidable side conditions (used for the non-vacuity examples) -/
def runAllb {σ ℓ : Type} (c : σ → ℓ → Bool) (step : Step σ ℓ) : σ → List ℓ → Bool
  | _, [] => true
  | s, l :: ls => c s l && (match step s l with
    | some s' => runAllb c step s' ls
    | none => true)

theorem runAllb_sound {σ ℓ : Type} {c : σ → ℓ → Bool} {C : σ → ℓ → Prop} {step : Step σ ℓ}
    (hc : ∀ s l, c s l = true → C s l) : ∀ (ls : List ℓ) (s : σ), runAllb c step s ls = true → RunAll C step s ls := by
  intro ls
  induction ls with
  | nil => intro s _; trivial
  | cons l ls ih =>
    intro s h
    simp only [runAllb, Bool.and_eq_true] at h
    refine ⟨hc s l h.1, ?_⟩
    intro s' hs
    rw [hs] at h
    exact ih s' h.2

/-- a run from a reachable state stays among the reachable states, prefix by prefix -/
theorem run_prefix_reachable {σ ℓ : Type} (step : Step σ ℓ) (init s : σ) (h0 : Reachable step init s)
    (pre : List ℓ) (x : σ) (hx : run step s pre = some x) : Reachable step init x :=
  run_reachable step init s pre h0 hx

/-! ### statement summaries not needed before -/

theorem step_mtab_remove {P : Progs} {s s' : State} {t : Tid} {th : Thread} {rest : List Instr}
    (ht : s.threads t = some th) (hc : th.code = .pRemove :: rest) (hsk : th.skip = false)
    (hs : step P s (.tau t) = some s') :
    ∃ wt, s.watchers th.w = some wt ∧ s'.mtab = tblRemove wt.name s.mtab := by
  obtain ⟨op, code, skip, a, snap, cr, pres, res⟩ := th
  simp only at hc hsk; subst hc; subst hsk
  simp only [step, ht] at hs
  unfold exec at hs
  simp only [Bool.false_eq_true, if_false] at hs
  split at hs
  · cases hs; exact ⟨_, ‹_›, rfl⟩
  · cases hs

/-- the ghost set of returned Closes only grows -/
theorem step_closeRet {P : Progs} {s s' : State} {l : Label} (hs : step P s l = some s') :
    ∀ w ∈ s.closeRet, w ∈ s'.closeRet := by
  cases l with
  | spawn t op =>
    simp only [step] at hs
    split at hs
    · cases hs; intro w hw; exact hw
    · cases hs
  | tau t =>
    cases hth : s.threads t with
    | none => simp [step, hth] at hs
    | some th =>
      cases hcode : th.code with
      | nil => simp [step, hth, hcode] at hs
      | cons i rest =>
        obtain ⟨op, code, skip, a, snap, cr, pres, res⟩ := th
        simp only at hcode; subst hcode
        simp only [step, hth] at hs
        unfold exec at hs
        cases skip
        · simp only [Bool.false_eq_true, if_false] at hs
          cases i <;> simp only at hs <;> (repeat' split at hs) <;>
            first
            | (cases hs; done)
            | (cases hs; intro w hw; exact hw)
            | (cases hs; intro w hw; exact List.mem_cons_of_mem _ hw)
        · simp only [if_true] at hs
          cases i <;> simp only at hs <;> (repeat' split at hs) <;>
            first
            | (cases hs; done)
            | (cases hs; intro w hw; exact hw)

theorem run_closeRet {P : Progs} : ∀ (ls : List Label) (s s' : State), run (step P) s ls = some s' →
    ∀ w ∈ s.closeRet, w ∈ s'.closeRet := by
  intro ls
  induction ls with
  | nil => intro s s' h w hw; simp [run] at h; exact h ▸ hw
  | cons l ls ih =>
    intro s s' h w hw
    simp only [run] at h
    cases hs : step P s l with
    | none => simp [hs] at h
    | some s1 => rw [hs] at h; exact ih s1 s' h w (step_closeRet hs w hw)

/-! ### pattern side: target `n` keeps providing service `k` -/

/-- some entry of target `n` in the table lists service `k` -/
def GoodN (n : Name) (k : Svc) (m : List Entry) : Prop := ∃ e ∈ m, e.desc.name = n ∧ k ∈ e.desc.svcs

theorem tblAdd_goodN {n : Name} {k : Svc} {m : List Entry} (x : Entry) (h : GoodN n k m)
    (hx : x.desc.name = n → k ∈ x.desc.svcs) : GoodN n k (tblAdd x m) := by
  obtain ⟨e, he, hn, hk⟩ := h
  unfold tblAdd
  by_cases hxn : x.desc.name = n
  · have hkx := hx hxn
    have hne : ¬ x.desc.svcs = [] := by intro h0; rw [h0] at hkx; cases hkx
    simp only [hne, if_false]
    have hany : m.any (fun y => decide (y.desc.name = x.desc.name)) = true :=
      List.any_eq_true.2 ⟨e, he, by simp [hn, hxn]⟩
    simp only [hany, if_true]
    exact ⟨x, List.mem_map.2 ⟨e, he, by simp [hn, hxn]⟩, hxn, hkx⟩
  · have hen : e.desc.name ≠ x.desc.name := by intro h0; exact hxn (h0 ▸ hn)
    split
    · exact ⟨e, List.mem_filter.2 ⟨he, by simpa using hen⟩, hn, hk⟩
    · split
      · exact ⟨e, List.mem_map.2 ⟨e, he, by simp [hen]⟩, hn, hk⟩
      · exact ⟨e, List.mem_append_left _ he, hn, hk⟩

theorem tblRemove_goodN {n n' : Name} {k : Svc} {m : List Entry} (h : GoodN n k m) (hne : n' ≠ n) :
    GoodN n k (tblRemove n' m) := by
  obtain ⟨e, he, hn, hk⟩ := h
  exact ⟨e, List.mem_filter.2 ⟨he, by simp [hn]; exact fun h0 => hne h0.symm⟩, hn, hk⟩

/-- statement-level side condition of the pattern run theorem: `removeTarget` is executed by no watcher of
    target `n`, and every `addTarget` for a description of target `n` lists `k` -/
def PatStepOK (n : Name) (k : Svc) (x : State) : Label → Prop
  | .spawn _ _ => True
  | .tau t => ∀ th, x.threads t = some th → th.skip = false →
      (th.code.head? = some .pRemove → nameOf x th.w ≠ some n) ∧
      (th.code.head? = some .pAdd → th.desc.name = n → k ∈ th.desc.svcs)

theorem pat_goodN_step {P : Progs} {n : Name} {k : Svc} {x x' : State} {l : Label}
    (hJ : GoodN n k x.static ∧ GoodN n k x.mtab) (hC : PatStepOK n k x l) (hs : step P x l = some x') :
    GoodN n k x'.static ∧ GoodN n k x'.mtab := by
  cases l with
  | spawn t op =>
    simp only [step] at hs
    split at hs
    · cases hs; exact hJ
    · cases hs
  | tau t =>
    cases hth : x.threads t with
    | none => simp [step, hth] at hs
    | some th =>
      cases hcode : th.code with
      | nil => simp [step, hth, hcode] at hs
      | cons i rest =>
        refine ⟨?_, ?_⟩
        · rcases step_static hth hcode hs with ⟨h1, _⟩ | ⟨_, _, h1⟩
          · rw [h1]; exact hJ.1
          · rw [h1]; exact hJ.2
        · rcases step_mtab hth hcode hs with ⟨h1, _⟩ | ⟨rfl, hsk, h1⟩ | ⟨rfl, hsk⟩
          · rw [h1]; exact hJ.2
          · rw [h1]
            exact tblAdd_goodN _ hJ.2 ((hC th hth hsk).2 (by simp [hcode]))
          · obtain ⟨wt, hwt, h1⟩ := step_mtab_remove hth hcode hsk hs
            rw [h1]
            refine tblRemove_goodN hJ.2 ?_
            intro h0
            exact (hC th hth hsk).1 (by simp [hcode]) (by simp [nameOf, hwt, h0])

/-! ### service side -/

/-- statement-level side condition of the service run theorem: `removeTarget` is executed by no watcher of
    target `n`, and every delete phase of an `updateRoutes` for target `n` has a description listing `k` -/
def SvcStepOK (n : Name) (k : Svc) (x : State) : Label → Prop
  | .spawn _ _ => True
  | .tau t => ∀ th, x.threads t = some th →
      (th.code.head? = some .sRemove → nameOf x th.w ≠ some n) ∧
      (th.code.head? = some .sDel → th.desc.name = n → k ∈ th.desc.svcs)

/-! ### the code of a thread is a suffix of its operation's program -/

def CodeOf (P : Progs) (s : State) : Prop :=
  ∀ t th, s.threads t = some th → ∃ pre, P.of th.op = pre ++ th.code

theorem codeOf_reachable (P : Progs) (s : State) (h : Reachable (step P) init s) : CodeOf P s := by
  induction h with
  | init => intro t th h0; simp [init] at h0
  | @step s s' l _ hs ih =>
    cases l with
    | spawn t op =>
      simp only [step] at hs
      split at hs
      · cases hs
        intro t0 th0 h0
        rcases upd_some_cases h0 with ⟨rfl, rfl⟩ | ⟨ne, h0'⟩
        · exact ⟨[], rfl⟩
        · exact ih t0 th0 h0'
      · cases hs
    | tau t =>
      cases hth : s.threads t with
      | none => simp [step, hth] at hs
      | some th =>
        cases hcode : th.code with
        | nil => simp [step, hth, hcode] at hs
        | cons i rest =>
          obtain ⟨th', h1, h2, h3, _⟩ := step_thread hth hcode hs
          intro t0 th0 h0
          rw [h1] at h0
          rcases upd_some_cases h0 with ⟨rfl, rfl⟩ | ⟨ne, h0'⟩
          · obtain ⟨pre, hp⟩ := ih t0 th hth
            exact ⟨pre ++ [i], by rw [h2, h3, hp, hcode]; simp⟩
          · exact ih t0 th0 h0'

theorem head_mem_prog {P : Progs} {s : State} (h : CodeOf P s) {t : Tid} {th : Thread}
    (ht : s.threads t = some th) {i : Instr} (hh : th.code.head? = some i) : i ∈ P.of th.op := by
  obtain ⟨pre, hp⟩ := h t th ht
  rw [hp]
  cases hc : th.code with
  | nil => simp [hc] at hh
  | cons j r => simp [hc] at hh; subst hh; simp

/-! ### watcher names are stable; published entries carry their owner's name -/

theorem nameOf_step_mono {P : Progs} {s s' : State} {l : Label} (hinv : Inv P s) (hs : step P s l = some s')
    (w : Wid) (n : Name) (h : nameOf s w = some n) : nameOf s' w = some n := by
  cases l with
  | spawn t op =>
    simp only [step] at hs
    split at hs
    · cases hs; exact h
    · cases hs
  | tau t =>
    cases hth : s.threads t with
    | none => simp [step, hth] at hs
    | some th =>
      cases hcode : th.code with
      | nil => simp [step, hth, hcode] at hs
      | cons i rest =>
        rcases step_wset hth hcode hs with ⟨_, x, _⟩ | ⟨_, _, _, _, x⟩ | ⟨_, _, _, _, _, x⟩
        · rw [x w]; exact h
        · rw [x w]
          have hfr := hinv.fresh s.nextW (Nat.le_refl _)
          have : w ≠ s.nextW := by
            intro e; rw [e] at h; simp [nameOf, hfr] at h
          simp [this]; exact h
        · rw [x w]; exact h

/-- every entry of the published snapshot carries the name of the watcher that installed it -/
theorem ownS_reachable {P : Progs} (hP : P.wf = true) (s : State) (h : Reachable (step P) init s) :
    ∀ e ∈ s.static, nameOf s e.owner = some e.desc.name := by
  induction h with
  | init => intro e he; simp [init] at he
  | @step s s' l hr hs ih =>
    have hinv := (inv2_reachable hP s hr).1
    intro e he
    have hst : s'.static = s.static ∨ s'.static = s.mtab := by
      cases l with
      | spawn t op =>
        simp only [step] at hs
        split at hs
        · cases hs; left; rfl
        · cases hs
      | tau t =>
        cases hth : s.threads t with
        | none => simp [step, hth] at hs
        | some th =>
          cases hcode : th.code with
          | nil => simp [step, hth, hcode] at hs
          | cons i rest =>
            rcases step_static hth hcode hs with ⟨h1, _⟩ | ⟨_, _, h1⟩
            · left; exact h1
            · right; exact h1
    rcases hst with h1 | h1
    · rw [h1] at he; exact nameOf_step_mono hinv hs _ _ (ih e he)
    · rw [h1] at he; exact nameOf_step_mono hinv hs _ _ (hinv.ownM e he)

/-- Close of every watcher ever created for target `n` has returned -/
def AllClosed (s : State) (n : Name) : Prop := ∀ w, nameOf s w = some n → w ∈ s.closeRet

/-- side condition: no `watcherSet.Add` for the name `n` is executed (no re-Watch of `n`) -/
def NoWatchOf (n : Name) (x : State) : Label → Prop
  | .spawn _ _ => True
  | .tau t => ∀ th, x.threads t = some th → th.skip = false → th.code.head? = some .setAdd → th.key ≠ n

theorem allClosed_step {P : Progs} {n : Name} {s s' : State} {l : Label}
    (h : AllClosed s n) (hC : NoWatchOf n s l) (hs : step P s l = some s') : AllClosed s' n := by
  intro w hw
  have keep : nameOf s w = some n → w ∈ s'.closeRet := fun h0 => step_closeRet hs w (h w h0)
  cases l with
  | spawn t op =>
    simp only [step] at hs
    split at hs
    · cases hs; exact h w hw
    · cases hs
  | tau t =>
    cases hth : s.threads t with
    | none => simp [step, hth] at hs
    | some th =>
      cases hcode : th.code with
      | nil => simp [step, hth, hcode] at hs
      | cons i rest =>
        rcases step_wset hth hcode hs with ⟨_, x, _⟩ | ⟨rfl, hsk, _, _, x⟩ | ⟨_, _, _, _, _, x⟩
        · exact keep (x w ▸ hw)
        · rw [x w] at hw
          by_cases e : w = s.nextW
          · simp only [e, if_true, Option.some.injEq] at hw
            exact absurd hw (hC th hth hsk (by simp [hcode]))
          · simp only [e, if_false] at hw; exact keep hw
        · exact keep (x w ▸ hw)

end GB.C11
