/-
  C11 — model of the concurrent behaviour of the two routers (routing/pattern_router.go,
  routing/service_router.go): an LTS with any number of threads, each executing one router
  operation statement by statement.

  * The *programs* (which statements run in which order, which sit inside which critical section)
    are DATA (`Progs`): the extractor regenerates them from the sources (`GB.Generated.c11*`) and the
    theorems of Props.lean are proved for every `Progs` accepted by the small lock-discipline checker
    `wfCode` below; `decide` shows that the regenerated programs are accepted.  The pre-fix programs
    (no per-watcher mutex) are rejected by the checker and have a kernel-checked resurrecting run.
  * Table entries carry the ghost id of the watcher that installed them and the whole description
    they were built from (so "data from ONE description" is a statement about one `Entry`).
  * Pattern table: `mtab` = the mutable linked-list state of mutablePatternRoutingTable (one HTTP
    method; one element per target in insertion order), `static` = the published immutable snapshot.
    Service table: `routes` = the sync.Map (one key per service), `svcRoutes` = per-target key lists.
  * A thread carries ghost control flags `A` which `exec` updates with the same function `A.step`
    the checker uses; they only record facts such as "holds the watcher mutex".
  Core-only Lean (the driver is a compiled executable).
-/
namespace GB.C11

abbrev Name := Nat
abbrev Wid := Nat
abbrev Tid := Nat
abbrev Svc := Nat

structure Desc where
  name : Name
  ver : Nat
  svcs : List Svc
deriving DecidableEq, Repr, Inhabited

/-- one routing entry: ghost owner (the watcher whose UpdateDesc installed it) + its description -/
structure Entry where
  owner : Wid
  desc : Desc
deriving DecidableEq, Repr, Inhabited

inductive Instr
  | lockW | unlockW        -- per-watcher mutex (the D11 fix)
  | loadClosed             -- UpdateDesc: `if w.closed.Load() { return }`
  | casClosed              -- Close: `closed.CompareAndSwap(false, true)` (panics when already closed)
  | nameCheck              -- UpdateDesc: `if desc.Name != w.target { return }`
  | hook (n : Nat)         -- verifhook.Point (no effect; scheduler park point)
  | lockT | unlockT        -- table mutex (mt.mu / sr.mu)
  | pAdd | pRemove | pStore  -- pattern table: mutate for add / for remove / `static.Store(commit())`
  | sAdd | sDel | sRemove    -- service table: LoadOrStore phase / delete-outdated phase / removeTarget body
  | setAdd | setRemove     -- watcherSet.Add (Watch) / watcherSet.Remove (Close)
  | pLoad | pIter          -- pattern lookup: `static.Load()` / iterate over the loaded snapshot
  | sLoad                  -- service lookup: `routes.Load(svc)`
  | ret
deriving DecidableEq, Repr, Inhabited

/-- ghost control flags of one thread -/
structure A where
  hw : Bool := false   -- holds the watcher mutex
  ht : Bool := false   -- holds the table mutex
  chk : Bool := false  -- UpdateDesc: closed check passed while holding the watcher mutex
  cl : Bool := false   -- Close: flipped the closed flag
  nc : Bool := false   -- name check passed
  rm : Bool := false   -- Close: removed the target from the mutable pattern table
  rs : Bool := false   -- Close: removed the target from the published pattern snapshot
  rr : Bool := false   -- Close: removed the target's keys from the service map
  mid : Bool := false  -- service update: between the add phase and the delete phase
  sr : Bool := false   -- Close: executed watcherSet.Remove
  pa : Bool := false   -- pattern update: mutable table changed by addTarget, not yet published
  pr : Bool := false   -- pattern Close: mutable table changed by removeTarget, not yet published
deriving DecidableEq, Repr, Inhabited

/-- what a Close must have done before it may release the watcher mutex / return -/
def A.cleaned (svc : Bool) (a : A) : Bool := !a.cl || ((if svc then a.rr else a.rm && a.rs) && a.sr)

/-- the Close has removed the target from the tables of its router -/
def A.tablesClean (svc : Bool) (a : A) : Bool := if svc then a.rr else a.rm && a.rs

/-- no half-done table change is pending (an early return here would leave the tables inconsistent) -/
def A.quiet (a : A) : Bool := !a.mid && !a.pa && !a.pr

/-- Effect of one statement on the control flags; `none` = the lock discipline the theorems rely on
    is broken at this statement. `svc` = the programs are those of the service router. -/
def A.step (svc : Bool) (a : A) : Instr → Option A
  | .lockW => if a.hw || a.ht then none else some { a with hw := true }
  | .unlockW => if a.hw && !a.ht && a.cleaned svc then some { a with hw := false, chk := false } else none
  | .loadClosed => if a.hw && a.quiet then some { a with chk := true } else none
  | .casClosed => if a.hw && a.quiet then some { a with cl := true, chk := false, rm := false, rs := false, rr := false } else none
  | .nameCheck => if a.quiet then some { a with nc := true } else none
  | .hook _ => some a
  | .lockT => if a.ht then none else some { a with ht := true }
  | .unlockT => if a.ht && a.quiet then some { a with ht := false } else none
  | .pAdd => if a.hw && a.ht && a.chk && a.nc && !svc && !a.pa && !a.pr then some { a with pa := true } else none
  | .pRemove => if a.ht && a.cl && !a.pa && !a.pr then some { a with rm := true, pr := true } else none
  | .pStore => if a.ht then some { a with rs := a.rm, pa := false, pr := false } else none
  | .sAdd => if a.hw && a.ht && a.chk && a.nc && svc && !a.mid then some { a with mid := true } else none
  | .sDel => if a.ht && a.mid then some { a with mid := false } else none
  | .sRemove => if a.ht && !a.mid then some { a with rr := true } else none
  | .setAdd => some a
  | .setRemove => if a.cl && !a.sr && a.tablesClean svc then some { a with sr := true } else none
  | .pLoad => some a
  | .pIter => some a
  | .sLoad => some a
  | .ret => if !a.hw && !a.ht && a.cleaned svc then some a else none

/-- the lock-discipline checker: the flags stay defined along the whole straight-line program -/
def wfCode (svc : Bool) : A → List Instr → Bool
  | _, [] => true
  | a, i :: r => match a.step svc i with
    | none => false
    | some a' => wfCode svc a' r

inductive Op
  | update (w : Wid) (d : Desc)
  | close (w : Wid)
  | watch (n : Name)
  | lookupP (k : Svc)
  | lookupS (k : Svc)
deriving DecidableEq, Repr, Inhabited

inductive Res
  | pending | ok | watched (w : Wid) | watchFail | miss | hit (e : Entry)
deriving DecidableEq, Repr, Inhabited

structure Progs where
  update : List Instr
  close : List Instr
  watch : List Instr
  lookupP : List Instr
  lookupS : List Instr
  /-- ServiceRouter.updateRoutes re-stores a route whose key the same target already owns
      (false = `LoadOrStore` keeps the old value, the code as it is now) -/
  storeSame : Bool := false
  /-- these are the programs of the service router (only its table is used) -/
  svc : Bool := false
deriving DecidableEq, Repr

def Progs.wf (P : Progs) : Bool :=
  wfCode P.svc {} P.update && wfCode P.svc {} P.close && wfCode P.svc {} P.watch &&
  wfCode P.svc {} P.lookupP && wfCode P.svc {} P.lookupS

def Progs.of (P : Progs) : Op → List Instr
  | .update _ _ => P.update
  | .close _ => P.close
  | .watch _ => P.watch
  | .lookupP _ => P.lookupP
  | .lookupS _ => P.lookupS

structure Watcher where
  name : Name
  closed : Bool := false
  mu : Option Tid := none
deriving Repr, Inhabited

structure Thread where
  op : Op
  code : List Instr
  skip : Bool := false         -- an early `return`/panic happened: only deferred unlocks still run
  a : A := {}
  snap : List Entry := []      -- pattern lookup: the loaded snapshot
  crAtLoad : List Wid := []    -- ghost: watchers whose Close had returned when the lookup loaded
  present : List Svc := []     -- service update: newSvcRoutes / presentSvcRoutes
  res : Res := .pending
deriving Repr, Inhabited

def Thread.w (th : Thread) : Wid :=
  match th.op with
  | .update w _ => w
  | .close w => w
  | _ => 0

def Thread.desc (th : Thread) : Desc :=
  match th.op with
  | .update _ d => d
  | _ => default

def Thread.key (th : Thread) : Nat :=
  match th.op with
  | .watch n => n
  | .lookupP k => k
  | .lookupS k => k
  | _ => 0

structure State where
  watchers : Wid → Option Watcher := fun _ => none
  nextW : Wid := 0
  wset : List Name := []
  tmu : Option Tid := none
  mtab : List Entry := []
  static : List Entry := []
  routes : Svc → Option Entry := fun _ => none
  svcRoutes : Name → List Svc := fun _ => []
  waiting : Svc → List Entry := fun _ => []   -- service: claims of targets listing a service routed to another target (fix D31)
  threads : Tid → Option Thread := fun _ => none
  closeRet : List Wid := []      -- ghost: watchers whose Close has returned
deriving Inhabited

def upd {α : Type} (f : Nat → α) (k : Nat) (v : α) : Nat → α := fun i => if i = k then v else f i

/-- mutablePatternRoutingTable.addTarget restricted to one HTTP method: a target without routes
    loses its list element, an existing element is updated in place, a new one is pushed back. -/
def tblAdd (e : Entry) (m : List Entry) : List Entry :=
  if e.desc.svcs = [] then m.filter (fun x => x.desc.name ≠ e.desc.name)
  else if m.any (fun x => x.desc.name = e.desc.name) then
    m.map (fun x => if x.desc.name = e.desc.name then e else x)
  else m ++ [e]

def tblRemove (n : Name) (m : List Entry) : List Entry := m.filter (fun x => x.desc.name ≠ n)

/-- staticPatternRoutingTable.iterate + the matching callback for the path `/<svc k>/M`:
    the first route of the first target (list order) that has service `k`. -/
def tblFind (k : Svc) (m : List Entry) : Option Entry := m.find? (fun x => x.desc.svcs.contains k)

/-- the add phase of ServiceRouter.updateRoutes: `LoadOrStore` per listed service; a key owned by a
    target of another name is a conflict and is skipped. Returns the new map and the present list.
    `storeSame` = the code re-stores the route when the key is already owned by the same target. -/
def svcAdd (storeSame : Bool) (e : Entry) : List Svc → (Svc → Option Entry) → List Svc → (Svc → Option Entry) × List Svc
  | [], r, pres => (r, pres)
  | k :: ks, r, pres =>
    match r k with
    | none => svcAdd storeSame e ks (upd r k (some e)) (pres ++ [k])
    | some old =>
      if old.desc.name = e.desc.name then
        svcAdd storeSame e ks (if storeSame then upd r k (some e) else r) (pres ++ [k])
      else svcAdd storeSame e ks r pres

/-- `recordClaim`: replace the claim of the same target in place, else append (claim order is kept) -/
def recordClaim : List Entry → Entry → List Entry
  | [], new => [new]
  | c :: cs, new => if c.desc.name = new.desc.name then new :: cs else c :: recordClaim cs new

/-- `dropClaim`: forget the claim of a target -/
def dropClaim : List Entry → Name → List Entry
  | [], _ => []
  | c :: cs, n => if c.desc.name = n then cs else c :: dropClaim cs n

/-- the conflict branch of the add phase: every listed key that is routed to a target of another name
    records / refreshes the updater's claim. The decision only depends on the routes before the phase,
    because the phase itself never touches a key owned by another name. -/
def svcClaim (e : Entry) (r : Svc → Option Entry) : List Svc → (Svc → List Entry) → (Svc → List Entry)
  | [], w => w
  | k :: ks, w =>
    match r k with
    | some old =>
      if old.desc.name = e.desc.name then svcClaim e r ks w
      else svcClaim e r ks (upd w k (recordClaim (w k) e))
    | none => svcClaim e r ks w

/-- state threaded through the release loops -/
structure RelSt where
  r : Svc → Option Entry
  w : Svc → List Entry
  v : Name → List Svc

/-- `release`: hand the service over to the earliest waiting claimant with ONE store, or delete it -/
def release (q : RelSt) (k : Svc) : RelSt :=
  match q.w k with
  | [] => { q with r := upd q.r k none }
  | c :: rest => { r := upd q.r k (some c), w := upd q.w k rest, v := upd q.v c.desc.name (q.v c.desc.name ++ [k]) }

def relLoop : List Svc → RelSt → RelSt
  | [], q => q
  | k :: ks, q => relLoop ks (release q k)

/-- `newSvcRoutes` is duplicate-free (first occurrences, in order) -/
def dedup : List Svc → List Svc
  | [] => []
  | k :: ks => k :: (dedup ks).filter (fun x => x ≠ k)

def svcDelete : List Svc → (Svc → Option Entry) → (Svc → Option Entry)
  | [], r => r
  | k :: ks, r => svcDelete ks (upd r k none)

def setThread (s : State) (t : Tid) (th : Thread) : State := { s with threads := upd s.threads t th }

/-- Execute statement `i` of thread `t`; `th` is the thread record with `code` already advanced.
    `none` = the statement is not enabled (mutex held by someone else). -/
def exec (svc storeSame : Bool) (s : State) (t : Tid) (th : Thread) (i : Instr) : Option State :=
  if th.skip then
    -- after an early return / panic only the deferred unlocks have an effect
    match i with
    | .unlockW =>
      if th.a.hw then
        match s.watchers th.w with
        | some wt => some { setThread s t { th with a := { th.a with hw := false, chk := false } } with
                            watchers := upd s.watchers th.w (some { wt with mu := none }) }
        | none => none
      else some (setThread s t th)
    | .unlockT =>
      if th.a.ht then some { setThread s t { th with a := { th.a with ht := false } } with tmu := none }
      else some (setThread s t th)
    | .ret => some (setThread s t { th with res := if th.res = .pending then .ok else th.res })
    | _ => some (setThread s t th)
  else
  let th' := { th with a := (th.a.step svc i).getD th.a }
  match i with
  | .lockW =>
    match s.watchers th.w with
    | some wt =>
      if wt.mu.isNone then some { setThread s t th' with watchers := upd s.watchers th.w (some { wt with mu := some t }) }
      else none
    | none => none
  | .unlockW =>
    if th.a.hw then
      match s.watchers th.w with
      | some wt => some { setThread s t th' with watchers := upd s.watchers th.w (some { wt with mu := none }) }
      | none => none
    else some (setThread s t th')
  | .loadClosed =>
    match s.watchers th.w with
    | some wt =>
      if wt.closed then some (setThread s t { th with skip := true })
      else some (setThread s t th')
    | none => none
  | .casClosed =>
    match s.watchers th.w with
    | some wt =>
      if wt.closed then some (setThread s t { th with skip := true })   -- panic; deferred unlock still runs
      else some { setThread s t th' with watchers := upd s.watchers th.w (some { wt with closed := true }) }
    | none => none
  | .nameCheck =>
    match s.watchers th.w with
    | some wt =>
      if th.desc.name = wt.name then some (setThread s t th')
      else some (setThread s t { th with skip := true })
    | none => none
  | .hook _ => some (setThread s t th')
  | .lockT =>
    if s.tmu.isNone then some { setThread s t th' with tmu := some t }
    else none
  | .unlockT =>
    if th.a.ht then some { setThread s t th' with tmu := none }
    else some (setThread s t th')
  | .pAdd => some { setThread s t th' with mtab := tblAdd ⟨th.w, th.desc⟩ s.mtab }
  | .pRemove =>
    match s.watchers th.w with
    | some wt => some { setThread s t th' with mtab := tblRemove wt.name s.mtab }
    | none => none
  | .pStore => some { setThread s t th' with static := s.mtab }
  | .sAdd =>
    let rp := svcAdd storeSame ⟨th.w, th.desc⟩ th.desc.svcs s.routes []
    some { setThread s t { th' with present := rp.2 } with
           routes := rp.1, waiting := svcClaim ⟨th.w, th.desc⟩ s.routes th.desc.svcs s.waiting }
  | .sDel =>
    -- forget the updater's claims for services it does not list any more, release what it owned and
    -- does not list any more (hand-over or delete), then record its new, duplicate-free key list
    let q := relLoop ((s.svcRoutes th.desc.name).filter (fun k => !th.present.contains k))
      ⟨s.routes, fun k => if th.desc.svcs.contains k then s.waiting k else dropClaim (s.waiting k) th.desc.name, s.svcRoutes⟩
    some { setThread s t th' with
           routes := q.r, waiting := q.w, svcRoutes := upd q.v th.desc.name (dedup th.present) }
  | .sRemove =>
    match s.watchers th.w with
    | some wt =>
      let q := relLoop (s.svcRoutes wt.name) ⟨s.routes, s.waiting, s.svcRoutes⟩
      some { setThread s t th' with
             routes := q.r, svcRoutes := upd q.v wt.name [], waiting := fun k => dropClaim (q.w k) wt.name }
    | none => none
  | .setAdd =>
    if s.wset.contains th.key then some (setThread s t { th' with res := .watchFail })
    else some { setThread s t { th' with res := .watched s.nextW } with
                wset := th.key :: s.wset,
                watchers := upd s.watchers s.nextW (some { name := th.key }),
                nextW := s.nextW + 1 }
  | .setRemove =>
    match s.watchers th.w with
    | some wt => some { setThread s t th' with wset := s.wset.filter (fun n => n ≠ wt.name) }
    | none => none
  | .pLoad => some (setThread s t { th' with snap := s.static, crAtLoad := s.closeRet })
  | .pIter =>
    some (setThread s t { th' with res := match tblFind th.key th.snap with | some e => .hit e | none => .miss })
  | .sLoad =>
    some (setThread s t { th' with crAtLoad := s.closeRet, res := match s.routes th.key with | some e => .hit e | none => .miss })
  | .ret =>
    let th2 := { th' with res := if th.res = .pending then .ok else th.res }
    if th.a.cl then some { setThread s t th2 with closeRet := th.w :: s.closeRet }
    else some (setThread s t th2)

inductive Label
  | spawn (t : Tid) (op : Op)   -- a fresh thread starts an operation
  | tau (t : Tid)               -- thread `t` executes its next statement
deriving DecidableEq, Repr

def opReady (s : State) : Op → Bool
  | .update w _ => (s.watchers w).isSome
  | .close w => (s.watchers w).isSome
  | _ => true

def step (P : Progs) (s : State) : Label → Option State
  | .spawn t op =>
    if (s.threads t).isNone && opReady s op then
      some (setThread s t { op := op, code := P.of op })
    else none
  | .tau t =>
    match s.threads t with
    | none => none
    | some th =>
      match th.code with
      | [] => none
      | i :: rest =>
        exec P.svc P.storeSame s t { th with code := rest } i

def init : State := {}

/-! ### The programs of the code as it is now (fixed lock structure) and before the D11 fix -/

def patternProgs : Progs where
  update := [.lockW, .loadClosed, .nameCheck, .hook 0, .lockT, .pAdd, .pStore, .unlockT, .unlockW, .ret]
  close := [.lockW, .casClosed, .hook 1, .lockT, .pRemove, .pStore, .unlockT, .setRemove, .unlockW, .ret]
  watch := [.setAdd, .ret]
  lookupP := [.pLoad, .hook 3, .pIter, .ret]
  lookupS := [.sLoad, .ret]

def serviceProgs : Progs where
  svc := true
  update := [.lockW, .loadClosed, .nameCheck, .hook 0, .lockT, .sAdd, .hook 2, .sDel, .unlockT, .unlockW, .ret]
  close := [.lockW, .casClosed, .hook 1, .lockT, .sRemove, .unlockT, .setRemove, .unlockW, .ret]
  watch := [.setAdd, .ret]
  lookupP := [.pLoad, .hook 3, .pIter, .ret]
  lookupS := [.sLoad, .ret]

/-- the watchers before the fix: `closed` is read/flipped outside any lock shared by UpdateDesc and Close -/
def patternProgsPreFix : Progs :=
  { patternProgs with
    update := [.loadClosed, .nameCheck, .hook 0, .lockT, .pAdd, .pStore, .unlockT, .ret]
    close := [.casClosed, .hook 1, .lockT, .pRemove, .pStore, .unlockT, .setRemove, .ret] }

def serviceProgsPreFix : Progs :=
  { serviceProgs with
    update := [.loadClosed, .nameCheck, .hook 0, .lockT, .sAdd, .hook 2, .sDel, .unlockT, .ret]
    close := [.casClosed, .hook 1, .lockT, .sRemove, .unlockT, .setRemove, .ret] }

def Instr.tag : Instr → String
  | .lockW => "lockW" | .unlockW => "unlockW" | .loadClosed => "loadClosed" | .casClosed => "casClosed"
  | .nameCheck => "nameCheck" | .hook n => s!"hook{n}" | .lockT => "lockT" | .unlockT => "unlockT"
  | .pAdd => "pAdd" | .pRemove => "pRemove" | .pStore => "pStore" | .sAdd => "sAdd" | .sDel => "sDel"
  | .sRemove => "sRemove" | .setAdd => "setAdd" | .setRemove => "setRemove" | .pLoad => "pLoad"
  | .pIter => "pIter" | .sLoad => "sLoad" | .ret => "ret"

def Instr.ofTag : String → Option Instr
  | "lockW" => some .lockW | "unlockW" => some .unlockW | "loadClosed" => some .loadClosed
  | "casClosed" => some .casClosed | "nameCheck" => some .nameCheck
  | "hook0" => some (.hook 0) | "hook1" => some (.hook 1) | "hook2" => some (.hook 2) | "hook3" => some (.hook 3)
  | "lockT" => some .lockT | "unlockT" => some .unlockT | "pAdd" => some .pAdd | "pRemove" => some .pRemove
  | "pStore" => some .pStore | "sAdd" => some .sAdd | "sDel" => some .sDel | "sRemove" => some .sRemove
  | "setAdd" => some .setAdd | "setRemove" => some .setRemove | "pLoad" => some .pLoad | "pIter" => some .pIter
  | "sLoad" => some .sLoad | "ret" => some .ret
  | _ => none

end GB.C11
