import GB.C11.Step
/-
  C11 — second invariant layer: watcherSet tracking (re-watch), snapshot/table synchronisation and the
  service-map bookkeeping needed for the reachable-state no-gap theorems.
  The effect of one statement on each state component is summarised once (`step_*` lemmas, proved by
  exhaustive case analysis of `exec`), the invariant proof then only distinguishes the few statements
  that touch a component.
-/
set_option linter.unusedSimpArgs false
set_option linter.unusedVariables false
namespace GB.C11

/-- flags after a statement executed in skip mode -/
def skipA (i : Instr) (a : A) : A :=
  match i with
  | .unlockW => if a.hw then { a with hw := false, chk := false } else a
  | .unlockT => if a.ht then { a with ht := false } else a
  | _ => a

theorem step_thread {P : Progs} {s s' : State} {t : Tid} {th : Thread} {i : Instr} {rest : List Instr}
    (ht : s.threads t = some th) (hc : th.code = i :: rest) (hs : step P s (.tau t) = some s') :
    ∃ th', s'.threads = upd s.threads t (some th') ∧ th'.op = th.op ∧ th'.code = rest ∧
      ((th.skip = true ∧ th'.skip = true ∧ th'.a = skipA i th.a ∧ th'.present = th.present) ∨
       (th.skip = false ∧ th'.skip = true ∧ th'.a = th.a ∧ th'.present = th.present ∧
          (i = .loadClosed ∨ i = .casClosed ∨ i = .nameCheck)) ∨
       (th.skip = false ∧ th'.skip = false ∧ th'.a = (th.a.step P.svc i).getD th.a ∧
          (th'.present = th.present ∨ i = .sAdd))) := by
  obtain ⟨op, code, skip, a, snap, cr, pres, res⟩ := th
  simp only at hc; subst hc
  simp only [step, ht] at hs
  unfold exec at hs
  cases skip
  · simp only [Bool.false_eq_true, if_false] at hs
    cases i <;> simp only at hs <;> (repeat' split at hs) <;>
      first
      | (cases hs; done)
      | (cases hs; exact ⟨_, rfl, rfl, rfl, Or.inr (Or.inr ⟨rfl, rfl, rfl, Or.inl rfl⟩)⟩)
      | (cases hs; exact ⟨_, rfl, rfl, rfl, Or.inr (Or.inr ⟨rfl, rfl, rfl, Or.inr rfl⟩)⟩)
      | (cases hs; exact ⟨_, rfl, rfl, rfl, Or.inr (Or.inl ⟨rfl, rfl, rfl, rfl, by simp⟩)⟩)
  · simp only [if_true] at hs
    cases i <;> simp only at hs <;> (repeat' split at hs) <;>
      first
      | (cases hs; done)
      | (cases hs; exact ⟨_, rfl, rfl, rfl, Or.inl ⟨rfl, rfl, by simp [skipA, *], rfl⟩⟩)


theorem step_tmu {P : Progs} {s s' : State} {t : Tid} {th : Thread} {i : Instr} {rest : List Instr}
    (ht : s.threads t = some th) (hc : th.code = i :: rest) (hs : step P s (.tau t) = some s') :
    (s'.tmu = s.tmu ∧ (i = .lockT → th.skip = true) ∧ (i = .unlockT → th.a.ht = false)) ∨
      (i = .lockT ∧ th.skip = false ∧ s.tmu = none ∧ s'.tmu = some t) ∨
      (i = .unlockT ∧ th.a.ht = true ∧ s'.tmu = none) := by
  obtain ⟨op, code, skip, a, snap, cr, pres, res⟩ := th
  simp only at hc; subst hc
  simp only [step, ht] at hs
  unfold exec at hs
  cases skip
  · simp only [Bool.false_eq_true, if_false] at hs
    cases i <;> simp only at hs <;> (repeat' split at hs) <;>
      first
      | (cases hs; done)
      | (cases hs; left; exact ⟨rfl, by simp, by simp_all⟩)
      | (cases hs; right; left; exact ⟨rfl, rfl, by simp_all, rfl⟩)
      | (cases hs; right; right; exact ⟨rfl, ‹_›, rfl⟩)
  · simp only [if_true] at hs
    cases i <;> simp only at hs <;> (repeat' split at hs) <;>
      first
      | (cases hs; done)
      | (cases hs; left; exact ⟨rfl, by simp, by simp_all⟩)
      | (cases hs; right; right; exact ⟨rfl, ‹_›, rfl⟩)

theorem step_mtab {P : Progs} {s s' : State} {t : Tid} {th : Thread} {i : Instr} {rest : List Instr}
    (ht : s.threads t = some th) (hc : th.code = i :: rest) (hs : step P s (.tau t) = some s') :
    (s'.mtab = s.mtab ∧ (i = .pAdd → th.skip = true) ∧ (i = .pRemove → th.skip = true)) ∨
      (i = .pAdd ∧ th.skip = false ∧ s'.mtab = tblAdd ⟨th.w, th.desc⟩ s.mtab) ∨
      (i = .pRemove ∧ th.skip = false) := by
  obtain ⟨op, code, skip, a, snap, cr, pres, res⟩ := th
  simp only at hc; subst hc
  simp only [step, ht] at hs
  unfold exec at hs
  cases skip
  · simp only [Bool.false_eq_true, if_false] at hs
    cases i <;> simp only at hs <;> (repeat' split at hs) <;>
      first
      | (cases hs; done)
      | (cases hs; left; exact ⟨rfl, by simp, by simp⟩)
      | (cases hs; right; left; exact ⟨rfl, rfl, rfl⟩)
      | (cases hs; right; right; exact ⟨rfl, rfl⟩)
  · simp only [if_true] at hs
    cases i <;> simp only at hs <;> (repeat' split at hs) <;>
      first
      | (cases hs; done)
      | (cases hs; left; exact ⟨rfl, by simp, by simp⟩)

theorem step_static {P : Progs} {s s' : State} {t : Tid} {th : Thread} {i : Instr} {rest : List Instr}
    (ht : s.threads t = some th) (hc : th.code = i :: rest) (hs : step P s (.tau t) = some s') :
    (s'.static = s.static ∧ (i = .pStore → th.skip = true)) ∨ (i = .pStore ∧ th.skip = false ∧ s'.static = s.mtab) := by
  obtain ⟨op, code, skip, a, snap, cr, pres, res⟩ := th
  simp only at hc; subst hc
  simp only [step, ht] at hs
  unfold exec at hs
  cases skip
  · simp only [Bool.false_eq_true, if_false] at hs
    cases i <;> simp only at hs <;> (repeat' split at hs) <;>
      first
      | (cases hs; done)
      | (cases hs; left; exact ⟨rfl, by simp⟩)
      | (cases hs; right; exact ⟨rfl, rfl, rfl⟩)
  · simp only [if_true] at hs
    cases i <;> simp only at hs <;> (repeat' split at hs) <;>
      first
      | (cases hs; done)
      | (cases hs; left; exact ⟨rfl, by simp⟩)

theorem step_routes {P : Progs} {s s' : State} {t : Tid} {th : Thread} {i : Instr} {rest : List Instr}
    (ht : s.threads t = some th) (hc : th.code = i :: rest) (hs : step P s (.tau t) = some s') :
    (s'.routes = s.routes ∧ s'.svcRoutes = s.svcRoutes ∧ s'.waiting = s.waiting ∧
      (i = .sAdd ∨ i = .sDel ∨ i = .sRemove → th.skip = true)) ∨
    (i = .sAdd ∧ th.skip = false ∧ s'.svcRoutes = s.svcRoutes ∧
      s'.routes = (svcAdd P.storeSame ⟨th.w, th.desc⟩ th.desc.svcs s.routes []).1 ∧
      s'.waiting = svcClaim ⟨th.w, th.desc⟩ s.routes th.desc.svcs s.waiting ∧
      ∃ th', s'.threads t = some th' ∧ th'.present = (svcAdd P.storeSame ⟨th.w, th.desc⟩ th.desc.svcs s.routes []).2) ∨
    (i = .sDel ∧ th.skip = false ∧
      ∃ q, q = relLoop ((s.svcRoutes th.desc.name).filter (fun k => !th.present.contains k))
          ⟨s.routes, fun k => if th.desc.svcs.contains k then s.waiting k else dropClaim (s.waiting k) th.desc.name, s.svcRoutes⟩ ∧
        s'.routes = q.r ∧ s'.waiting = q.w ∧ s'.svcRoutes = upd q.v th.desc.name (dedup th.present)) ∨
    (i = .sRemove ∧ th.skip = false ∧ ∃ wt q, s.watchers th.w = some wt ∧
      q = relLoop (s.svcRoutes wt.name) ⟨s.routes, s.waiting, s.svcRoutes⟩ ∧
      s'.routes = q.r ∧ s'.svcRoutes = upd q.v wt.name [] ∧ s'.waiting = fun k => dropClaim (q.w k) wt.name) := by
  obtain ⟨op, code, skip, a, snap, cr, pres, res⟩ := th
  simp only at hc; subst hc
  simp only [step, ht] at hs
  unfold exec at hs
  cases skip
  · simp only [Bool.false_eq_true, if_false] at hs
    cases i <;> simp only at hs <;> (repeat' split at hs) <;>
      first
      | (cases hs; done)
      | (cases hs; left; exact ⟨rfl, rfl, rfl, by simp⟩)
      | (cases hs; right; left; exact ⟨rfl, rfl, rfl, rfl, rfl, _, upd_same _ _ _, rfl⟩)
      | (cases hs; right; right; left; exact ⟨rfl, rfl, _, rfl, rfl, rfl, rfl⟩)
      | (cases hs; right; right; right; exact ⟨rfl, rfl, _, _, ‹_›, rfl, rfl, rfl, rfl⟩)
  · simp only [if_true] at hs
    cases i <;> simp only at hs <;> (repeat' split at hs) <;>
      first
      | (cases hs; done)
      | (cases hs; left; exact ⟨rfl, rfl, rfl, by simp⟩)

theorem step_wset {P : Progs} {s s' : State} {t : Tid} {th : Thread} {i : Instr} {rest : List Instr}
    (ht : s.threads t = some th) (hc : th.code = i :: rest) (hs : step P s (.tau t) = some s') :
    (s'.wset = s.wset ∧ (∀ w, nameOf s' w = nameOf s w) ∧ (i = .setRemove → th.skip = true)) ∨
    (i = .setAdd ∧ th.skip = false ∧ th.key ∉ s.wset ∧ s'.wset = th.key :: s.wset ∧
      ∀ w, nameOf s' w = if w = s.nextW then some th.key else nameOf s w) ∨
    (i = .setRemove ∧ th.skip = false ∧ ∃ wt, s.watchers th.w = some wt ∧
      s'.wset = s.wset.filter (fun n => n ≠ wt.name) ∧ ∀ w, nameOf s' w = nameOf s w) := by
  obtain ⟨op, code, skip, a, snap, cr, pres, res⟩ := th
  simp only at hc; subst hc
  simp only [step, ht] at hs
  unfold exec at hs
  cases skip
  · simp only [Bool.false_eq_true, if_false] at hs
    cases i <;> simp only at hs <;> (repeat' split at hs) <;>
      first
      | (cases hs; done)
      | (cases hs; left; exact ⟨rfl, fun _ => rfl, by simp⟩)
      | (cases hs; left; refine ⟨rfl, ?_, by simp⟩; intro w; simp only [nameOf, setThread, upd]; split <;> simp_all)
      | (cases hs; right; left; refine ⟨rfl, rfl, by simp_all [Thread.key], rfl, ?_⟩; intro w; simp only [nameOf, setThread, upd]; split <;> simp_all [Thread.key])
      | (cases hs; right; right; exact ⟨rfl, rfl, _, ‹_›, rfl, fun _ => rfl⟩)
  · simp only [if_true] at hs
    cases i <;> simp only at hs <;> (repeat' split at hs) <;>
      first
      | (cases hs; done)
      | (cases hs; left; exact ⟨rfl, fun _ => rfl, by simp⟩)
      | (cases hs; left; refine ⟨rfl, ?_, by simp⟩; intro w; simp only [nameOf, setThread, upd]; split <;> simp_all)


/-! ### how one statement changes the control flags -/

macro "astep_cases" i:ident h:ident : tactic =>
  `(tactic| (cases $i:ident <;> simp only [A.step] at $h:ident <;> (try split at $h:ident) <;> (try cases $h:ident) <;> simp_all))

theorem Astep_ht {svc : Bool} {a a' : A} {i : Instr} (h : a.step svc i = some a') (h1 : i ≠ .lockT) (h2 : i ≠ .unlockT) :
    a'.ht = a.ht := by astep_cases i h
theorem Astep_pa {svc : Bool} {a a' : A} {i : Instr} (h : a.step svc i = some a') (h1 : i ≠ .pAdd) (h2 : i ≠ .pStore) :
    a'.pa = a.pa := by astep_cases i h
theorem Astep_pr {svc : Bool} {a a' : A} {i : Instr} (h : a.step svc i = some a') (h1 : i ≠ .pRemove) (h2 : i ≠ .pStore) :
    a'.pr = a.pr := by astep_cases i h
theorem Astep_sr {svc : Bool} {a a' : A} {i : Instr} (h : a.step svc i = some a') (h1 : i ≠ .setRemove) :
    a'.sr = a.sr := by astep_cases i h
theorem Astep_mid {svc : Bool} {a a' : A} {i : Instr} (h : a.step svc i = some a') (h1 : i ≠ .sAdd) (h2 : i ≠ .sDel) :
    a'.mid = a.mid := by astep_cases i h
theorem Astep_sr_mono {svc : Bool} {a a' : A} {i : Instr} (h : a.step svc i = some a') (h1 : a.sr = true) :
    a'.sr = true := by astep_cases i h

theorem skipA_flags (i : Instr) (a : A) :
    (skipA i a).pa = a.pa ∧ (skipA i a).pr = a.pr ∧ (skipA i a).sr = a.sr ∧ (skipA i a).mid = a.mid ∧
    (skipA i a).cl = a.cl ∧ ((skipA i a).ht = true → a.ht = true) ∧ (i ≠ .unlockT → (skipA i a).ht = a.ht) := by
  cases i <;> simp only [skipA] <;> (try split) <;> simp_all

/-- flag-only facts about one thread -/
def FOK (th : Thread) : Prop :=
  (th.a.pa = true → th.a.ht = true) ∧ (th.a.pr = true → th.a.ht = true ∧ th.a.cl = true) ∧
  (th.a.sr = true → th.a.cl = true) ∧ (th.skip = true → th.a.pa = false ∧ th.a.pr = false) ∧
  (th.a.pa = true → th.a.pr = false)

theorem Astep_FOK {svc : Bool} {a a' : A} {i : Instr} (h : a.step svc i = some a')
    (f1 : a.pa = true → a.ht = true) (f2 : a.pr = true → a.ht = true ∧ a.cl = true) (f3 : a.sr = true → a.cl = true)
    (f5 : a.pa = true → a.pr = false) :
    (a'.pa = true → a'.ht = true) ∧ (a'.pr = true → a'.ht = true ∧ a'.cl = true) ∧ (a'.sr = true → a'.cl = true) ∧
    (a'.pa = true → a'.pr = false) := by
  cases i <;> simp only [A.step] at h <;> (try split at h) <;> (try cases h) <;>
    simp_all [A.quiet]

/-- the stepping thread after the step -/
theorem step_flags {P : Progs} {s s' : State} {t : Tid} {th : Thread} {i : Instr} {rest : List Instr} (hinv : Inv P s)
    (ht : s.threads t = some th) (hc : th.code = i :: rest) (hs : step P s (.tau t) = some s') :
    ∃ th', s'.threads = upd s.threads t (some th') ∧ th'.op = th.op ∧
      ((th.skip = true ∧ th'.skip = true ∧ th'.a = skipA i th.a ∧ th'.present = th.present) ∨
       (th.skip = false ∧ th'.skip = true ∧ th'.a = th.a ∧ th'.present = th.present ∧ th.a.quiet = true ∧
          (i = .loadClosed ∨ i = .casClosed ∨ i = .nameCheck)) ∨
       (th.skip = false ∧ th'.skip = false ∧ th.a.step P.svc i = some th'.a ∧ (th'.present = th.present ∨ i = .sAdd))) := by
  obtain ⟨th', h1, h2, _, h4⟩ := step_thread ht hc hs
  refine ⟨th', h1, h2, ?_⟩
  rcases h4 with h4 | ⟨hsk, h5, h6, h7, h8⟩ | ⟨hsk, h5, h6, h7⟩
  · left; exact h4
  · right; left
    have hwf := (hinv.th t th ht).wf hsk
    rw [hc] at hwf; simp only [wfCode] at hwf
    refine ⟨hsk, h5, h6, h7, ?_, h8⟩
    rcases h8 with rfl | rfl | rfl <;>
      (simp only [A.step] at hwf; split at hwf <;> simp_all)
  · right; right
    have hwf := (hinv.th t th ht).wf hsk
    rw [hc] at hwf; simp only [wfCode] at hwf
    cases hst : th.a.step P.svc i with
    | none => simp [hst] at hwf
    | some a' => rw [hst] at h6; exact ⟨hsk, h5, by simpa using h6.symm, h7⟩


/-! ### more about the add phase -/

theorem svcAdd_sub {ss : Bool} {x : Entry} (l : List Svc) (r : Svc → Option Entry) (pres : List Svc) (k : Svc)
    (h : k ∈ (svcAdd ss x l r pres).2) : k ∈ pres ∨ k ∈ l := by
  induction l generalizing r pres with
  | nil => left; simpa [svcAdd] using h
  | cons y ys ih =>
    simp only [svcAdd] at h
    split at h
    · rcases ih _ _ h with h1 | h1
      · rcases List.mem_append.1 h1 with h2 | h2
        · left; exact h2
        · right; simp at h2; simp [h2]
      · right; exact List.mem_cons_of_mem _ h1
    · split at h
      · rcases ih _ _ h with h1 | h1
        · rcases List.mem_append.1 h1 with h2 | h2
          · left; exact h2
          · right; simp at h2; simp [h2]
        · right; exact List.mem_cons_of_mem _ h1
      · rcases ih _ _ h with h1 | h1
        · left; exact h1
        · right; exact List.mem_cons_of_mem _ h1

theorem svcAdd_keeps_name {ss : Bool} {x : Entry} (l : List Svc) (r : Svc → Option Entry) (pres : List Svc) (k : Svc)
    (e : Entry) (h : r k = some e) : ∃ e', (svcAdd ss x l r pres).1 k = some e' ∧ e'.desc.name = e.desc.name := by
  induction l generalizing r pres e with
  | nil => exact ⟨e, by simpa [svcAdd] using h, rfl⟩
  | cons y ys ih =>
    simp only [svcAdd]
    split
    · rename_i hn
      have : k ≠ y := by intro e1; subst e1; rw [hn] at h; cases h
      exact ih _ _ e (by simp [upd, this, h])
    · rename_i old ho
      by_cases hnm : old.desc.name = x.desc.name
      · simp only [hnm, if_true]
        by_cases hk : k = y
        · subst hk
          have he : old = e := by rw [ho] at h; exact Option.some.inj h
          have hnm' : e.desc.name = x.desc.name := he ▸ hnm
          cases ss
          · exact ih _ _ e (by simpa using h)
          · obtain ⟨e', h1, h2⟩ := ih (upd r k (some x)) (pres ++ [k]) x (by simp)
            exact ⟨e', by simpa using h1, h2.trans hnm'.symm⟩
        · cases ss
          · exact ih _ _ e (by simpa using h)
          · exact ih _ _ e (by simp [upd, hk, h])
      · simp only [hnm, if_false]
        exact ih _ _ e h

/-- every key marked present is, after the add phase, routed to a target of the updating name -/
theorem svcAdd_present_owned {ss : Bool} {x : Entry} (l : List Svc) (r : Svc → Option Entry) (pres : List Svc) (k : Svc)
    (h : k ∈ (svcAdd ss x l r pres).2) :
    k ∈ pres ∨ ∃ e, (svcAdd ss x l r pres).1 k = some e ∧ e.desc.name = x.desc.name := by
  induction l generalizing r pres with
  | nil => left; simpa [svcAdd] using h
  | cons y ys ih =>
    simp only [svcAdd] at h ⊢
    split
    · rename_i hn
      simp only [hn] at h
      rcases ih _ _ h with h1 | h1
      · rcases List.mem_append.1 h1 with h2 | h2
        · left; exact h2
        · right
          simp at h2; subst h2
          obtain ⟨e', h3, h4⟩ := svcAdd_keeps_name (ss := ss) (x := x) ys (upd r k (some x)) (pres ++ [k]) k x (by simp)
          exact ⟨e', h3, h4⟩
      · right; exact h1
    · rename_i old ho
      simp only [ho] at h
      by_cases hnm : old.desc.name = x.desc.name
      · simp only [hnm, if_true] at h ⊢
        rcases ih _ _ h with h1 | h1
        · rcases List.mem_append.1 h1 with h2 | h2
          · left; exact h2
          · right
            simp at h2; subst h2
            cases ss
            · obtain ⟨e', h3, h4⟩ := svcAdd_keeps_name (ss := false) (x := x) ys r (pres ++ [k]) k old ho
              exact ⟨e', by simpa using h3, h4.trans hnm⟩
            · obtain ⟨e', h3, h4⟩ := svcAdd_keeps_name (ss := true) (x := x) ys (upd r k (some x)) (pres ++ [k]) k x (by simp)
              exact ⟨e', by simpa using h3, h4⟩
        · right; exact h1
      · simp only [hnm, if_false] at h ⊢
        exact ih _ _ h


/-! ### snapshot / mutable-table synchronisation -/

structure SyncInv (s : State) : Prop where
  fl : ∀ t th, s.threads t = some th → FOK th
  holder : ∀ t, s.tmu = some t → ∃ th, s.threads t = some th ∧ th.a.ht = true
  free : s.tmu = none → s.static = s.mtab
  held : ∀ t th, s.threads t = some th → th.a.ht = true →
    (th.a.pa = false → th.a.pr = false → s.static = s.mtab) ∧
    (th.a.pa = true → s.mtab = tblAdd ⟨th.w, th.desc⟩ s.static)

theorem sync_init : SyncInv init := by
  constructor <;> simp [init]

theorem sync_spawn {P : Progs} {s : State} {t : Tid} (op : Op) (h : SyncInv s) (hn : s.threads t = none) :
    SyncInv (setThread s t { op := op, code := P.of op }) := by
  have hne : ∀ t0 th0, s.threads t0 = some th0 → t0 ≠ t := by
    intro t0 th0 h0 e; subst e; rw [hn] at h0; cases h0
  refine ⟨?_, ?_, h.free, ?_⟩
  · intro t0 th0 h0
    rcases upd_some_cases h0 with ⟨rfl, rfl⟩ | ⟨ne, h0'⟩
    · simp [FOK]
    · exact h.fl t0 th0 h0'
  · intro t0 h0
    obtain ⟨th0, h1, h2⟩ := h.holder t0 h0
    exact ⟨th0, by simp [setThread, upd, hne t0 th0 h1]; exact h1, h2⟩
  · intro t0 th0 h0 hh
    rcases upd_some_cases h0 with ⟨rfl, rfl⟩ | ⟨ne, h0'⟩
    · simp at hh
    · exact h.held t0 th0 h0' hh

/-- generic step: thread `t` becomes `th'`, the three components are replaced -/
theorem sync_update {s s' : State} {t : Tid} {th th' : Thread} (h : SyncInv s)
    (ht : s.threads t = some th) (hth : s'.threads = upd s.threads t (some th')) (hop : th'.op = th.op)
    (hfok : FOK th')
    (htmu : ∀ t0, s'.tmu = some t0 → (t0 = t ∧ th'.a.ht = true) ∨ (t0 ≠ t ∧ s.tmu = some t0))
    (hfree : s'.tmu = none → s'.static = s'.mtab)
    (hself : th'.a.ht = true →
      (th'.a.pa = false → th'.a.pr = false → s'.static = s'.mtab) ∧
      (th'.a.pa = true → s'.mtab = tblAdd ⟨th.w, th.desc⟩ s'.static))
    (hoth : ∀ t0 th0, t0 ≠ t → s.threads t0 = some th0 → th0.a.ht = true → s'.static = s.static ∧ s'.mtab = s.mtab) :
    SyncInv s' := by
  have hw : th'.w = th.w := by simp [Thread.w, hop]
  have hd : th'.desc = th.desc := by simp [Thread.desc, hop]
  refine ⟨?_, ?_, hfree, ?_⟩
  · intro t0 th0 h0
    rw [hth] at h0
    rcases upd_some_cases h0 with ⟨rfl, rfl⟩ | ⟨ne, h0'⟩
    · exact hfok
    · exact h.fl t0 th0 h0'
  · intro t0 h0
    rcases htmu t0 h0 with ⟨rfl, h1⟩ | ⟨ne, h1⟩
    · exact ⟨th', by rw [hth]; simp, h1⟩
    · obtain ⟨th0, h2, h3⟩ := h.holder t0 h1
      exact ⟨th0, by rw [hth]; simp [upd, ne]; exact h2, h3⟩
  · intro t0 th0 h0 hh
    rw [hth] at h0
    rcases upd_some_cases h0 with ⟨rfl, rfl⟩ | ⟨ne, h0'⟩
    · rw [hw, hd]; exact hself hh
    · obtain ⟨e1, e2⟩ := hoth t0 th0 ne h0' hh
      rw [e1, e2]; exact h.held t0 th0 h0' hh

theorem sync_step {P : Progs} {s s' : State} {t : Tid} {th : Thread} {i : Instr} {rest : List Instr}
    (hinv : Inv P s) (h : SyncInv s)
    (ht : s.threads t = some th) (hc : th.code = i :: rest) (hs : step P s (.tau t) = some s') : SyncInv s' := by
  obtain ⟨th', hth, hop, hrel⟩ := step_flags hinv ht hc hs
  have fok := h.fl t th ht
  have htm := step_tmu ht hc hs
  have hmt := step_mtab ht hc hs
  have hst := step_static ht hc hs
  -- the table mutex has at most one holder
  have uniq : ∀ t0 th0, t0 ≠ t → s.threads t0 = some th0 → th0.a.ht = true → th.a.ht = false := by
    intro t0 th0 ne h0 hh
    cases hx : th.a.ht with
    | false => rfl
    | true =>
      have e1 := (hinv.th t0 th0 h0).ht hh
      have e2 := (hinv.th t th ht).ht hx
      rw [e1] at e2; cases e2; exact absurd rfl ne
  have tmuT : th.a.ht = true → s.tmu = some t := (hinv.th t th ht).ht
  obtain ⟨f1, f2, f3, f4, f5⟩ := fok
  rcases hrel with ⟨hsk, hsk', ha, _⟩ | ⟨hsk, hsk', ha, _, hq, hi⟩ | ⟨hsk, hsk', ha, _⟩
  · -- skip mode: only a deferred unlockT matters
    obtain ⟨p1, p2, p3, p4, p5, p6, p7⟩ := skipA_flags i th.a
    obtain ⟨npa, npr⟩ := f4 hsk
    have hmt' : s'.mtab = s.mtab := by rcases hmt with x | x | x <;> simp_all
    have hst' : s'.static = s.static := by rcases hst with x | x <;> simp_all
    have fok' : FOK th' := by
      refine ⟨?_, ?_, ?_, ?_, ?_⟩ <;> simp_all
    by_cases hu : i = .unlockT ∧ th.a.ht = true
    · obtain ⟨rfl, hht⟩ := hu
      have htm' : s'.tmu = none := by rcases htm with x | x | x <;> simp_all
      have hht' : th'.a.ht = false := by rw [ha]; simp [skipA, hht]
      refine sync_update h ht hth hop fok' ?_ ?_ ?_ ?_
      · intro t0 h0; rw [htm'] at h0; cases h0
      · intro _; rw [hmt', hst']; exact (h.held t th ht hht).1 npa npr
      · intro hh; rw [hht'] at hh; cases hh
      · intro t0 th0 ne h0 hh; have := uniq t0 th0 ne h0 hh; rw [hht] at this; cases this
    · have hhtS : th'.a.ht = th.a.ht := by
        rw [ha]
        by_cases hi : i = .unlockT
        · subst hi
          have : th.a.ht = false := by
            cases hx : th.a.ht with
            | false => rfl
            | true => exact absurd ⟨rfl, hx⟩ hu
          simp [skipA, this]
        · exact p7 hi
      have htm' : s'.tmu = s.tmu := by
        rcases htm with x | x | x
        · exact x.1
        · simp_all
        · exact absurd ⟨x.1, x.2.1⟩ hu
      refine sync_update h ht hth hop fok' ?_ ?_ ?_ ?_
      · intro t0 h0; rw [htm'] at h0
        by_cases e : t0 = t
        · left; subst e
          obtain ⟨th0, h1, h2⟩ := h.holder t0 h0
          rw [ht] at h1; cases h1; exact ⟨rfl, hhtS ▸ h2⟩
        · right; exact ⟨e, h0⟩
      · intro h0; rw [hmt', hst']; exact h.free (htm' ▸ h0)
      · intro hh; rw [hmt', hst']
        have := h.held t th ht (hhtS ▸ hh)
        rw [ha, p1, p2]; exact this
      · intro _ _ _ _ _; exact ⟨hst', hmt'⟩
  · -- early return: nothing but the skip flag changes
    have q : th.a.mid = false ∧ th.a.pa = false ∧ th.a.pr = false := by
      simp only [A.quiet, Bool.and_eq_true, Bool.not_eq_true'] at hq; exact ⟨hq.1.1, hq.1.2, hq.2⟩
    have hmt' : s'.mtab = s.mtab := by rcases hmt with x | x | x <;> rcases hi with rfl | rfl | rfl <;> simp_all
    have hst' : s'.static = s.static := by rcases hst with x | x <;> rcases hi with rfl | rfl | rfl <;> simp_all
    have htm' : s'.tmu = s.tmu := by rcases htm with x | x | x <;> rcases hi with rfl | rfl | rfl <;> simp_all
    have fok' : FOK th' := by
      refine ⟨?_, ?_, ?_, ?_, ?_⟩ <;> simp_all
    refine sync_update h ht hth hop fok' ?_ ?_ ?_ ?_
    · intro t0 h0; rw [htm'] at h0
      by_cases e : t0 = t
      · left; subst e
        obtain ⟨th0, h1, h2⟩ := h.holder t0 h0
        rw [ht] at h1; cases h1; exact ⟨rfl, by rw [ha]; exact h2⟩
      · right; exact ⟨e, h0⟩
    · intro h0; rw [hmt', hst']; exact h.free (htm' ▸ h0)
    · intro hh; rw [hmt', hst', ha]; exact h.held t th ht (ha ▸ hh)
    · intro _ _ _ _ _; exact ⟨hst', hmt'⟩
  · -- a statement executed normally
    have fok4 := Astep_FOK ha f1 f2 f3 f5
    have fok' : FOK th' := ⟨fok4.1, fok4.2.1, fok4.2.2.1, by simp [hsk'], fok4.2.2.2⟩
    by_cases hL : i = .lockT
    · subst hL
      have e1 : s.tmu = none ∧ s'.tmu = some t := by rcases htm with x | x | x <;> simp_all
      have hmt' : s'.mtab = s.mtab := by rcases hmt with x | x | x <;> simp_all
      have hst' : s'.static = s.static := by rcases hst with x | x <;> simp_all
      have ha' : th.a.ht = false ∧ th'.a = { th.a with ht := true } := by
        simp only [A.step] at ha; split at ha
        · cases ha
        · rename_i hx; exact ⟨by simpa using hx, (Option.some.inj ha).symm⟩
      refine sync_update h ht hth hop fok' ?_ ?_ ?_ ?_
      · intro t0 h0; rw [e1.2] at h0; cases h0; left; exact ⟨rfl, by rw [ha'.2]⟩
      · intro h0; rw [e1.2] at h0; cases h0
      · intro _; rw [hmt', hst', ha'.2]
        have npa : th.a.pa = false := by
          cases hx : th.a.pa with
          | false => rfl
          | true => have := f1 hx; rw [ha'.1] at this; cases this
        have npr : th.a.pr = false := by
          cases hx : th.a.pr with
          | false => rfl
          | true => have := (f2 hx).1; rw [ha'.1] at this; cases this
        exact ⟨fun _ _ => h.free e1.1, fun x => by simp [npa] at x⟩
      · intro t0 th0 _ h0 hh
        have := (hinv.th t0 th0 h0).ht hh; rw [e1.1] at this; cases this
    · by_cases hU : i = .unlockT
      · subst hU
        have ha' : th.a.ht = true ∧ th.a.quiet = true ∧ th'.a = { th.a with ht := false } := by
          simp only [A.step] at ha; split at ha
          · rename_i hx; simp only [Bool.and_eq_true] at hx; exact ⟨hx.1, hx.2, (Option.some.inj ha).symm⟩
          · cases ha
        obtain ⟨hht, hq, ha'⟩ := ha'
        have q : th.a.pa = false ∧ th.a.pr = false := by
          simp only [A.quiet, Bool.and_eq_true, Bool.not_eq_true'] at hq; exact ⟨hq.1.2, hq.2⟩
        have htm' : s'.tmu = none := by rcases htm with x | x | x <;> simp_all
        have hmt' : s'.mtab = s.mtab := by rcases hmt with x | x | x <;> simp_all
        have hst' : s'.static = s.static := by rcases hst with x | x <;> simp_all
        refine sync_update h ht hth hop fok' ?_ ?_ ?_ ?_
        · intro t0 h0; rw [htm'] at h0; cases h0
        · intro _; rw [hmt', hst']; exact (h.held t th ht hht).1 q.1 q.2
        · intro hh; rw [ha'] at hh; simp at hh
        · intro t0 th0 ne h0 hh; have := uniq t0 th0 ne h0 hh; rw [hht] at this; cases this
      · have htm' : s'.tmu = s.tmu := by rcases htm with x | x | x <;> simp_all
        have hhtS : th'.a.ht = th.a.ht := Astep_ht ha hL hU
        have tmuCase : ∀ t0, s'.tmu = some t0 → (t0 = t ∧ th'.a.ht = true) ∨ (t0 ≠ t ∧ s.tmu = some t0) := by
          intro t0 h0; rw [htm'] at h0
          by_cases e : t0 = t
          · left; subst e
            obtain ⟨th0, h1, h2⟩ := h.holder t0 h0
            rw [ht] at h1; cases h1; exact ⟨rfl, hhtS ▸ h2⟩
          · right; exact ⟨e, h0⟩
        by_cases hA : i = .pAdd
        · subst hA
          have ha' : th.a.ht = true ∧ th.a.pa = false ∧ th.a.pr = false ∧ th'.a = { th.a with pa := true } := by
            simp only [A.step] at ha; split at ha
            · rename_i hx; simp only [Bool.and_eq_true, Bool.not_eq_true'] at hx
              exact ⟨hx.1.1.1.1.1.2, hx.1.2, hx.2, (Option.some.inj ha).symm⟩
            · cases ha
          obtain ⟨hht, npa, npr, ha'⟩ := ha'
          have hmt' : s'.mtab = tblAdd ⟨th.w, th.desc⟩ s.mtab := by rcases hmt with x | x | x <;> simp_all
          have hst' : s'.static = s.static := by rcases hst with x | x <;> simp_all
          refine sync_update h ht hth hop fok' tmuCase ?_ ?_ ?_
          · intro h0; rw [htm', tmuT hht] at h0; cases h0
          · intro _; rw [ha']; refine ⟨fun x => by simp at x, fun _ => ?_⟩
            rw [hmt', hst', (h.held t th ht hht).1 npa npr]
          · intro t0 th0 ne h0 hh; have := uniq t0 th0 ne h0 hh; rw [hht] at this; cases this
        · by_cases hR : i = .pRemove
          · subst hR
            have ha' : th.a.ht = true ∧ th.a.pa = false ∧ th'.a = { th.a with rm := true, pr := true } := by
              simp only [A.step] at ha; split at ha
              · rename_i hx; simp only [Bool.and_eq_true, Bool.not_eq_true'] at hx
                exact ⟨hx.1.1.1, hx.1.2, (Option.some.inj ha).symm⟩
              · cases ha
            obtain ⟨hht, npa, ha'⟩ := ha'
            refine sync_update h ht hth hop fok' tmuCase ?_ ?_ ?_
            · intro h0; rw [htm', tmuT hht] at h0; cases h0
            · intro _; rw [ha']; exact ⟨fun _ x => by simp at x, fun x => by simp [npa] at x⟩
            · intro t0 th0 ne h0 hh; have := uniq t0 th0 ne h0 hh; rw [hht] at this; cases this
          · by_cases hS : i = .pStore
            · subst hS
              have ha' : th.a.ht = true ∧ th'.a = { th.a with rs := th.a.rm, pa := false, pr := false } := by
                simp only [A.step] at ha; split at ha
                · rename_i hx; exact ⟨hx, (Option.some.inj ha).symm⟩
                · cases ha
              obtain ⟨hht, ha'⟩ := ha'
              have hmt' : s'.mtab = s.mtab := by rcases hmt with x | x | x <;> simp_all
              have hst' : s'.static = s.mtab := by rcases hst with x | x <;> simp_all
              refine sync_update h ht hth hop fok' tmuCase ?_ ?_ ?_
              · intro h0; rw [htm', tmuT hht] at h0; cases h0
              · intro _; rw [ha', hmt', hst']; exact ⟨fun _ _ => rfl, fun x => by simp at x⟩
              · intro t0 th0 ne h0 hh; have := uniq t0 th0 ne h0 hh; rw [hht] at this; cases this
            · have hmt' : s'.mtab = s.mtab := by rcases hmt with x | x | x <;> simp_all
              have hst' : s'.static = s.static := by rcases hst with x | x <;> simp_all
              have epa := Astep_pa ha hA hS
              have epr := Astep_pr ha hR hS
              refine sync_update h ht hth hop fok' tmuCase ?_ ?_ ?_
              · intro h0; rw [hmt', hst']; exact h.free (htm' ▸ h0)
              · intro hh; rw [hmt', hst', epa, epr]; exact h.held t th ht (hhtS ▸ hh)
              · intro _ _ _ _ _; exact ⟨hst', hmt'⟩


/-! ### watcherSet tracking -/

/-- the Close of watcher `w` has executed its `watcherSet.Remove` -/
def Removed (s : State) (w : Wid) : Prop := ∃ t th, s.threads t = some th ∧ th.w = w ∧ th.a.sr = true

structure WsetInv (s : State) : Prop where
  left : ∀ n ∈ s.wset, ∃ w, nameOf s w = some n ∧ ¬ Removed s w
  right : ∀ w n, nameOf s w = some n → ¬ Removed s w → n ∈ s.wset
  uniq : ∀ w1 w2 n, nameOf s w1 = some n → nameOf s w2 = some n → ¬ Removed s w1 → ¬ Removed s w2 → w1 = w2

theorem wset_init : WsetInv init := by
  constructor <;> simp [init, nameOf]

theorem removed_same {s s' : State} {t : Tid} {th th' : Thread} (ht : s.threads t = some th)
    (hth : s'.threads = upd s.threads t (some th')) (hop : th'.op = th.op) (hsr : th'.a.sr = th.a.sr) (w : Wid) :
    Removed s' w ↔ Removed s w := by
  have hw : th'.w = th.w := by simp [Thread.w, hop]
  constructor
  · rintro ⟨t0, th0, h0, h1, h2⟩
    rw [hth] at h0
    rcases upd_some_cases h0 with ⟨rfl, rfl⟩ | ⟨ne, h0'⟩
    · exact ⟨t0, th, ht, hw ▸ h1, hsr ▸ h2⟩
    · exact ⟨t0, th0, h0', h1, h2⟩
  · rintro ⟨t0, th0, h0, h1, h2⟩
    by_cases e : t0 = t
    · subst e; rw [ht] at h0; cases h0
      exact ⟨t0, th', by rw [hth]; simp, hw.trans h1, hsr.trans h2⟩
    · exact ⟨t0, th0, by rw [hth]; simp [upd, e]; exact h0, h1, h2⟩

theorem removed_add {s s' : State} {t : Tid} {th th' : Thread} (ht : s.threads t = some th)
    (hth : s'.threads = upd s.threads t (some th')) (hop : th'.op = th.op) (hsr : th'.a.sr = true) (w : Wid) :
    Removed s' w ↔ Removed s w ∨ w = th.w := by
  have hw : th'.w = th.w := by simp [Thread.w, hop]
  constructor
  · rintro ⟨t0, th0, h0, h1, h2⟩
    rw [hth] at h0
    rcases upd_some_cases h0 with ⟨rfl, rfl⟩ | ⟨ne, h0'⟩
    · right; rw [← h1, hw]
    · left; exact ⟨t0, th0, h0', h1, h2⟩
  · rintro (⟨t0, th0, h0, h1, h2⟩ | rfl)
    · by_cases e : t0 = t
      · subst e; rw [ht] at h0; cases h0
        exact ⟨t0, th', by rw [hth]; simp, hw.trans h1, hsr⟩
      · exact ⟨t0, th0, by rw [hth]; simp [upd, e]; exact h0, h1, h2⟩
    · exact ⟨t, th', by rw [hth]; simp, hw, hsr⟩

theorem wset_spawn {P : Progs} {s : State} {t : Tid} (op : Op) (h : WsetInv s) (hn : s.threads t = none) :
    WsetInv (setThread s t { op := op, code := P.of op }) := by
  have hr : ∀ w, Removed (setThread s t { op := op, code := P.of op }) w ↔ Removed s w := by
    intro w
    constructor
    · rintro ⟨t0, th0, h0, h1, h2⟩
      rcases upd_some_cases h0 with ⟨rfl, rfl⟩ | ⟨ne, h0'⟩
      · simp at h2
      · exact ⟨t0, th0, h0', h1, h2⟩
    · rintro ⟨t0, th0, h0, h1, h2⟩
      have : t0 ≠ t := by intro e; subst e; rw [hn] at h0; cases h0
      exact ⟨t0, th0, by simp [setThread, upd, this]; exact h0, h1, h2⟩
  refine ⟨?_, ?_, ?_⟩
  · intro n hn'
    obtain ⟨w, h1, h2⟩ := h.left n hn'
    exact ⟨w, h1, fun x => h2 ((hr w).1 x)⟩
  · intro w n h1 h2; exact h.right w n h1 (fun x => h2 ((hr w).2 x))
  · intro w1 w2 n h1 h2 h3 h4
    exact h.uniq w1 w2 n h1 h2 (fun x => h3 ((hr w1).2 x)) (fun x => h4 ((hr w2).2 x))

theorem wset_step {P : Progs} {s s' : State} {t : Tid} {th : Thread} {i : Instr} {rest : List Instr}
    (hinv : Inv P s) (hfl : ∀ t th, s.threads t = some th → FOK th) (h : WsetInv s)
    (ht : s.threads t = some th) (hc : th.code = i :: rest) (hs : step P s (.tau t) = some s') : WsetInv s' := by
  obtain ⟨th', hth, hop, hrel⟩ := step_flags hinv ht hc hs
  have hws := step_wset ht hc hs
  by_cases hSR : i = .setRemove ∧ th.skip = false
  · obtain ⟨rfl, hsk⟩ := hSR
    have ha : th.a.cl = true ∧ th.a.sr = false ∧ th'.a.sr = true := by
      rcases hrel with ⟨x, _⟩ | ⟨_, _, _, _, _, hi⟩ | ⟨_, _, ha, _⟩
      · rw [hsk] at x; cases x
      · rcases hi with hi | hi | hi <;> cases hi
      · simp only [A.step] at ha; split at ha
        · rename_i hx; simp only [Bool.and_eq_true, Bool.not_eq_true'] at hx
          have := (Option.some.inj ha).symm
          exact ⟨hx.1.1, hx.1.2, by rw [this]⟩
        · cases ha
    obtain ⟨hcl, hnsr, hsr'⟩ := ha
    have hr := removed_add ht hth hop hsr'
    obtain ⟨wt, hwt, hwset, hnames⟩ : ∃ wt, s.watchers th.w = some wt ∧
        s'.wset = s.wset.filter (fun n => n ≠ wt.name) ∧ ∀ w, nameOf s' w = nameOf s w := by
      rcases hws with x | x | x
      · have := x.2.2 rfl; rw [hsk] at this; cases this
      · cases x.1
      · exact x.2.2
    have hnm : nameOf s th.w = some wt.name := by simp [nameOf, hwt]
    -- the closing watcher was still registered
    have live : ¬ Removed s th.w := by
      rintro ⟨t1, th1, h1, hw1, hs1⟩
      have c1 := (hfl t1 th1 h1).2.2.1 hs1
      have := hinv.clU t1 t th1 th h1 ht c1 hcl hw1
      subst this; rw [ht] at h1; cases h1; rw [hnsr] at hs1; cases hs1
    refine ⟨?_, ?_, ?_⟩
    · intro n hn
      rw [hwset] at hn
      obtain ⟨hn1, hn2⟩ := List.mem_filter.1 hn
      obtain ⟨w, h1, h2⟩ := h.left n hn1
      refine ⟨w, by rw [hnames]; exact h1, ?_⟩
      intro hx
      rcases (hr w).1 hx with hx | hx
      · exact h2 hx
      · subst hx; rw [hnm] at h1; cases h1; simp at hn2
    · intro w n h1 h2
      rw [hnames] at h1
      have nr : ¬ Removed s w := fun x => h2 ((hr w).2 (Or.inl x))
      have ne : w ≠ th.w := fun x => h2 ((hr w).2 (Or.inr x))
      rw [hwset]
      refine List.mem_filter.2 ⟨h.right w n h1 nr, ?_⟩
      simp only [ne_eq, decide_eq_true_eq]
      intro e; subst e
      exact ne (h.uniq w th.w _ h1 hnm nr live)
    · intro w1 w2 n h1 h2 h3 h4
      rw [hnames] at h1 h2
      exact h.uniq w1 w2 n h1 h2 (fun x => h3 ((hr w1).2 (Or.inl x))) (fun x => h4 ((hr w2).2 (Or.inl x)))
  · have hsr : th'.a.sr = th.a.sr := by
      rcases hrel with ⟨_, _, ha, _⟩ | ⟨_, _, ha, _⟩ | ⟨hsk, _, ha, _⟩
      · rw [ha]; exact (skipA_flags i th.a).2.2.1
      · rw [ha]
      · exact Astep_sr ha (fun e => hSR ⟨e, hsk⟩)
    have hr := removed_same ht hth hop hsr
    rcases hws with ⟨hwset, hnames, _⟩ | ⟨rfl, hsk, hnew, hwset, hnames⟩ | ⟨rfl, hsk, _⟩
    · refine ⟨?_, ?_, ?_⟩
      · intro n hn
        rw [hwset] at hn
        obtain ⟨w, h1, h2⟩ := h.left n hn
        exact ⟨w, by rw [hnames]; exact h1, fun x => h2 ((hr w).1 x)⟩
      · intro w n h1 h2
        rw [hnames] at h1; rw [hwset]
        exact h.right w n h1 (fun x => h2 ((hr w).2 x))
      · intro w1 w2 n h1 h2 h3 h4
        rw [hnames] at h1 h2
        exact h.uniq w1 w2 n h1 h2 (fun x => h3 ((hr w1).2 x)) (fun x => h4 ((hr w2).2 x))
    · -- a successful Watch: a fresh watcher id
      have hfresh : nameOf s s.nextW = none := by simp [nameOf, hinv.fresh s.nextW (Nat.le_refl _)]
      have nrm : ¬ Removed s s.nextW := by
        rintro ⟨t1, th1, h1, hw1, hs1⟩
        have c1 := (hfl t1 th1 h1).2.2.1 hs1
        have := (hinv.th t1 th1 h1).cl c1
        rw [hw1] at this
        simp [closedOf, hinv.fresh s.nextW (Nat.le_refl _)] at this
      have old : ∀ w n, nameOf s w = some n → w ≠ s.nextW := by
        intro w n h1 e; subst e; rw [hfresh] at h1; cases h1
      refine ⟨?_, ?_, ?_⟩
      · intro n hn
        rw [hwset] at hn
        rcases List.mem_cons.1 hn with rfl | hn
        · exact ⟨s.nextW, by rw [hnames]; simp, fun x => nrm ((hr _).1 x)⟩
        · obtain ⟨w, h1, h2⟩ := h.left n hn
          exact ⟨w, by rw [hnames]; simp [old w n h1]; exact h1, fun x => h2 ((hr w).1 x)⟩
      · intro w n h1 h2
        rw [hnames] at h1; rw [hwset]
        by_cases e : w = s.nextW
        · simp only [e, if_true, Option.some.injEq] at h1; subst h1; exact List.mem_cons_self
        · simp only [e, if_false] at h1
          exact List.mem_cons_of_mem _ (h.right w n h1 (fun x => h2 ((hr w).2 x)))
      · intro w1 w2 n h1 h2 h3 h4
        rw [hnames] at h1 h2
        have n3 : ¬ Removed s w1 := fun x => h3 ((hr w1).2 x)
        have n4 : ¬ Removed s w2 := fun x => h4 ((hr w2).2 x)
        by_cases e1 : w1 = s.nextW <;> by_cases e2 : w2 = s.nextW
        · rw [e1, e2]
        · simp only [e1, if_true, Option.some.injEq] at h1
          simp only [e2, if_false] at h2
          subst h1; exact absurd (h.right w2 _ h2 n4) hnew
        · simp only [e2, if_true, Option.some.injEq] at h2
          simp only [e1, if_false] at h1
          subst h2; exact absurd (h.right w1 _ h1 n3) hnew
        · simp only [e1, if_false] at h1
          simp only [e2, if_false] at h2
          exact h.uniq w1 w2 n h1 h2 n3 n4
    · exact absurd ⟨rfl, hsk⟩ hSR



/-! ### claims, release (fix D31) -/

abbrev DistinctNames (l : List Entry) : Prop := l.Pairwise (fun a b => a.desc.name ≠ b.desc.name)

theorem dropClaim_sublist (l : List Entry) (n : Name) : (dropClaim l n).Sublist l := by
  induction l with
  | nil => exact List.Sublist.slnil
  | cons c cs ih =>
    simp only [dropClaim]
    split
    · exact List.sublist_cons_self c cs
    · exact ih.cons₂ c

theorem mem_dropClaim {c : Entry} {l : List Entry} {n : Name} (h : c ∈ dropClaim l n) : c ∈ l :=
  (dropClaim_sublist l n).subset h

theorem dropClaim_ne {l : List Entry} {n : Name} (hd : DistinctNames l) {c : Entry} (h : c ∈ dropClaim l n) :
    c.desc.name ≠ n := by
  induction l with
  | nil => cases h
  | cons x xs ih =>
    simp only [dropClaim] at h
    rw [DistinctNames, List.pairwise_cons] at hd
    split at h
    · rename_i hx
      intro e; exact hd.1 c h (hx.trans e.symm)
    · rename_i hx
      rcases List.mem_cons.1 h with rfl | h
      · exact hx
      · exact ih hd.2 h

theorem mem_recordClaim {c e : Entry} {l : List Entry} (h : c ∈ recordClaim l e) : c = e ∨ c ∈ l := by
  induction l with
  | nil => left; simpa [recordClaim] using h
  | cons x xs ih =>
    simp only [recordClaim] at h
    split at h
    · rcases List.mem_cons.1 h with h | h
      · left; exact h
      · right; exact List.mem_cons_of_mem _ h
    · rcases List.mem_cons.1 h with h | h
      · right; rw [h]; exact List.mem_cons_self
      · rcases ih h with h | h
        · left; exact h
        · right; exact List.mem_cons_of_mem _ h

theorem self_mem_recordClaim (l : List Entry) (e : Entry) : e ∈ recordClaim l e := by
  induction l with
  | nil => simp [recordClaim]
  | cons x xs ih =>
    simp only [recordClaim]
    split
    · exact List.mem_cons_self
    · exact List.mem_cons_of_mem _ ih

theorem recordClaim_distinct {l : List Entry} (e : Entry) (hd : DistinctNames l) : DistinctNames (recordClaim l e) := by
  induction l with
  | nil => simp [recordClaim, DistinctNames]
  | cons x xs ih =>
    rw [DistinctNames, List.pairwise_cons] at hd
    simp only [recordClaim]
    split
    · rename_i hx
      rw [DistinctNames, List.pairwise_cons]
      exact ⟨fun b hb => by rw [← hx]; exact hd.1 b hb, hd.2⟩
    · rename_i hx
      rw [DistinctNames, List.pairwise_cons]
      refine ⟨?_, ih hd.2⟩
      intro b hb
      rcases mem_recordClaim hb with rfl | hb
      · exact hx
      · exact hd.1 b hb

theorem svcClaim_cons_none {e : Entry} {r : Svc → Option Entry} {y : Svc} {ys : List Svc} {w : Svc → List Entry}
    (h : r y = none) : svcClaim e r (y :: ys) w = svcClaim e r ys w := by simp [svcClaim, h]

theorem svcClaim_cons_same {e old : Entry} {r : Svc → Option Entry} {y : Svc} {ys : List Svc} {w : Svc → List Entry}
    (h : r y = some old) (hn : old.desc.name = e.desc.name) : svcClaim e r (y :: ys) w = svcClaim e r ys w := by
  simp [svcClaim, h, hn]

theorem svcClaim_cons_other {e old : Entry} {r : Svc → Option Entry} {y : Svc} {ys : List Svc} {w : Svc → List Entry}
    (h : r y = some old) (hn : old.desc.name ≠ e.desc.name) :
    svcClaim e r (y :: ys) w = svcClaim e r ys (upd w y (recordClaim (w y) e)) := by
  simp [svcClaim, h, hn]

theorem svcClaim_mem {e : Entry} {r : Svc → Option Entry} {l : List Svc} {w : Svc → List Entry} {k : Svc} {c : Entry}
    (h : c ∈ svcClaim e r l w k) :
    c ∈ w k ∨ (c = e ∧ k ∈ l ∧ ∃ old, r k = some old ∧ old.desc.name ≠ e.desc.name) := by
  induction l generalizing w with
  | nil => left; simpa [svcClaim] using h
  | cons y ys ih =>
    have lift : (c ∈ w k ∨ (c = e ∧ k ∈ ys ∧ ∃ old, r k = some old ∧ old.desc.name ≠ e.desc.name)) →
        c ∈ w k ∨ (c = e ∧ k ∈ y :: ys ∧ ∃ old, r k = some old ∧ old.desc.name ≠ e.desc.name) := by
      rintro (h1 | ⟨h1, h2, h3⟩)
      · left; exact h1
      · right; exact ⟨h1, List.mem_cons_of_mem _ h2, h3⟩
    cases ho : r y with
    | none => rw [svcClaim_cons_none ho] at h; exact lift (ih h)
    | some old =>
      by_cases hne : old.desc.name = e.desc.name
      · rw [svcClaim_cons_same ho hne] at h; exact lift (ih h)
      · rw [svcClaim_cons_other ho hne] at h
        rcases ih h with h1 | ⟨h1, h2, h3⟩
        · by_cases hk : k = y
          · subst hk
            simp only [upd_same] at h1
            rcases mem_recordClaim h1 with h4 | h4
            · right; exact ⟨h4, List.mem_cons_self, old, ho, hne⟩
            · left; exact h4
          · left; simpa [upd, hk] using h1
        · right; exact ⟨h1, List.mem_cons_of_mem _ h2, h3⟩

theorem svcClaim_distinct {e : Entry} {r : Svc → Option Entry} (l : List Svc) {w : Svc → List Entry}
    (hd : ∀ k, DistinctNames (w k)) : ∀ k, DistinctNames (svcClaim e r l w k) := by
  induction l generalizing w with
  | nil => simpa [svcClaim] using hd
  | cons y ys ih =>
    cases ho : r y with
    | none => rw [svcClaim_cons_none ho]; exact ih hd
    | some old =>
      by_cases hne : old.desc.name = e.desc.name
      · rw [svcClaim_cons_same ho hne]; exact ih hd
      · rw [svcClaim_cons_other ho hne]
        apply ih
        intro k
        by_cases hk : k = y
        · subst hk; simp only [upd_same]; exact recordClaim_distinct e (hd k)
        · simpa [upd, hk] using hd k

/-- every claim of another target is kept by the add phase -/
theorem svcClaim_keeps {e : Entry} {r : Svc → Option Entry} (l : List Svc) {w : Svc → List Entry} {k : Svc} {c : Entry}
    (h : c ∈ w k) (hn : c.desc.name ≠ e.desc.name) : c ∈ svcClaim e r l w k := by
  have keep : ∀ (l : List Entry), c ∈ l → c ∈ recordClaim l e := by
    intro l
    induction l with
    | nil => intro h; cases h
    | cons x xs ih =>
      intro h
      simp only [recordClaim]
      split
      · rename_i hx
        rcases List.mem_cons.1 h with rfl | h
        · exact absurd hx hn
        · exact List.mem_cons_of_mem _ h
      · rcases List.mem_cons.1 h with rfl | h
        · exact List.mem_cons_self
        · exact List.mem_cons_of_mem _ (ih h)
  induction l generalizing w with
  | nil => simpa [svcClaim] using h
  | cons y ys ih =>
    cases ho : r y with
    | none => rw [svcClaim_cons_none ho]; exact ih h
    | some old =>
      by_cases hne : old.desc.name = e.desc.name
      · rw [svcClaim_cons_same ho hne]; exact ih h
      · rw [svcClaim_cons_other ho hne]
        apply ih
        by_cases hk : k = y
        · subst hk; simp only [upd_same]; exact keep _ h
        · simpa [upd, hk] using h

theorem release_r_self (q : RelSt) (k : Svc) : (release q k).r k = (q.w k).head? := by
  unfold release; split <;> simp_all

theorem release_w_self (q : RelSt) (k : Svc) : (release q k).w k = (q.w k).tail := by
  unfold release; split <;> simp_all

theorem release_other (q : RelSt) (k x : Svc) (h : x ≠ k) :
    (release q k).r x = q.r x ∧ (release q k).w x = q.w x := by
  unfold release; split <;> simp [upd, h]

theorem relLoop_out {D : List Svc} {q : RelSt} {k : Svc} (hk : k ∉ D) :
    (relLoop D q).r k = q.r k ∧ (relLoop D q).w k = q.w k := by
  induction D generalizing q with
  | nil => exact ⟨rfl, rfl⟩
  | cons x xs ih =>
    simp only [relLoop]
    have h1 : k ≠ x := fun e => hk (e ▸ List.mem_cons_self)
    have h2 : k ∉ xs := fun e => hk (List.mem_cons_of_mem _ e)
    obtain ⟨a, b⟩ := ih (q := release q x) h2
    obtain ⟨c, d⟩ := release_other q x k h1
    exact ⟨a.trans c, b.trans d⟩

theorem relLoop_in {D : List Svc} {q : RelSt} {k : Svc} (hn : D.Nodup) (hk : k ∈ D) :
    (relLoop D q).r k = (q.w k).head? ∧ (relLoop D q).w k = (q.w k).tail := by
  induction D generalizing q with
  | nil => cases hk
  | cons x xs ih =>
    simp only [relLoop]
    rw [List.nodup_cons] at hn
    rcases List.mem_cons.1 hk with rfl | hk
    · obtain ⟨a, b⟩ := relLoop_out (q := release q k) hn.1
      exact ⟨a.trans (release_r_self q k), b.trans (release_w_self q k)⟩
    · have h1 : k ≠ x := fun e => hn.1 (e ▸ hk)
      obtain ⟨a, b⟩ := ih (q := release q x) hn.2 hk
      obtain ⟨c, d⟩ := release_other q x k h1
      rw [c] at *; rw [d] at a b
      exact ⟨a, b⟩

theorem relLoop_v_mem {D : List Svc} {q : RelSt} {x : Svc} {m : Name} (hn : D.Nodup) :
    x ∈ (relLoop D q).v m ↔ x ∈ q.v m ∨ (x ∈ D ∧ ∃ c, (q.w x).head? = some c ∧ c.desc.name = m) := by
  induction D generalizing q with
  | nil => simp [relLoop]
  | cons y ys ih =>
    simp only [relLoop]
    rw [List.nodup_cons] at hn
    rw [ih hn.2]
    have hv : x ∈ (release q y).v m ↔ x ∈ q.v m ∨ (x = y ∧ ∃ c, (q.w y).head? = some c ∧ c.desc.name = m) := by
      unfold release
      split
      · rename_i hw; simp [hw]
      · rename_i c rest hw
        by_cases hm : m = c.desc.name
        · subst hm; simp [hw, upd_same]
        · simp only [upd_other _ _ _ _ hm, hw, List.head?_cons, Option.some.injEq]
          constructor
          · intro h; left; exact h
          · rintro (h | ⟨_, c', h1, h2⟩)
            · exact h
            · subst h1; exact absurd h2.symm hm
    constructor
    · rintro (h | ⟨hx, c, h1, h2⟩)
      · rcases hv.1 h with h | ⟨rfl, h⟩
        · left; exact h
        · right; exact ⟨List.mem_cons_self, h⟩
      · have hxy : x ≠ y := fun e => hn.1 (e ▸ hx)
        rw [(release_other q y x hxy).2] at h1
        right; exact ⟨List.mem_cons_of_mem _ hx, c, h1, h2⟩
    · rintro (h | ⟨hx, c, h1, h2⟩)
      · left; exact hv.2 (Or.inl h)
      · rcases List.mem_cons.1 hx with rfl | hx
        · left; exact hv.2 (Or.inr ⟨rfl, c, h1, h2⟩)
        · have hxy : x ≠ y := fun e => hn.1 (e ▸ hx)
          right; refine ⟨hx, c, ?_, h2⟩
          rw [(release_other q y x hxy).2]; exact h1

theorem relLoop_nodup {D : List Svc} {q : RelSt} {n : Name} (H1 : ∀ m, (q.v m).Nodup)
    (H2 : ∀ x ∈ D, ∀ m, m ≠ n → x ∉ q.v m) (H3 : D.Nodup) (H4 : ∀ x ∈ D, ∀ c ∈ q.w x, c.desc.name ≠ n) :
    ∀ m, ((relLoop D q).v m).Nodup := by
  induction D generalizing q with
  | nil => simpa [relLoop] using H1
  | cons y ys ih =>
    simp only [relLoop]
    rw [List.nodup_cons] at H3
    apply ih
    · intro m
      unfold release
      split
      · exact H1 m
      · rename_i c rest hw
        by_cases hm : m = c.desc.name
        · subst hm
          simp only [upd_same]
          have hc : c.desc.name ≠ n := H4 y List.mem_cons_self c (by rw [hw]; exact List.mem_cons_self)
          have : y ∉ q.v c.desc.name := H2 y List.mem_cons_self _ hc
          exact List.nodup_append.2 ⟨H1 _, by simp, by
            intro a ha b hb; simp at hb; subst hb; intro e; subst e; exact this ha⟩
        · simp only [upd_other _ _ _ _ hm]; exact H1 m
    · intro x hx m hm
      have hxy : x ≠ y := fun e => H3.1 (e ▸ hx)
      unfold release
      split
      · exact H2 x (List.mem_cons_of_mem _ hx) m hm
      · rename_i c rest hw
        by_cases hm2 : m = c.desc.name
        · subst hm2
          simp only [upd_same, List.mem_append, List.mem_singleton, not_or]
          exact ⟨H2 x (List.mem_cons_of_mem _ hx) _ hm, hxy⟩
        · simp only [upd_other _ _ _ _ hm2]; exact H2 x (List.mem_cons_of_mem _ hx) m hm
    · exact H3.2
    · intro x hx c hc
      have hxy : x ≠ y := fun e => H3.1 (e ▸ hx)
      rw [(release_other q y x hxy).2] at hc
      exact H4 x (List.mem_cons_of_mem _ hx) c hc

theorem mem_dedup {l : List Svc} {x : Svc} : x ∈ dedup l ↔ x ∈ l := by
  induction l with
  | nil => simp [dedup]
  | cons y ys ih =>
    simp only [dedup, List.mem_cons, List.mem_filter, ih]
    constructor
    · rintro (h | ⟨h, _⟩)
      · left; exact h
      · right; exact h
    · rintro (h | h)
      · left; exact h
      · by_cases e : x = y
        · left; exact e
        · right; exact ⟨h, by simpa using e⟩

theorem nodup_dedup (l : List Svc) : (dedup l).Nodup := by
  induction l with
  | nil => simp [dedup]
  | cons y ys ih =>
    simp only [dedup, List.nodup_cons, List.mem_filter]
    exact ⟨fun h => by simp at h, ih.filter _⟩


theorem relLoop_entry {D : List Svc} {q : RelSt} (hn : D.Nodup) (k : Svc) (e : Entry)
    (h : (relLoop D q).r k = some e ∨ e ∈ (relLoop D q).w k) : q.r k = some e ∨ e ∈ q.w k := by
  by_cases hk : k ∈ D
  · obtain ⟨a, b⟩ := relLoop_in (q := q) hn hk
    rw [a, b] at h
    right
    rcases h with h | h
    · exact List.mem_of_mem_head? h
    · exact List.mem_of_mem_tail h
  · obtain ⟨a, b⟩ := relLoop_out (q := q) hk
    rw [a, b] at h; exact h

/-! ### service map bookkeeping -/

structure SvcInv (P : Progs) (s : State) : Prop where
  keyIn : ∀ k e, (s.routes k = some e ∨ e ∈ s.waiting k) → k ∈ e.desc.svcs
  ownN : ∀ k e, (s.routes k = some e ∨ e ∈ s.waiting k) → nameOf s e.owner = some e.desc.name
  owned : ∀ n k, k ∈ s.svcRoutes n → ∃ e, s.routes k = some e ∧ e.desc.name = n
  cover : ∀ k e, s.routes k = some e → k ∈ s.svcRoutes e.desc.name ∨
    ∃ t th, s.threads t = some th ∧ th.a.mid = true ∧ th.desc.name = e.desc.name ∧ k ∈ th.present
  wother : ∀ k c, c ∈ s.waiting k → ∃ e, s.routes k = some e ∧ e.desc.name ≠ c.desc.name
  wdist : ∀ k, DistinctNames (s.waiting k)
  nodup : ∀ n, (s.svcRoutes n).Nodup
  r1 : ∀ t th, s.threads t = some th → th.a.cl = true → (th.a.rr = true ∨ th.a.sr = true) →
    ∀ k e, (s.routes k = some e ∨ e ∈ s.waiting k) → e.owner ≠ th.w
  midP : ∀ t th, s.threads t = some th → th.a.mid = true →
    ∀ k ∈ s.svcRoutes th.desc.name, k ∈ th.desc.svcs → k ∈ th.present
  midOwn : ∀ t th, s.threads t = some th → th.a.mid = true →
    ∀ k ∈ th.present, ∃ e, s.routes k = some e ∧ e.desc.name = th.desc.name
  kind : P.svc = false → (∀ k, s.routes k = none) ∧ (∀ k, s.waiting k = [])

theorem svc_init (P : Progs) : SvcInv P init := by
  constructor <;> simp [init, DistinctNames]

theorem svc_spawn {P : Progs} {s : State} {t : Tid} (op : Op) (h : SvcInv P s) (hn : s.threads t = none) :
    SvcInv P (setThread s t { op := op, code := P.of op }) := by
  refine ⟨h.keyIn, h.ownN, h.owned, ?_, h.wother, h.wdist, h.nodup, ?_, ?_, ?_, h.kind⟩
  · intro k e he
    rcases h.cover k e he with x | ⟨t0, th0, h0, r⟩
    · left; exact x
    · right
      have : t0 ≠ t := by intro e; subst e; rw [hn] at h0; cases h0
      exact ⟨t0, th0, by simp [setThread, upd, this]; exact h0, r⟩
  · intro t0 th0 h0 hc
    rcases upd_some_cases h0 with ⟨rfl, rfl⟩ | ⟨ne, h0'⟩
    · simp at hc
    · exact h.r1 t0 th0 h0' hc
  · intro t0 th0 h0 hm
    rcases upd_some_cases h0 with ⟨rfl, rfl⟩ | ⟨ne, h0'⟩
    · simp at hm
    · exact h.midP t0 th0 h0' hm
  · intro t0 th0 h0 hm
    rcases upd_some_cases h0 with ⟨rfl, rfl⟩ | ⟨ne, h0'⟩
    · simp at hm
    · exact h.midOwn t0 th0 h0' hm

/-- what a release loop over keys owned by `n` does to the tables -/
theorem rel_facts {P : Progs} {s : State} (h : SvcInv P s) (n : Name) (D : List Svc) (w0 : Svc → List Entry)
    (hw0 : ∀ k, (w0 k).Sublist (s.waiting k)) (hD : ∀ k ∈ D, k ∈ s.svcRoutes n) (hDn : D.Nodup) :
    (∀ k e, ((relLoop D ⟨s.routes, w0, s.svcRoutes⟩).r k = some e ∨ e ∈ (relLoop D ⟨s.routes, w0, s.svcRoutes⟩).w k) →
      (s.routes k = some e ∨ e ∈ s.waiting k)) ∧
    (∀ k c, c ∈ (relLoop D ⟨s.routes, w0, s.svcRoutes⟩).w k →
      ∃ e, (relLoop D ⟨s.routes, w0, s.svcRoutes⟩).r k = some e ∧ e.desc.name ≠ c.desc.name) ∧
    (∀ k, ((relLoop D ⟨s.routes, w0, s.svcRoutes⟩).w k).Sublist (s.waiting k)) ∧
    (∀ m k, m ≠ n → k ∈ (relLoop D ⟨s.routes, w0, s.svcRoutes⟩).v m →
      ∃ e, (relLoop D ⟨s.routes, w0, s.svcRoutes⟩).r k = some e ∧ e.desc.name = m) ∧
    (∀ k e, k ∈ D → (relLoop D ⟨s.routes, w0, s.svcRoutes⟩).r k = some e →
      e.desc.name ≠ n ∧ k ∈ (relLoop D ⟨s.routes, w0, s.svcRoutes⟩).v e.desc.name) ∧
    (∀ k, k ∉ D → (relLoop D ⟨s.routes, w0, s.svcRoutes⟩).r k = s.routes k) ∧
    (∀ m k, k ∈ s.svcRoutes m → k ∈ (relLoop D ⟨s.routes, w0, s.svcRoutes⟩).v m) ∧
    (∀ m, ((relLoop D ⟨s.routes, w0, s.svcRoutes⟩).v m).Nodup) := by
  have hin := fun k (hk : k ∈ D) => relLoop_in (q := ⟨s.routes, w0, s.svcRoutes⟩) hDn hk
  have hout := fun k (hk : k ∉ D) => relLoop_out (q := ⟨s.routes, w0, s.svcRoutes⟩) hk
  have hvm := fun x m => relLoop_v_mem (q := ⟨s.routes, w0, s.svcRoutes⟩) (x := x) (m := m) hDn
  -- a claim on a key of D is never by `n`
  have notn : ∀ k ∈ D, ∀ c ∈ w0 k, c.desc.name ≠ n := by
    intro k hk c hc
    obtain ⟨e, h1, h2⟩ := h.wother k c ((hw0 k).subset hc)
    obtain ⟨e', h3, h4⟩ := h.owned n k (hD k hk)
    rw [h1] at h3; cases h3
    intro x; exact h2 (h4.trans x.symm)
  have distW0 : ∀ k, DistinctNames (w0 k) := fun k => (h.wdist k).sublist (hw0 k)
  refine ⟨?_, ?_, ?_, ?_, ?_, ?_, ?_, ?_⟩
  · intro k e he
    rcases relLoop_entry hDn k e he with x | x
    · left; exact x
    · right; exact (hw0 k).subset x
  · intro k c hc
    by_cases hk : k ∈ D
    · obtain ⟨a, b⟩ := hin k hk
      rw [b] at hc; rw [a]
      cases hw : w0 k with
      | nil => simp only [hw] at hc; cases hc
      | cons x xs =>
        simp only [hw] at hc ⊢
        refine ⟨x, rfl, ?_⟩
        have := distW0 k
        rw [hw, DistinctNames, List.pairwise_cons] at this
        exact this.1 c hc
    · obtain ⟨a, b⟩ := hout k hk
      rw [b] at hc; rw [a]
      exact h.wother k c ((hw0 k).subset hc)
  · intro k
    by_cases hk : k ∈ D
    · rw [(hin k hk).2]; exact (List.tail_sublist _).trans (hw0 k)
    · rw [(hout k hk).2]; exact hw0 k
  · intro m k hm hk
    rcases (hvm k m).1 hk with x | ⟨hkD, c, h1, h2⟩
    · obtain ⟨e, h3, h4⟩ := h.owned m k x
      have : k ∉ D := by
        intro hkD
        obtain ⟨e', h5, h6⟩ := h.owned n k (hD k hkD)
        rw [h3] at h5; cases h5; exact hm (h4.symm.trans h6)
      exact ⟨e, by rw [(hout k this).1]; exact h3, h4⟩
    · exact ⟨c, by rw [(hin k hkD).1]; exact h1, h2⟩
  · intro k e hk he
    rw [(hin k hk).1] at he
    have hc : e ∈ w0 k := List.mem_of_mem_head? he
    exact ⟨notn k hk e hc, (hvm k e.desc.name).2 (Or.inr ⟨hk, e, he, rfl⟩)⟩
  · intro k hk; exact (hout k hk).1
  · intro m k hk; exact (hvm k m).2 (Or.inl hk)
  · refine relLoop_nodup (n := n) h.nodup ?_ hDn notn
    intro x hx m hm hxm
    obtain ⟨e, h1, h2⟩ := h.owned m x hxm
    obtain ⟨e', h3, h4⟩ := h.owned n x (hD x hx)
    rw [h1] at h3; cases h3; exact hm (h2.symm.trans h4)


theorem Astep_r1 {svc : Bool} {a a' : A} {i : Instr} (h : a.step svc i = some a') (hi : i ≠ .sRemove)
    (hs : a.sr = true → a.cl = true) (hc : a'.cl = true) (hr : a'.rr = true ∨ a'.sr = true) :
    (a.cl = true ∧ (a.rr = true ∨ a.sr = true)) ∨ svc = false := by
  cases i <;> simp only [A.step] at h <;> (try split at h) <;> (try cases h) <;>
    (try simp_all [A.tablesClean]) <;> (cases svc <;> simp_all)

theorem skipA_rr (i : Instr) (a : A) : (skipA i a).rr = a.rr := by
  cases i <;> simp only [skipA] <;> (try split) <;> simp_all

theorem svc_step {P : Progs} {s s' : State} {t : Tid} {th : Thread} {i : Instr} {rest : List Instr}
    (hinv : Inv P s) (hfl : ∀ t th, s.threads t = some th → FOK th) (h : SvcInv P s)
    (ht : s.threads t = some th) (hc : th.code = i :: rest) (hs : step P s (.tau t) = some s') : SvcInv P s' := by
  obtain ⟨th', hth, hop, hrel⟩ := step_flags hinv ht hc hs
  have hd : th'.desc = th.desc := by simp [Thread.desc, hop]
  have hw : th'.w = th.w := by simp [Thread.w, hop]
  have hth' : s'.threads t = some th' := by rw [hth]; simp
  have i0 := hinv.th t th ht
  have nomid : th.a.ht = true → ∀ t0 th0, t0 ≠ t → s.threads t0 = some th0 → th0.a.mid = true → False := by
    intro hh t0 th0 ne h0 hm
    have e1 := (hinv.th t0 th0 h0).ht ((hinv.th t0 th0 h0).mid hm)
    have e2 := i0.ht hh
    rw [e1] at e2; cases e2; exact ne rfl
  have hws := step_wset ht hc hs
  -- names of existing watchers never change
  have names : ∀ w n, nameOf s w = some n → nameOf s' w = some n := by
    intro w n hn
    rcases hws with ⟨_, x, _⟩ | ⟨_, _, _, _, x⟩ | ⟨_, _, _, _, _, x⟩
    · rw [x]; exact hn
    · rw [x]
      have : w ≠ s.nextW := by
        intro e; subst e; simp [nameOf, hinv.fresh s.nextW (Nat.le_refl _)] at hn
      simp [this, hn]
    · rw [x]; exact hn
  rcases step_routes ht hc hs with ⟨hr, hv, hwt, hsk3⟩ | ⟨rfl, hsk, hv, hr, hwt, th'', h1, hp⟩ |
      ⟨rfl, hsk, q, hq, hr, hwt, hv⟩ | ⟨rfl, hsk, wt, q, hwat, hq, hr, hv, hwt⟩
  · -- the service tables do not change
    have hflags : th'.a.mid = th.a.mid ∧ th'.present = th.present := by
      rcases hrel with ⟨_, _, ha, hp⟩ | ⟨_, _, ha, hp, _⟩ | ⟨hsk, _, ha, hp⟩
      · exact ⟨by rw [ha]; exact (skipA_flags i th.a).2.2.2.1, hp⟩
      · exact ⟨by rw [ha], hp⟩
      · have n1 : i ≠ .sAdd := fun e => by have := hsk3 (Or.inl e); rw [hsk] at this; cases this
        have n2 : i ≠ .sDel := fun e => by have := hsk3 (Or.inr (Or.inl e)); rw [hsk] at this; cases this
        refine ⟨Astep_mid ha n1 n2, ?_⟩
        rcases hp with hp | hp
        · exact hp
        · exact absurd hp n1
    have r1flag : th'.a.cl = true → (th'.a.rr = true ∨ th'.a.sr = true) →
        (th.a.cl = true ∧ (th.a.rr = true ∨ th.a.sr = true)) ∨ P.svc = false := by
      intro c1 c2
      rcases hrel with ⟨_, _, ha, _⟩ | ⟨_, _, ha, _⟩ | ⟨hsk, _, ha, _⟩
      · left
        obtain ⟨_, _, p3, _, p5, _⟩ := skipA_flags i th.a
        rw [ha, p5] at c1; rw [ha, p3, skipA_rr] at c2; exact ⟨c1, c2⟩
      · left; rw [ha] at c1 c2; exact ⟨c1, c2⟩
      · have n3 : i ≠ .sRemove := fun e => by have := hsk3 (Or.inr (Or.inr e)); rw [hsk] at this; cases this
        exact Astep_r1 ha n3 (hfl t th ht).2.2.1 c1 c2
    refine ⟨?_, ?_, ?_, ?_, ?_, ?_, ?_, ?_, ?_, ?_, ?_⟩
    · intro k e he; rw [hr, hwt] at he; exact h.keyIn k e he
    · intro k e he; rw [hr, hwt] at he; exact names _ _ (h.ownN k e he)
    · intro n k hk; rw [hv] at hk; rw [hr]; exact h.owned n k hk
    · intro k e he
      rw [hr] at he; rw [hv]
      rcases h.cover k e he with x | ⟨t0, th0, h0, m0, d0, p0⟩
      · left; exact x
      · right
        by_cases e0 : t0 = t
        · subst e0; rw [ht] at h0; cases h0
          exact ⟨t0, th', hth', hflags.1 ▸ m0, hd ▸ d0, hflags.2 ▸ p0⟩
        · exact ⟨t0, th0, by rw [hth]; simp [upd, e0]; exact h0, m0, d0, p0⟩
    · intro k c hc'; rw [hwt] at hc'; rw [hr]; exact h.wother k c hc'
    · intro k; rw [hwt]; exact h.wdist k
    · intro n; rw [hv]; exact h.nodup n
    · intro t0 th0 h0 c1 c2 k e he
      rw [hr, hwt] at he
      rw [hth] at h0
      rcases upd_some_cases h0 with ⟨rfl, rfl⟩ | ⟨ne, h0'⟩
      · rw [hw]
        rcases r1flag c1 c2 with ⟨x1, x2⟩ | x
        · exact h.r1 t0 th ht x1 x2 k e he
        · obtain ⟨k1, k2⟩ := h.kind x
          rcases he with he | he
          · rw [k1 k] at he; cases he
          · rw [k2 k] at he; cases he
      · exact h.r1 t0 th0 h0' c1 c2 k e he
    · intro t0 th0 h0 hm
      rw [hth] at h0; rw [hv]
      rcases upd_some_cases h0 with ⟨rfl, rfl⟩ | ⟨ne, h0'⟩
      · rw [hd, hflags.2]; exact h.midP t0 th ht (hflags.1 ▸ hm)
      · exact h.midP t0 th0 h0' hm
    · intro t0 th0 h0 hm
      rw [hth] at h0; rw [hr]
      rcases upd_some_cases h0 with ⟨rfl, rfl⟩ | ⟨ne, h0'⟩
      · rw [hd, hflags.2]; exact h.midOwn t0 th ht (hflags.1 ▸ hm)
      · exact h.midOwn t0 th0 h0' hm
    · intro hsv; rw [hr, hwt]; exact h.kind hsv
  · -- add phase
    rw [hth'] at h1; cases h1
    have ha : th.a.ht = true ∧ th.a.mid = false ∧ th.a.chk = true ∧ th.a.nc = true ∧ P.svc = true ∧
        th'.a = { th.a with mid := true } := by
      rcases hrel with ⟨x, _⟩ | ⟨_, _, _, _, _, hi⟩ | ⟨_, _, ha, _⟩
      · rw [hsk] at x; cases x
      · rcases hi with hi | hi | hi <;> cases hi
      · simp only [A.step] at ha; split at ha
        · rename_i hx; simp only [Bool.and_eq_true, Bool.not_eq_true'] at hx
          exact ⟨hx.1.1.1.1.2, hx.2, hx.1.1.1.2, hx.1.1.2, hx.1.2, (Option.some.inj ha).symm⟩
        · cases ha
    obtain ⟨hht, hmid, hchk, hnc, hsvc, ha⟩ := ha
    have hopen : closedOf s th.w = false := (i0.chk hchk).2
    have hname : nameOf s th.w = some th.desc.name := i0.nc hnc
    -- where the entries of the new tables come from
    have origin : ∀ k e, (s'.routes k = some e ∨ e ∈ s'.waiting k) →
        (s.routes k = some e ∨ e ∈ s.waiting k) ∨ (e = ⟨th.w, th.desc⟩ ∧ k ∈ th.desc.svcs) := by
      intro k e he
      rcases he with he | he
      · rw [hr] at he
        rcases svcAdd_some he with x | ⟨x, hk⟩
        · left; left; exact x
        · right; refine ⟨x, ?_⟩
          rcases svcAdd_sub _ _ _ _ hk with y | y
          · cases y
          · exact y
      · rw [hwt] at he
        rcases svcClaim_mem he with x | ⟨x, hk, _⟩
        · left; right; exact x
        · right; exact ⟨x, hk⟩
    refine ⟨?_, ?_, ?_, ?_, ?_, ?_, ?_, ?_, ?_, ?_, ?_⟩
    · intro k e he
      rcases origin k e he with x | ⟨rfl, x⟩
      · exact h.keyIn k e x
      · exact x
    · intro k e he
      rcases origin k e he with x | ⟨rfl, _⟩
      · exact names _ _ (h.ownN k e x)
      · exact names _ _ hname
    · intro n k hk
      rw [hv] at hk
      obtain ⟨e, h1, h2⟩ := h.owned n k hk
      obtain ⟨e', h3, h4⟩ := svcAdd_keeps_name (ss := P.storeSame) (x := ⟨th.w, th.desc⟩) th.desc.svcs s.routes [] k e h1
      exact ⟨e', by rw [hr]; exact h3, h4.trans h2⟩
    · intro k e he
      rw [hr] at he; rw [hv]
      rcases svcAdd_some he with x | ⟨rfl, hk⟩
      · rcases h.cover k e x with y | ⟨t0, th0, h0, m0, d0, p0⟩
        · left; exact y
        · by_cases e0 : t0 = t
          · subst e0; rw [ht] at h0; cases h0; rw [hmid] at m0; cases m0
          · exact (nomid hht t0 th0 e0 h0 m0).elim
      · right; exact ⟨t, th', hth', by rw [ha], by rw [hd], by rw [hp]; exact hk⟩
    · intro k c hc'
      rw [hwt] at hc'; rw [hr]
      rcases svcClaim_mem hc' with x | ⟨rfl, _, old, ho, hne⟩
      · obtain ⟨e0, h1, h2⟩ := h.wother k c x
        obtain ⟨e', h3, h4⟩ := svcAdd_keeps_name (ss := P.storeSame) (x := ⟨th.w, th.desc⟩) th.desc.svcs s.routes [] k e0 h1
        exact ⟨e', h3, by rw [h4]; exact h2⟩
      · obtain ⟨e', h3, h4⟩ := svcAdd_keeps_name (ss := P.storeSame) (x := ⟨th.w, th.desc⟩) th.desc.svcs s.routes [] k old ho
        exact ⟨e', h3, by rw [h4]; exact hne⟩
    · intro k; rw [hwt]; exact svcClaim_distinct _ h.wdist k
    · intro n; rw [hv]; exact h.nodup n
    · intro t0 th0 h0 c1 c2 k e he
      rw [hth] at h0
      have key : ∀ thx, s.threads t0 = some thx → thx.a.cl = true → (thx.a.rr = true ∨ thx.a.sr = true) → e.owner ≠ thx.w := by
        intro thx hx d1 d2
        rcases origin k e he with x | ⟨rfl, _⟩
        · exact h.r1 t0 thx hx d1 d2 k e x
        · intro e1
          have := (hinv.th t0 thx hx).cl d1
          rw [← e1] at this
          simp only at this; rw [hopen] at this; cases this
      rcases upd_some_cases h0 with ⟨rfl, rfl⟩ | ⟨ne, h0'⟩
      · rw [hw]; rw [ha] at c1 c2; exact key th ht c1 c2
      · exact key th0 h0' c1 c2
    · intro t0 th0 h0 hm k hk hks
      rw [hth] at h0
      rcases upd_some_cases h0 with ⟨rfl, rfl⟩ | ⟨ne, h0'⟩
      · rw [hp]; rw [hv, hd] at hk; rw [hd] at hks
        obtain ⟨e, h1, h2⟩ := h.owned _ k hk
        exact svcAdd_present _ _ _ _ hks ⟨e, h1, h2⟩
      · exact (nomid hht t0 th0 ne h0' hm).elim
    · intro t0 th0 h0 hm k hk
      rw [hth] at h0
      rcases upd_some_cases h0 with ⟨rfl, rfl⟩ | ⟨ne, h0'⟩
      · rw [hp] at hk; rw [hr, hd]
        rcases svcAdd_present_owned _ _ _ _ hk with x | x
        · cases x
        · exact x
      · exact (nomid hht t0 th0 ne h0' hm).elim
    · intro hsv; rw [hsvc] at hsv; cases hsv
  · -- delete phase: drop own unlisted claims, release the dropped keys, record the new key list
    have ha : th.a.ht = true ∧ th.a.mid = true ∧ th'.a = { th.a with mid := false } := by
      rcases hrel with ⟨x, _⟩ | ⟨_, _, _, _, _, hi⟩ | ⟨_, _, ha, _⟩
      · rw [hsk] at x; cases x
      · rcases hi with hi | hi | hi <;> cases hi
      · simp only [A.step] at ha; split at ha
        · rename_i hx; simp only [Bool.and_eq_true] at hx
          exact ⟨hx.1, hx.2, (Option.some.inj ha).symm⟩
        · cases ha
    obtain ⟨hht, hmid, ha⟩ := ha
    have hmid' : th'.a.mid = false := by rw [ha]
    have hw0 : ∀ k, (if th.desc.svcs.contains k then s.waiting k else dropClaim (s.waiting k) th.desc.name).Sublist (s.waiting k) := by
      intro k; split
      · exact List.Sublist.refl _
      · exact dropClaim_sublist _ _
    have hD : ∀ k ∈ (s.svcRoutes th.desc.name).filter (fun k => !th.present.contains k), k ∈ s.svcRoutes th.desc.name :=
      fun k hk => (List.mem_filter.1 hk).1
    have hDn := (h.nodup th.desc.name).filter (fun k => !th.present.contains k)
    obtain ⟨f1, f2, f3, f4, f5, f6, f7, f8⟩ := rel_facts h th.desc.name _ _ hw0 hD hDn
    rw [← hq] at f1 f2 f3 f4 f5 f6 f7 f8
    have inD : ∀ k, k ∈ s.svcRoutes th.desc.name → k ∉ th.present →
        k ∈ (s.svcRoutes th.desc.name).filter (fun k => !th.present.contains k) := by
      intro k h1 h2; exact List.mem_filter.2 ⟨h1, by simpa using h2⟩
    have notD : ∀ k, k ∈ th.present → k ∉ (s.svcRoutes th.desc.name).filter (fun k => !th.present.contains k) := by
      intro k h1 h2; have := (List.mem_filter.1 h2).2; simp [h1] at this
    refine ⟨?_, ?_, ?_, ?_, ?_, ?_, ?_, ?_, ?_, ?_, ?_⟩
    · intro k e he; rw [hr, hwt] at he; exact h.keyIn k e (f1 k e he)
    · intro k e he; rw [hr, hwt] at he; exact names _ _ (h.ownN k e (f1 k e he))
    · intro n k hk
      rw [hv] at hk; rw [hr]
      by_cases e : n = th.desc.name
      · subst e
        simp only [upd_same] at hk
        have hk' := mem_dedup.1 hk
        obtain ⟨e, h1, h2⟩ := h.midOwn t th ht hmid k hk'
        exact ⟨e, by rw [f6 k (notD k hk')]; exact h1, h2⟩
      · rw [upd_other _ _ _ _ e] at hk
        exact f4 n k e hk
    · intro k e he
      rw [hr] at he; rw [hv]
      left
      by_cases hk : k ∈ (s.svcRoutes th.desc.name).filter (fun k => !th.present.contains k)
      · obtain ⟨g1, g2⟩ := f5 k e hk he
        rw [upd_other _ _ _ _ g1]; exact g2
      · rw [f6 k hk] at he
        by_cases hn : e.desc.name = th.desc.name
        · rw [hn]; simp only [upd_same]
          apply mem_dedup.2
          rcases h.cover k e he with x | ⟨t0, th0, h0, m0, d0, p0⟩
          · rw [hn] at x
            cases hx : decide (k ∈ th.present) with
            | true => exact of_decide_eq_true hx
            | false => exact absurd (inD k x (of_decide_eq_false hx)) hk
          · by_cases e0 : t0 = t
            · subst e0; rw [ht] at h0; cases h0; exact p0
            · exact (nomid hht t0 th0 e0 h0 m0).elim
        · rw [upd_other _ _ _ _ hn]
          rcases h.cover k e he with x | ⟨t0, th0, h0, m0, d0, p0⟩
          · exact f7 _ k x
          · by_cases e0 : t0 = t
            · subst e0; rw [ht] at h0; cases h0; exact absurd d0.symm hn
            · exact (nomid hht t0 th0 e0 h0 m0).elim
    · intro k c hc'; rw [hwt] at hc'; rw [hr]; exact f2 k c hc'
    · intro k; rw [hwt]; exact (h.wdist k).sublist (f3 k)
    · intro n
      rw [hv]
      by_cases e : n = th.desc.name
      · subst e; simp only [upd_same]; exact nodup_dedup _
      · rw [upd_other _ _ _ _ e]; exact f8 n
    · intro t0 th0 h0 c1 c2 k e he
      rw [hr, hwt] at he
      rw [hth] at h0
      rcases upd_some_cases h0 with ⟨rfl, rfl⟩ | ⟨ne, h0'⟩
      · rw [hw]; rw [ha] at c1 c2; exact h.r1 t0 th ht c1 c2 k e (f1 k e he)
      · exact h.r1 t0 th0 h0' c1 c2 k e (f1 k e he)
    · intro t0 th0 h0 hm
      rw [hth] at h0
      rcases upd_some_cases h0 with ⟨rfl, rfl⟩ | ⟨ne, h0'⟩
      · rw [hmid'] at hm; cases hm
      · exact (nomid hht t0 th0 ne h0' hm).elim
    · intro t0 th0 h0 hm
      rw [hth] at h0
      rcases upd_some_cases h0 with ⟨rfl, rfl⟩ | ⟨ne, h0'⟩
      · rw [hmid'] at hm; cases hm
      · exact (nomid hht t0 th0 ne h0' hm).elim
    · intro hsv
      obtain ⟨k1, k2⟩ := h.kind hsv
      refine ⟨?_, ?_⟩
      · intro k
        cases hx : s'.routes k with
        | none => rfl
        | some e =>
          rw [hr] at hx
          rcases f1 k e (Or.inl hx) with y | y
          · rw [k1 k] at y; cases y
          · rw [k2 k] at y; cases y
      · intro k
        rw [hwt]
        have := f3 k
        rw [k2 k] at this
        exact List.eq_nil_of_sublist_nil this
  · -- removeTarget: release everything the target owns, forget its key list and its claims
    have ha : th.a.ht = true ∧ th.a.mid = false ∧ th'.a = { th.a with rr := true } := by
      rcases hrel with ⟨x, _⟩ | ⟨_, _, _, _, _, hi⟩ | ⟨_, _, ha, _⟩
      · rw [hsk] at x; cases x
      · rcases hi with hi | hi | hi <;> cases hi
      · simp only [A.step] at ha; split at ha
        · rename_i hx; simp only [Bool.and_eq_true, Bool.not_eq_true'] at hx
          exact ⟨hx.1, hx.2, (Option.some.inj ha).symm⟩
        · cases ha
    obtain ⟨hht, hmid, ha⟩ := ha
    have hmid' : th'.a.mid = false := by rw [ha]; exact hmid
    have hnameW : nameOf s th.w = some wt.name := by simp [nameOf, hwat]
    obtain ⟨f1, f2, f3, f4, f5, f6, f7, f8⟩ := rel_facts h wt.name (s.svcRoutes wt.name) s.waiting
      (fun k => List.Sublist.refl _) (fun k hk => hk) (h.nodup wt.name)
    rw [← hq] at f1 f2 f3 f4 f5 f6 f7 f8
    have noMid : ∀ t0 th0, s.threads t0 = some th0 → th0.a.mid = true → False := by
      intro t0 th0 h0 m0
      by_cases e0 : t0 = t
      · subst e0; rw [ht] at h0; cases h0; rw [hmid] at m0; cases m0
      · exact nomid hht t0 th0 e0 h0 m0
    -- after the loop no route belongs to the closing name any more
    have gone : ∀ k e, q.r k = some e → e.desc.name ≠ wt.name := by
      intro k e he
      by_cases hk : k ∈ s.svcRoutes wt.name
      · exact (f5 k e hk he).1
      · rw [f6 k hk] at he
        intro hn
        rcases h.cover k e he with x | ⟨t0, th0, h0, m0, _⟩
        · rw [hn] at x; exact hk x
        · exact noMid t0 th0 h0 m0
    have origin : ∀ k e, (s'.routes k = some e ∨ e ∈ s'.waiting k) → (s.routes k = some e ∨ e ∈ s.waiting k) := by
      intro k e he
      rw [hr, hwt] at he
      rcases he with he | he
      · exact f1 k e (Or.inl he)
      · exact f1 k e (Or.inr (mem_dropClaim he))
    refine ⟨?_, ?_, ?_, ?_, ?_, ?_, ?_, ?_, ?_, ?_, ?_⟩
    · intro k e he; exact h.keyIn k e (origin k e he)
    · intro k e he; exact names _ _ (h.ownN k e (origin k e he))
    · intro n k hk
      rw [hv] at hk; rw [hr]
      by_cases e : n = wt.name
      · subst e; simp only [upd_same] at hk; cases hk
      · rw [upd_other _ _ _ _ e] at hk; exact f4 n k e hk
    · intro k e he
      rw [hr] at he; rw [hv]
      left
      have hne := gone k e he
      rw [upd_other _ _ _ _ hne]
      by_cases hk : k ∈ s.svcRoutes wt.name
      · exact (f5 k e hk he).2
      · rw [f6 k hk] at he
        rcases h.cover k e he with x | ⟨t0, th0, h0, m0, _⟩
        · exact f7 _ k x
        · exact (noMid t0 th0 h0 m0).elim
    · intro k c hc'
      rw [hwt] at hc'; rw [hr]
      exact f2 k c (mem_dropClaim hc')
    · intro k; rw [hwt]; exact ((h.wdist k).sublist (f3 k)).sublist (dropClaim_sublist _ _)
    · intro n
      rw [hv]
      by_cases e : n = wt.name
      · subst e; simp only [upd_same]; exact List.nodup_nil
      · rw [upd_other _ _ _ _ e]; exact f8 n
    · intro t0 th0 h0 c1 c2 k e he
      rw [hth] at h0
      rcases upd_some_cases h0 with ⟨rfl, rfl⟩ | ⟨ne, h0'⟩
      · rw [hw]
        intro hown
        have hn : e.desc.name = wt.name := by
          have := h.ownN k e (origin k e he)
          rw [hown, hnameW] at this
          exact (Option.some.inj this).symm
        rw [hr, hwt] at he
        rcases he with he | he
        · exact gone k e he hn
        · exact dropClaim_ne ((h.wdist k).sublist (f3 k)) he hn
      · exact h.r1 t0 th0 h0' c1 c2 k e (origin k e he)
    · intro t0 th0 h0 hm
      rw [hth] at h0
      rcases upd_some_cases h0 with ⟨rfl, rfl⟩ | ⟨ne, h0'⟩
      · rw [hmid'] at hm; cases hm
      · exact (noMid t0 th0 h0' hm).elim
    · intro t0 th0 h0 hm
      rw [hth] at h0
      rcases upd_some_cases h0 with ⟨rfl, rfl⟩ | ⟨ne, h0'⟩
      · rw [hmid'] at hm; cases hm
      · exact (noMid t0 th0 h0' hm).elim
    · intro hsv
      obtain ⟨k1, k2⟩ := h.kind hsv
      refine ⟨?_, ?_⟩
      · intro k
        cases hx : s'.routes k with
        | none => rfl
        | some e =>
          rcases origin k e (Or.inl hx) with y | y
          · rw [k1 k] at y; cases y
          · rw [k2 k] at y; cases y
      · intro k
        cases hx : s'.waiting k with
        | nil => rfl
        | cons c cs =>
          rcases origin k c (Or.inr (by rw [hx]; exact List.mem_cons_self)) with y | y
          · rw [k1 k] at y; cases y
          · rw [k2 k] at y; cases y

/-! ### the second invariant -/

structure Inv2 (P : Progs) (s : State) : Prop where
  sync : SyncInv s
  wset : WsetInv s
  svc : SvcInv P s

theorem inv2_reachable {P : Progs} (hP : P.wf = true) (s : State)
    (h : GB.LTS.Reachable (step P) init s) : Inv P s ∧ Inv2 P s := by
  induction h with
  | init => exact ⟨inv_init P, sync_init, wset_init, svc_init P⟩
  | @step s s' l _ hs ih =>
    obtain ⟨i1, i2⟩ := ih
    refine ⟨inv_step hP i1 hs, ?_⟩
    cases l with
    | spawn t op =>
      simp only [step] at hs
      split at hs
      · rename_i hc
        simp only [Bool.and_eq_true, Option.isNone_iff_eq_none] at hc
        cases hs
        exact ⟨sync_spawn op i2.sync hc.1, wset_spawn op i2.wset hc.1, svc_spawn op i2.svc hc.1⟩
      · cases hs
    | tau t =>
      cases hth : s.threads t with
      | none => simp [step, hth] at hs
      | some th =>
        cases hcode : th.code with
        | nil => simp [step, hth, hcode] at hs
        | cons i rest =>
          exact ⟨sync_step i1 i2.sync hth hcode hs, wset_step i1 i2.sync.fl i2.wset hth hcode hs,
            svc_step i1 i2.sync.fl i2.svc hth hcode hs⟩

end GB.C11
