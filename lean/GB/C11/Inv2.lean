import GB.C11.Step
/-
  C11 — second invariant layer: watcherSet tracking (re-watch), snapshot/table synchronisation and the
  service-map bookkeeping needed for the reachable-state no-gap theorems.
  The effect of one statement on each state component is summarised once (`step_*` lemmas, proved by
  exhaustive case analysis of `exec`), the invariant proof then only distinguishes the few statements
  that touch a component.
-/
set_option linter.unusedSimpArgs false
set_option linter.unusedVariables false
namespace GB.C11

/-- flags after a statement executed in skip mode -/
def skipA (i : Instr) (a : A) : A :=
  match i with
  | .unlockW => if a.hw then { a with hw := false, chk := false } else a
  | .unlockT => if a.ht then { a with ht := false } else a
  | _ => a

theorem step_thread {P : Progs} {s s' : State} {t : Tid} {th : Thread} {i : Instr} {rest : List Instr}
    (ht : s.threads t = some th) (hc : th.code = i :: rest) (hs : step P s (.tau t) = some s') :
    ∃ th', s'.threads = upd s.threads t (some th') ∧ th'.op = th.op ∧ th'.code = rest ∧
      ((th.skip = true ∧ th'.skip = true ∧ th'.a = skipA i th.a ∧ th'.present = th.present) ∨
       (th.skip = false ∧ th'.skip = true ∧ th'.a = th.a ∧ th'.present = th.present ∧
          (i = .loadClosed ∨ i = .casClosed ∨ i = .nameCheck)) ∨
       (th.skip = false ∧ th'.skip = false ∧ th'.a = (th.a.step P.svc i).getD th.a ∧
          (th'.present = th.present ∨ i = .sAdd))) := by
  obtain ⟨op, code, skip, a, snap, cr, pres, res⟩ := th
  simp only at hc; subst hc
  simp only [step, ht] at hs
  unfold exec at hs
  cases skip
  · simp only [Bool.false_eq_true, if_false] at hs
    cases i <;> simp only at hs <;> (repeat' split at hs) <;>
      first
      | (cases hs; done)
      | (cases hs; exact ⟨_, rfl, rfl, rfl, Or.inr (Or.inr ⟨rfl, rfl, rfl, Or.inl rfl⟩)⟩)
      | (cases hs; exact ⟨_, rfl, rfl, rfl, Or.inr (Or.inr ⟨rfl, rfl, rfl, Or.inr rfl⟩)⟩)
      | (cases hs; exact ⟨_, rfl, rfl, rfl, Or.inr (Or.inl ⟨rfl, rfl, rfl, rfl, by simp⟩)⟩)
  · simp only [if_true] at hs
    cases i <;> simp only at hs <;> (repeat' split at hs) <;>
      first
      | (cases hs; done)
      | (cases hs; exact ⟨_, rfl, rfl, rfl, Or.inl ⟨rfl, rfl, by simp [skipA, *], rfl⟩⟩)


theorem step_tmu {P : Progs} {s s' : State} {t : Tid} {th : Thread} {i : Instr} {rest : List Instr}
    (ht : s.threads t = some th) (hc : th.code = i :: rest) (hs : step P s (.tau t) = some s') :
    (s'.tmu = s.tmu ∧ (i = .lockT → th.skip = true) ∧ (i = .unlockT → th.a.ht = false)) ∨
      (i = .lockT ∧ th.skip = false ∧ s.tmu = none ∧ s'.tmu = some t) ∨
      (i = .unlockT ∧ th.a.ht = true ∧ s'.tmu = none) := by
  obtain ⟨op, code, skip, a, snap, cr, pres, res⟩ := th
  simp only at hc; subst hc
  simp only [step, ht] at hs
  unfold exec at hs
  cases skip
  · simp only [Bool.false_eq_true, if_false] at hs
    cases i <;> simp only at hs <;> (repeat' split at hs) <;>
      first
      | (cases hs; done)
      | (cases hs; left; exact ⟨rfl, by simp, by simp_all⟩)
      | (cases hs; right; left; exact ⟨rfl, rfl, by simp_all, rfl⟩)
      | (cases hs; right; right; exact ⟨rfl, ‹_›, rfl⟩)
  · simp only [if_true] at hs
    cases i <;> simp only at hs <;> (repeat' split at hs) <;>
      first
      | (cases hs; done)
      | (cases hs; left; exact ⟨rfl, by simp, by simp_all⟩)
      | (cases hs; right; right; exact ⟨rfl, ‹_›, rfl⟩)

theorem step_mtab {P : Progs} {s s' : State} {t : Tid} {th : Thread} {i : Instr} {rest : List Instr}
    (ht : s.threads t = some th) (hc : th.code = i :: rest) (hs : step P s (.tau t) = some s') :
    (s'.mtab = s.mtab ∧ (i = .pAdd → th.skip = true) ∧ (i = .pRemove → th.skip = true)) ∨
      (i = .pAdd ∧ th.skip = false ∧ s'.mtab = tblAdd ⟨th.w, th.desc⟩ s.mtab) ∨
      (i = .pRemove ∧ th.skip = false) := by
  obtain ⟨op, code, skip, a, snap, cr, pres, res⟩ := th
  simp only at hc; subst hc
  simp only [step, ht] at hs
  unfold exec at hs
  cases skip
  · simp only [Bool.false_eq_true, if_false] at hs
    cases i <;> simp only at hs <;> (repeat' split at hs) <;>
      first
      | (cases hs; done)
      | (cases hs; left; exact ⟨rfl, by simp, by simp⟩)
      | (cases hs; right; left; exact ⟨rfl, rfl, rfl⟩)
      | (cases hs; right; right; exact ⟨rfl, rfl⟩)
  · simp only [if_true] at hs
    cases i <;> simp only at hs <;> (repeat' split at hs) <;>
      first
      | (cases hs; done)
      | (cases hs; left; exact ⟨rfl, by simp, by simp⟩)

theorem step_static {P : Progs} {s s' : State} {t : Tid} {th : Thread} {i : Instr} {rest : List Instr}
    (ht : s.threads t = some th) (hc : th.code = i :: rest) (hs : step P s (.tau t) = some s') :
    (s'.static = s.static ∧ (i = .pStore → th.skip = true)) ∨ (i = .pStore ∧ th.skip = false ∧ s'.static = s.mtab) := by
  obtain ⟨op, code, skip, a, snap, cr, pres, res⟩ := th
  simp only at hc; subst hc
  simp only [step, ht] at hs
  unfold exec at hs
  cases skip
  · simp only [Bool.false_eq_true, if_false] at hs
    cases i <;> simp only at hs <;> (repeat' split at hs) <;>
      first
      | (cases hs; done)
      | (cases hs; left; exact ⟨rfl, by simp⟩)
      | (cases hs; right; exact ⟨rfl, rfl, rfl⟩)
  · simp only [if_true] at hs
    cases i <;> simp only at hs <;> (repeat' split at hs) <;>
      first
      | (cases hs; done)
      | (cases hs; left; exact ⟨rfl, by simp⟩)

theorem step_routes {P : Progs} {s s' : State} {t : Tid} {th : Thread} {i : Instr} {rest : List Instr}
    (ht : s.threads t = some th) (hc : th.code = i :: rest) (hs : step P s (.tau t) = some s') :
    (s'.routes = s.routes ∧ s'.svcRoutes = s.svcRoutes ∧ (i = .sAdd ∨ i = .sDel ∨ i = .sRemove → th.skip = true)) ∨
    (i = .sAdd ∧ th.skip = false ∧ s'.svcRoutes = s.svcRoutes ∧
      s'.routes = (svcAdd P.storeSame ⟨th.w, th.desc⟩ th.desc.svcs s.routes []).1 ∧
      ∃ th', s'.threads t = some th' ∧ th'.present = (svcAdd P.storeSame ⟨th.w, th.desc⟩ th.desc.svcs s.routes []).2) ∨
    (i = .sDel ∧ th.skip = false ∧
      s'.routes = svcDelete ((s.svcRoutes th.desc.name).filter (fun k => !th.present.contains k)) s.routes ∧
      s'.svcRoutes = upd s.svcRoutes th.desc.name th.present) ∨
    (i = .sRemove ∧ th.skip = false ∧ ∃ wt, s.watchers th.w = some wt ∧
      s'.routes = svcDelete (s.svcRoutes wt.name) s.routes ∧ s'.svcRoutes = upd s.svcRoutes wt.name []) := by
  obtain ⟨op, code, skip, a, snap, cr, pres, res⟩ := th
  simp only at hc; subst hc
  simp only [step, ht] at hs
  unfold exec at hs
  cases skip
  · simp only [Bool.false_eq_true, if_false] at hs
    cases i <;> simp only at hs <;> (repeat' split at hs) <;>
      first
      | (cases hs; done)
      | (cases hs; left; exact ⟨rfl, rfl, by simp⟩)
      | (cases hs; right; left; exact ⟨rfl, rfl, rfl, rfl, _, upd_same _ _ _, rfl⟩)
      | (cases hs; right; right; left; exact ⟨rfl, rfl, rfl, rfl⟩)
      | (cases hs; right; right; right; exact ⟨rfl, rfl, _, ‹_›, rfl, rfl⟩)
  · simp only [if_true] at hs
    cases i <;> simp only at hs <;> (repeat' split at hs) <;>
      first
      | (cases hs; done)
      | (cases hs; left; exact ⟨rfl, rfl, by simp⟩)


theorem step_wset {P : Progs} {s s' : State} {t : Tid} {th : Thread} {i : Instr} {rest : List Instr}
    (ht : s.threads t = some th) (hc : th.code = i :: rest) (hs : step P s (.tau t) = some s') :
    (s'.wset = s.wset ∧ (∀ w, nameOf s' w = nameOf s w) ∧ (i = .setRemove → th.skip = true)) ∨
    (i = .setAdd ∧ th.skip = false ∧ th.key ∉ s.wset ∧ s'.wset = th.key :: s.wset ∧
      ∀ w, nameOf s' w = if w = s.nextW then some th.key else nameOf s w) ∨
    (i = .setRemove ∧ th.skip = false ∧ ∃ wt, s.watchers th.w = some wt ∧
      s'.wset = s.wset.filter (fun n => n ≠ wt.name) ∧ ∀ w, nameOf s' w = nameOf s w) := by
  obtain ⟨op, code, skip, a, snap, cr, pres, res⟩ := th
  simp only at hc; subst hc
  simp only [step, ht] at hs
  unfold exec at hs
  cases skip
  · simp only [Bool.false_eq_true, if_false] at hs
    cases i <;> simp only at hs <;> (repeat' split at hs) <;>
      first
      | (cases hs; done)
      | (cases hs; left; exact ⟨rfl, fun _ => rfl, by simp⟩)
      | (cases hs; left; refine ⟨rfl, ?_, by simp⟩; intro w; simp only [nameOf, setThread, upd]; split <;> simp_all)
      | (cases hs; right; left; refine ⟨rfl, rfl, by simp_all [Thread.key], rfl, ?_⟩; intro w; simp only [nameOf, setThread, upd]; split <;> simp_all [Thread.key])
      | (cases hs; right; right; exact ⟨rfl, rfl, _, ‹_›, rfl, fun _ => rfl⟩)
  · simp only [if_true] at hs
    cases i <;> simp only at hs <;> (repeat' split at hs) <;>
      first
      | (cases hs; done)
      | (cases hs; left; exact ⟨rfl, fun _ => rfl, by simp⟩)
      | (cases hs; left; refine ⟨rfl, ?_, by simp⟩; intro w; simp only [nameOf, setThread, upd]; split <;> simp_all)


/-! ### how one statement changes the control flags -/

macro "astep_cases" i:ident h:ident : tactic =>
  `(tactic| (cases $i:ident <;> simp only [A.step] at $h:ident <;> (try split at $h:ident) <;> (try cases $h:ident) <;> simp_all))

theorem Astep_ht {svc : Bool} {a a' : A} {i : Instr} (h : a.step svc i = some a') (h1 : i ≠ .lockT) (h2 : i ≠ .unlockT) :
    a'.ht = a.ht := by astep_cases i h
theorem Astep_pa {svc : Bool} {a a' : A} {i : Instr} (h : a.step svc i = some a') (h1 : i ≠ .pAdd) (h2 : i ≠ .pStore) :
    a'.pa = a.pa := by astep_cases i h
theorem Astep_pr {svc : Bool} {a a' : A} {i : Instr} (h : a.step svc i = some a') (h1 : i ≠ .pRemove) (h2 : i ≠ .pStore) :
    a'.pr = a.pr := by astep_cases i h
theorem Astep_sr {svc : Bool} {a a' : A} {i : Instr} (h : a.step svc i = some a') (h1 : i ≠ .setRemove) :
    a'.sr = a.sr := by astep_cases i h
theorem Astep_mid {svc : Bool} {a a' : A} {i : Instr} (h : a.step svc i = some a') (h1 : i ≠ .sAdd) (h2 : i ≠ .sDel) :
    a'.mid = a.mid := by astep_cases i h
theorem Astep_sr_mono {svc : Bool} {a a' : A} {i : Instr} (h : a.step svc i = some a') (h1 : a.sr = true) :
    a'.sr = true := by astep_cases i h

theorem skipA_flags (i : Instr) (a : A) :
    (skipA i a).pa = a.pa ∧ (skipA i a).pr = a.pr ∧ (skipA i a).sr = a.sr ∧ (skipA i a).mid = a.mid ∧
    (skipA i a).cl = a.cl ∧ ((skipA i a).ht = true → a.ht = true) ∧ (i ≠ .unlockT → (skipA i a).ht = a.ht) := by
  cases i <;> simp only [skipA] <;> (try split) <;> simp_all

/-- flag-only facts about one thread -/
def FOK (th : Thread) : Prop :=
  (th.a.pa = true → th.a.ht = true) ∧ (th.a.pr = true → th.a.ht = true ∧ th.a.cl = true) ∧
  (th.a.sr = true → th.a.cl = true) ∧ (th.skip = true → th.a.pa = false ∧ th.a.pr = false) ∧
  (th.a.pa = true → th.a.pr = false)

theorem Astep_FOK {svc : Bool} {a a' : A} {i : Instr} (h : a.step svc i = some a')
    (f1 : a.pa = true → a.ht = true) (f2 : a.pr = true → a.ht = true ∧ a.cl = true) (f3 : a.sr = true → a.cl = true)
    (f5 : a.pa = true → a.pr = false) :
    (a'.pa = true → a'.ht = true) ∧ (a'.pr = true → a'.ht = true ∧ a'.cl = true) ∧ (a'.sr = true → a'.cl = true) ∧
    (a'.pa = true → a'.pr = false) := by
  cases i <;> simp only [A.step] at h <;> (try split at h) <;> (try cases h) <;>
    simp_all [A.quiet]

/-- the stepping thread after the step -/
theorem step_flags {P : Progs} {s s' : State} {t : Tid} {th : Thread} {i : Instr} {rest : List Instr} (hinv : Inv P s)
    (ht : s.threads t = some th) (hc : th.code = i :: rest) (hs : step P s (.tau t) = some s') :
    ∃ th', s'.threads = upd s.threads t (some th') ∧ th'.op = th.op ∧
      ((th.skip = true ∧ th'.skip = true ∧ th'.a = skipA i th.a ∧ th'.present = th.present) ∨
       (th.skip = false ∧ th'.skip = true ∧ th'.a = th.a ∧ th'.present = th.present ∧ th.a.quiet = true ∧
          (i = .loadClosed ∨ i = .casClosed ∨ i = .nameCheck)) ∨
       (th.skip = false ∧ th'.skip = false ∧ th.a.step P.svc i = some th'.a ∧ (th'.present = th.present ∨ i = .sAdd))) := by
  obtain ⟨th', h1, h2, _, h4⟩ := step_thread ht hc hs
  refine ⟨th', h1, h2, ?_⟩
  rcases h4 with h4 | ⟨hsk, h5, h6, h7, h8⟩ | ⟨hsk, h5, h6, h7⟩
  · left; exact h4
  · right; left
    have hwf := (hinv.th t th ht).wf hsk
    rw [hc] at hwf; simp only [wfCode] at hwf
    refine ⟨hsk, h5, h6, h7, ?_, h8⟩
    rcases h8 with rfl | rfl | rfl <;>
      (simp only [A.step] at hwf; split at hwf <;> simp_all)
  · right; right
    have hwf := (hinv.th t th ht).wf hsk
    rw [hc] at hwf; simp only [wfCode] at hwf
    cases hst : th.a.step P.svc i with
    | none => simp [hst] at hwf
    | some a' => rw [hst] at h6; exact ⟨hsk, h5, by simpa using h6.symm, h7⟩


/-! ### more about the add phase -/

theorem svcAdd_sub {ss : Bool} {x : Entry} (l : List Svc) (r : Svc → Option Entry) (pres : List Svc) (k : Svc)
    (h : k ∈ (svcAdd ss x l r pres).2) : k ∈ pres ∨ k ∈ l := by
  induction l generalizing r pres with
  | nil => left; simpa [svcAdd] using h
  | cons y ys ih =>
    simp only [svcAdd] at h
    split at h
    · rcases ih _ _ h with h1 | h1
      · rcases List.mem_append.1 h1 with h2 | h2
        · left; exact h2
        · right; simp at h2; simp [h2]
      · right; exact List.mem_cons_of_mem _ h1
    · split at h
      · rcases ih _ _ h with h1 | h1
        · rcases List.mem_append.1 h1 with h2 | h2
          · left; exact h2
          · right; simp at h2; simp [h2]
        · right; exact List.mem_cons_of_mem _ h1
      · rcases ih _ _ h with h1 | h1
        · left; exact h1
        · right; exact List.mem_cons_of_mem _ h1

theorem svcAdd_keeps_name {ss : Bool} {x : Entry} (l : List Svc) (r : Svc → Option Entry) (pres : List Svc) (k : Svc)
    (e : Entry) (h : r k = some e) : ∃ e', (svcAdd ss x l r pres).1 k = some e' ∧ e'.desc.name = e.desc.name := by
  induction l generalizing r pres e with
  | nil => exact ⟨e, by simpa [svcAdd] using h, rfl⟩
  | cons y ys ih =>
    simp only [svcAdd]
    split
    · rename_i hn
      have : k ≠ y := by intro e1; subst e1; rw [hn] at h; cases h
      exact ih _ _ e (by simp [upd, this, h])
    · rename_i old ho
      by_cases hnm : old.desc.name = x.desc.name
      · simp only [hnm, if_true]
        by_cases hk : k = y
        · subst hk
          have he : old = e := by rw [ho] at h; exact Option.some.inj h
          have hnm' : e.desc.name = x.desc.name := he ▸ hnm
          cases ss
          · exact ih _ _ e (by simpa using h)
          · obtain ⟨e', h1, h2⟩ := ih (upd r k (some x)) (pres ++ [k]) x (by simp)
            exact ⟨e', by simpa using h1, h2.trans hnm'.symm⟩
        · cases ss
          · exact ih _ _ e (by simpa using h)
          · exact ih _ _ e (by simp [upd, hk, h])
      · simp only [hnm, if_false]
        exact ih _ _ e h

/-- every key marked present is, after the add phase, routed to a target of the updating name -/
theorem svcAdd_present_owned {ss : Bool} {x : Entry} (l : List Svc) (r : Svc → Option Entry) (pres : List Svc) (k : Svc)
    (h : k ∈ (svcAdd ss x l r pres).2) :
    k ∈ pres ∨ ∃ e, (svcAdd ss x l r pres).1 k = some e ∧ e.desc.name = x.desc.name := by
  induction l generalizing r pres with
  | nil => left; simpa [svcAdd] using h
  | cons y ys ih =>
    simp only [svcAdd] at h ⊢
    split
    · rename_i hn
      simp only [hn] at h
      rcases ih _ _ h with h1 | h1
      · rcases List.mem_append.1 h1 with h2 | h2
        · left; exact h2
        · right
          simp at h2; subst h2
          obtain ⟨e', h3, h4⟩ := svcAdd_keeps_name (ss := ss) (x := x) ys (upd r k (some x)) (pres ++ [k]) k x (by simp)
          exact ⟨e', h3, h4⟩
      · right; exact h1
    · rename_i old ho
      simp only [ho] at h
      by_cases hnm : old.desc.name = x.desc.name
      · simp only [hnm, if_true] at h ⊢
        rcases ih _ _ h with h1 | h1
        · rcases List.mem_append.1 h1 with h2 | h2
          · left; exact h2
          · right
            simp at h2; subst h2
            cases ss
            · obtain ⟨e', h3, h4⟩ := svcAdd_keeps_name (ss := false) (x := x) ys r (pres ++ [k]) k old ho
              exact ⟨e', by simpa using h3, h4.trans hnm⟩
            · obtain ⟨e', h3, h4⟩ := svcAdd_keeps_name (ss := true) (x := x) ys (upd r k (some x)) (pres ++ [k]) k x (by simp)
              exact ⟨e', by simpa using h3, h4⟩
        · right; exact h1
      · simp only [hnm, if_false] at h ⊢
        exact ih _ _ h


/-! ### snapshot / mutable-table synchronisation -/

structure SyncInv (s : State) : Prop where
  fl : ∀ t th, s.threads t = some th → FOK th
  holder : ∀ t, s.tmu = some t → ∃ th, s.threads t = some th ∧ th.a.ht = true
  free : s.tmu = none → s.static = s.mtab
  held : ∀ t th, s.threads t = some th → th.a.ht = true →
    (th.a.pa = false → th.a.pr = false → s.static = s.mtab) ∧
    (th.a.pa = true → s.mtab = tblAdd ⟨th.w, th.desc⟩ s.static)

theorem sync_init : SyncInv init := by
  constructor <;> simp [init]

theorem sync_spawn {P : Progs} {s : State} {t : Tid} (op : Op) (h : SyncInv s) (hn : s.threads t = none) :
    SyncInv (setThread s t { op := op, code := P.of op }) := by
  have hne : ∀ t0 th0, s.threads t0 = some th0 → t0 ≠ t := by
    intro t0 th0 h0 e; subst e; rw [hn] at h0; cases h0
  refine ⟨?_, ?_, h.free, ?_⟩
  · intro t0 th0 h0
    rcases upd_some_cases h0 with ⟨rfl, rfl⟩ | ⟨ne, h0'⟩
    · simp [FOK]
    · exact h.fl t0 th0 h0'
  · intro t0 h0
    obtain ⟨th0, h1, h2⟩ := h.holder t0 h0
    exact ⟨th0, by simp [setThread, upd, hne t0 th0 h1]; exact h1, h2⟩
  · intro t0 th0 h0 hh
    rcases upd_some_cases h0 with ⟨rfl, rfl⟩ | ⟨ne, h0'⟩
    · simp at hh
    · exact h.held t0 th0 h0' hh

/-- generic step: thread `t` becomes `th'`, the three components are replaced -/
theorem sync_update {s s' : State} {t : Tid} {th th' : Thread} (h : SyncInv s)
    (ht : s.threads t = some th) (hth : s'.threads = upd s.threads t (some th')) (hop : th'.op = th.op)
    (hfok : FOK th')
    (htmu : ∀ t0, s'.tmu = some t0 → (t0 = t ∧ th'.a.ht = true) ∨ (t0 ≠ t ∧ s.tmu = some t0))
    (hfree : s'.tmu = none → s'.static = s'.mtab)
    (hself : th'.a.ht = true →
      (th'.a.pa = false → th'.a.pr = false → s'.static = s'.mtab) ∧
      (th'.a.pa = true → s'.mtab = tblAdd ⟨th.w, th.desc⟩ s'.static))
    (hoth : ∀ t0 th0, t0 ≠ t → s.threads t0 = some th0 → th0.a.ht = true → s'.static = s.static ∧ s'.mtab = s.mtab) :
    SyncInv s' := by
  have hw : th'.w = th.w := by simp [Thread.w, hop]
  have hd : th'.desc = th.desc := by simp [Thread.desc, hop]
  refine ⟨?_, ?_, hfree, ?_⟩
  · intro t0 th0 h0
    rw [hth] at h0
    rcases upd_some_cases h0 with ⟨rfl, rfl⟩ | ⟨ne, h0'⟩
    · exact hfok
    · exact h.fl t0 th0 h0'
  · intro t0 h0
    rcases htmu t0 h0 with ⟨rfl, h1⟩ | ⟨ne, h1⟩
    · exact ⟨th', by rw [hth]; simp, h1⟩
    · obtain ⟨th0, h2, h3⟩ := h.holder t0 h1
      exact ⟨th0, by rw [hth]; simp [upd, ne]; exact h2, h3⟩
  · intro t0 th0 h0 hh
    rw [hth] at h0
    rcases upd_some_cases h0 with ⟨rfl, rfl⟩ | ⟨ne, h0'⟩
    · rw [hw, hd]; exact hself hh
    · obtain ⟨e1, e2⟩ := hoth t0 th0 ne h0' hh
      rw [e1, e2]; exact h.held t0 th0 h0' hh

theorem sync_step {P : Progs} {s s' : State} {t : Tid} {th : Thread} {i : Instr} {rest : List Instr}
    (hinv : Inv P s) (h : SyncInv s)
    (ht : s.threads t = some th) (hc : th.code = i :: rest) (hs : step P s (.tau t) = some s') : SyncInv s' := by
  obtain ⟨th', hth, hop, hrel⟩ := step_flags hinv ht hc hs
  have fok := h.fl t th ht
  have htm := step_tmu ht hc hs
  have hmt := step_mtab ht hc hs
  have hst := step_static ht hc hs
  -- the table mutex has at most one holder
  have uniq : ∀ t0 th0, t0 ≠ t → s.threads t0 = some th0 → th0.a.ht = true → th.a.ht = false := by
    intro t0 th0 ne h0 hh
    cases hx : th.a.ht with
    | false => rfl
    | true =>
      have e1 := (hinv.th t0 th0 h0).ht hh
      have e2 := (hinv.th t th ht).ht hx
      rw [e1] at e2; cases e2; exact absurd rfl ne
  have tmuT : th.a.ht = true → s.tmu = some t := (hinv.th t th ht).ht
  obtain ⟨f1, f2, f3, f4, f5⟩ := fok
  rcases hrel with ⟨hsk, hsk', ha, _⟩ | ⟨hsk, hsk', ha, _, hq, hi⟩ | ⟨hsk, hsk', ha, _⟩
  · -- skip mode: only a deferred unlockT matters
    obtain ⟨p1, p2, p3, p4, p5, p6, p7⟩ := skipA_flags i th.a
    obtain ⟨npa, npr⟩ := f4 hsk
    have hmt' : s'.mtab = s.mtab := by rcases hmt with x | x | x <;> simp_all
    have hst' : s'.static = s.static := by rcases hst with x | x <;> simp_all
    have fok' : FOK th' := by
      refine ⟨?_, ?_, ?_, ?_, ?_⟩ <;> simp_all
    by_cases hu : i = .unlockT ∧ th.a.ht = true
    · obtain ⟨rfl, hht⟩ := hu
      have htm' : s'.tmu = none := by rcases htm with x | x | x <;> simp_all
      have hht' : th'.a.ht = false := by rw [ha]; simp [skipA, hht]
      refine sync_update h ht hth hop fok' ?_ ?_ ?_ ?_
      · intro t0 h0; rw [htm'] at h0; cases h0
      · intro _; rw [hmt', hst']; exact (h.held t th ht hht).1 npa npr
      · intro hh; rw [hht'] at hh; cases hh
      · intro t0 th0 ne h0 hh; have := uniq t0 th0 ne h0 hh; rw [hht] at this; cases this
    · have hhtS : th'.a.ht = th.a.ht := by
        rw [ha]
        by_cases hi : i = .unlockT
        · subst hi
          have : th.a.ht = false := by
            cases hx : th.a.ht with
            | false => rfl
            | true => exact absurd ⟨rfl, hx⟩ hu
          simp [skipA, this]
        · exact p7 hi
      have htm' : s'.tmu = s.tmu := by
        rcases htm with x | x | x
        · exact x.1
        · simp_all
        · exact absurd ⟨x.1, x.2.1⟩ hu
      refine sync_update h ht hth hop fok' ?_ ?_ ?_ ?_
      · intro t0 h0; rw [htm'] at h0
        by_cases e : t0 = t
        · left; subst e
          obtain ⟨th0, h1, h2⟩ := h.holder t0 h0
          rw [ht] at h1; cases h1; exact ⟨rfl, hhtS ▸ h2⟩
        · right; exact ⟨e, h0⟩
      · intro h0; rw [hmt', hst']; exact h.free (htm' ▸ h0)
      · intro hh; rw [hmt', hst']
        have := h.held t th ht (hhtS ▸ hh)
        rw [ha, p1, p2]; exact this
      · intro _ _ _ _ _; exact ⟨hst', hmt'⟩
  · -- early return: nothing but the skip flag changes
    have q : th.a.mid = false ∧ th.a.pa = false ∧ th.a.pr = false := by
      simp only [A.quiet, Bool.and_eq_true, Bool.not_eq_true'] at hq; exact ⟨hq.1.1, hq.1.2, hq.2⟩
    have hmt' : s'.mtab = s.mtab := by rcases hmt with x | x | x <;> rcases hi with rfl | rfl | rfl <;> simp_all
    have hst' : s'.static = s.static := by rcases hst with x | x <;> rcases hi with rfl | rfl | rfl <;> simp_all
    have htm' : s'.tmu = s.tmu := by rcases htm with x | x | x <;> rcases hi with rfl | rfl | rfl <;> simp_all
    have fok' : FOK th' := by
      refine ⟨?_, ?_, ?_, ?_, ?_⟩ <;> simp_all
    refine sync_update h ht hth hop fok' ?_ ?_ ?_ ?_
    · intro t0 h0; rw [htm'] at h0
      by_cases e : t0 = t
      · left; subst e
        obtain ⟨th0, h1, h2⟩ := h.holder t0 h0
        rw [ht] at h1; cases h1; exact ⟨rfl, by rw [ha]; exact h2⟩
      · right; exact ⟨e, h0⟩
    · intro h0; rw [hmt', hst']; exact h.free (htm' ▸ h0)
    · intro hh; rw [hmt', hst', ha]; exact h.held t th ht (ha ▸ hh)
    · intro _ _ _ _ _; exact ⟨hst', hmt'⟩
  · -- a statement executed normally
    have fok4 := Astep_FOK ha f1 f2 f3 f5
    have fok' : FOK th' := ⟨fok4.1, fok4.2.1, fok4.2.2.1, by simp [hsk'], fok4.2.2.2⟩
    by_cases hL : i = .lockT
    · subst hL
      have e1 : s.tmu = none ∧ s'.tmu = some t := by rcases htm with x | x | x <;> simp_all
      have hmt' : s'.mtab = s.mtab := by rcases hmt with x | x | x <;> simp_all
      have hst' : s'.static = s.static := by rcases hst with x | x <;> simp_all
      have ha' : th.a.ht = false ∧ th'.a = { th.a with ht := true } := by
        simp only [A.step] at ha; split at ha
        · cases ha
        · rename_i hx; exact ⟨by simpa using hx, (Option.some.inj ha).symm⟩
      refine sync_update h ht hth hop fok' ?_ ?_ ?_ ?_
      · intro t0 h0; rw [e1.2] at h0; cases h0; left; exact ⟨rfl, by rw [ha'.2]⟩
      · intro h0; rw [e1.2] at h0; cases h0
      · intro _; rw [hmt', hst', ha'.2]
        have npa : th.a.pa = false := by
          cases hx : th.a.pa with
          | false => rfl
          | true => have := f1 hx; rw [ha'.1] at this; cases this
        have npr : th.a.pr = false := by
          cases hx : th.a.pr with
          | false => rfl
          | true => have := (f2 hx).1; rw [ha'.1] at this; cases this
        exact ⟨fun _ _ => h.free e1.1, fun x => by simp [npa] at x⟩
      · intro t0 th0 _ h0 hh
        have := (hinv.th t0 th0 h0).ht hh; rw [e1.1] at this; cases this
    · by_cases hU : i = .unlockT
      · subst hU
        have ha' : th.a.ht = true ∧ th.a.quiet = true ∧ th'.a = { th.a with ht := false } := by
          simp only [A.step] at ha; split at ha
          · rename_i hx; simp only [Bool.and_eq_true] at hx; exact ⟨hx.1, hx.2, (Option.some.inj ha).symm⟩
          · cases ha
        obtain ⟨hht, hq, ha'⟩ := ha'
        have q : th.a.pa = false ∧ th.a.pr = false := by
          simp only [A.quiet, Bool.and_eq_true, Bool.not_eq_true'] at hq; exact ⟨hq.1.2, hq.2⟩
        have htm' : s'.tmu = none := by rcases htm with x | x | x <;> simp_all
        have hmt' : s'.mtab = s.mtab := by rcases hmt with x | x | x <;> simp_all
        have hst' : s'.static = s.static := by rcases hst with x | x <;> simp_all
        refine sync_update h ht hth hop fok' ?_ ?_ ?_ ?_
        · intro t0 h0; rw [htm'] at h0; cases h0
        · intro _; rw [hmt', hst']; exact (h.held t th ht hht).1 q.1 q.2
        · intro hh; rw [ha'] at hh; simp at hh
        · intro t0 th0 ne h0 hh; have := uniq t0 th0 ne h0 hh; rw [hht] at this; cases this
      · have htm' : s'.tmu = s.tmu := by rcases htm with x | x | x <;> simp_all
        have hhtS : th'.a.ht = th.a.ht := Astep_ht ha hL hU
        have tmuCase : ∀ t0, s'.tmu = some t0 → (t0 = t ∧ th'.a.ht = true) ∨ (t0 ≠ t ∧ s.tmu = some t0) := by
          intro t0 h0; rw [htm'] at h0
          by_cases e : t0 = t
          · left; subst e
            obtain ⟨th0, h1, h2⟩ := h.holder t0 h0
            rw [ht] at h1; cases h1; exact ⟨rfl, hhtS ▸ h2⟩
          · right; exact ⟨e, h0⟩
        by_cases hA : i = .pAdd
        · subst hA
          have ha' : th.a.ht = true ∧ th.a.pa = false ∧ th.a.pr = false ∧ th'.a = { th.a with pa := true } := by
            simp only [A.step] at ha; split at ha
            · rename_i hx; simp only [Bool.and_eq_true, Bool.not_eq_true'] at hx
              exact ⟨hx.1.1.1.1.1.2, hx.1.2, hx.2, (Option.some.inj ha).symm⟩
            · cases ha
          obtain ⟨hht, npa, npr, ha'⟩ := ha'
          have hmt' : s'.mtab = tblAdd ⟨th.w, th.desc⟩ s.mtab := by rcases hmt with x | x | x <;> simp_all
          have hst' : s'.static = s.static := by rcases hst with x | x <;> simp_all
          refine sync_update h ht hth hop fok' tmuCase ?_ ?_ ?_
          · intro h0; rw [htm', tmuT hht] at h0; cases h0
          · intro _; rw [ha']; refine ⟨fun x => by simp at x, fun _ => ?_⟩
            rw [hmt', hst', (h.held t th ht hht).1 npa npr]
          · intro t0 th0 ne h0 hh; have := uniq t0 th0 ne h0 hh; rw [hht] at this; cases this
        · by_cases hR : i = .pRemove
          · subst hR
            have ha' : th.a.ht = true ∧ th.a.pa = false ∧ th'.a = { th.a with rm := true, pr := true } := by
              simp only [A.step] at ha; split at ha
              · rename_i hx; simp only [Bool.and_eq_true, Bool.not_eq_true'] at hx
                exact ⟨hx.1.1.1, hx.1.2, (Option.some.inj ha).symm⟩
              · cases ha
            obtain ⟨hht, npa, ha'⟩ := ha'
            refine sync_update h ht hth hop fok' tmuCase ?_ ?_ ?_
            · intro h0; rw [htm', tmuT hht] at h0; cases h0
            · intro _; rw [ha']; exact ⟨fun _ x => by simp at x, fun x => by simp [npa] at x⟩
            · intro t0 th0 ne h0 hh; have := uniq t0 th0 ne h0 hh; rw [hht] at this; cases this
          · by_cases hS : i = .pStore
            · subst hS
              have ha' : th.a.ht = true ∧ th'.a = { th.a with rs := th.a.rm, pa := false, pr := false } := by
                simp only [A.step] at ha; split at ha
                · rename_i hx; exact ⟨hx, (Option.some.inj ha).symm⟩
                · cases ha
              obtain ⟨hht, ha'⟩ := ha'
              have hmt' : s'.mtab = s.mtab := by rcases hmt with x | x | x <;> simp_all
              have hst' : s'.static = s.mtab := by rcases hst with x | x <;> simp_all
              refine sync_update h ht hth hop fok' tmuCase ?_ ?_ ?_
              · intro h0; rw [htm', tmuT hht] at h0; cases h0
              · intro _; rw [ha', hmt', hst']; exact ⟨fun _ _ => rfl, fun x => by simp at x⟩
              · intro t0 th0 ne h0 hh; have := uniq t0 th0 ne h0 hh; rw [hht] at this; cases this
            · have hmt' : s'.mtab = s.mtab := by rcases hmt with x | x | x <;> simp_all
              have hst' : s'.static = s.static := by rcases hst with x | x <;> simp_all
              have epa := Astep_pa ha hA hS
              have epr := Astep_pr ha hR hS
              refine sync_update h ht hth hop fok' tmuCase ?_ ?_ ?_
              · intro h0; rw [hmt', hst']; exact h.free (htm' ▸ h0)
              · intro hh; rw [hmt', hst', epa, epr]; exact h.held t th ht (hhtS ▸ hh)
              · intro _ _ _ _ _; exact ⟨hst', hmt'⟩

end GB.C11
