import GB.C11.Step
/-
  C11 — second invariant layer: watcherSet tracking (re-watch), snapshot/table synchronisation and the
  service-map bookkeeping needed for the reachable-state no-gap theorems.
  The effect of one statement on each state component is summarised once (`step_*` lemmas, proved by
  exhaustive case analysis of `exec`), the invariant proof then only distinguishes the few statements
  that touch a component.
-/
set_option linter.unusedSimpArgs false
set_option linter.unusedVariables false
namespace GB.C11

/-- flags after a statement executed in skip mode -/
def skipA (i : Instr) (a : A) : A :=
  match i with
  | .unlockW => if a.hw then { a with hw := false, chk := false } else a
  | .unlockT => if a.ht then { a with ht := false } else a
  | _ => a

theorem step_thread {P : Progs} {s s' : State} {t : Tid} {th : Thread} {i : Instr} {rest : List Instr}
    (ht : s.threads t = some th) (hc : th.code = i :: rest) (hs : step P s (.tau t) = some s') :
    ∃ th', s'.threads = upd s.threads t (some th') ∧ th'.op = th.op ∧ th'.code = rest ∧
      ((th.skip = true ∧ th'.skip = true ∧ th'.a = skipA i th.a ∧ th'.present = th.present) ∨
       (th.skip = false ∧ th'.skip = true ∧ th'.a = th.a ∧ th'.present = th.present ∧
          (i = .loadClosed ∨ i = .casClosed ∨ i = .nameCheck)) ∨
       (th.skip = false ∧ th'.skip = false ∧ th'.a = (th.a.step P.svc i).getD th.a ∧
          (th'.present = th.present ∨ i = .sAdd))) := by
  obtain ⟨op, code, skip, a, snap, cr, pres, res⟩ := th
  simp only at hc; subst hc
  simp only [step, ht] at hs
  unfold exec at hs
  cases skip
  · simp only [Bool.false_eq_true, if_false] at hs
    cases i <;> simp only at hs <;> (repeat' split at hs) <;>
      first
      | (cases hs; done)
      | (cases hs; exact ⟨_, rfl, rfl, rfl, Or.inr (Or.inr ⟨rfl, rfl, rfl, Or.inl rfl⟩)⟩)
      | (cases hs; exact ⟨_, rfl, rfl, rfl, Or.inr (Or.inr ⟨rfl, rfl, rfl, Or.inr rfl⟩)⟩)
      | (cases hs; exact ⟨_, rfl, rfl, rfl, Or.inr (Or.inl ⟨rfl, rfl, rfl, rfl, by simp⟩)⟩)
  · simp only [if_true] at hs
    cases i <;> simp only at hs <;> (repeat' split at hs) <;>
      first
      | (cases hs; done)
      | (cases hs; exact ⟨_, rfl, rfl, rfl, Or.inl ⟨rfl, rfl, by simp [skipA, *], rfl⟩⟩)


theorem step_tmu {P : Progs} {s s' : State} {t : Tid} {th : Thread} {i : Instr} {rest : List Instr}
    (ht : s.threads t = some th) (hc : th.code = i :: rest) (hs : step P s (.tau t) = some s') :
    (s'.tmu = s.tmu ∧ (i = .lockT → th.skip = true) ∧ (i = .unlockT → th.a.ht = false)) ∨
      (i = .lockT ∧ th.skip = false ∧ s.tmu = none ∧ s'.tmu = some t) ∨
      (i = .unlockT ∧ th.a.ht = true ∧ s'.tmu = none) := by
  obtain ⟨op, code, skip, a, snap, cr, pres, res⟩ := th
  simp only at hc; subst hc
  simp only [step, ht] at hs
  unfold exec at hs
  cases skip
  · simp only [Bool.false_eq_true, if_false] at hs
    cases i <;> simp only at hs <;> (repeat' split at hs) <;>
      first
      | (cases hs; done)
      | (cases hs; left; exact ⟨rfl, by simp, by simp_all⟩)
      | (cases hs; right; left; exact ⟨rfl, rfl, by simp_all, rfl⟩)
      | (cases hs; right; right; exact ⟨rfl, ‹_›, rfl⟩)
  · simp only [if_true] at hs
    cases i <;> simp only at hs <;> (repeat' split at hs) <;>
      first
      | (cases hs; done)
      | (cases hs; left; exact ⟨rfl, by simp, by simp_all⟩)
      | (cases hs; right; right; exact ⟨rfl, ‹_›, rfl⟩)

theorem step_mtab {P : Progs} {s s' : State} {t : Tid} {th : Thread} {i : Instr} {rest : List Instr}
    (ht : s.threads t = some th) (hc : th.code = i :: rest) (hs : step P s (.tau t) = some s') :
    (s'.mtab = s.mtab ∧ (i = .pAdd → th.skip = true) ∧ (i = .pRemove → th.skip = true)) ∨
      (i = .pAdd ∧ th.skip = false ∧ s'.mtab = tblAdd ⟨th.w, th.desc⟩ s.mtab) ∨
      (i = .pRemove ∧ th.skip = false) := by
  obtain ⟨op, code, skip, a, snap, cr, pres, res⟩ := th
  simp only at hc; subst hc
  simp only [step, ht] at hs
  unfold exec at hs
  cases skip
  · simp only [Bool.false_eq_true, if_false] at hs
    cases i <;> simp only at hs <;> (repeat' split at hs) <;>
      first
      | (cases hs; done)
      | (cases hs; left; exact ⟨rfl, by simp, by simp⟩)
      | (cases hs; right; left; exact ⟨rfl, rfl, rfl⟩)
      | (cases hs; right; right; exact ⟨rfl, rfl⟩)
  · simp only [if_true] at hs
    cases i <;> simp only at hs <;> (repeat' split at hs) <;>
      first
      | (cases hs; done)
      | (cases hs; left; exact ⟨rfl, by simp, by simp⟩)

theorem step_static {P : Progs} {s s' : State} {t : Tid} {th : Thread} {i : Instr} {rest : List Instr}
    (ht : s.threads t = some th) (hc : th.code = i :: rest) (hs : step P s (.tau t) = some s') :
    (s'.static = s.static ∧ (i = .pStore → th.skip = true)) ∨ (i = .pStore ∧ th.skip = false ∧ s'.static = s.mtab) := by
  obtain ⟨op, code, skip, a, snap, cr, pres, res⟩ := th
  simp only at hc; subst hc
  simp only [step, ht] at hs
  unfold exec at hs
  cases skip
  · simp only [Bool.false_eq_true, if_false] at hs
    cases i <;> simp only at hs <;> (repeat' split at hs) <;>
      first
      | (cases hs; done)
      | (cases hs; left; exact ⟨rfl, by simp⟩)
      | (cases hs; right; exact ⟨rfl, rfl, rfl⟩)
  · simp only [if_true] at hs
    cases i <;> simp only at hs <;> (repeat' split at hs) <;>
      first
      | (cases hs; done)
      | (cases hs; left; exact ⟨rfl, by simp⟩)

theorem step_routes {P : Progs} {s s' : State} {t : Tid} {th : Thread} {i : Instr} {rest : List Instr}
    (ht : s.threads t = some th) (hc : th.code = i :: rest) (hs : step P s (.tau t) = some s') :
    (s'.routes = s.routes ∧ s'.svcRoutes = s.svcRoutes ∧ s'.waiting = s.waiting ∧
      (i = .sAdd ∨ i = .sDel ∨ i = .sRemove → th.skip = true)) ∨
    (i = .sAdd ∧ th.skip = false ∧ s'.svcRoutes = s.svcRoutes ∧
      s'.routes = (svcAdd P.storeSame ⟨th.w, th.desc⟩ th.desc.svcs s.routes []).1 ∧
      s'.waiting = svcClaim ⟨th.w, th.desc⟩ s.routes th.desc.svcs s.waiting ∧
      ∃ th', s'.threads t = some th' ∧ th'.present = (svcAdd P.storeSame ⟨th.w, th.desc⟩ th.desc.svcs s.routes []).2) ∨
    (i = .sDel ∧ th.skip = false ∧
      ∃ q, q = relLoop ((s.svcRoutes th.desc.name).filter (fun k => !th.present.contains k))
          ⟨s.routes, fun k => if th.desc.svcs.contains k then s.waiting k else dropClaim (s.waiting k) th.desc.name, s.svcRoutes⟩ ∧
        s'.routes = q.r ∧ s'.waiting = q.w ∧ s'.svcRoutes = upd q.v th.desc.name (dedup th.present)) ∨
    (i = .sRemove ∧ th.skip = false ∧ ∃ wt q, s.watchers th.w = some wt ∧
      q = relLoop (s.svcRoutes wt.name) ⟨s.routes, s.waiting, s.svcRoutes⟩ ∧
      s'.routes = q.r ∧ s'.svcRoutes = upd q.v wt.name [] ∧ s'.waiting = fun k => dropClaim (q.w k) wt.name) := by
  obtain ⟨op, code, skip, a, snap, cr, pres, res⟩ := th
  simp only at hc; subst hc
  simp only [step, ht] at hs
  unfold exec at hs
  cases skip
  · simp only [Bool.false_eq_true, if_false] at hs
    cases i <;> simp only at hs <;> (repeat' split at hs) <;>
      first
      | (cases hs; done)
      | (cases hs; left; exact ⟨rfl, rfl, rfl, by simp⟩)
      | (cases hs; right; left; exact ⟨rfl, rfl, rfl, rfl, rfl, _, upd_same _ _ _, rfl⟩)
      | (cases hs; right; right; left; exact ⟨rfl, rfl, _, rfl, rfl, rfl, rfl⟩)
      | (cases hs; right; right; right; exact ⟨rfl, rfl, _, _, ‹_›, rfl, rfl, rfl, rfl⟩)
  · simp only [if_true] at hs
    cases i <;> simp only at hs <;> (repeat' split at hs) <;>
      first
      | (cases hs; done)
      | (cases hs; left; exact ⟨rfl, rfl, rfl, by simp⟩)

theorem step_wset {P : Progs} {s s' : State} {t : Tid} {th : Thread} {i : Instr} {rest : List Instr}
    (ht : s.threads t = some th) (hc : th.code = i :: rest) (hs : step P s (.tau t) = some s') :
    (s'.wset = s.wset ∧ (∀ w, nameOf s' w = nameOf s w) ∧ (i = .setRemove → th.skip = true)) ∨
    (i = .setAdd ∧ th.skip = false ∧ th.key ∉ s.wset ∧ s'.wset = th.key :: s.wset ∧
      ∀ w, nameOf s' w = if w = s.nextW then some th.key else nameOf s w) ∨
    (i = .setRemove ∧ th.skip = false ∧ ∃ wt, s.watchers th.w = some wt ∧
      s'.wset = s.wset.filter (fun n => n ≠ wt.name) ∧ ∀ w, nameOf s' w = nameOf s w) := by
  obtain ⟨op, code, skip, a, snap, cr, pres, res⟩ := th
  simp only at hc; subst hc
  simp only [step, ht] at hs
  unfold exec at hs
  cases skip
  · simp only [Bool.false_eq_true, if_false] at hs
    cases i <;> simp only at hs <;> (repeat' split at hs) <;>
      first
      | (cases hs; done)
      | (cases hs; left; exact ⟨rfl, fun _ => rfl, by simp⟩)
      | (cases hs; left; refine ⟨rfl, ?_, by simp⟩; intro w; simp only [nameOf, setThread, upd]; split <;> simp_all)
      | (cases hs; right; left; refine ⟨rfl, rfl, by simp_all [Thread.key], rfl, ?_⟩; intro w; simp only [nameOf, setThread, upd]; split <;> simp_all [Thread.key])
      | (cases hs; right; right; exact ⟨rfl, rfl, _, ‹_›, rfl, fun _ => rfl⟩)
  · simp only [if_true] at hs
    cases i <;> simp only at hs <;> (repeat' split at hs) <;>
      first
      | (cases hs; done)
      | (cases hs; left; exact ⟨rfl, fun _ => rfl, by simp⟩)
      | (cases hs; left; refine ⟨rfl, ?_, by simp⟩; intro w; simp only [nameOf, setThread, upd]; split <;> simp_all)


/-! ### how one statement changes the control flags -/

macro "astep_cases" i:ident h:ident : tactic =>
  `(tactic| (cases $i:ident <;> simp only [A.step] at $h:ident <;> (try split at $h:ident) <;> (try cases $h:ident) <;> simp_all))

theorem Astep_ht {svc : Bool} {a a' : A} {i : Instr} (h : a.step svc i = some a') (h1 : i ≠ .lockT) (h2 : i ≠ .unlockT) :
    a'.ht = a.ht := by astep_cases i h
theorem Astep_pa {svc : Bool} {a a' : A} {i : Instr} (h : a.step svc i = some a') (h1 : i ≠ .pAdd) (h2 : i ≠ .pStore) :
    a'.pa = a.pa := by astep_cases i h
theorem Astep_pr {svc : Bool} {a a' : A} {i : Instr} (h : a.step svc i = some a') (h1 : i ≠ .pRemove) (h2 : i ≠ .pStore) :
    a'.pr = a.pr := by astep_cases i h
theorem Astep_sr {svc : Bool} {a a' : A} {i : Instr} (h : a.step svc i = some a') (h1 : i ≠ .setRemove) :
    a'.sr = a.sr := by astep_cases i h
theorem Astep_mid {svc : Bool} {a a' : A} {i : Instr} (h : a.step svc i = some a') (h1 : i ≠ .sAdd) (h2 : i ≠ .sDel) :
    a'.mid = a.mid := by astep_cases i h
theorem Astep_sr_mono {svc : Bool} {a a' : A} {i : Instr} (h : a.step svc i = some a') (h1 : a.sr = true) :
    a'.sr = true := by astep_cases i h

theorem skipA_flags (i : Instr) (a : A) :
    (skipA i a).pa = a.pa ∧ (skipA i a).pr = a.pr ∧ (skipA i a).sr = a.sr ∧ (skipA i a).mid = a.mid ∧
    (skipA i a).cl = a.cl ∧ ((skipA i a).ht = true → a.ht = true) ∧ (i ≠ .unlockT → (skipA i a).ht = a.ht) := by
  cases i <;> simp only [skipA] <;> (try split) <;> simp_all

/-- flag-only facts about one thread -/
def FOK (th : Thread) : Prop :=
  (th.a.pa = true → th.a.ht = true) ∧ (th.a.pr = true → th.a.ht = true ∧ th.a.cl = true) ∧
  (th.a.sr = true → th.a.cl = true) ∧ (th.skip = true → th.a.pa = false ∧ th.a.pr = false) ∧
  (th.a.pa = true → th.a.pr = false)

theorem Astep_FOK {svc : Bool} {a a' : A} {i : Instr} (h : a.step svc i = some a')
    (f1 : a.pa = true → a.ht = true) (f2 : a.pr = true → a.ht = true ∧ a.cl = true) (f3 : a.sr = true → a.cl = true)
    (f5 : a.pa = true → a.pr = false) :
    (a'.pa = true → a'.ht = true) ∧ (a'.pr = true → a'.ht = true ∧ a'.cl = true) ∧ (a'.sr = true → a'.cl = true) ∧
    (a'.pa = true → a'.pr = false) := by
  cases i <;> simp only [A.step] at h <;> (try split at h) <;> (try cases h) <;>
    simp_all [A.quiet]

/-- the stepping thread after the step -/
theorem step_flags {P : Progs} {s s' : State} {t : Tid} {th : Thread} {i : Instr} {rest : List Instr} (hinv : Inv P s)
    (ht : s.threads t = some th) (hc : th.code = i :: rest) (hs : step P s (.tau t) = some s') :
    ∃ th', s'.threads = upd s.threads t (some th') ∧ th'.op = th.op ∧
      ((th.skip = true ∧ th'.skip = true ∧ th'.a = skipA i th.a ∧ th'.present = th.present) ∨
       (th.skip = false ∧ th'.skip = true ∧ th'.a = th.a ∧ th'.present = th.present ∧ th.a.quiet = true ∧
          (i = .loadClosed ∨ i = .casClosed ∨ i = .nameCheck)) ∨
       (th.skip = false ∧ th'.skip = false ∧ th.a.step P.svc i = some th'.a ∧ (th'.present = th.present ∨ i = .sAdd))) := by
  obtain ⟨th', h1, h2, _, h4⟩ := step_thread ht hc hs
  refine ⟨th', h1, h2, ?_⟩
  rcases h4 with h4 | ⟨hsk, h5, h6, h7, h8⟩ | ⟨hsk, h5, h6, h7⟩
  · left; exact h4
  · right; left
    have hwf := (hinv.th t th ht).wf hsk
    rw [hc] at hwf; simp only [wfCode] at hwf
    refine ⟨hsk, h5, h6, h7, ?_, h8⟩
    rcases h8 with rfl | rfl | rfl <;>
      (simp only [A.step] at hwf; split at hwf <;> simp_all)
  · right; right
    have hwf := (hinv.th t th ht).wf hsk
    rw [hc] at hwf; simp only [wfCode] at hwf
    cases hst : th.a.step P.svc i with
    | none => simp [hst] at hwf
    | some a' => rw [hst] at h6; exact ⟨hsk, h5, by simpa using h6.symm, h7⟩


/-! ### more about the add phase -/

theorem svcAdd_sub {ss : Bool} {x : Entry} (l : List Svc) (r : Svc → Option Entry) (pres : List Svc) (k : Svc)
    (h : k ∈ (svcAdd ss x l r pres).2) : k ∈ pres ∨ k ∈ l := by
  induction l generalizing r pres with
  | nil => left; simpa [svcAdd] using h
  | cons y ys ih =>
    simp only [svcAdd] at h
    split at h
    · rcases ih _ _ h with h1 | h1
      · rcases List.mem_append.1 h1 with h2 | h2
        · left; exact h2
        · right; simp at h2; simp [h2]
      · right; exact List.mem_cons_of_mem _ h1
    · split at h
      · rcases ih _ _ h with h1 | h1
        · rcases List.mem_append.1 h1 with h2 | h2
          · left; exact h2
          · right; simp at h2; simp [h2]
        · right; exact List.mem_cons_of_mem _ h1
      · rcases ih _ _ h with h1 | h1
        · left; exact h1
        · right; exact List.mem_cons_of_mem _ h1

theorem svcAdd_keeps_name {ss : Bool} {x : Entry} (l : List Svc) (r : Svc → Option Entry) (pres : List Svc) (k : Svc)
    (e : Entry) (h : r k = some e) : ∃ e', (svcAdd ss x l r pres).1 k = some e' ∧ e'.desc.name = e.desc.name := by
  induction l generalizing r pres e with
  | nil => exact ⟨e, by simpa [svcAdd] using h, rfl⟩
  | cons y ys ih =>
    simp only [svcAdd]
    split
    · rename_i hn
      have : k ≠ y := by intro e1; subst e1; rw [hn] at h; cases h
      exact ih _ _ e (by simp [upd, this, h])
    · rename_i old ho
      by_cases hnm : old.desc.name = x.desc.name
      · simp only [hnm, if_true]
        by_cases hk : k = y
        · subst hk
          have he : old = e := by rw [ho] at h; exact Option.some.inj h
          have hnm' : e.desc.name = x.desc.name := he ▸ hnm
          cases ss
          · exact ih _ _ e (by simpa using h)
          · obtain ⟨e', h1, h2⟩ := ih (upd r k (some x)) (pres ++ [k]) x (by simp)
            exact ⟨e', by simpa using h1, h2.trans hnm'.symm⟩
        · cases ss
          · exact ih _ _ e (by simpa using h)
          · exact ih _ _ e (by simp [upd, hk, h])
      · simp only [hnm, if_false]
        exact ih _ _ e h

/-- every key marked present is, after the add phase, routed to a target of the updating name -/
theorem svcAdd_present_owned {ss : Bool} {x : Entry} (l : List Svc) (r : Svc → Option Entry) (pres : List Svc) (k : Svc)
    (h : k ∈ (svcAdd ss x l r pres).2) :
    k ∈ pres ∨ ∃ e, (svcAdd ss x l r pres).1 k = some e ∧ e.desc.name = x.desc.name := by
  induction l generalizing r pres with
  | nil => left; simpa [svcAdd] using h
  | cons y ys ih =>
    simp only [svcAdd] at h ⊢
    split
    · rename_i hn
      simp only [hn] at h
      rcases ih _ _ h with h1 | h1
      · rcases List.mem_append.1 h1 with h2 | h2
        · left; exact h2
        · right
          simp at h2; subst h2
          obtain ⟨e', h3, h4⟩ := svcAdd_keeps_name (ss := ss) (x := x) ys (upd r k (some x)) (pres ++ [k]) k x (by simp)
          exact ⟨e', h3, h4⟩
      · right; exact h1
    · rename_i old ho
      simp only [ho] at h
      by_cases hnm : old.desc.name = x.desc.name
      · simp only [hnm, if_true] at h ⊢
        rcases ih _ _ h with h1 | h1
        · rcases List.mem_append.1 h1 with h2 | h2
          · left; exact h2
          · right
            simp at h2; subst h2
            cases ss
            · obtain ⟨e', h3, h4⟩ := svcAdd_keeps_name (ss := false) (x := x) ys r (pres ++ [k]) k old ho
              exact ⟨e', by simpa using h3, h4.trans hnm⟩
            · obtain ⟨e', h3, h4⟩ := svcAdd_keeps_name (ss := true) (x := x) ys (upd r k (some x)) (pres ++ [k]) k x (by simp)
              exact ⟨e', by simpa using h3, h4⟩
        · right; exact h1
      · simp only [hnm, if_false] at h ⊢
        exact ih _ _ h


/-! ### snapshot / mutable-table synchronisation -/

structure SyncInv (s : State) : Prop where
  fl : ∀ t th, s.threads t = some th → FOK th
  holder : ∀ t, s.tmu = some t → ∃ th, s.threads t = some th ∧ th.a.ht = true
  free : s.tmu = none → s.static = s.mtab
  held : ∀ t th, s.threads t = some th → th.a.ht = true →
    (th.a.pa = false → th.a.pr = false → s.static = s.mtab) ∧
    (th.a.pa = true → s.mtab = tblAdd ⟨th.w, th.desc⟩ s.static)

theorem sync_init : SyncInv init := by
  constructor <;> simp [init]

theorem sync_spawn {P : Progs} {s : State} {t : Tid} (op : Op) (h : SyncInv s) (hn : s.threads t = none) :
    SyncInv (setThread s t { op := op, code := P.of op }) := by
  have hne : ∀ t0 th0, s.threads t0 = some th0 → t0 ≠ t := by
    intro t0 th0 h0 e; subst e; rw [hn] at h0; cases h0
  refine ⟨?_, ?_, h.free, ?_⟩
  · intro t0 th0 h0
    rcases upd_some_cases h0 with ⟨rfl, rfl⟩ | ⟨ne, h0'⟩
    · simp [FOK]
    · exact h.fl t0 th0 h0'
  · intro t0 h0
    obtain ⟨th0, h1, h2⟩ := h.holder t0 h0
    exact ⟨th0, by simp [setThread, upd, hne t0 th0 h1]; exact h1, h2⟩
  · intro t0 th0 h0 hh
    rcases upd_some_cases h0 with ⟨rfl, rfl⟩ | ⟨ne, h0'⟩
    · simp at hh
    · exact h.held t0 th0 h0' hh

/-- generic step: thread `t` becomes `th'`, the three components are replaced -/
theorem sync_update {s s' : State} {t : Tid} {th th' : Thread} (h : SyncInv s)
    (ht : s.threads t = some th) (hth : s'.threads = upd s.threads t (some th')) (hop : th'.op = th.op)
    (hfok : FOK th')
    (htmu : ∀ t0, s'.tmu = some t0 → (t0 = t ∧ th'.a.ht = true) ∨ (t0 ≠ t ∧ s.tmu = some t0))
    (hfree : s'.tmu = none → s'.static = s'.mtab)
    (hself : th'.a.ht = true →
      (th'.a.pa = false → th'.a.pr = false → s'.static = s'.mtab) ∧
      (th'.a.pa = true → s'.mtab = tblAdd ⟨th.w, th.desc⟩ s'.static))
    (hoth : ∀ t0 th0, t0 ≠ t → s.threads t0 = some th0 → th0.a.ht = true → s'.static = s.static ∧ s'.mtab = s.mtab) :
    SyncInv s' := by
  have hw : th'.w = th.w := by simp [Thread.w, hop]
  have hd : th'.desc = th.desc := by simp [Thread.desc, hop]
  refine ⟨?_, ?_, hfree, ?_⟩
  · intro t0 th0 h0
    rw [hth] at h0
    rcases upd_some_cases h0 with ⟨rfl, rfl⟩ | ⟨ne, h0'⟩
    · exact hfok
    · exact h.fl t0 th0 h0'
  · intro t0 h0
    rcases htmu t0 h0 with ⟨rfl, h1⟩ | ⟨ne, h1⟩
    · exact ⟨th', by rw [hth]; simp, h1⟩
    · obtain ⟨th0, h2, h3⟩ := h.holder t0 h1
      exact ⟨th0, by rw [hth]; simp [upd, ne]; exact h2, h3⟩
  · intro t0 th0 h0 hh
    rw [hth] at h0
    rcases upd_some_cases h0 with ⟨rfl, rfl⟩ | ⟨ne, h0'⟩
    · rw [hw, hd]; exact hself hh
    · obtain ⟨e1, e2⟩ := hoth t0 th0 ne h0' hh
      rw [e1, e2]; exact h.held t0 th0 h0' hh

theorem sync_step {P : Progs} {s s' : State} {t : Tid} {th : Thread} {i : Instr} {rest : List Instr}
    (hinv : Inv P s) (h : SyncInv s)
    (ht : s.threads t = some th) (hc : th.code = i :: rest) (hs : step P s (.tau t) = some s') : SyncInv s' := by
  obtain ⟨th', hth, hop, hrel⟩ := step_flags hinv ht hc hs
  have fok := h.fl t th ht
  have htm := step_tmu ht hc hs
  have hmt := step_mtab ht hc hs
  have hst := step_static ht hc hs
  -- the table mutex has at most one holder
  have uniq : ∀ t0 th0, t0 ≠ t → s.threads t0 = some th0 → th0.a.ht = true → th.a.ht = false := by
    intro t0 th0 ne h0 hh
    cases hx : th.a.ht with
    | false => rfl
    | true =>
      have e1 := (hinv.th t0 th0 h0).ht hh
      have e2 := (hinv.th t th ht).ht hx
      rw [e1] at e2; cases e2; exact absurd rfl ne
  have tmuT : th.a.ht = true → s.tmu = some t := (hinv.th t th ht).ht
  obtain ⟨f1, f2, f3, f4, f5⟩ := fok
  rcases hrel with ⟨hsk, hsk', ha, _⟩ | ⟨hsk, hsk', ha, _, hq, hi⟩ | ⟨hsk, hsk', ha, _⟩
  · -- skip mode: only a deferred unlockT matters
    obtain ⟨p1, p2, p3, p4, p5, p6, p7⟩ := skipA_flags i th.a
    obtain ⟨npa, npr⟩ := f4 hsk
    have hmt' : s'.mtab = s.mtab := by rcases hmt with x | x | x <;> simp_all
    have hst' : s'.static = s.static := by rcases hst with x | x <;> simp_all
    have fok' : FOK th' := by
      refine ⟨?_, ?_, ?_, ?_, ?_⟩ <;> simp_all
    by_cases hu : i = .unlockT ∧ th.a.ht = true
    · obtain ⟨rfl, hht⟩ := hu
      have htm' : s'.tmu = none := by rcases htm with x | x | x <;> simp_all
      have hht' : th'.a.ht = false := by rw [ha]; simp [skipA, hht]
      refine sync_update h ht hth hop fok' ?_ ?_ ?_ ?_
      · intro t0 h0; rw [htm'] at h0; cases h0
      · intro _; rw [hmt', hst']; exact (h.held t th ht hht).1 npa npr
      · intro hh; rw [hht'] at hh; cases hh
      · intro t0 th0 ne h0 hh; have := uniq t0 th0 ne h0 hh; rw [hht] at this; cases this
    · have hhtS : th'.a.ht = th.a.ht := by
        rw [ha]
        by_cases hi : i = .unlockT
        · subst hi
          have : th.a.ht = false := by
            cases hx : th.a.ht with
            | false => rfl
            | true => exact absurd ⟨rfl, hx⟩ hu
          simp [skipA, this]
        · exact p7 hi
      have htm' : s'.tmu = s.tmu := by
        rcases htm with x | x | x
        · exact x.1
        · simp_all
        · exact absurd ⟨x.1, x.2.1⟩ hu
      refine sync_update h ht hth hop fok' ?_ ?_ ?_ ?_
      · intro t0 h0; rw [htm'] at h0
        by_cases e : t0 = t
        · left; subst e
          obtain ⟨th0, h1, h2⟩ := h.holder t0 h0
          rw [ht] at h1; cases h1; exact ⟨rfl, hhtS ▸ h2⟩
        · right; exact ⟨e, h0⟩
      · intro h0; rw [hmt', hst']; exact h.free (htm' ▸ h0)
      · intro hh; rw [hmt', hst']
        have := h.held t th ht (hhtS ▸ hh)
        rw [ha, p1, p2]; exact this
      · intro _ _ _ _ _; exact ⟨hst', hmt'⟩
  · -- early return: nothing but the skip flag changes
    have q : th.a.mid = false ∧ th.a.pa = false ∧ th.a.pr = false := by
      simp only [A.quiet, Bool.and_eq_true, Bool.not_eq_true'] at hq; exact ⟨hq.1.1, hq.1.2, hq.2⟩
    have hmt' : s'.mtab = s.mtab := by rcases hmt with x | x | x <;> rcases hi with rfl | rfl | rfl <;> simp_all
    have hst' : s'.static = s.static := by rcases hst with x | x <;> rcases hi with rfl | rfl | rfl <;> simp_all
    have htm' : s'.tmu = s.tmu := by rcases htm with x | x | x <;> rcases hi with rfl | rfl | rfl <;> simp_all
    have fok' : FOK th' := by
      refine ⟨?_, ?_, ?_, ?_, ?_⟩ <;> simp_all
    refine sync_update h ht hth hop fok' ?_ ?_ ?_ ?_
    · intro t0 h0; rw [htm'] at h0
      by_cases e : t0 = t
      · left; subst e
        obtain ⟨th0, h1, h2⟩ := h.holder t0 h0
        rw [ht] at h1; cases h1; exact ⟨rfl, by rw [ha]; exact h2⟩
      · right; exact ⟨e, h0⟩
    · intro h0; rw [hmt', hst']; exact h.free (htm' ▸ h0)
    · intro hh; rw [hmt', hst', ha]; exact h.held t th ht (ha ▸ hh)
    · intro _ _ _ _ _; exact ⟨hst', hmt'⟩
  · -- a statement executed normally
    have fok4 := Astep_FOK ha f1 f2 f3 f5
    have fok' : FOK th' := ⟨fok4.1, fok4.2.1, fok4.2.2.1, by simp [hsk'], fok4.2.2.2⟩
    by_cases hL : i = .lockT
    · subst hL
      have e1 : s.tmu = none ∧ s'.tmu = some t := by rcases htm with x | x | x <;> simp_all
      have hmt' : s'.mtab = s.mtab := by rcases hmt with x | x | x <;> simp_all
      have hst' : s'.static = s.static := by rcases hst with x | x <;> simp_all
      have ha' : th.a.ht = false ∧ th'.a = { th.a with ht := true } := by
        simp only [A.step] at ha; split at ha
        · cases ha
        · rename_i hx; exact ⟨by simpa using hx, (Option.some.inj ha).symm⟩
      refine sync_update h ht hth hop fok' ?_ ?_ ?_ ?_
      · intro t0 h0; rw [e1.2] at h0; cases h0; left; exact ⟨rfl, by rw [ha'.2]⟩
      · intro h0; rw [e1.2] at h0; cases h0
      · intro _; rw [hmt', hst', ha'.2]
        have npa : th.a.pa = false := by
          cases hx : th.a.pa with
          | false => rfl
          | true => have := f1 hx; rw [ha'.1] at this; cases this
        have npr : th.a.pr = false := by
          cases hx : th.a.pr with
          | false => rfl
          | true => have := (f2 hx).1; rw [ha'.1] at this; cases this
        exact ⟨fun _ _ => h.free e1.1, fun x => by simp [npa] at x⟩
      · intro t0 th0 _ h0 hh
        have := (hinv.th t0 th0 h0).ht hh; rw [e1.1] at this; cases this
    · by_cases hU : i = .unlockT
      · subst hU
        have ha' : th.a.ht = true ∧ th.a.quiet = true ∧ th'.a = { th.a with ht := false } := by
          simp only [A.step] at ha; split at ha
          · rename_i hx; simp only [Bool.and_eq_true] at hx; exact ⟨hx.1, hx.2, (Option.some.inj ha).symm⟩
          · cases ha
        obtain ⟨hht, hq, ha'⟩ := ha'
        have q : th.a.pa = false ∧ th.a.pr = false := by
          simp only [A.quiet, Bool.and_eq_true, Bool.not_eq_true'] at hq; exact ⟨hq.1.2, hq.2⟩
        have htm' : s'.tmu = none := by rcases htm with x | x | x <;> simp_all
        have hmt' : s'.mtab = s.mtab := by rcases hmt with x | x | x <;> simp_all
        have hst' : s'.static = s.static := by rcases hst with x | x <;> simp_all
        refine sync_update h ht hth hop fok' ?_ ?_ ?_ ?_
        · intro t0 h0; rw [htm'] at h0; cases h0
        · intro _; rw [hmt', hst']; exact (h.held t th ht hht).1 q.1 q.2
        · intro hh; rw [ha'] at hh; simp at hh
        · intro t0 th0 ne h0 hh; have := uniq t0 th0 ne h0 hh; rw [hht] at this; cases this
      · have htm' : s'.tmu = s.tmu := by rcases htm with x | x | x <;> simp_all
        have hhtS : th'.a.ht = th.a.ht := Astep_ht ha hL hU
        have tmuCase : ∀ t0, s'.tmu = some t0 → (t0 = t ∧ th'.a.ht = true) ∨ (t0 ≠ t ∧ s.tmu = some t0) := by
          intro t0 h0; rw [htm'] at h0
          by_cases e : t0 = t
          · left; subst e
            obtain ⟨th0, h1, h2⟩ := h.holder t0 h0
            rw [ht] at h1; cases h1; exact ⟨rfl, hhtS ▸ h2⟩
          · right; exact ⟨e, h0⟩
        by_cases hA : i = .pAdd
        · subst hA
          have ha' : th.a.ht = true ∧ th.a.pa = false ∧ th.a.pr = false ∧ th'.a = { th.a with pa := true } := by
            simp only [A.step] at ha; split at ha
            · rename_i hx; simp only [Bool.and_eq_true, Bool.not_eq_true'] at hx
              exact ⟨hx.1.1.1.1.1.2, hx.1.2, hx.2, (Option.some.inj ha).symm⟩
            · cases ha
          obtain ⟨hht, npa, npr, ha'⟩ := ha'
          have hmt' : s'.mtab = tblAdd ⟨th.w, th.desc⟩ s.mtab := by rcases hmt with x | x | x <;> simp_all
          have hst' : s'.static = s.static := by rcases hst with x | x <;> simp_all
          refine sync_update h ht hth hop fok' tmuCase ?_ ?_ ?_
          · intro h0; rw [htm', tmuT hht] at h0; cases h0
          · intro _; rw [ha']; refine ⟨fun x => by simp at x, fun _ => ?_⟩
            rw [hmt', hst', (h.held t th ht hht).1 npa npr]
          · intro t0 th0 ne h0 hh; have := uniq t0 th0 ne h0 hh; rw [hht] at this; cases this
        · by_cases hR : i = .pRemove
          · subst hR
            have ha' : th.a.ht = true ∧ th.a.pa = false ∧ th'.a = { th.a with rm := true, pr := true } := by
              simp only [A.step] at ha; split at ha
              · rename_i hx; simp only [Bool.and_eq_true, Bool.not_eq_true'] at hx
                exact ⟨hx.1.1.1, hx.1.2, (Option.some.inj ha).symm⟩
              · cases ha
            obtain ⟨hht, npa, ha'⟩ := ha'
            refine sync_update h ht hth hop fok' tmuCase ?_ ?_ ?_
            · intro h0; rw [htm', tmuT hht] at h0; cases h0
            · intro _; rw [ha']; exact ⟨fun _ x => by simp at x, fun x => by simp [npa] at x⟩
            · intro t0 th0 ne h0 hh; have := uniq t0 th0 ne h0 hh; rw [hht] at this; cases this
          · by_cases hS : i = .pStore
            · subst hS
              have ha' : th.a.ht = true ∧ th'.a = { th.a with rs := th.a.rm, pa := false, pr := false } := by
                simp only [A.step] at ha; split at ha
                · rename_i hx; exact ⟨hx, (Option.some.inj ha).symm⟩
                · cases ha
              obtain ⟨hht, ha'⟩ := ha'
              have hmt' : s'.mtab = s.mtab := by rcases hmt with x | x | x <;> simp_all
              have hst' : s'.static = s.mtab := by rcases hst with x | x <;> simp_all
              refine sync_update h ht hth hop fok' tmuCase ?_ ?_ ?_
              · intro h0; rw [htm', tmuT hht] at h0; cases h0
              · intro _; rw [ha', hmt', hst']; exact ⟨fun _ _ => rfl, fun x => by simp at x⟩
              · intro t0 th0 ne h0 hh; have := uniq t0 th0 ne h0 hh; rw [hht] at this; cases this
            · have hmt' : s'.mtab = s.mtab := by rcases hmt with x | x | x <;> simp_all
              have hst' : s'.static = s.static := by rcases hst with x | x <;> simp_all
              have epa := Astep_pa ha hA hS
              have epr := Astep_pr ha hR hS
              refine sync_update h ht hth hop fok' tmuCase ?_ ?_ ?_
              · intro h0; rw [hmt', hst']; exact h.free (htm' ▸ h0)
              · intro hh; rw [hmt', hst', epa, epr]; exact h.held t th ht (hhtS ▸ hh)
              · intro _ _ _ _ _; exact ⟨hst', hmt'⟩


/-! ### watcherSet tracking -/

/-- the Close of watcher `w` has executed its `watcherSet.Remove` -/
def Removed (s : State) (w : Wid) : Prop := ∃ t th, s.threads t = some th ∧ th.w = w ∧ th.a.sr = true

structure WsetInv (s : State) : Prop where
  left : ∀ n ∈ s.wset, ∃ w, nameOf s w = some n ∧ ¬ Removed s w
  right : ∀ w n, nameOf s w = some n → ¬ Removed s w → n ∈ s.wset
  uniq : ∀ w1 w2 n, nameOf s w1 = some n → nameOf s w2 = some n → ¬ Removed s w1 → ¬ Removed s w2 → w1 = w2

theorem wset_init : WsetInv init := by
  constructor <;> simp [init, nameOf]

theorem removed_same {s s' : State} {t : Tid} {th th' : Thread} (ht : s.threads t = some th)
    (hth : s'.threads = upd s.threads t (some th')) (hop : th'.op = th.op) (hsr : th'.a.sr = th.a.sr) (w : Wid) :
    Removed s' w ↔ Removed s w := by
  have hw : th'.w = th.w := by simp [Thread.w, hop]
  constructor
  · rintro ⟨t0, th0, h0, h1, h2⟩
    rw [hth] at h0
    rcases upd_some_cases h0 with ⟨rfl, rfl⟩ | ⟨ne, h0'⟩
    · exact ⟨t0, th, ht, hw ▸ h1, hsr ▸ h2⟩
    · exact ⟨t0, th0, h0', h1, h2⟩
  · rintro ⟨t0, th0, h0, h1, h2⟩
    by_cases e : t0 = t
    · subst e; rw [ht] at h0; cases h0
      exact ⟨t0, th', by rw [hth]; simp, hw.trans h1, hsr.trans h2⟩
    · exact ⟨t0, th0, by rw [hth]; simp [upd, e]; exact h0, h1, h2⟩

theorem removed_add {s s' : State} {t : Tid} {th th' : Thread} (ht : s.threads t = some th)
    (hth : s'.threads = upd s.threads t (some th')) (hop : th'.op = th.op) (hsr : th'.a.sr = true) (w : Wid) :
    Removed s' w ↔ Removed s w ∨ w = th.w := by
  have hw : th'.w = th.w := by simp [Thread.w, hop]
  constructor
  · rintro ⟨t0, th0, h0, h1, h2⟩
    rw [hth] at h0
    rcases upd_some_cases h0 with ⟨rfl, rfl⟩ | ⟨ne, h0'⟩
    · right; rw [← h1, hw]
    · left; exact ⟨t0, th0, h0', h1, h2⟩
  · rintro (⟨t0, th0, h0, h1, h2⟩ | rfl)
    · by_cases e : t0 = t
      · subst e; rw [ht] at h0; cases h0
        exact ⟨t0, th', by rw [hth]; simp, hw.trans h1, hsr⟩
      · exact ⟨t0, th0, by rw [hth]; simp [upd, e]; exact h0, h1, h2⟩
    · exact ⟨t, th', by rw [hth]; simp, hw, hsr⟩

theorem wset_spawn {P : Progs} {s : State} {t : Tid} (op : Op) (h : WsetInv s) (hn : s.threads t = none) :
    WsetInv (setThread s t { op := op, code := P.of op }) := by
  have hr : ∀ w, Removed (setThread s t { op := op, code := P.of op }) w ↔ Removed s w := by
    intro w
    constructor
    · rintro ⟨t0, th0, h0, h1, h2⟩
      rcases upd_some_cases h0 with ⟨rfl, rfl⟩ | ⟨ne, h0'⟩
      · simp at h2
      · exact ⟨t0, th0, h0', h1, h2⟩
    · rintro ⟨t0, th0, h0, h1, h2⟩
      have : t0 ≠ t := by intro e; subst e; rw [hn] at h0; cases h0
      exact ⟨t0, th0, by simp [setThread, upd, this]; exact h0, h1, h2⟩
  refine ⟨?_, ?_, ?_⟩
  · intro n hn'
    obtain ⟨w, h1, h2⟩ := h.left n hn'
    exact ⟨w, h1, fun x => h2 ((hr w).1 x)⟩
  · intro w n h1 h2; exact h.right w n h1 (fun x => h2 ((hr w).2 x))
  · intro w1 w2 n h1 h2 h3 h4
    exact h.uniq w1 w2 n h1 h2 (fun x => h3 ((hr w1).2 x)) (fun x => h4 ((hr w2).2 x))

theorem wset_step {P : Progs} {s s' : State} {t : Tid} {th : Thread} {i : Instr} {rest : List Instr}
    (hinv : Inv P s) (hfl : ∀ t th, s.threads t = some th → FOK th) (h : WsetInv s)
    (ht : s.threads t = some th) (hc : th.code = i :: rest) (hs : step P s (.tau t) = some s') : WsetInv s' := by
  obtain ⟨th', hth, hop, hrel⟩ := step_flags hinv ht hc hs
  have hws := step_wset ht hc hs
  by_cases hSR : i = .setRemove ∧ th.skip = false
  · obtain ⟨rfl, hsk⟩ := hSR
    have ha : th.a.cl = true ∧ th.a.sr = false ∧ th'.a.sr = true := by
      rcases hrel with ⟨x, _⟩ | ⟨_, _, _, _, _, hi⟩ | ⟨_, _, ha, _⟩
      · rw [hsk] at x; cases x
      · rcases hi with hi | hi | hi <;> cases hi
      · simp only [A.step] at ha; split at ha
        · rename_i hx; simp only [Bool.and_eq_true, Bool.not_eq_true'] at hx
          have := (Option.some.inj ha).symm
          exact ⟨hx.1.1, hx.1.2, by rw [this]⟩
        · cases ha
    obtain ⟨hcl, hnsr, hsr'⟩ := ha
    have hr := removed_add ht hth hop hsr'
    obtain ⟨wt, hwt, hwset, hnames⟩ : ∃ wt, s.watchers th.w = some wt ∧
        s'.wset = s.wset.filter (fun n => n ≠ wt.name) ∧ ∀ w, nameOf s' w = nameOf s w := by
      rcases hws with x | x | x
      · have := x.2.2 rfl; rw [hsk] at this; cases this
      · cases x.1
      · exact x.2.2
    have hnm : nameOf s th.w = some wt.name := by simp [nameOf, hwt]
    -- the closing watcher was still registered
    have live : ¬ Removed s th.w := by
      rintro ⟨t1, th1, h1, hw1, hs1⟩
      have c1 := (hfl t1 th1 h1).2.2.1 hs1
      have := hinv.clU t1 t th1 th h1 ht c1 hcl hw1
      subst this; rw [ht] at h1; cases h1; rw [hnsr] at hs1; cases hs1
    refine ⟨?_, ?_, ?_⟩
    · intro n hn
      rw [hwset] at hn
      obtain ⟨hn1, hn2⟩ := List.mem_filter.1 hn
      obtain ⟨w, h1, h2⟩ := h.left n hn1
      refine ⟨w, by rw [hnames]; exact h1, ?_⟩
      intro hx
      rcases (hr w).1 hx with hx | hx
      · exact h2 hx
      · subst hx; rw [hnm] at h1; cases h1; simp at hn2
    · intro w n h1 h2
      rw [hnames] at h1
      have nr : ¬ Removed s w := fun x => h2 ((hr w).2 (Or.inl x))
      have ne : w ≠ th.w := fun x => h2 ((hr w).2 (Or.inr x))
      rw [hwset]
      refine List.mem_filter.2 ⟨h.right w n h1 nr, ?_⟩
      simp only [ne_eq, decide_eq_true_eq]
      intro e; subst e
      exact ne (h.uniq w th.w _ h1 hnm nr live)
    · intro w1 w2 n h1 h2 h3 h4
      rw [hnames] at h1 h2
      exact h.uniq w1 w2 n h1 h2 (fun x => h3 ((hr w1).2 (Or.inl x))) (fun x => h4 ((hr w2).2 (Or.inl x)))
  · have hsr : th'.a.sr = th.a.sr := by
      rcases hrel with ⟨_, _, ha, _⟩ | ⟨_, _, ha, _⟩ | ⟨hsk, _, ha, _⟩
      · rw [ha]; exact (skipA_flags i th.a).2.2.1
      · rw [ha]
      · exact Astep_sr ha (fun e => hSR ⟨e, hsk⟩)
    have hr := removed_same ht hth hop hsr
    rcases hws with ⟨hwset, hnames, _⟩ | ⟨rfl, hsk, hnew, hwset, hnames⟩ | ⟨rfl, hsk, _⟩
    · refine ⟨?_, ?_, ?_⟩
      · intro n hn
        rw [hwset] at hn
        obtain ⟨w, h1, h2⟩ := h.left n hn
        exact ⟨w, by rw [hnames]; exact h1, fun x => h2 ((hr w).1 x)⟩
      · intro w n h1 h2
        rw [hnames] at h1; rw [hwset]
        exact h.right w n h1 (fun x => h2 ((hr w).2 x))
      · intro w1 w2 n h1 h2 h3 h4
        rw [hnames] at h1 h2
        exact h.uniq w1 w2 n h1 h2 (fun x => h3 ((hr w1).2 x)) (fun x => h4 ((hr w2).2 x))
    · -- a successful Watch: a fresh watcher id
      have hfresh : nameOf s s.nextW = none := by simp [nameOf, hinv.fresh s.nextW (Nat.le_refl _)]
      have nrm : ¬ Removed s s.nextW := by
        rintro ⟨t1, th1, h1, hw1, hs1⟩
        have c1 := (hfl t1 th1 h1).2.2.1 hs1
        have := (hinv.th t1 th1 h1).cl c1
        rw [hw1] at this
        simp [closedOf, hinv.fresh s.nextW (Nat.le_refl _)] at this
      have old : ∀ w n, nameOf s w = some n → w ≠ s.nextW := by
        intro w n h1 e; subst e; rw [hfresh] at h1; cases h1
      refine ⟨?_, ?_, ?_⟩
      · intro n hn
        rw [hwset] at hn
        rcases List.mem_cons.1 hn with rfl | hn
        · exact ⟨s.nextW, by rw [hnames]; simp, fun x => nrm ((hr _).1 x)⟩
        · obtain ⟨w, h1, h2⟩ := h.left n hn
          exact ⟨w, by rw [hnames]; simp [old w n h1]; exact h1, fun x => h2 ((hr w).1 x)⟩
      · intro w n h1 h2
        rw [hnames] at h1; rw [hwset]
        by_cases e : w = s.nextW
        · simp only [e, if_true, Option.some.injEq] at h1; subst h1; exact List.mem_cons_self
        · simp only [e, if_false] at h1
          exact List.mem_cons_of_mem _ (h.right w n h1 (fun x => h2 ((hr w).2 x)))
      · intro w1 w2 n h1 h2 h3 h4
        rw [hnames] at h1 h2
        have n3 : ¬ Removed s w1 := fun x => h3 ((hr w1).2 x)
        have n4 : ¬ Removed s w2 := fun x => h4 ((hr w2).2 x)
        by_cases e1 : w1 = s.nextW <;> by_cases e2 : w2 = s.nextW
        · rw [e1, e2]
        · simp only [e1, if_true, Option.some.injEq] at h1
          simp only [e2, if_false] at h2
          subst h1; exact absurd (h.right w2 _ h2 n4) hnew
        · simp only [e2, if_true, Option.some.injEq] at h2
          simp only [e1, if_false] at h1
          subst h2; exact absurd (h.right w1 _ h1 n3) hnew
        · simp only [e1, if_false] at h1
          simp only [e2, if_false] at h2
          exact h.uniq w1 w2 n h1 h2 n3 n4
    · exact absurd ⟨rfl, hsk⟩ hSR



/-! ### claims, release (fix D31) -/

abbrev DistinctNames (l : List Entry) : Prop := l.Pairwise (fun a b => a.desc.name ≠ b.desc.name)

theorem dropClaim_sublist (l : List Entry) (n : Name) : (dropClaim l n).Sublist l := by
  induction l with
  | nil => exact List.Sublist.slnil
  | cons c cs ih =>
    simp only [dropClaim]
    split
    · exact List.sublist_cons_self c cs
    · exact ih.cons₂ c

theorem mem_dropClaim {c : Entry} {l : List Entry} {n : Name} (h : c ∈ dropClaim l n) : c ∈ l :=
  (dropClaim_sublist l n).subset h

theorem dropClaim_ne {l : List Entry} {n : Name} (hd : DistinctNames l) {c : Entry} (h : c ∈ dropClaim l n) :
    c.desc.name ≠ n := by
  induction l with
  | nil => cases h
  | cons x xs ih =>
    simp only [dropClaim] at h
    rw [DistinctNames, List.pairwise_cons] at hd
    split at h
    · rename_i hx
      intro e; exact hd.1 c h (hx.trans e.symm)
    · rename_i hx
      rcases List.mem_cons.1 h with rfl | h
      · exact hx
      · exact ih hd.2 h

theorem mem_recordClaim {c e : Entry} {l : List Entry} (h : c ∈ recordClaim l e) : c = e ∨ c ∈ l := by
  induction l with
  | nil => left; simpa [recordClaim] using h
  | cons x xs ih =>
    simp only [recordClaim] at h
    split at h
    · rcases List.mem_cons.1 h with h | h
      · left; exact h
      · right; exact List.mem_cons_of_mem _ h
    · rcases List.mem_cons.1 h with h | h
      · right; rw [h]; exact List.mem_cons_self
      · rcases ih h with h | h
        · left; exact h
        · right; exact List.mem_cons_of_mem _ h

theorem self_mem_recordClaim (l : List Entry) (e : Entry) : e ∈ recordClaim l e := by
  induction l with
  | nil => simp [recordClaim]
  | cons x xs ih =>
    simp only [recordClaim]
    split
    · exact List.mem_cons_self
    · exact List.mem_cons_of_mem _ ih

theorem recordClaim_distinct {l : List Entry} (e : Entry) (hd : DistinctNames l) : DistinctNames (recordClaim l e) := by
  induction l with
  | nil => simp [recordClaim, DistinctNames]
  | cons x xs ih =>
    rw [DistinctNames, List.pairwise_cons] at hd
    simp only [recordClaim]
    split
    · rename_i hx
      rw [DistinctNames, List.pairwise_cons]
      exact ⟨fun b hb => by rw [← hx]; exact hd.1 b hb, hd.2⟩
    · rename_i hx
      rw [DistinctNames, List.pairwise_cons]
      refine ⟨?_, ih hd.2⟩
      intro b hb
      rcases mem_recordClaim hb with rfl | hb
      · exact hx
      · exact hd.1 b hb

theorem svcClaim_cons_none {e : Entry} {r : Svc → Option Entry} {y : Svc} {ys : List Svc} {w : Svc → List Entry}
    (h : r y = none) : svcClaim e r (y :: ys) w = svcClaim e r ys w := by simp [svcClaim, h]

theorem svcClaim_cons_same {e old : Entry} {r : Svc → Option Entry} {y : Svc} {ys : List Svc} {w : Svc → List Entry}
    (h : r y = some old) (hn : old.desc.name = e.desc.name) : svcClaim e r (y :: ys) w = svcClaim e r ys w := by
  simp [svcClaim, h, hn]

theorem svcClaim_cons_other {e old : Entry} {r : Svc → Option Entry} {y : Svc} {ys : List Svc} {w : Svc → List Entry}
    (h : r y = some old) (hn : old.desc.name ≠ e.desc.name) :
    svcClaim e r (y :: ys) w = svcClaim e r ys (upd w y (recordClaim (w y) e)) := by
  simp [svcClaim, h, hn]

theorem svcClaim_mem {e : Entry} {r : Svc → Option Entry} {l : List Svc} {w : Svc → List Entry} {k : Svc} {c : Entry}
    (h : c ∈ svcClaim e r l w k) :
    c ∈ w k ∨ (c = e ∧ k ∈ l ∧ ∃ old, r k = some old ∧ old.desc.name ≠ e.desc.name) := by
  induction l generalizing w with
  | nil => left; simpa [svcClaim] using h
  | cons y ys ih =>
    have lift : (c ∈ w k ∨ (c = e ∧ k ∈ ys ∧ ∃ old, r k = some old ∧ old.desc.name ≠ e.desc.name)) →
        c ∈ w k ∨ (c = e ∧ k ∈ y :: ys ∧ ∃ old, r k = some old ∧ old.desc.name ≠ e.desc.name) := by
      rintro (h1 | ⟨h1, h2, h3⟩)
      · left; exact h1
      · right; exact ⟨h1, List.mem_cons_of_mem _ h2, h3⟩
    cases ho : r y with
    | none => rw [svcClaim_cons_none ho] at h; exact lift (ih h)
    | some old =>
      by_cases hne : old.desc.name = e.desc.name
      · rw [svcClaim_cons_same ho hne] at h; exact lift (ih h)
      · rw [svcClaim_cons_other ho hne] at h
        rcases ih h with h1 | ⟨h1, h2, h3⟩
        · by_cases hk : k = y
          · subst hk
            simp only [upd_same] at h1
            rcases mem_recordClaim h1 with h4 | h4
            · right; exact ⟨h4, List.mem_cons_self, old, ho, hne⟩
            · left; exact h4
          · left; simpa [upd, hk] using h1
        · right; exact ⟨h1, List.mem_cons_of_mem _ h2, h3⟩

theorem svcClaim_distinct {e : Entry} {r : Svc → Option Entry} (l : List Svc) {w : Svc → List Entry}
    (hd : ∀ k, DistinctNames (w k)) : ∀ k, DistinctNames (svcClaim e r l w k) := by
  induction l generalizing w with
  | nil => simpa [svcClaim] using hd
  | cons y ys ih =>
    cases ho : r y with
    | none => rw [svcClaim_cons_none ho]; exact ih hd
    | some old =>
      by_cases hne : old.desc.name = e.desc.name
      · rw [svcClaim_cons_same ho hne]; exact ih hd
      · rw [svcClaim_cons_other ho hne]
        apply ih
        intro k
        by_cases hk : k = y
        · subst hk; simp only [upd_same]; exact recordClaim_distinct e (hd k)
        · simpa [upd, hk] using hd k

/-- every claim of another target is kept by the add phase -/
theorem svcClaim_keeps {e : Entry} {r : Svc → Option Entry} (l : List Svc) {w : Svc → List Entry} {k : Svc} {c : Entry}
    (h : c ∈ w k) (hn : c.desc.name ≠ e.desc.name) : c ∈ svcClaim e r l w k := by
  have keep : ∀ (l : List Entry), c ∈ l → c ∈ recordClaim l e := by
    intro l
    induction l with
    | nil => intro h; cases h
    | cons x xs ih =>
      intro h
      simp only [recordClaim]
      split
      · rename_i hx
        rcases List.mem_cons.1 h with rfl | h
        · exact absurd hx hn
        · exact List.mem_cons_of_mem _ h
      · rcases List.mem_cons.1 h with rfl | h
        · exact List.mem_cons_self
        · exact List.mem_cons_of_mem _ (ih h)
  induction l generalizing w with
  | nil => simpa [svcClaim] using h
  | cons y ys ih =>
    cases ho : r y with
    | none => rw [svcClaim_cons_none ho]; exact ih h
    | some old =>
      by_cases hne : old.desc.name = e.desc.name
      · rw [svcClaim_cons_same ho hne]; exact ih h
      · rw [svcClaim_cons_other ho hne]
        apply ih
        by_cases hk : k = y
        · subst hk; simp only [upd_same]; exact keep _ h
        · simpa [upd, hk] using h

theorem release_r_self (q : RelSt) (k : Svc) : (release q k).r k = (q.w k).head? := by
  unfold release; split <;> simp_all

theorem release_w_self (q : RelSt) (k : Svc) : (release q k).w k = (q.w k).tail := by
  unfold release; split <;> simp_all

theorem release_other (q : RelSt) (k x : Svc) (h : x ≠ k) :
    (release q k).r x = q.r x ∧ (release q k).w x = q.w x := by
  unfold release; split <;> simp [upd, h]

theorem relLoop_out {D : List Svc} {q : RelSt} {k : Svc} (hk : k ∉ D) :
    (relLoop D q).r k = q.r k ∧ (relLoop D q).w k = q.w k := by
  induction D generalizing q with
  | nil => exact ⟨rfl, rfl⟩
  | cons x xs ih =>
    simp only [relLoop]
    have h1 : k ≠ x := fun e => hk (e ▸ List.mem_cons_self)
    have h2 : k ∉ xs := fun e => hk (List.mem_cons_of_mem _ e)
    obtain ⟨a, b⟩ := ih (q := release q x) h2
    obtain ⟨c, d⟩ := release_other q x k h1
    exact ⟨a.trans c, b.trans d⟩

theorem relLoop_in {D : List Svc} {q : RelSt} {k : Svc} (hn : D.Nodup) (hk : k ∈ D) :
    (relLoop D q).r k = (q.w k).head? ∧ (relLoop D q).w k = (q.w k).tail := by
  induction D generalizing q with
  | nil => cases hk
  | cons x xs ih =>
    simp only [relLoop]
    rw [List.nodup_cons] at hn
    rcases List.mem_cons.1 hk with rfl | hk
    · obtain ⟨a, b⟩ := relLoop_out (q := release q k) hn.1
      exact ⟨a.trans (release_r_self q k), b.trans (release_w_self q k)⟩
    · have h1 : k ≠ x := fun e => hn.1 (e ▸ hk)
      obtain ⟨a, b⟩ := ih (q := release q x) hn.2 hk
      obtain ⟨c, d⟩ := release_other q x k h1
      rw [c] at *; rw [d] at a b
      exact ⟨a, b⟩

theorem relLoop_v_mem {D : List Svc} {q : RelSt} {x : Svc} {m : Name} (hn : D.Nodup) :
    x ∈ (relLoop D q).v m ↔ x ∈ q.v m ∨ (x ∈ D ∧ ∃ c, (q.w x).head? = some c ∧ c.desc.name = m) := by
  induction D generalizing q with
  | nil => simp [relLoop]
  | cons y ys ih =>
    simp only [relLoop]
    rw [List.nodup_cons] at hn
    rw [ih hn.2]
    have hv : x ∈ (release q y).v m ↔ x ∈ q.v m ∨ (x = y ∧ ∃ c, (q.w y).head? = some c ∧ c.desc.name = m) := by
      unfold release
      split
      · rename_i hw; simp [hw]
      · rename_i c rest hw
        by_cases hm : m = c.desc.name
        · subst hm; simp [hw, upd_same]
        · simp only [upd_other _ _ _ _ hm, hw, List.head?_cons, Option.some.injEq]
          constructor
          · intro h; left; exact h
          · rintro (h | ⟨_, c', h1, h2⟩)
            · exact h
            · subst h1; exact absurd h2.symm hm
    constructor
    · rintro (h | ⟨hx, c, h1, h2⟩)
      · rcases hv.1 h with h | ⟨rfl, h⟩
        · left; exact h
        · right; exact ⟨List.mem_cons_self, h⟩
      · have hxy : x ≠ y := fun e => hn.1 (e ▸ hx)
        rw [(release_other q y x hxy).2] at h1
        right; exact ⟨List.mem_cons_of_mem _ hx, c, h1, h2⟩
    · rintro (h | ⟨hx, c, h1, h2⟩)
      · left; exact hv.2 (Or.inl h)
      · rcases List.mem_cons.1 hx with rfl | hx
        · left; exact hv.2 (Or.inr ⟨rfl, c, h1, h2⟩)
        · have hxy : x ≠ y := fun e => hn.1 (e ▸ hx)
          right; refine ⟨hx, c, ?_, h2⟩
          rw [(release_other q y x hxy).2]; exact h1

theorem relLoop_nodup {D : List Svc} {q : RelSt} {n : Name} (H1 : ∀ m, (q.v m).Nodup)
    (H2 : ∀ x ∈ D, ∀ m, m ≠ n → x ∉ q.v m) (H3 : D.Nodup) (H4 : ∀ x ∈ D, ∀ c ∈ q.w x, c.desc.name ≠ n) :
    ∀ m, ((relLoop D q).v m).Nodup := by
  induction D generalizing q with
  | nil => simpa [relLoop] using H1
  | cons y ys ih =>
    simp only [relLoop]
    rw [List.nodup_cons] at H3
    apply ih
    · intro m
      unfold release
      split
      · exact H1 m
      · rename_i c rest hw
        by_cases hm : m = c.desc.name
        · subst hm
          simp only [upd_same]
          have hc : c.desc.name ≠ n := H4 y List.mem_cons_self c (by rw [hw]; exact List.mem_cons_self)
          have : y ∉ q.v c.desc.name := H2 y List.mem_cons_self _ hc
          exact List.nodup_append.2 ⟨H1 _, by simp, by
            intro a ha b hb; simp at hb; subst hb; intro e; subst e; exact this ha⟩
        · simp only [upd_other _ _ _ _ hm]; exact H1 m
    · intro x hx m hm
      have hxy : x ≠ y := fun e => H3.1 (e ▸ hx)
      unfold release
      split
      · exact H2 x (List.mem_cons_of_mem _ hx) m hm
      · rename_i c rest hw
        by_cases hm2 : m = c.desc.name
        · subst hm2
          simp only [upd_same, List.mem_append, List.mem_singleton, not_or]
          exact ⟨H2 x (List.mem_cons_of_mem _ hx) _ hm, hxy⟩
        · simp only [upd_other _ _ _ _ hm2]; exact H2 x (List.mem_cons_of_mem _ hx) m hm
    · exact H3.2
    · intro x hx c hc
      have hxy : x ≠ y := fun e => H3.1 (e ▸ hx)
      rw [(release_other q y x hxy).2] at hc
      exact H4 x (List.mem_cons_of_mem _ hx) c hc

theorem mem_dedup {l : List Svc} {x : Svc} : x ∈ dedup l ↔ x ∈ l := by
  induction l with
  | nil => simp [dedup]
  | cons y ys ih =>
    simp only [dedup, List.mem_cons, List.mem_filter, ih]
    constructor
    · rintro (h | ⟨h, _⟩)
      · left; exact h
      · right; exact h
    · rintro (h | h)
      · left; exact h
      · by_cases e : x = y
        · left; exact e
        · right; exact ⟨h, by simpa using e⟩

theorem nodup_dedup (l : List Svc) : (dedup l).Nodup := by
  induction l with
  | nil => simp [dedup]
  | cons y ys ih =>
    simp only [dedup, List.nodup_cons, List.mem_filter]
    exact ⟨fun h => by simp at h, ih.filter _⟩

end GB.C11
