import GB.C11.Methods
import GB.C11.Runs
/-
  C11 (round 5) — the per-method LTS (`MStep`): every component is a run of the one-method LTS, and the CONTROL
  part of the state (watchers, mutexes, watcherSet, returned Closes, every thread's remaining code / skip mode /
  ghost flags) evolves independently of the table contents (`step_sc`), hence is the same in all method components
  (`mreach_coherent`) and a step enabled for one method is enabled for all (`mstep_enabled_all`).
-/
set_option linter.unusedSimpArgs false
set_option linter.unusedVariables false
namespace GB.C11
open GB.LTS

theorem mreach_components {P : Progs} {mOf : Svc → Meth} {ms : MState} (h : MReach P mOf ms) (μ : Meth) :
    Reachable (step P) init (ms μ) := by
  induction h with
  | init => exact Reachable.init
  | step _ hs ih => exact Reachable.step ih (hs μ)

/-! ### control projection -/

/-- the control part of a thread -/
structure TC where
  w : Wid
  dname : Name
  key : Nat
  code : List Instr
  skip : Bool
  a : A

def tc (th : Thread) : TC := ⟨th.w, th.desc.name, th.key, th.code, th.skip, th.a⟩

/-- the control part of a state: everything but the tables and the lookup results -/
structure SC where
  watchers : Wid → Option Watcher
  nextW : Wid
  wset : List Name
  tmu : Option Tid
  closeRet : List Wid
  thr : Tid → Option TC

def sc (s : State) : SC := ⟨s.watchers, s.nextW, s.wset, s.tmu, s.closeRet, fun t => (s.threads t).map tc⟩

def setTC (c : SC) (t : Tid) (x : TC) : SC := { c with thr := upd c.thr t (some x) }

theorem thr_upd (f : Tid → Option Thread) (t : Tid) (x : Thread) :
    (fun u => (upd f t (some x) u).map tc) = upd (fun u => (f u).map tc) t (some (tc x)) := by
  funext u
  simp only [upd]
  split <;> rfl

theorem sc_setThread (s : State) (t : Tid) (x : Thread) : sc (setThread s t x) = setTC (sc s) t (tc x) := by
  simp only [sc, setThread, setTC, thr_upd]

/-- the control-only semantics of one statement: `exec` with the tables erased -/
def cexec (svc : Bool) (c : SC) (t : Tid) (th : TC) (i : Instr) : Option SC :=
  if th.skip then
    match i with
    | .unlockW =>
      if th.a.hw then
        match c.watchers th.w with
        | some wt => some { setTC c t { th with a := { th.a with hw := false, chk := false } } with
                            watchers := upd c.watchers th.w (some { wt with mu := none }) }
        | none => none
      else some (setTC c t th)
    | .unlockT =>
      if th.a.ht then some { setTC c t { th with a := { th.a with ht := false } } with tmu := none }
      else some (setTC c t th)
    | _ => some (setTC c t th)
  else
  let th' : TC := { th with a := (th.a.step svc i).getD th.a }
  match i with
  | .lockW =>
    match c.watchers th.w with
    | some wt =>
      if wt.mu.isNone then some { setTC c t th' with watchers := upd c.watchers th.w (some { wt with mu := some t }) }
      else none
    | none => none
  | .unlockW =>
    if th.a.hw then
      match c.watchers th.w with
      | some wt => some { setTC c t th' with watchers := upd c.watchers th.w (some { wt with mu := none }) }
      | none => none
    else some (setTC c t th')
  | .loadClosed =>
    match c.watchers th.w with
    | some wt => if wt.closed then some (setTC c t { th with skip := true }) else some (setTC c t th')
    | none => none
  | .casClosed =>
    match c.watchers th.w with
    | some wt =>
      if wt.closed then some (setTC c t { th with skip := true })
      else some { setTC c t th' with watchers := upd c.watchers th.w (some { wt with closed := true }) }
    | none => none
  | .nameCheck =>
    match c.watchers th.w with
    | some wt => if th.dname = wt.name then some (setTC c t th') else some (setTC c t { th with skip := true })
    | none => none
  | .lockT => if c.tmu.isNone then some { setTC c t th' with tmu := some t } else none
  | .unlockT => if th.a.ht then some { setTC c t th' with tmu := none } else some (setTC c t th')
  | .pRemove =>
    match c.watchers th.w with
    | some _ => some (setTC c t th')
    | none => none
  | .sRemove =>
    match c.watchers th.w with
    | some _ => some (setTC c t th')
    | none => none
  | .setAdd =>
    if c.wset.contains th.key then some (setTC c t th')
    else some { setTC c t th' with wset := th.key :: c.wset,
                                   watchers := upd c.watchers c.nextW (some { name := th.key }),
                                   nextW := c.nextW + 1 }
  | .setRemove =>
    match c.watchers th.w with
    | some wt => some { setTC c t th' with wset := c.wset.filter (fun n => n ≠ wt.name) }
    | none => none
  | .ret => if th.a.cl then some { setTC c t th' with closeRet := th.w :: c.closeRet } else some (setTC c t th')
  | _ => some (setTC c t th')

theorem exec_sc (svc ss : Bool) (s : State) (t : Tid) (th : Thread) (i : Instr) :
    (exec svc ss s t th i).map sc = cexec svc (sc s) t (tc th) i := by
  obtain ⟨op, code, skip, a, snap, cr, pres, res⟩ := th
  unfold exec cexec
  cases skip
  · simp only [tc, Bool.false_eq_true, if_false]
    cases i <;> simp only [sc_setThread] <;> (repeat' split) <;>
      simp_all [sc, setThread, setTC, thr_upd, tc, Thread.w, Thread.desc, Thread.key]
  · simp only [tc, if_true]
    cases i <;> simp only [sc_setThread] <;> (repeat' split) <;>
      simp_all [sc, setThread, setTC, thr_upd, tc, Thread.w, Thread.desc, Thread.key]

def cready (c : SC) : Op → Bool
  | .update w _ => (c.watchers w).isSome
  | .close w => (c.watchers w).isSome
  | _ => true

/-- control-only step -/
def cstep (P : Progs) (c : SC) : Label → Option SC
  | .spawn t op =>
    if (c.thr t).isNone && cready c op then
      some (setTC c t (tc { op := op, code := P.of op }))
    else none
  | .tau t =>
    match c.thr t with
    | none => none
    | some th =>
      match th.code with
      | [] => none
      | i :: rest => cexec P.svc c t { th with code := rest } i

theorem step_sc (P : Progs) (s : State) (l : Label) : (step P s l).map sc = cstep P (sc s) l := by
  cases l with
  | spawn t op =>
    have h1 : ((sc s).thr t).isNone = (s.threads t).isNone := by simp [sc]
    have h2 : cready (sc s) op = opReady s op := by cases op <;> rfl
    simp only [step, cstep, h1, h2]
    split
    · simp [sc_setThread]
    · rfl
  | tau t =>
    simp only [step, cstep]
    cases hth : s.threads t with
    | none => simp [sc, hth]
    | some th =>
      have : (sc s).thr t = some (tc th) := by simp [sc, hth]
      rw [this]
      simp only
      cases hc : th.code with
      | nil => simp [tc, hc]
      | cons i rest =>
        simp only [tc, hc]
        rw [exec_sc]
        rfl

/-- the control step does not see the restriction of a description to one method -/
theorem cstep_restrict (P : Progs) (c : SC) (mOf : Svc → Meth) (μ : Meth) (l : Label) :
    cstep P c (l.restrict mOf μ) = cstep P c l := by
  cases l with
  | tau t => rfl
  | spawn t op => cases op <;> rfl

/-- **All method components share the control state.** -/
theorem mreach_coherent {P : Progs} {mOf : Svc → Meth} {ms : MState} (h : MReach P mOf ms) (μ ν : Meth) :
    sc (ms μ) = sc (ms ν) := by
  induction h with
  | init => rfl
  | @step ms ms' l _ hs ih =>
    have a := step_sc P (ms μ) (l.restrict mOf μ)
    have b := step_sc P (ms ν) (l.restrict mOf ν)
    rw [hs μ, cstep_restrict] at a
    rw [hs ν, cstep_restrict, ← ih] at b
    simp only [Option.map_some] at a b
    exact Option.some.inj (a.trans b.symm)

/-- **The lockstep product blocks nothing**: in a reachable state of the per-method LTS a label enabled in ONE
    method component is enabled in ALL of them. -/
theorem mstep_enabled_all {P : Progs} {mOf : Svc → Meth} {ms : MState} (h : MReach P mOf ms) (l : Label) (μ : Meth)
    (x : State) (hx : step P (ms μ) (l.restrict mOf μ) = some x) :
    ∃ ms', MStep P mOf ms l ms' := by
  have en : ∀ ν, ∃ y, step P (ms ν) (l.restrict mOf ν) = some y := by
    intro ν
    have a := step_sc P (ms μ) (l.restrict mOf μ)
    have b := step_sc P (ms ν) (l.restrict mOf ν)
    rw [hx, cstep_restrict] at a
    rw [cstep_restrict, ← mreach_coherent h μ ν, ← a] at b
    cases hy : step P (ms ν) (l.restrict mOf ν) with
    | none => rw [hy] at b; cases b
    | some y => exact ⟨y, rfl⟩
  exact ⟨fun ν => Classical.choose (en ν), fun ν => Classical.choose_spec (en ν)⟩

end GB.C11
