import GB.C11.Fine
/-
  C11 (round 5) — the pattern table PER HTTP METHOD. `mutablePatternRoutingTable` keeps one linked list per HTTP
  method (`routes map[method]*list.List`, one element per target that has routes for that method, insertion order
  per method) and `commit()` copies ALL of them into the one `staticPatternRoutingTable` that `static` points to.
  `addTarget` treats every method separately: a method the new description has no routes for loses the target's
  element, an existing element is updated in place, a new method gets an element pushed to the back — which is
  `tblAdd` applied, per method `μ`, to the description restricted to the routes of `μ`.

  Model: the one-method LTS indexed by the method, all components moving in LOCKSTEP under one label (`MStep`):
  component `μ` sees every UpdateDesc with the description restricted to `μ` (`Desc.restrict`). One `pStore` step
  publishes the tables of all methods at once, one `pLoad` step of a lookup loads the snapshots of all methods at
  once — the code's single `static.Store(commit())` / single `static.Load()` (facts `c11StaticLoadSites = 1`).
  A route key determines its HTTP method (`mOf`). Core-only (the driver replays two-method traces, kind `M`).
-/
namespace GB.C11

abbrev Meth := Nat

def Desc.restrict (mOf : Svc → Meth) (μ : Meth) (d : Desc) : Desc :=
  { d with svcs := d.svcs.filter (fun k => mOf k = μ) }

def Op.restrict (mOf : Svc → Meth) (μ : Meth) : Op → Op
  | .update w d => .update w (d.restrict mOf μ)
  | op => op

def Label.restrict (mOf : Svc → Meth) (μ : Meth) : Label → Label
  | .spawn t op => .spawn t (op.restrict mOf μ)
  | .tau t => .tau t

/-- the state of the per-method LTS: one component per HTTP method -/
abbrev MState := Meth → State

def minit : MState := fun _ => init

/-- one step of the per-method LTS: every method component takes the step of the one label -/
def MStep (P : Progs) (mOf : Svc → Meth) (ms : MState) (l : Label) (ms' : MState) : Prop :=
  ∀ μ, step P (ms μ) (l.restrict mOf μ) = some (ms' μ)

inductive MReach (P : Progs) (mOf : Svc → Meth) : MState → Prop
  | init : MReach P mOf minit
  | step {ms ms' : MState} {l : Label} : MReach P mOf ms → MStep P mOf ms l ms' → MReach P mOf ms'

/-- what a lookup of key `k` returns in the per-method table: the first element of the list of `k`'s method
    (in that method's insertion order) whose description lists `k` -/
def mFind (mOf : Svc → Meth) (k : Svc) (snap : Meth → List Entry) : Option Entry := tblFind k (snap (mOf k))

/-! ### executable two-method instance for the trace validation (kind `M`): odd keys = default POST bindings
    (component `1`), even keys = GET bindings (component `0`) -/

def mOf2 (k : Svc) : Meth := k % 2

structure M2 where
  post : FState := finit
  get : FState := finit
deriving Inhabited

def mstep2 (P : Progs) (m : M2) (l : Label) : Option M2 :=
  match fstep P m.post (l.restrict mOf2 1), fstep P m.get (l.restrict mOf2 0) with
  | some a, some b => some { post := a, get := b }
  | _, _ => none

end GB.C11
