import GB.C06.Model
import GB.C06.Spec
/-
  STACK — the combined model of the glue in reflection.go (core-only, executable).

  The cores are the merged models: `GB.C06.PatState` / `GB.C06.SvcState` (routing tables),
  `GB.C14.routeGRPC` (service lookup), `GB.C06.routeHTTP` (pattern lookup), the `present` set of
  `GB.C16` (ReflectionRouter.targets).  This file models only what lies BETWEEN them:

    ReflectionRouter.Add      dup check → pool.New → patternRouter.Watch(name) → serviceRouter.Watch(name)
                              → aggregateWatcher{pattern, service} → resolverBuilder.Build(name, watcher)
    first resolution          resolver → aggregateWatcher.UpdateDesc(desc) → BOTH watchers, pattern first
    ReflectionRouter.Remove   watcher.Close() (both) → resolver.Close() → poolController.Close() → delete
    later polls               a changed contract → aggregateWatcher.UpdateDesc(desc') → both watchers

  MODEL ASSUMPTIONS that only the `stack` correspondence area ties to the code (no other slice does):
    (G1) fan-out: `aggregateWatcher` hands EVERY UpdateDesc/Close to BOTH router watchers, pattern router
         first (`fanout` below applies one C06 operation to both tables);
    (G2) wiring: Add watches both routers under the router NAME (not the dial target), builds the resolver
         for the same name, and the resolver delivers descriptions whose `Name` is that name (`toC06` emits
         `watch n`, `update n d` with `d.name = n`, `close n` for the same `n`);
    (G3) settled state: the description a target's first resolution delivers is the contract it serves at
         that time (C05 is the resolver's own property); the history records it in the `add` operation.
  Construction failures are C16's (`Outcome`): an Add that fails or is rejected does nothing here.
-/
namespace GB.Stack
open GB.C06

/-- one operation on the ReflectionRouter, seen in the settled state -/
inductive Op
  /-- `Add(name, …)` whose connection constructor succeeds; `d` = the description delivered by the first
      resolution (`none`: the target has no reflection service, nothing is ever delivered) -/
  | add (n : Name) (d : Option Desc)
  /-- `Add` whose constructor fails, or which is rejected because of per-target options -/
  | addFail (n : Name)
  | remove (n : Name)
  /-- a later poll of the live target `n` delivers a changed description -/
  | update (n : Name) (d : Desc)
deriving Repr

structure St where
  /-- domain of `ReflectionRouter.targets` (C16's `present` set) -/
  present : Name → Bool
  pat : PatState
  svc : SvcState

def St.init : St := ⟨fun _ => false, PatState.init, SvcState.init⟩

/-- (G1) `aggregateWatcher`: one watcher-level operation reaches both routers, pattern router first -/
def fanout (valid : Bytes → Bool) (st : St) (op : C06.Op) : St :=
  { st with pat := (st.pat.step valid op).1, svc := (st.svc.step op).1 }

/-- the description a resolver built for `n` delivers carries the name `n` (G2) -/
def named (n : Name) (d : Desc) : Desc := { d with name := n }

/-- result of Add (true = added) / Remove (true = was present); `update` has no caller-visible result -/
def step (valid : Bytes → Bool) (st : St) : Op → St × Bool
  | .add n d =>
    if st.present n then (st, false)
    else
      let st1 := { fanout valid st (.watch n) with present := upd st.present n true }
      match d with
      | none => (st1, true)
      | some d => (fanout valid st1 (.update n (named n d)), true)
  | .addFail _ => (st, false)
  | .remove n =>
    if st.present n then ({ fanout valid st (.close n) with present := upd st.present n false }, true)
    else (st, false)
  | .update n d =>
    if st.present n then (fanout valid st (.update n (named n d)), true) else (st, false)

def run (valid : Bytes → Bool) (st : St) (h : List Op) : St := h.foldl (fun s op => (step valid s op).1) st

/-- the present set alone (the abstract machine of C16's specification, over byte-string names) -/
def presentStep (p : Name → Bool) : Op → Name → Bool
  | .add n _ => if p n then p else upd p n true
  | .addFail _ => p
  | .remove n => if p n then upd p n false else p
  | .update _ _ => p

def presentOf (h : List Op) : Name → Bool := h.foldl presentStep (fun _ => false)

/-- (G2) the watcher-level operations one router operation expands to, given the present set before it -/
def opC06 (p : Name → Bool) : Op → List C06.Op
  | .add n d =>
    if p n then []
    else match d with
      | none => [.watch n]
      | some d => [.watch n, .update n (named n d)]
  | .addFail _ => []
  | .remove n => if p n then [.close n] else []
  | .update n d => if p n then [.update n (named n d)] else []

/-- the whole history, compiled to the operation stream both routers see -/
def toC06From (p : Name → Bool) : List Op → List C06.Op
  | [] => []
  | op :: rest => opC06 p op ++ toC06From (presentStep p op) rest

def toC06 (h : List Op) : List C06.Op := toC06From (fun _ => false) h

end GB.Stack
