import GB.Stack.Proofs
/-
  STACK — composition theorems over the combined model of the glue (GB/Stack/Model.lean):

      ReflectionRouter history  ──`step`──▶  present set (C16)  ×  PatState × SvcState (C06)
                                   │
                                   └─ `toC06`: the watcher-level operation stream both routers see
                                      (G1 fan-out, G2 wiring — the two MODEL ASSUMPTIONS of this area)

  Everything below is proved for ALL finite histories from the merged slices' theorems
  (`C06_service`, `C06_service_latest`, `C06_service_gone`, `C06_pattern`, `C06_pattern_latest`); the
  compositions that need `C16_refines_present` / `C14_first_claimant` / `C14_method_verbatim` are stated where
  those are in scope and audited: the blocks `C16_stack_*` (GB/C16/Props.lean) and `C14_stack_*`
  (GB/C14/Props.lean).  The specification state is `specLatest h`: for every PRESENT name the description
  its target delivered last (`some none`: present, nothing resolved — e.g. a target without reflection).
-/
set_option linter.unusedSimpArgs false
set_option linter.unusedVariables false
open GB GB.C06 GB.Stack


/-! ## the theorems -/

/-- **Glue = compilation** (G1 + G2 made precise): after any router history the two routing tables of the
    combined model are exactly the C06 models run on the compiled watcher-level stream `toC06 h`, and the
    `targets` map is the present set. -/
theorem Stack_run_eq_compile (valid : Bytes → Bool) (h : List Stack.Op) :
    (run valid St.init h).pat = PatState.init.run valid (toC06 h) ∧
    (run valid St.init h).svc = SvcState.init.run (toC06 h) ∧
    (run valid St.init h).present = presentOf h :=
  run_spec valid h St.init

/-- **The routers' view is the router's view**: the C06 specification state of the compiled stream is
    `specLatest h`, and a name is watched on both routers iff it is present in `ReflectionRouter.targets` —
    after any history, including failed, rejected and duplicate Adds and Removes of absent names. -/
theorem Stack_latest (h : List Stack.Op) :
    latestOf (toC06 h) = specLatest h ∧ ∀ n, presentOf h n = (latestOf (toC06 h)).watched n := by
  obtain ⟨h1, h2⟩ := toC06From_latest h _ _ agree_init
  refine ⟨h1, fun n => ?_⟩
  have : latestOf (toC06 h) = specLatest h := h1
  rw [this]
  exact h2 n

/-- **Settled routing, gRPC-style entries** (proxy / gRPC-Web / gRPC-WebSocket all read the service table).
    After ANY history `h`, for every service `S`:
    (1) whoever `S` is routed to is PRESENT and its LATEST description lists `S`
        (nothing of a removed target, of a superseded contract, of a failed Add);
    (2) if `S` was never listed by two present targets at once, the one present target listing it owns it;
    (3) if no present target's latest description lists `S`, it is not routed. -/
theorem Stack_settled_routes (valid : Bytes → Bool) (h : List Stack.Op) (S : SvcName) :
    (∀ r, (run valid St.init h).svc.routes S = some r →
        (run valid St.init h).present r.target = true ∧ Lists (specLatest h) r.target S) ∧
    (NeverShared S Latest.init (toC06 h) → ∀ T, Lists (specLatest h) T S →
        ∃ r, (run valid St.init h).svc.routes S = some r ∧ r.target = T) ∧
    ((∀ T, ¬ Lists (specLatest h) T S) → (run valid St.init h).svc.routes S = none) := by
  obtain ⟨_, hs, hp⟩ := Stack_run_eq_compile valid h
  obtain ⟨hl, hw⟩ := Stack_latest h
  rw [hs, hp, ← hl]
  refine ⟨?_, ?_, ?_⟩
  · intro r hr
    obtain ⟨_, h2, h3⟩ := C06_service_latest (toC06 h) S r hr
    exact ⟨by rw [hw]; exact h3, h2⟩
  · intro hn T hT
    have := C06_service (toC06 h) S hn T hT
    obtain ⟨d, hd, hs'⟩ := hT
    have hsome : ∃ r, specSvcRoute (latestOf (toC06 h)) T S = some r := by
      simp only [specSvcRoute, hd]
      obtain ⟨s, hs1, hs2⟩ := hs'
      cases hli : lastIdx S d.services 0 with
      | some i => exact ⟨_, rfl⟩
      | none => exact absurd ⟨s, hs1, hs2⟩ ((lastIdx_none S d.services 0).mp hli)
    obtain ⟨r, hr⟩ := hsome
    refine ⟨r, by rw [this, hr], ?_⟩
    simp only [specSvcRoute, hd, Option.map_eq_some_iff] at hr
    obtain ⟨i, _, hi⟩ := hr
    rw [← hi]
  · intro hno
    exact C06_service_gone (toC06 h) S hno

/-- **After Remove returned nothing of the target is routable anywhere, other targets are untouched** —
    service table: no service is routed to the removed name, and a service owned by another target keeps
    its route; pattern table: no lookup (any HTTP method, any path, any matcher) answers with the removed name. -/
theorem Stack_removed_unroutable (valid : Bytes → Bool) (eval : Bytes → Route → Outcome) (h : List Stack.Op) (T : Name) :
    let st := run valid St.init (h ++ [.remove T])
    st.present T = false ∧
    (∀ S r, st.svc.routes S = some r → r.target ≠ T) ∧
    (∀ m path v r, routeHTTP st.present eval st.pat.static m path ≠ .found T v r) ∧
    (∀ S r, (run valid St.init h).svc.routes S = some r → r.target ≠ T → st.svc.routes S = some r) := by
  intro st
  have hpres : st.present T = false := by
    have h3 := (Stack_run_eq_compile valid (h ++ [.remove T])).2.2
    show (run valid St.init (h ++ [.remove T])).present T = false
    rw [h3]
    simp only [presentOf, List.foldl_append, List.foldl_cons, List.foldl_nil, presentStep]
    split
    · simp [upd_same]
    · rename_i hh; simpa using hh
  refine ⟨hpres, ?_, ?_, ?_⟩
  · intro S r hr ht
    have := ((Stack_settled_routes valid (h ++ [.remove T]) S).1 r hr).1
    rw [ht] at this
    exact absurd this (by rw [hpres]; simp)
  · intro m path v r hf
    obtain ⟨h1, _, h3⟩ := Stack_run_eq_compile valid (h ++ [.remove T])
    have hf' : routeHTTP st.present eval (PatState.init.run valid (toC06 (h ++ [.remove T]))).static m path = .found T v r := by
      rw [← h1]; exact hf
    obtain ⟨d, _, _, hw, _⟩ := C06_pattern_latest valid st.present eval _ m path T v r hf'
    have hw' := (Stack_latest (h ++ [Stack.Op.remove T])).2 T
    rw [hw, ← h3] at hw'
    have hpres' : (run valid St.init (h ++ [Stack.Op.remove T])).present T = false := hpres
    rw [hpres'] at hw'
    exact absurd hw' (by simp)
  · intro S r hr hne
    obtain ⟨_, hs, hp⟩ := Stack_run_eq_compile valid h
    obtain ⟨_, hs', _⟩ := Stack_run_eq_compile valid (h ++ [.remove T])
    show (run valid St.init (h ++ [.remove T])).svc.routes S = some r
    rw [hs'] ; rw [hs] at hr
    have hc : toC06 (h ++ [.remove T]) = toC06 h ++ opC06 (presentOf h) (.remove T) := by
      have := toC06From_append h [Stack.Op.remove T] (fun _ => false)
      simpa [toC06From, toC06, presentOf] using this
    rw [hc]
    by_cases hpT : presentOf h T = true
    · simp only [opC06, hpT, ↓reduceIte]
      have := C06_isolation_service (toC06 h) (.close T) S r hr hne
      rw [show SvcState.init.run (toC06 h ++ [.close T]) = ((SvcState.init.run (toC06 h)).step (.close T)).1 from by
        simp [SvcState.run, List.foldl_append]]
      exact this
    · simp only [opC06, hpT, Bool.false_eq_true, ↓reduceIte, List.append_nil]
      exact hr

/-- **Failed Adds leave no trace**: a failing / rejected Add, an Add of a present name, a Remove of an absent
    name change nothing — not the present set, not a single entry of either routing table. -/
theorem Stack_failed_add_no_trace (valid : Bytes → Bool) (h : List Stack.Op) (n : Name) (d : Option Desc) :
    run valid St.init (h ++ [.addFail n]) = run valid St.init h ∧
    (presentOf h n = true → run valid St.init (h ++ [.add n d]) = run valid St.init h) ∧
    (presentOf h n = false → run valid St.init (h ++ [.remove n]) = run valid St.init h) := by
  have hp := (Stack_run_eq_compile valid h).2.2
  refine ⟨by rw [run_snoc]; rfl, ?_, ?_⟩
  · intro hn
    rw [run_snoc]
    have hpn : (run valid St.init h).present n = true := by rw [hp]; exact hn
    generalize run valid St.init h = s at hpn
    simp [step, hpn]
  · intro hn
    rw [run_snoc]
    have hpn : (run valid St.init h).present n = false := by rw [hp]; exact hn
    generalize run valid St.init h = s at hpn
    simp [step, hpn]

/-- **A re-added name serves its NEW contract only**: after `… Remove(T) … Add(T, d')` (anything in between that
    does not touch `T`'s presence is covered by `h`), the specification state holds exactly `d'` for `T`, so by
    `Stack_settled_routes (1)` / `C06_pattern_latest` every answer given in `T`'s name is a route of `d'`. -/
theorem Stack_readd_new_contract (valid : Bytes → Bool) (eval : Bytes → Route → Outcome) (h : List Stack.Op) (T : Name)
    (d' : Desc) (habs : presentOf h T = false) :
    let h' := h ++ [.add T (some d')]
    let st := run valid St.init h'
    (specLatest h').desc T = some (named T d') ∧
    (∀ S r, st.svc.routes S = some r → r.target = T → listed (named T d').services S ∧ r.ver = d'.ver) ∧
    (∀ m path v r, routeHTTP st.present eval st.pat.static m path = .found T v r →
        v = d'.ver ∧ ∃ rs, built valid (named T d') m = some rs ∧ r ∈ rs) := by
  intro h' st
  have hd : (specLatest h').desc T = some (named T d') := by
    have hl : (specLatest h) T = none := by
      have := (Stack_latest h).2 T
      rw [(Stack_latest h).1, habs] at this
      simp only [Latest.watched] at this
      cases hx : specLatest h T with
      | none => rfl
      | some o => rw [hx] at this; simp at this
    simp only [h', specLatest, List.foldl_append, List.foldl_cons, List.foldl_nil, latestStep]
    have hl' : (List.foldl latestStep Latest.init h) T = none := hl
    simp [hl', Latest.desc, upd_same]
  refine ⟨hd, ?_, ?_⟩
  · intro S r hr ht
    obtain ⟨_, hs, _⟩ := Stack_run_eq_compile valid h'
    have hr' : (SvcState.init.run (toC06 h')).routes S = some r := by rw [← hs]; exact hr
    obtain ⟨h1, h2, _⟩ := C06_service_latest (toC06 h') S r hr'
    rw [(Stack_latest h').1, ht] at h1 h2
    obtain ⟨d, hd1, hd2⟩ := h2
    rw [hd] at hd1; cases hd1
    refine ⟨hd2, ?_⟩
    simp only [specSvcRoute, hd, Option.map_eq_some_iff] at h1
    obtain ⟨i, _, hi⟩ := h1
    rw [← hi]; rfl
  · intro m path v r hf
    obtain ⟨h1, _, _⟩ := Stack_run_eq_compile valid h'
    have hf' : routeHTTP st.present eval (PatState.init.run valid (toC06 h')).static m path = .found T v r := by
      rw [← h1]; exact hf
    obtain ⟨d, hd1, hv, _, rs, hb, hr, _⟩ := C06_pattern_latest valid st.present eval _ m path T v r hf'
    rw [(Stack_latest h').1, hd] at hd1; cases hd1
    exact ⟨hv.symm, rs, hb, hr⟩

/-- **Every answer given in a target's name is computed from its LATEST description** — the general form of the clause
    "the returned route data comes from the latest description", for ANY history and whatever that description is:
    if the specification state holds `d0` for `T`, then a service routed to `T` is listed by `d0` and carries `d0`'s
    version, and a pattern lookup answering `T` returns a route built from `d0` with `d0`'s version. -/
theorem Stack_routes_from_latest (valid : Bytes → Bool) (eval : Bytes → Route → Outcome) (h : List Stack.Op) (T : Name)
    (d0 : Desc) (hd : (specLatest h).desc T = some d0) :
    let st := run valid St.init h
    (∀ S r, st.svc.routes S = some r → r.target = T → listed d0.services S ∧ r.ver = d0.ver) ∧
    (∀ m path v r, routeHTTP st.present eval st.pat.static m path = .found T v r →
        v = d0.ver ∧ ∃ rs, built valid d0 m = some rs ∧ r ∈ rs) := by
  intro st
  refine ⟨?_, ?_⟩
  · intro S r hr ht
    obtain ⟨_, hs, _⟩ := Stack_run_eq_compile valid h
    have hr' : (SvcState.init.run (toC06 h)).routes S = some r := by rw [← hs]; exact hr
    obtain ⟨h1, h2, _⟩ := C06_service_latest (toC06 h) S r hr'
    rw [(Stack_latest h).1, ht] at h1 h2
    obtain ⟨d, hd1, hd2⟩ := h2
    rw [hd] at hd1; cases hd1
    refine ⟨hd2, ?_⟩
    simp only [specSvcRoute, hd, Option.map_eq_some_iff] at h1
    obtain ⟨i, _, hi⟩ := h1
    rw [← hi]
  · intro m path v r hf
    obtain ⟨h1, _, _⟩ := Stack_run_eq_compile valid h
    have hf' : routeHTTP st.present eval (PatState.init.run valid (toC06 h)).static m path = .found T v r := by
      rw [← h1]; exact hf
    obtain ⟨d, hd1, hv, _, rs, hb, hr, _⟩ := C06_pattern_latest valid st.present eval _ m path T v r hf'
    rw [(Stack_latest h).1, hd] at hd1; cases hd1
    exact ⟨hv.symm, rs, hb, hr⟩

/-- **A delivered contract change replaces ALL the data** — for EVERY `d`, also one that keeps every service, method, HTTP
    method and template of the previous description and differs only in what lies behind them (body mappings, message
    types, streaming kinds): after `update T d` of a present `T` the specification state holds exactly `d` for `T`, hence
    (`Stack_routes_from_latest`) every service route and every pattern route answered in `T`'s name is computed from `d`
    and carries `d`'s version.  There is no "nothing changed for routing" shortcut in the settled state. -/
theorem Stack_update_replaces_data (valid : Bytes → Bool) (eval : Bytes → Route → Outcome) (h : List Stack.Op) (T : Name)
    (d : Desc) (hpres : presentOf h T = true) :
    let h' := h ++ [.update T d]
    let st := run valid St.init h'
    (specLatest h').desc T = some (named T d) ∧
    (∀ S r, st.svc.routes S = some r → r.target = T → listed (named T d).services S ∧ r.ver = d.ver) ∧
    (∀ m path v r, routeHTTP st.present eval st.pat.static m path = .found T v r →
        v = d.ver ∧ ∃ rs, built valid (named T d) m = some rs ∧ r ∈ rs) := by
  intro h' st
  have hd : (specLatest h').desc T = some (named T d) := by
    have hl : ((specLatest h) T).isSome = true := by
      have := (Stack_latest h).2 T
      rw [(Stack_latest h).1, hpres] at this
      simpa [Latest.watched] using this.symm
    simp only [h', specLatest, List.foldl_append, List.foldl_cons, List.foldl_nil, latestStep]
    have hl' : ((List.foldl latestStep Latest.init h) T).isSome = true := hl
    simp [hl', Latest.desc, upd_same]
  exact ⟨hd, Stack_routes_from_latest valid eval h' T (named T d) hd⟩

/-- **A change to a contract with nothing routable un-routes every old binding** — a corollary of
    `Stack_update_replaces_data` (itself `Stack_routes_from_latest` at the description just delivered): if the description `d`
    a poll delivers for the present target `T` gives the PatternRouter no route for ANY HTTP method (no services, services
    without methods, only unparseable templates: `built valid (named T d) m = none`), then after `update T d` NO HTTP lookup —
    whatever method, path and matcher, including every binding and default `POST /pkg.Svc/Method` path of `T`'s earlier
    contracts — is answered in `T`'s name.  "Zero routes to add" is still an update: it is what removes the old ones. -/
theorem Stack_update_to_empty_unroutes (valid : Bytes → Bool) (eval : Bytes → Route → Outcome) (h : List Stack.Op) (T : Name)
    (d : Desc) (hpres : presentOf h T = true) (hempty : ∀ m, built valid (named T d) m = none) :
    ∀ m path v r,
      routeHTTP (run valid St.init (h ++ [.update T d])).present eval (run valid St.init (h ++ [.update T d])).pat.static m path
        ≠ .found T v r := by
  intro m path v r hf
  obtain ⟨_, _, hpat⟩ := Stack_update_replaces_data valid eval h T d hpres
  obtain ⟨_, rs, hb, _⟩ := hpat m path v r hf
  rw [hempty m] at hb
  cases hb

/-- the hypothesis is satisfiable: a description without services builds no route for any HTTP method -/
example (valid : Bytes → Bool) (T : Name) (m : HMethod) : built valid (named T ⟨[], 7, []⟩) m = none := rfl

/-- **Remove and Add of one name started together** (the `X` operation of the area): whichever call takes effect first —
    `Remove(T); Add(T, d)`, or `Add(T, d)` refused as a duplicate, then `Remove(T)`, then the Add repeated — the settled
    state is the SAME: `T` present in front of the new description `d`, every answer in its name computed from `d`.
    In particular the name is never left neither present nor addable. -/
theorem Stack_swap (valid : Bytes → Bool) (eval : Bytes → Route → Outcome) (h : List Stack.Op) (T : Name) (d : Desc)
    (hpres : presentOf h T = true) :
    run valid St.init (h ++ [.add T (some d), .remove T, .add T (some d)]) =
      run valid St.init (h ++ [.remove T, .add T (some d)]) ∧
    (run valid St.init (h ++ [.remove T, .add T (some d)])).present T = true ∧
    (specLatest (h ++ [.remove T, .add T (some d)])).desc T = some (named T d) := by
  have happ : ∀ (a b : List Stack.Op), run valid St.init (a ++ b) = run valid (run valid St.init a) b := by
    intro a b; simp [run, List.foldl_append]
  refine ⟨?_, ?_, ?_⟩
  · have h1 := (Stack_failed_add_no_trace valid h T (some d)).2.1 hpres
    rw [show h ++ [Stack.Op.add T (some d), .remove T, .add T (some d)] =
      (h ++ [Stack.Op.add T (some d)]) ++ [.remove T, .add T (some d)] by simp, happ, h1, ← happ]
  · have habs : presentOf (h ++ [Stack.Op.remove T]) T = false := by
      simp only [presentOf, List.foldl_append, List.foldl_cons, List.foldl_nil, presentStep]
      have : List.foldl presentStep (fun _ => false) h T = true := hpres
      simp [this, upd_same]
    have hp := (Stack_run_eq_compile valid ((h ++ [Stack.Op.remove T]) ++ [.add T (some d)])).2.2
    rw [show h ++ [Stack.Op.remove T, .add T (some d)] = (h ++ [Stack.Op.remove T]) ++ [.add T (some d)] by simp, hp]
    simp only [presentOf, List.foldl_append, List.foldl_cons, List.foldl_nil] at habs ⊢
    generalize presentStep (List.foldl presentStep (fun _ => false) h) (Stack.Op.remove T) = p at habs ⊢
    simp [presentStep, habs, upd_same]
  · have habs : presentOf (h ++ [Stack.Op.remove T]) T = false := by
      simp only [presentOf, List.foldl_append, List.foldl_cons, List.foldl_nil, presentStep]
      have : List.foldl presentStep (fun _ => false) h T = true := hpres
      simp [this, upd_same]
    have := (Stack_readd_new_contract valid eval (h ++ [Stack.Op.remove T]) T d habs).1
    rw [show h ++ [Stack.Op.remove T, .add T (some d)] = (h ++ [Stack.Op.remove T]) ++ [.add T (some d)] by simp]
    exact this

/-- **Settled routing, transcoded entries** (HTTP / WebSocket read the pattern table): for a request that is not
    contested between present targets, the lookup answers exactly as the table built from the latest contracts
    of the present targets — in whatever order the targets are enumerated. -/
theorem Stack_pattern_settled (valid : Bytes → Bool) (eval : Bytes → Route → Outcome) (h : List Stack.Op)
    (names : List Name) (m : HMethod) (path : Bytes)
    (hnames : ∀ n, presentOf h n = true → n ∈ names)
    (hu : Uncontested valid (eval path) (specLatest h) m) :
    routeHTTP (presentOf h) eval (run valid St.init h).pat.static m path =
      routeHTTP (presentOf h) eval (specTable valid (specLatest h) names) m path := by
  obtain ⟨h1, _, _⟩ := Stack_run_eq_compile valid h
  obtain ⟨hl, hw⟩ := Stack_latest h
  rw [h1, ← hl]
  apply C06_pattern
  · intro n hn; exact hnames n (by rw [hw]; exact hn)
  · rw [hl]; exact hu

/-! ### the earliest live lister owns a service (fix D31; was: "NOT the owner", witness of the original behaviour) -/

/-- **Settled routing without the never-shared side condition** (spec clause (1) at full strength): after ANY router
    history, a service `S` is routed to the FIRST of its claimants — the present targets whose latest contract lists
    `S`, ordered by the start of their current uninterrupted claim (`claimsOf`, C06_claim_order) — with that
    target's latest description; so `S` is routed whenever some present target lists it. -/
theorem Stack_earliest_live_lister_owns (valid : Bytes → Bool) (h : List Stack.Op) (S : SvcName) :
    ((run valid St.init h).svc.routes S = match claimsOf (toC06 h) S with
      | [] => none
      | T :: _ => specSvcRoute (specLatest h) T S) ∧
    (∀ T, T ∈ claimsOf (toC06 h) S ↔ Lists (specLatest h) T S) ∧ (claimsOf (toC06 h) S).Nodup ∧
    (∀ T, Lists (specLatest h) T S →
      ∃ r, (run valid St.init h).svc.routes S = some r ∧ Lists (specLatest h) r.target S) := by
  obtain ⟨_, hs, _⟩ := Stack_run_eq_compile valid h
  obtain ⟨hl, _⟩ := Stack_latest h
  rw [hs, ← hl]
  obtain ⟨h1, _, _, h4, h5⟩ := C06_service_owner (toC06 h) S
  exact ⟨h1, h4, h5, fun T hT => C06_service_routed (toC06 h) S T hT⟩

/-- `Add a{S}; Add b{S}; Remove a`: `b` is present and lists `S` — and `S` is routed to `b`, handed over by the
    Remove itself (before fix D31 it was left unrouted: `C14_original_release_leaves_live_lister_unrouted`). -/
theorem Stack_earliest_live_lister_owns_witness :
    (run (fun _ => true) St.init [.add exA (some exDesc), .add exB (some exDesc), .remove exA]).svc.routes exS
      = some ⟨exB, 1, 0⟩ ∧
    (run (fun _ => true) St.init [.add exA (some exDesc), .add exB (some exDesc), .remove exA]).present exB = true ∧
    (run (fun _ => true) St.init [.add exA (some exDesc), .add exB (some exDesc)]).svc.routes exS = some ⟨exA, 1, 0⟩ := by
  decide

/-! ### non-vacuity -/

/-- the hypotheses of `Stack_settled_routes (2)` are satisfiable: one target, one service -/
example : NeverShared exS Latest.init (toC06 [.add exA (some exDesc)]) ∧
    Lists (specLatest [.add exA (some exDesc)]) exA exS := by
  have hd : (specLatest [.add exA (some exDesc)]).desc exA = some (named exA exDesc) := by decide
  refine ⟨?_, ⟨named exA exDesc, hd, ⟨exS, []⟩, by simp [named, exDesc], rfl⟩⟩
  have uns : ∀ (l : Latest), (∀ n, n ≠ exA → l.desc n = none) → ∀ n n', Lists l n exS → Lists l n' exS → n = n' := by
    intro l hl n n' ⟨d, hd, _⟩ ⟨d', hd', _⟩
    have h1 : n = exA := Classical.byContradiction fun hn => by rw [hl n hn] at hd; cases hd
    have h2 : n' = exA := Classical.byContradiction fun hn => by rw [hl n' hn] at hd'; cases hd'
    rw [h1, h2]
  refine ⟨uns _ ?_, uns _ ?_, uns _ ?_⟩ <;>
    (intro n hn
     have hn' : n ≠ [97] := hn
     simp [Latest.step, Latest.init, Latest.desc, upd, hn', exA, named, exDesc])
