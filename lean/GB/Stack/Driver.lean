import GB.Base.Proto
import GB.Stack.Spec
import GB.C06.Hist
/-
  STACK — judge of one history line of the area `stack` (format: harness/stack/stack.go).

  The line is replayed through the combined model (`GB.Stack.step`: C16 present set ∘ aggregate fan-out ∘
  C06 tables); after the initial state and after every operation the expected record of EVERY probe is
  computed (`expectG/expectH/expectW`: C14 / C06+C03 lookups) and compared with what the real
  ReflectionRouter + WebBridge + GRPCProxy + targets produced.  A difference is classified by the
  specification judge (`classify`): a broken clause of the stack specification is a VIOL, anything the
  specification leaves open (contested requests) a DIFF.  The function-valued model state is tabulated
  after every step (`GB.C06.Hist.shallowPat/shallowSvc`, proved to be the identity there).
-/
namespace GB.Stack
open GB GB.Proto GB.C06

def parseBinding (s : String) : Option SBinding :=
  match s.splitOn "~" with
  | [a, b, c] => some ⟨a, b, c⟩
  | _ => none

def parseMethod (s : String) : Option SMethod :=
  match s.splitOn "@" with
  | n :: k :: bs => (allSome (bs.map parseBinding)).map (⟨n, k, ·⟩)
  | _ => none

def parseService (s : String) : Option SService :=
  match s.splitOn "!" with
  | n :: ms => (allSome (ms.map parseMethod)).map (⟨n, ·⟩)
  | [] => none

def parseContract (s : String) : Option Contract :=
  if s.isEmpty then some [] else allSome ((s.splitOn ";").map parseService)

inductive LOp
  | add (name refl : String) (c : Contract)
  | swap (name refl : String) (c : Contract)     -- Remove(name) ‖ Add(name) in front of a fresh instance
  | fail (name : String)
  | opts (name : String)
  | remove (name : String)
  | upd (name : String) (c : Contract)
  | probe

def parseLOp (s : String) : Option LOp :=
  match s.splitOn "," with
  | ["A", n, r, c] => (parseContract c).map (.add n r)
  | ["X", n, r, c] => (parseContract c).map (.swap n r)
  | ["F", n] => some (.fail n)
  | ["O", n] => some (.opts n)
  | ["R", n] => some (.remove n)
  | ["U", n, c] => (parseContract c).map (.upd n)
  | ["P"] => some .probe
  | _ => none

structure Line where
  cfg : Cfg := ⟨false, false⟩
  g : List String := []
  h : List (String × String × String) := []
  w : List (String × String) := []
  ops : List LOp := []

def splitNE (s : String) (sep : String) : List String := if s.isEmpty then [] else s.splitOn sep

def parseLine : List String → Line → Option Line
  | [], l => some l
  | t :: rest, l =>
    if t.startsWith "poll=" then parseLine rest { l with cfg := { l.cfg with poll := t == "poll=1" } }
    else if t.startsWith "opt=" then parseLine rest { l with cfg := { l.cfg with opt := t == "opt=1" } }
    else if t.startsWith "G=" then parseLine rest { l with g := splitNE (t.drop 2).toString ";" }
    else if t.startsWith "H=" then
      (allSome ((splitNE (t.drop 2).toString ";").map fun p =>
        match p.splitOn "~" with | [a, b, c] => some (a, b, c) | _ => none)).bind fun v => parseLine rest { l with h := v }
    else if t.startsWith "W=" then
      (allSome ((splitNE (t.drop 2).toString ";").map fun p =>
        match p.splitOn "~" with | [a, b] => some (a, b) | _ => none)).bind fun v => parseLine rest { l with w := v }
    else (parseLOp t).bind fun op => parseLine rest { l with ops := l.ops ++ [op] }

/-! ### the key universe of a line (for tabulating the function-valued state) -/

def contractsOf (ops : List LOp) : List Contract :=
  ops.filterMap fun | .add _ _ c => some c | .swap _ _ c => some c | .upd _ c => some c | _ => none

def namesOf (ops : List LOp) : List Name :=
  (ops.filterMap fun
    | .add n _ _ => some n | .swap n _ _ => some n | .fail n => some n | .opts n => some n | .remove n => some n | .upd n _ => some n
    | .probe => none).eraseDups.map ascii

def keysOf (l : Line) : Hist.Keys :=
  let cs := contractsOf l.ops
  let svcs := (cs.flatMap (·.map (·.name)) ++ l.g.map svcOfPath).eraseDups
  let hms := (["POST", "GET"] ++ cs.flatMap (·.flatMap (·.methods.flatMap (·.bindings.map (·.hm)))) ++ l.h.map (·.1)).eraseDups
  ⟨namesOf l.ops, svcs.map ascii, hms.map ascii⟩

def shallow (k : Hist.Keys) (st : St) : St :=
  let p := Hist.memoTbl k.names st.present
  { present := Hist.ofTbl p st.present, pat := Hist.shallowPat k st.pat, svc := Hist.shallowSvc k st.svc }

theorem shallow_eq (k : Hist.Keys) (st : St) : shallow k st = st := by
  simp [shallow, Hist.ofTbl_memoTbl, Hist.shallowPat_eq, Hist.shallowSvc_eq]

/-! ### replay -/

structure DSt where
  st : St := St.init
  live : List Inst := []
  vers : Vers := []
  prev : List String := []
  tags : List String := []

def DSt.tag (d : DSt) (t : String) : DSt := if d.tags.contains t then d else { d with tags := d.tags ++ [t] }

/-- apply operation number `i`; returns the expected result token -/
def applyOp (cfg : Cfg) (k : Hist.Keys) (removedBefore : List String) (d : DSt) (i : Nat) : LOp → DSt × String
  | .add name refl c =>
    let n := ascii name
    if d.st.present n then (d.tag "b=dup-add", "err")
    else
      let hasRefl := refl != "none"
      let desc := if hasRefl then some (c.toDesc n i) else none
      let st' := shallow k (step validStack d.st (.add n desc)).1
      let tid := s!"i{i}"
      let inst : Inst := ⟨n, tid, hasRefl, if hasRefl then c else []⟩
      let d' : DSt := { d with st := st', live := d.live ++ [inst], vers := d.vers ++ [(i, tid, c)] }
      let d' := if removedBefore.contains name then d'.tag "b=readd" else d'
      let d' := if hasRefl then d'.tag s!"b=refl-{refl}" else d'.tag "b=no-reflection"
      (d', "ok")
  | .swap name refl c =>
    -- both linearisations (Remove;Add and Add[dup];Remove;Add-again) end in the same settled state (`Stack_swap`):
    -- the name present in front of the NEW instance; the result token tells which one was taken (see `swapResult`)
    let n := ascii name
    let wasPresent := d.st.present n
    let st1 := if wasPresent then shallow k (step validStack d.st (.remove n)).1 else d.st
    let hasRefl := refl != "none"
    let desc := if hasRefl then some (c.toDesc n i) else none
    let st' := shallow k (step validStack st1 (.add n desc)).1
    let tid := s!"i{i}"
    let inst : Inst := ⟨n, tid, hasRefl, if hasRefl then c else []⟩
    let d' : DSt := { d with st := st', live := d.live.filter (fun (x : Inst) => x.name != n) ++ [inst],
                             vers := d.vers ++ [(i, tid, c)] }
    (d'.tag "b=swap", if wasPresent then "true" else "false")
  | .fail _ => (d.tag "b=failed-add", "err")
  | .opts _ => (d.tag "b=rejected-add", "err")
  | .remove name =>
    let n := ascii name
    if d.st.present n then
      let st' := shallow k (step validStack d.st (.remove n)).1
      let d' : DSt := { d with st := st', live := d.live.filter (fun (x : Inst) => x.name != n) }
      -- calls in flight through all five entry points must have ended when Remove has returned (C16)
      let inflight := match d.live.find? (fun (x : Inst) => x.name == n) with
        | some inst => inst.refl && inst.contract.any (fun s => s.name.startsWith "stk.z." &&
            s.methods.any (·.name == "Hold") && s.methods.any (·.name == "HoldB"))   -- a bare sentinel offers nothing to hold
        | none => false
      (d'.tag "b=remove", if inflight then "true~px:E;gw:E;gs:E;ht:E;ws:E" else "true")
    else (d.tag "b=remove-absent", "false")
  | .upd name c =>
    let n := ascii name
    match d.live.find? (·.name == n) with
    | none => (d, "absent")
    | some inst =>
      if cfg.poll && inst.refl then
        let st' := shallow k (step validStack d.st (.update n (c.toDesc n i))).1
        let live' : List Inst := d.live.map (fun (x : Inst) => if x.name == n then { x with contract := c } else x)
        let d' : DSt := { d with st := st', live := live', vers := d.vers ++ [(i, inst.tid, c)] }
        (d'.tag "b=poll-update", "ok")
      else (d.tag "b=update-not-polled", "ok")
  | .probe => (d, "-")

structure PLabel where
  kind : String      -- G | H | W
  ep : String
  hm : String
  path : String

def labels (l : Line) : List PLabel :=
  l.g.flatMap (fun p => ["px", "gw", "gs"].map (fun ep => (⟨"G", ep, "", p⟩ : PLabel)) ++ [⟨"D", "dg", "", p⟩]) ++
  l.h.flatMap (fun (hm, p, _) => [(⟨"H", "ht", hm, p⟩ : PLabel), ⟨"D", "dh", hm, p⟩]) ++
  l.w.map (fun (p, _) => ⟨"W", "ws", "GET", p⟩)

def expectAll (l : Line) (d : DSt) : List String :=
  (l.g.zipIdx.flatMap fun (p, k) => let e := expectG l.cfg d.st d.vers k p; [e, e, e, expectDG d.st d.vers p]) ++
  (l.h.zipIdx.flatMap fun ((hm, p, b), k) => [expectH l.cfg d.st d.vers k hm p b, expectDH d.st d.vers hm p]) ++
  (l.w.zipIdx.map fun ((p, b), k) => expectW l.cfg d.st d.vers k p b)

structure Verdict where
  viol : Option String := none
  diff : Option String := none

def Verdict.add (v : Verdict) : Judgement → String → Verdict
  | .ok, _ => v
  | .viol c, at_ => if v.viol.isNone then { v with viol := some s!"{at_} {c}" } else v
  | .diff c, at_ => if v.diff.isNone then { v with diff := some s!"{at_} {c}" } else v

def zip4 {α β γ δ : Type} : List α → List β → List γ → List δ → List (α × β × γ × δ)
  | a :: as, b :: bs, c :: cs, d :: ds => (a, b, c, d) :: zip4 as bs cs ds
  | _, _, _, _ => []

def judgeRecords (lbls : List PLabel) (d : DSt) (step : Nat) (impl model : List String) (v : Verdict) : Verdict :=
  let prev := if d.prev.length == model.length then d.prev else model.map (fun _ => "")
  (zip4 lbls impl model prev).foldl (fun v (lb, i, m, pm) =>
    if i == m then v
    else v.add (classify d.live lb.kind lb.hm lb.path i m pm)
      s!"step {step} {lb.ep} {lb.hm} {lb.path}: impl={i} model={m}:") v

/-- every method path and every binding of every contract of the line is probed on every entry point -/
def uncovered (l : Line) : Option String :=
  let hit (hm pattern : String) (probes : List (String × String)) : Bool :=
    probes.any fun (phm, path) => phm == hm &&
      evalStack (ascii path) ⟨0, 0, none, ascii hm, ascii pattern⟩ == .hit
  let hp := l.h.map (fun (hm, p, _) => (hm, p))
  let wp := l.w.map (fun (p, _) => ("GET", p))
  (contractsOf l.ops).findSome? fun c => c.findSome? fun s => s.methods.findSome? fun m =>
    if !l.g.contains (rpcNameOf s.name m.name) then some s!"G {rpcNameOf s.name m.name}"
    else if m.bindings.isEmpty then
      if hit "POST" (rpcNameOf s.name m.name) hp then none else some s!"H default {rpcNameOf s.name m.name}"
    else m.bindings.findSome? fun b =>
      if !validStack (ascii b.pattern) then none     -- an unparseable template never becomes a route: nothing to cover
      else if !hit b.hm b.pattern hp then some s!"H {b.hm} {b.pattern}"
      else if b.hm == "GET" && m.kind != "u" && !hit "GET" b.pattern wp then some s!"W {b.pattern}"
      else none

def judge (l : Line) (out : List String) : String := Id.run do
  if out.length ≠ l.ops.length + 1 then return s!"BAD {out.length} step tokens for {l.ops.length} ops"
  match uncovered l with
  | some u => return s!"BAD probe set does not cover {u}"
  | none => pure ()
  let keys := keysOf l
  let lbls := labels l
  let mut d : DSt := {}
  let mut v : Verdict := {}
  let mut removed : List String := []
  let mut contested := false
  let mut pending : Option String := none
  let mut step := 0
  for (tokn, op?) in out.zip (none :: l.ops.map some) do
    let (resI, recsI) := match tokn.splitOn "=" with
      | r :: rest => (r, "=".intercalate rest)
      | [] => ("", "")
    -- the operation
    match op? with
    | none => if resI ≠ "init" then v := v.add (.diff "first token is not init") s!"step {step}"
    | some op =>
      let (d', want) := applyOp l.cfg keys removed d (step - 1) op
      d := d'
      match op with
      | .remove n => removed := n :: removed
      | _ => pure ()
      let isSwap := match op with | .swap _ _ _ => true | _ => false
      let settleMiss := resI.endsWith "!"     -- the settle wait ran into its bound: judged AFTER the records of the step
      let resC := if settleMiss then (resI.dropEnd 1).toString else resI
      if settleMiss then
        pending := some (match op with
          | .upd _ _ => "polled-contract-change-never-visible-on-both-routers"
          | _ => "first-resolution-never-visible-on-both-routers")
      if isSwap then
        -- Remove ‖ Add of one name: present (Add succeeded) or absent-and-addable (the repeated Add succeeds)
        if !(resC == want ++ "/ok/-" || resC == want ++ "/err/ok") then
          let parts := resC.splitOn "/"
          if parts.getD 2 "" == "err" then
            v := v.add (.viol s!"name-neither-present-nor-addable:remove={parts.getD 0 ""},add={parts.getD 1 ""},add-again=err") s!"step {step}:"
          else v := v.add (.viol s!"add-remove-result:impl={resC},spec={want}/ok/-|{want}/err/ok") s!"step {step}:"
      else if resC ≠ want then
        if resC.startsWith "true~" && want.startsWith "true~" then
          -- calls in flight at Remove
          let bad := ((resC.drop 5).toString.splitOn ";").filter (fun e => !e.endsWith ":E")
          if bad.any (·.endsWith ":O") then
            v := v.add (.viol s!"in-flight-call-survives-remove:{";".intercalate bad}") s!"step {step}:"
          else v := v.add (.viol s!"in-flight-call-could-not-be-established:{";".intercalate bad}") s!"step {step}:"
        else v := v.add (.viol s!"add-remove-result:impl={resC},spec={want}") s!"step {step}:"
    -- the probes
    let model := expectAll l d
    let impl := splitNE recsI ","
    if impl.length ≠ model.length then
      return s!"BAD step {step}: {impl.length} records for {model.length} probes"
    v := judgeRecords lbls d step impl model v
    match pending with
    | some what => v := v.add (.viol what) s!"step {step}:"; pending := none
    | none => pure ()
    -- bookkeeping for the tags
    if l.g.any (fun p => (d.live.filter (·.contract.lists (svcOfPath p))).length > 1) then contested := true
    d := { d with prev := model }
    step := step + 1
  if contested then d := d.tag "b=contested-service"
  d := d.tag (if l.cfg.opt then "b=opt-custom" else "b=opt-default")
  d := d.tag (if l.cfg.poll then "b=polling-1s" else "b=polling-off")
  let nt := d.tags.any (fun t => t == "b=readd" || t == "b=contested-service" || t == "b=failed-add" ||
    t == "b=rejected-add" || t == "b=poll-update" || t == "b=swap")
  match v.viol, v.diff with
  | some m, _ => return s!"VIOL {m}"
  | none, some m => return s!"DIFF {m}"
  | none, none => return s!"OK{if nt then " nt" else ""} {" ".intercalate d.tags}"

def handle : Handler
  | "hist" :: inp, out =>
    match parseLine inp {} with
    | none => "BAD unparsable stack line"
    | some l => judge l out
  | _, _ => "BAD stack line"

end GB.Stack
