import GB.Stack.Model
import GB.C03.Model
import GB.C14.Model
/-
  STACK — what an end-to-end probe must observe, computed from the merged models:

    gRPC / gRPC-Web / gRPC-WebSocket entry   `GB.C14.routeGRPC` over the service table of the combined model
    transcoded HTTP / WebSocket entry        `GB.C06.routeHTTP` over the committed pattern table, the opaque
                                             per-route decision instantiated with `GB.C03.stepRoute` ∘ `matchTmpl`
                                             (C03's matcher over the template AST)
  plus the part of the template syntax the generator of the area uses (parser to C03's AST) and the
  contracts of the line protocol.
-/
namespace GB.Stack
open GB GB.C06

/-! ### contracts (line protocol: see harness/stack/contract.go) -/

structure SBinding where
  hm : String
  pattern : String
  body : String            -- "*" | "-" | "sub"
deriving Repr, DecidableEq

structure SMethod where
  name : String
  kind : String            -- u | ss | cs | bd
  bindings : List SBinding
deriving Repr, DecidableEq

structure SService where
  name : String
  methods : List SMethod
deriving Repr, DecidableEq

abbrev Contract := List SService

def SMethod.cs (m : SMethod) : Bool := m.kind == "cs" || m.kind == "bd"

def rpcNameOf (svc meth : String) : String := "/" ++ svc ++ "/" ++ meth

/-- the description a conformant resolver builds from the contract (C05), with ghost version `ver` -/
def Contract.toDesc (c : Contract) (n : Name) (ver : Nat) : Desc :=
  ⟨n, ver, c.map fun s =>
    ⟨ascii s.name, s.methods.map fun m =>
      ⟨ascii (rpcNameOf s.name m.name), m.bindings.map fun b => ⟨ascii b.hm, ascii b.pattern⟩⟩⟩⟩

def Contract.lists (c : Contract) (svc : String) : Bool := c.any (fun s => s.name == svc)

/-! ### templates: the syntax the area's generator uses, parsed to C03's AST -/

/-- split at the top-level '/' (not inside `{…}`) -/
def splitTop : List Char → Nat → List Char → List (List Char)
  | [], _, cur => [cur.reverse]
  | c :: cs, depth, cur =>
    if c = '/' ∧ depth = 0 then cur.reverse :: splitTop cs depth []
    else if c = '{' then splitTop cs (depth + 1) (c :: cur)
    else if c = '}' then splitTop cs (depth - 1) (c :: cur)
    else splitTop cs depth (c :: cur)

def bytesOfChars (cs : List Char) : Bytes := cs.map (fun c => UInt8.ofNat c.toNat)

def parsePart (cs : List Char) : Option C03.VSeg :=
  if cs = ['*'] then some .star
  else if cs = ['*', '*'] then some .deep
  else if cs.isEmpty ∨ cs.any (fun c => c = '{' ∨ c = '}' ∨ c = '*' ∨ c = '=') then none
  else some (.lit (bytesOfChars cs))

def allSome {α : Type} : List (Option α) → Option (List α)
  | [] => some []
  | none :: _ => none
  | some a :: rest => (allSome rest).map (a :: ·)

def parseSeg (cs : List Char) : Option C03.Seg :=
  match cs with
  | '{' :: rest =>
    match rest.reverse with
    | '}' :: innerRev =>
      let inner := innerRev.reverse
      let path := inner.takeWhile (· ≠ '=')
      let pat := (inner.dropWhile (· ≠ '=')).drop 1
      if path.isEmpty then none
      else if pat.isEmpty then
        if inner.contains '=' then none else some (.var (bytesOfChars path) [.star])
      else (allSome ((splitTop pat 0 []).map parsePart)).map (.var (bytesOfChars path))
    | _ => none
  | _ => (parsePart cs).map .plain

/-- `seg:verb` at the last top-level ':' of the last segment (outside braces) -/
def splitVerb (cs : List Char) : List Char × List Char :=
  match cs.reverse.span (· ≠ ':') with
  | (_, []) => (cs, [])
  | (vrev, _ :: srev) =>
    if vrev.contains '}' then (cs, []) else (srev.reverse, vrev.reverse)

def parseTmplChars (t : List Char) : Option C03.Tmpl :=
  match t with
  | '/' :: rest =>
    match (splitTop rest 0 []).reverse with
    | [] => none
    | last :: initRev =>
      let (lseg, verb) := splitVerb last
      (allSome ((initRev.reverse ++ [lseg]).map parseSeg)).map (⟨·, bytesOfChars verb⟩)
  | _ => none

def parseTmpl (t : Bytes) : Option C03.Tmpl := parseTmplChars (t.map (fun b => Char.ofNat b.toNat))

/-- `buildPattern` succeeds (the generator's pool holds only templates of this syntax) -/
def validStack (t : Bytes) : Bool := (parseTmpl t).isSome

/-- the closure of `PatternRouter.RouteHTTP` for one route (C03's `stepRoute` over C03's AST matcher) -/
def matchRoute (path : Bytes) (r : C06.Route) : C03.MatchRes C03.Captures :=
  match parseTmpl r.pattern, path with
  | some t, 47 :: p =>
    let comps := C03.splitSlash p
    match comps.getLast? with
    | none => .notMatch
    | some last => C03.stepRoute comps last (⟨(), r.httpMethod, t.verb, C03.matchTmpl t⟩ : C03.Route Unit)
  | _, _ => .notMatch

def evalStack (path : Bytes) (r : C06.Route) : C06.Outcome :=
  match matchRoute path r with
  | .ok _ => .hit
  | .malformed => .abort codeInvalidArgument
  | _ => .skip

def capture (path : Bytes) (r : C06.Route) (field : String) : String :=
  match matchRoute path r with
  | .ok caps =>
    match caps.find? (fun p => p.1 == ascii field) with
    | some p => bytesToString p.2
    | none => ""
  | _ => ""

/-! ### expected records -/

/-- a value on the line protocol (mirror of `safe` in harness/stack/env.go for the values the model produces) -/
def tok (s : String) : String := if s.isEmpty then "-" else s

structure Cfg where
  poll : Bool
  opt : Bool

/-- a live target instance: the `tid` stamped into every answer, and the contract it serves -/
structure Inst where
  name : Name
  tid : String
  refl : Bool
  contract : Contract
deriving Repr

/-- ghost version ↦ (instance, contract) of the description carrying it -/
abbrev Vers := List (Nat × String × Contract)

def Vers.get (vs : Vers) (v : Nat) : Option (String × Contract) := (vs.find? (·.1 == v)).map (·.2)

def hdrOf (cfg : Cfg) (tid : String) : String := if cfg.opt then tid else "-"

def httpCode : Nat → String
  | 3 => "-400" | 5 => "-404" | 12 => "-501" | 14 => "-503" | c => s!"-?{c}"

/-- gRPC-style entries (proxy, gRPC-Web, gRPC-WebSocket): probe `k` with path `path` -/
def expectG (cfg : Cfg) (st : St) (vs : Vers) (k : Nat) (path : String) : String :=
  match C14.routeGRPC st.present st.svc.routes (some (ascii path)) with
  | .status c => s!"-{c}"
  | .ok _ v _ rpc =>
    match vs.get v with
    | none => "?version"
    | some (tid, _) => s!"+{tid}|{bytesToString rpc}|g{k}|n{k}|s{k}|{hdrOf cfg tid}|-"

/-! direct lookups on the `Router` interface the bridges consume (`ReflectionRouter.RouteGRPC / RouteHTTP`): the route DATA
    handed out must be that of the latest description (C06: "the returned route data comes from the latest description") -/

def bodyLetter (b : String) : String := if b == "*" || b == "-" then b else if b == "sub" then "s" else "?"

/-- mirror of `service.digest` in harness/stack/contract.go -/
def SService.digest (s : SService) : String :=
  s.name ++ ":" ++ ";".intercalate (s.methods.map fun m =>
    m.name ++ "." ++ m.kind ++ "." ++ String.join (m.bindings.map (bodyLetter ·.body)))

/-- direct `RouteGRPC`: owner's router name and the data of `route.Service` -/
def expectDG (st : St) (vs : Vers) (path : String) : String :=
  match C14.routeGRPC st.present st.svc.routes (some (ascii path)) with
  | .status c => s!"-{c}"
  | .ok t v i _ =>
    match vs.get v with
    | none => "?version"
    | some (_, c) =>
      match c[i]? with
      | none => "?svc"
      | some s => s!"+{bytesToString t}|{s.digest}"

def subOf (bindBody probeBody sent : String) : Option String :=
  if bindBody == "-" || probeBody == "-" then some "-"
  else if bindBody == probeBody then some sent
  else none            -- a JSON value of the wrong shape for the bound field: rejected (400)

structure Hit where
  tid : String
  rpc : String
  cs : Bool
  bindBody : String
  id : String
  nested : String
  name : String      -- router name of the answering target
  kind : String      -- streaming kind of the matched method

def lookupHit (st : St) (vs : Vers) (hm path : String) : Except String (Option Hit) :=
  match C06.routeHTTP st.present evalStack st.pat.static (ascii hm) (ascii path) with
  | .status c => if c = codeNotFound then .ok none else .error (httpCode c)
  | .found n v r =>
    match vs.get v with
    | none => .error "?version"
    | some (tid, c) =>
      match c[r.svcIdx]? with
      | none => .error "?svc"
      | some s =>
        match s.methods[r.methIdx]? with
        | none => .error "?method"
        | some m =>
          let body := match r.bindIdx with
            | none => "*"
            | some bi => match m.bindings[bi]? with | some b => b.body | none => "?"
          .ok (some ⟨tid, rpcNameOf s.name m.name, m.cs, body,
            capture (ascii path) r "id", capture (ascii path) r "nested.name", bytesToString n, m.kind⟩)

/-- an H probe's body selector: "*j" / "*k" = body "*" with Content-Type application/json / application/x-stk+json -/
def bodyKind (b : String) : String × String :=
  if b == "*j" then ("*", "json") else if b == "*k" then ("*", "stk") else (b, "")

/-- transcoded HTTP entry.  Marshaler choice (`StandardTranscoder.Bind`): no Content-Type ⇒ the DEFAULT marshaler
    (WithDefaultMarshaler: the custom one under opt=1), a Content-Type ⇒ the marshaler of the LIST registered for it
    (WithMarshalers: JSON and the custom one under opt=1, JSON only otherwise), none ⇒ 415 — after routing. -/
def expectH (cfg : Cfg) (st : St) (vs : Vers) (k : Nat) (hm path body : String) : String :=
  let (bk, ct) := bodyKind body
  match lookupHit st vs hm path with
  | .error e => e
  | .ok none => "-404"
  | .ok (some h) =>
    if ct == "stk" && !cfg.opt then "-415"
    else if h.cs then "-501"      -- "client streaming through HTTP not supported", after routing and binding
    else match subOf h.bindBody bk s!"h{k}" with
      | none => "-400"
      | some sub =>
        let enc := if ct == "json" then "json" else if ct == "stk" then "stk" else if cfg.opt then "stk" else "json"
        s!"+{h.tid}|{h.rpc}|{tok h.id}|{tok h.nested}|{sub}|{hdrOf cfg h.tid}|{enc}"

/-- direct `RouteHTTP`: owner's router name, `route.Method` (name, streaming kind) and `route.Binding` (body mapping) -/
def expectDH (st : St) (vs : Vers) (hm path : String) : String :=
  match lookupHit st vs hm path with
  | .error e => if e.startsWith "-4" || e.startsWith "-5" then
      (match C06.routeHTTP st.present evalStack st.pat.static (ascii hm) (ascii path) with
        | .status c => s!"-{c}" | _ => e) else e
  | .ok none => s!"-{codeNotFound}"
  | .ok (some h) => s!"+{h.name}|{h.rpc}|{h.kind}|{bodyLetter h.bindBody}"

/-- transcoded WebSocket entry (GET upgrade; one request frame is always sent) -/
def expectW (cfg : Cfg) (st : St) (vs : Vers) (k : Nat) (path body : String) : String :=
  match lookupHit st vs "GET" path with
  | .error e => e
  | .ok none => "-404"
  | .ok (some h) =>
    -- a frame is read only for client-streaming methods or bindings with a body
    let sub := if h.bindBody == "-" then some "-" else subOf h.bindBody body s!"w{k}"
    match sub with
    | none => "-c1001"
    | some sub => s!"+{h.tid}|{h.rpc}|{tok h.id}|{tok h.nested}|{sub}|-|{if cfg.opt then "b" else "t"}"

/-! ### the specification judge: which clause does a wrong record break? -/

structure Rec where
  tid : String
  fields : List String     -- method, id, nested, sub, hdr, enc

def parseRec (s : String) : Option Rec :=
  if s.startsWith "+" then
    match (s.drop 1).toString.splitOn "|" with
    | tid :: rest => some ⟨tid, rest⟩
    | [] => none
  else none

def svcOfPath (path : String) : String :=
  match (path.drop 1).toString.splitOn "/" with
  | s :: _ => s
  | [] => ""

def instMatches (i : Inst) (hm path : String) : Bool :=
  let d := i.contract.toDesc i.name 0
  (allRoutes validStack d).any (fun r => r.httpMethod == ascii hm && evalStack (ascii path) r == .hit)

/-- live instances that could legitimately answer the probe -/
def candidates (live : List Inst) (kind : String) (hm path : String) : List Inst :=
  live.filter fun i =>
    if kind == "G" then i.contract.lists (svcOfPath path) else instMatches i hm path

inductive Judgement
  | ok
  | viol (clause : String)
  | diff (why : String)

/-- direct router lookups (`impl` ≠ `model`) -/
def classifyDirect (impl model : String) : Judgement :=
  match parseRec impl, parseRec model with
  | some r, some m =>
    if r.tid == m.tid then .viol "route-data-not-from-the-latest-description"
    else .viol s!"wrong-claimant:earliest-live-claimant-is-{m.tid},router-answers-{r.tid}"
  | some r, none => .viol s!"dropped-route-still-handed-out-by-the-router:{r.tid}"
  | none, some m => .viol s!"settled-contract-not-routable:{m.tid}"
  | none, none => .viol s!"wrong-status:impl={impl},spec={model}"

/-- `impl` ≠ `model` is assumed by the caller -/
def classify (live : List Inst) (kind hm path impl model prevModel : String) : Judgement :=
  if kind == "D" then classifyDirect impl model else
  if impl.startsWith "!" then .viol s!"protocol-surprise:{impl}"
  else
    let cands := candidates live kind hm path
    match parseRec impl with
    | some r =>
      if r.tid.endsWith "?ua" then .viol "dial-options-did-not-reach-the-connection"
      else match live.find? (·.tid == r.tid) with
        | none => .viol s!"answered-by-a-target-that-is-not-present:{r.tid}"
        | some _ =>
          if !(cands.any (·.tid == r.tid)) then .viol s!"answer-not-in-the-latest-contract-of:{r.tid}"
          else match parseRec model with
            | none =>
              if model == "-501" || model == "-400" || model == "-c1001" then .diff "bridge-level outcome differs"
              else .diff "routed although the model leaves it unrouted (released claim)"
            | some m =>
              if m.tid != r.tid then
                if prevModel == model then .viol s!"earlier-claimant-{m.tid}-lost-it-to:{r.tid}"
                else .viol s!"wrong-claimant:earliest-live-claimant-is-{m.tid},answered-by-{r.tid}"
              else
                match r.fields, m.fields with
                | [rm, rid, rn, rs, rh, re], [mm, mid, mn, ms, mh, me] =>
                  if rm != mm then .viol s!"method-not-verbatim:{rm}"
                  else if rid != mid || rn != mn || rs != ms then .viol "payload-not-preserved"
                  else if rh != mh || re != me then .viol s!"bridge-options-not-uniform:hdr={rh},enc={re}"
                  else .diff "record differs"
                | _, _ => .diff "record shape"
    | none =>
      -- not served
      match parseRec model with
      | some m =>
        if impl == "-14" || impl == "-503" then .viol s!"present-target-unavailable:{m.tid}"
        else if impl == "-415" then .viol "marshaler-options-not-applied(415)"
        else if impl == "-501" || impl == "-400" then .diff "bridge-level outcome differs"
        else if cands.length == 1 then .viol s!"settled-contract-not-routable:{m.tid}"
        else if prevModel == model then .viol s!"earlier-claimant-lost-the-service:{m.tid}"
        else .viol s!"released-service-unrouted:{m.tid}-still-lists-it"
      | none =>
        if (impl == "-14" || impl == "-503") && (model == "-12" || model == "-404") then
          .viol "a-route-of-an-absent-target-is-still-in-the-table(Unavailable)"
        else .viol s!"wrong-status:impl={impl},spec={model}"

end GB.Stack
