import GB.C06.Props
import GB.Stack.Model
/-
  STACK — helper definitions and lemmas for GB/Stack/Props.lean: the specification state `specLatest` of a
  ReflectionRouter history, and the lemmas that relate the combined model (`GB.Stack.step/run`) to the C06 models
  run on the compiled watcher-level stream (`toC06`).
-/
set_option linter.unusedSimpArgs false
set_option linter.unusedVariables false
open GB GB.C06 GB.Stack

namespace GB.Stack

/-! ### the specification state of a router history -/

def latestStep (l : Latest) : Stack.Op → Latest
  | .add n d => if (l n).isSome then l else upd l n (some (d.map (named n)))
  | .addFail _ => l
  | .remove n => if (l n).isSome then upd l n none else l
  | .update n d => if (l n).isSome then upd l n (some (some (named n d))) else l

/-- present names ↦ latest delivered description -/
def specLatest (h : List Stack.Op) : Latest := h.foldl latestStep Latest.init

def Agree (p : Name → Bool) (l : Latest) : Prop := ∀ n, p n = (l n).isSome

theorem upd_upd {κ α : Type} [DecidableEq κ] (f : κ → α) (k : κ) (a b : α) : upd (upd f k a) k b = upd f k b := by
  funext x; simp only [upd]; split <;> rfl

theorem named_name (n : Name) (d : Desc) : (named n d).name = n := rfl

theorem opC06_latest (p : Name → Bool) (l : Latest) (ha : Agree p l) (op : Stack.Op) :
    (opC06 p op).foldl Latest.step l = latestStep l op ∧ Agree (presentStep p op) (latestStep l op) := by
  cases op with
  | add n d =>
    cases hl : l n with
    | some o =>
      have hp : p n = true := by rw [ha n, hl]; rfl
      simp [opC06, latestStep, presentStep, hp, hl]; exact ha
    | none =>
      have hp : p n = false := by rw [ha n, hl]; rfl
      constructor
      · cases d with
        | none => simp [opC06, latestStep, hp, hl, Latest.step]
        | some d =>
          simp only [opC06, hp, Bool.false_eq_true, ↓reduceIte, List.foldl_cons, List.foldl_nil, latestStep, hl,
            Option.isSome_none, Option.map_some]
          simp only [Latest.step, hl, upd_same, named_name, ↓reduceIte, upd_upd]
      · intro m
        simp only [presentStep, hp, Bool.false_eq_true, ↓reduceIte, latestStep, hl, Option.isSome_none]
        by_cases hm : m = n
        · subst hm; simp [upd_same]
        · simp [upd_other _ _ _ hm, ha m]
  | addFail n => simp [opC06, latestStep, presentStep]; exact ha
  | remove n =>
    cases hl : l n with
    | some o =>
      have hp : p n = true := by rw [ha n, hl]; rfl
      constructor
      · simp [opC06, latestStep, hp, hl, Latest.step]
      · intro m
        simp only [presentStep, hp, ↓reduceIte, latestStep, hl, Option.isSome_some]
        by_cases hm : m = n
        · subst hm; simp [upd_same]
        · simp [upd_other _ _ _ hm, ha m]
    | none =>
      have hp : p n = false := by rw [ha n, hl]; rfl
      simp [opC06, latestStep, presentStep, hp, hl]; exact ha
  | update n d =>
    cases hl : l n with
    | some o =>
      have hp : p n = true := by rw [ha n, hl]; rfl
      constructor
      · simp [opC06, latestStep, hp, hl, Latest.step, named_name]
      · intro m
        simp only [presentStep, latestStep, hl, Option.isSome_some, ↓reduceIte]
        by_cases hm : m = n
        · subst hm; simp [upd_same, hp]
        · simp [upd_other _ _ _ hm, ha m]
    | none =>
      have hp : p n = false := by rw [ha n, hl]; rfl
      simp [opC06, latestStep, presentStep, hp, hl]; exact ha

theorem toC06From_latest : ∀ (h : List Stack.Op) (p : Name → Bool) (l : Latest), Agree p l →
    (toC06From p h).foldl Latest.step l = h.foldl latestStep l ∧
      Agree (h.foldl presentStep p) (h.foldl latestStep l) := by
  intro h
  induction h with
  | nil => intro p l ha; exact ⟨rfl, ha⟩
  | cons op rest ih =>
    intro p l ha
    obtain ⟨h1, h2⟩ := opC06_latest p l ha op
    simp only [toC06From, List.foldl_append, List.foldl_cons, h1]
    exact ih _ _ h2

theorem agree_init : Agree (fun _ => false) Latest.init := fun _ => rfl

theorem step_spec (valid : Bytes → Bool) (st : St) (op : Stack.Op) :
    (step valid st op).1.pat = st.pat.run valid (opC06 st.present op) ∧
    (step valid st op).1.svc = st.svc.run (opC06 st.present op) ∧
    (step valid st op).1.present = presentStep st.present op := by
  cases op with
  | add n d =>
    by_cases hp : st.present n = true
    · simp [step, opC06, presentStep, hp, PatState.run, SvcState.run]
    · cases d <;> simp [step, opC06, presentStep, hp, PatState.run, SvcState.run, fanout]
  | addFail n => simp [step, opC06, presentStep, PatState.run, SvcState.run]
  | remove n =>
    by_cases hp : st.present n = true <;>
      simp [step, opC06, presentStep, hp, PatState.run, SvcState.run, fanout]
  | update n d =>
    by_cases hp : st.present n = true <;>
      simp [step, opC06, presentStep, hp, PatState.run, SvcState.run, fanout]

theorem run_spec (valid : Bytes → Bool) : ∀ (h : List Stack.Op) (st : St),
    (run valid st h).pat = st.pat.run valid (toC06From st.present h) ∧
    (run valid st h).svc = st.svc.run (toC06From st.present h) ∧
    (run valid st h).present = h.foldl presentStep st.present := by
  intro h
  induction h with
  | nil => intro st; simp [run, toC06From, PatState.run, SvcState.run]
  | cons op rest ih =>
    intro st
    obtain ⟨h1, h2, h3⟩ := step_spec valid st op
    obtain ⟨i1, i2, i3⟩ := ih (step valid st op).1
    have hr : run valid st (op :: rest) = run valid (step valid st op).1 rest := by simp [run]
    rw [hr, i1, i2, i3, h1, h2, h3]
    simp [toC06From, PatState.run, SvcState.run, List.foldl_append]

theorem run_snoc (valid : Bytes → Bool) (st : St) (h : List Stack.Op) (op : Stack.Op) :
    run valid st (h ++ [op]) = (step valid (run valid st h) op).1 := by
  simp [run, List.foldl_append]

theorem toC06From_append : ∀ (a b : List Stack.Op) (p : Name → Bool),
    toC06From p (a ++ b) = toC06From p a ++ toC06From (a.foldl presentStep p) b := by
  intro a
  induction a with
  | nil => intro b p; simp [toC06From]
  | cons x xs ih => intro b p; simp [toC06From, ih, List.append_assoc]

/-- a continuation that does not remove `T` and whose polls of `T` keep listing `S` compiles to a watcher-level
    stream in which `T` keeps claiming `S` (C06's `Keeps`) — `T` being present, an `Add(T)` in it is a no-op -/
theorem keeps_compiled (T : Name) (S : SvcName) : ∀ (k : List Stack.Op) (p : Name → Bool), p T = true →
    (∀ op ∈ k, op ≠ Stack.Op.remove T ∧ ∀ d, op = Stack.Op.update T d → listed d.services S) →
    Keeps T S (toC06From p k) := by
  intro k
  induction k with
  | nil => intro p _ _ op hop; simp [toC06From] at hop
  | cons x xs ih =>
    intro p hp hk op hop
    simp only [toC06From, List.mem_append] at hop
    have hx := hk x (by simp)
    rcases hop with hop | hop
    · cases x with
      | add n d =>
        by_cases hn : p n = true
        · simp [opC06, hn] at hop
        · have hnT : n ≠ T := fun e => hn (e ▸ hp)
          cases d with
          | none =>
            simp [opC06, hn] at hop
            subst hop
            exact ⟨by simp, by intro d h; cases h⟩
          | some d =>
            simp [opC06, hn] at hop
            rcases hop with hop | hop
            · subst hop; exact ⟨by simp, by intro d h; cases h⟩
            · subst hop
              refine ⟨by simp, ?_⟩
              intro d' h
              simp only [C06.Op.update.injEq] at h
              exact absurd h.1 hnT
      | addFail n => simp [opC06] at hop
      | remove n =>
        by_cases hn : p n = true
        · simp [opC06, hn] at hop
          subst hop
          refine ⟨?_, by intro d h; cases h⟩
          intro h
          simp only [C06.Op.close.injEq] at h
          exact hx.1 (by rw [h])
        · simp [opC06, hn] at hop
      | update n d =>
        by_cases hn : p n = true
        · simp [opC06, hn] at hop
          subst hop
          refine ⟨by simp, ?_⟩
          intro d' h
          simp only [C06.Op.update.injEq] at h
          obtain ⟨h1, h2⟩ := h
          subst h1
          rw [← h2]
          exact hx.2 d rfl
        · simp [opC06, hn] at hop
    · have hp' : presentStep p x T = true := by
        cases x with
        | add n d =>
          simp only [presentStep]
          split
          · exact hp
          · by_cases hnT : T = n
            · subst hnT; simp [upd_same]
            · simp [upd_other _ _ _ hnT, hp]
        | addFail n => exact hp
        | remove n =>
          simp only [presentStep]
          split
          · have hnT : T ≠ n := fun e => hx.1 (by rw [e])
            simp [upd_other _ _ _ hnT, hp]
          · exact hp
        | update n d => exact hp
      exact ih _ hp' (fun op h => hk op (by simp [h])) op hop

/-! data of the explicit examples / witnesses -/
def exA : Name := [97]
def exB : Name := [98]
def exS : SvcName := [83]
def exDesc : Desc := ⟨[], 1, [⟨exS, []⟩]⟩

end GB.Stack
