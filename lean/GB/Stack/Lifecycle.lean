import GB.C16.Proofs
import GB.Stack.Props
/-
  STACK — helper definitions and lemmas for the `C16_stack_*` block of GB/C16/Props.lean: histories of the combined
  model as histories of the C16 lifecycle model (names numbered by an injective `enc`), agreement of the two
  `present` machines, and an explicit injective numbering of byte strings.
-/
set_option linter.unusedSimpArgs false
set_option linter.unusedVariables false
open GB GB.C16

/-- a ReflectionRouter history of the combined model as a history of the lifecycle model: the first resolution and
    later polls do not touch the lifecycle, a failing / rejected Add is a construction failure -/
def stackToC16 (enc : GB.C06.Name → Nat) : List GB.Stack.Op → List ROp
  | [] => []
  | .add n _ :: r => .add (enc n) .ok :: stackToC16 enc r
  | .addFail n :: r => .add (enc n) .fail :: stackToC16 enc r
  | .remove n :: r => .remove (enc n) :: stackToC16 enc r
  | .update _ _ :: r => stackToC16 enc r

theorem specRunR_fst_cons (p : Present) (o : ROp) (os : List ROp) :
    (specRunR p (o :: os)).1 = (specRunR (specStepR p o).1 os).1 := by
  simp [specRunR]

theorem stack_present_agree (enc : GB.C06.Name → Nat) (hinj : ∀ a b, enc a = enc b → a = b) :
    ∀ (h : List GB.Stack.Op) (p0 : Present) (p : GB.C06.Name → Bool), (∀ n, p0 (enc n) = p n) →
      ∀ n, (specRunR p0 (stackToC16 enc h)).1 (enc n) = (h.foldl GB.Stack.presentStep p) n := by
  intro h
  induction h with
  | nil => intro p0 p ha n; simpa [stackToC16, specRunR] using ha n
  | cons op rest ih =>
    intro p0 p ha n
    have key : ∀ (m : GB.C06.Name) (b : Bool) (x : GB.C06.Name),
        upd p0 (enc m) b (enc x) = GB.C06.upd p m b x := by
      intro m b x
      by_cases hx : x = m
      · subst hx; simp [upd, GB.C06.upd]
      · have : enc x ≠ enc m := fun e => hx (hinj _ _ e)
        simp [upd, GB.C06.upd, hx, this, ha x]
    cases op with
    | add m d =>
      simp only [stackToC16, specRunR_fst_cons, List.foldl_cons]
      apply ih
      intro x
      simp only [specStepR, GB.Stack.presentStep, ha m]
      by_cases hm : p m = true
      · simp [hm, ha x]
      · simp [hm, key]
    | addFail m =>
      simp only [stackToC16, specRunR_fst_cons, List.foldl_cons]
      apply ih
      intro x
      simp only [specStepR, GB.Stack.presentStep]
      by_cases hm : p0 (enc m) = true <;> simp [hm, ha x]
    | remove m =>
      simp only [stackToC16, specRunR_fst_cons, List.foldl_cons]
      apply ih
      intro x
      simp only [specStepR, GB.Stack.presentStep, ha m]
      by_cases hm : p m = true
      · simp [hm, key]
      · simp [hm, ha x]
    | update m d =>
      simp only [stackToC16, List.foldl_cons, GB.Stack.presentStep]
      exact ih p0 p ha n

/-- an injective numbering of byte-string names exists (so the two theorems above are not vacuous) -/
def stackEnc : GB.C06.Name → Nat
  | [] => 0
  | x :: xs => stackEnc xs * 256 + x.toNat + 1

theorem stackEnc_injective : ∀ a b, stackEnc a = stackEnc b → a = b := by
  intro a
  induction a with
  | nil => intro b h; cases b with
    | nil => rfl
    | cons y ys => simp [stackEnc] at h
  | cons x xs ih =>
    intro b h
    cases b with
    | nil => simp [stackEnc] at h
    | cons y ys =>
      simp only [stackEnc] at h
      have hx := x.toNat_lt
      have hy := y.toNat_lt
      have h1 : stackEnc xs = stackEnc ys := by omega
      have h2 : x.toNat = y.toNat := by omega
      rw [ih ys h1, UInt8.toNat_inj.mp h2]

