/- REGENERATED on every run by /verif/extract from the grpcbridge sources. Do not edit. -/
namespace GB.Generated

-- grpcadapter/forwarder.go:337 rows of timeoutUnitToDuration
def timeoutUnits : List (Nat × String) := [(72, "Hour"), (77, "Minute"), (83, "Second"), (109, "Millisecond"), (117, "Microsecond"), (110, "Nanosecond")]

-- grpcadapter/forwarder.go:312 decodeTimeout rejects size < fst or size > snd
def timeoutSizeBounds : Nat × Nat := (2, 9)

end GB.Generated
