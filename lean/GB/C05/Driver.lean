import GB.Base.Proto
namespace GB.C05
open GB GB.Proto

/-- stub: replaced when the C05 slice is built -/
def handle : Handler := fun _ _ => "BAD c05 unimplemented"

end GB.C05
