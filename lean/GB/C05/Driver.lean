import GB.Base.Proto
import GB.C05.Spec
import GB.C05.Pipeline
import GB.C05.Ext
/-
  C05 driver: trace validation of one resolver run (one or more polls against one scripted target).

  input :  res lim=<int> only=<0|1> ign=<tok,…> F=<file>… A=<alien file>… P=<poll>…
             file  = name|pkg|dep,…|msg,…|svc;…          svc = fullname!method!…
             method= name~in~out~<c><s>~rule^rule…        rule = kind@pattern@body@resp
             kind  = get|put|post|delete|patch|none|c:<verb>        "-" = empty string
             poll  = <v1 mode>,<v1alpha mode>|<listed hex,…>|<policy text (Go side only)>
             mode  = ok | u… (answers Unimplemented somewhere) | x… (fails with another code)
  output:  per poll:  poll  S=<v1|v1a>:<ok|eNN>  [Z=eof: the ListServices Send returned io.EOF]  E=<req>><ans> …  R=<result>
             req = l | s:<name> | f:<name>      ans = L:<hex,…> | F:<id,…> | G:<id,…> | eNN | rNN | oN
             id  = file name (own file) or @k (k-th alien file)
             result = ok:<file,…>#<svc;…> | none | err:<code>
             (in a delivered method a type name ends in "?" when its descriptor is a placeholder)

  The model is run with the observed answers as its policy and the observed request order as its
  schedule; it has to issue exactly the observed requests and reach the observed outcome (else DIFF).
  Independently, the outcome is judged against the specification (VIOL).
-/
namespace GB.C05
open GB GB.Proto

/-! ### tokens -/

def tok (s : String) : Bytes := if s == "-" then [] else ascii s
def untok (b : Bytes) : String := if b.isEmpty then "-" else bytesToString b

def splitL (sep : String) (s : String) : List String := if s.isEmpty then [] else s.splitOn sep

/-- split at the first occurrence of `sep` -/
def splitFirst (sep : String) (s : String) : String × String :=
  match s.splitOn sep with
  | [] => ("", "")
  | [a] => (a, "")
  | a :: rest => (a, sep.intercalate rest)

def parseRule (s : String) : Option Rule :=
  match s.splitOn "@" with
  | [k, p, b, r] =>
    let p' := tok p
    let pat : Option Pattern :=
      if k == "get" then some (.get p') else if k == "put" then some (.put p')
      else if k == "post" then some (.post p') else if k == "delete" then some (.delete p')
      else if k == "patch" then some (.patch p') else if k == "none" then some .unset
      else if k.startsWith "c:" then some (.custom (tok (k.drop 2).toString) p')
      else none
    pat.map fun pt => { pattern := pt, body := tok b, responseBody := tok r }
  | _ => none

def parseMethodD (s : String) : Option DMethod :=
  match s.splitOn "~" with
  | [n, i, o, fl, rules] =>
    let rs := (splitL "^" rules).map parseRule
    if rs.any Option.isNone then none else
    let rs' := rs.filterMap id
    let http : Option HttpRule := match rs' with
      | [] => none
      | p :: more => some { primary := p, additional := more }
    match fl.toList with
    | [c, sv] => some { name := tok n, input := tok i, output := tok o,
                        clientStreaming := c == '1', serverStreaming := sv == '1', http := http }
    | _ => none
  | _ => none

def parseServiceD (s : String) : Option DService :=
  match s.splitOn "!" with
  | [] => none
  | n :: ms =>
    let ms' := ms.map parseMethodD
    if ms'.any Option.isNone then none else some { name := tok n, methods := ms'.filterMap id }

def parseFile (s : String) : Option DFile :=
  match s.splitOn "|" with
  | [n, _pkg, deps, msgs, svcs] =>
    let ss := (splitL ";" svcs).map parseServiceD
    if ss.any Option.isNone then none else
    some { name := tok n, deps := (splitL "," deps).map tok, messages := (splitL "," msgs).map tok,
           services := ss.filterMap id }
  | _ => none

inductive Mode where | ok | unimpl | broken
  deriving DecidableEq

def parseMode (s : String) : Option Mode :=
  match s.toList with
  | 'o' :: _ => some .ok
  | 'u' :: _ => some .unimpl
  | 'x' :: _ => some .broken
  | _ => none

structure PollIn where
  m1 : Mode
  m1a : Mode
  listed : List Name

def parseHexList (s : String) : Option (List Name) :=
  let l := (splitL "," s).map parseHex
  if l.any Option.isNone then none else some (l.filterMap id)

def parsePollIn (s : String) : Option PollIn :=
  match s.splitOn "|" with
  | modes :: listed :: _ =>
    match modes.splitOn ",", parseHexList listed with
    | [a, b], some l =>
      match parseMode a, parseMode b with
      | some x, some y => some { m1 := x, m1a := y, listed := l }
      | _, _ => none
    | _, _ => none
  | _ => none

structure Input where
  /-- the conversation ran over real gRPC: the service may answer pipelined requests the client no
      longer reads after an aborting response -/
  wire : Bool
  cfg : Cfg
  own : List DFile
  alien : List DFile
  polls : List PollIn

def parseInput (fields : List String) : Except String Input := do
  let mut lim : Int := 0
  let mut only := false
  let mut wire := false
  let mut ign : List Bytes := []
  let mut own : List DFile := []
  let mut alien : List DFile := []
  let mut polls : List PollIn := []
  for f in fields do
    let (k, v) := splitFirst "=" f
    if k == "res" then pure ()
    else if k == "lim" then
      match v.toInt? with
      | some n => lim := n
      | none => throw "lim"
    else if k == "only" then only := v == "1"
    else if k == "wire" then wire := v == "1"   -- transport used by the harness (fake pool / real gRPC over bufconn)
    else if k == "ign" then ign := (splitL "," v).map tok
    else if k == "F" then
      match parseFile v with
      | some x => own := own ++ [x]
      | none => throw "file"
    else if k == "A" then
      match parseFile v with
      | some x => alien := alien ++ [x]
      | none => throw "alien"
    else if k == "P" then
      match parsePollIn v with
      | some x => polls := polls ++ [x]
      | none => throw "poll"
    else throw s!"field {k}"
  return { wire := wire, cfg := mkCfg lim only ign, own := own, alien := alien, polls := polls }

/-! ### observed conversation -/

structure StreamTr where
  v : Version
  connErr : Option Nat
  events : List Event
  /-- what the Send of the ListServices request returned (`Z=eof`: io.EOF) -/
  listSend : SendRes := .ok

structure PollOut where
  streams : List StreamTr
  result : String

def lookupFile (inp : Input) (id : String) : Option DFile :=
  match id.toList with
  | '@' :: k =>
    match (String.ofList k).toNat? with
    | some i => inp.alien[i]?
    | none => none
  | _ => inp.own.find? (fun f => f.name == tok id)

def parseAnswer (inp : Input) (s : String) : Option Answer :=
  match s.toList with
  | 'L' :: ':' :: r => (parseHexList (String.ofList r)).map Answer.listing
  | 'F' :: ':' :: r =>
    let l := (splitL "," (String.ofList r)).map (lookupFile inp)
    if l.any Option.isNone then none else some (.files (l.filterMap id))
  | 'G' :: ':' :: r =>
    let l := (splitL "," (String.ofList r)).map (lookupFile inp)
    if l.any Option.isNone then none else some (.garbled (l.filterMap id))
  | 'e' :: r => (String.ofList r).toNat?.map Answer.error
  | 'r' :: r => (String.ofList r).toNat?.map Answer.error
  | 'o' :: r => (String.ofList r).toNat?.map Answer.other
  | _ => none

def parseRequest (s : String) : Option Request :=
  if s == "l" then some .list
  else
    let (k, v) := splitFirst ":" s
    if k == "s" then some (.symbol (tok v))
    else if k == "f" then some (.filename (tok v))
    else none

def parseVersion (s : String) : Option Version :=
  if s == "v1" then some .v1 else if s == "v1a" then some .v1alpha else none

def parseOutput (inp : Input) (fields : List String) : Except String (List PollOut) := do
  let mut polls : List PollOut := []
  let mut cur : Option PollOut := none
  for f in fields do
    if f == "poll" then
      if let some p := cur then polls := polls ++ [p]
      cur := some { streams := [], result := "" }
    else
      let (k, v) := splitFirst "=" f
      match cur with
      | none => throw "field before poll"
      | some p =>
        if k == "S" then
          let (vs, r) := splitFirst ":" v
          match parseVersion vs with
          | none => throw "version"
          | some ver =>
            let ce : Option Nat := if r == "ok" then none else ((r.drop 1).toString.toNat?).orElse (fun _ => some 2)
            cur := some { p with streams := p.streams ++ [{ v := ver, connErr := ce, events := [] }] }
        else if k == "E" then
          let (q, a) := splitFirst ">" v
          match parseRequest q, parseAnswer inp a, p.streams.reverse with
          | some q', some a', last :: before =>
            cur := some { p with streams := before.reverse ++ [{ last with events := last.events ++ [(q', a')] }] }
          | _, _, _ => throw s!"event {v}"
        else if k == "Z" then
          match p.streams.reverse with
          | last :: before => cur := some { p with streams := before.reverse ++ [{ last with listSend := .eof }] }
          | [] => throw "Z before S"
        else if k == "R" then cur := some { p with result := v }
        else throw s!"out field {k}"
  if let some p := cur then polls := polls ++ [p]
  return polls

/-! ### rendering (canonical text shared with the Go side) -/

def showBinding (b : Binding) : String :=
  s!"{untok b.httpMethod}@{untok b.pattern}@{untok b.requestBodyPath}@{untok b.responseBodyPath}"

def showMethod (m : Method) : String :=
  let fl := (if m.clientStreaming then "1" else "0") ++ (if m.serverStreaming then "1" else "0")
  s!"{untok m.rpcName}~{untok m.input}~{untok m.output}~{fl}~{"^".intercalate (m.bindings.map showBinding)}"

def showService (s : Service) : String :=
  "!".intercalate (untok s.name :: s.methods.map showMethod)

def showServices (l : List Service) : String :=
  ";".intercalate ((sortBy (fun a b => bytesLe a.name b.name) l).map showService)

def showFileNames (l : List Name) : String := ",".intercalate ((sortBy bytesLe l).map untok)

def showOutcome : Outcome → String
  | .update t => s!"ok:{showFileNames (fileNames t.files)}#{showServices t.services}"
  | .unchanged => "none"
  | .error e => s!"err:{e.code}"

/-! ### the model driven by the observed conversation -/

def mismatch : Answer := .other 99

def oraclePol (evs : List Event) : Policy := fun h q =>
  match evs[h.length]? with
  | some (q', a) => if q' = q then a else mismatch
  | none => mismatch

def isPermB (a b : List Name) : Bool :=
  a.length == b.length && a.all (· ∈ b) && b.all (· ∈ a)

/-- the order in which this round's requests were observed; a round that aborted early shows only a
    prefix of it, the unobserved rest is appended in the model's own order -/
def oracleSched (evs : List Event) : Sched := fun h l =>
  let cand := ((evs.drop h.length).take l.length).filterMap fun e =>
    match e.1 with
    | .filename n => some n
    | _ => none
  if nodupB cand && cand.all (· ∈ l) then cand ++ l.filter (· ∉ cand) else l

def endpointOf (p : PollOut) (v : Version) : Endpoint :=
  match p.streams.find? (fun s => s.v == v) with
  | some s => { connErr := s.connErr, pol := oraclePol s.events, sched := oracleSched s.events, listSend := s.listSend }
  | none => { connErr := some 999, pol := fun _ _ => mismatch, sched := fun _ l => l }

/-- the model's conversation ended with an aborting response -/
def abortedAt (h : History) : Bool :=
  match h.reverse.head? with
  | some (_, .error _) => true
  | some (_, .other _) => true
  | _ => false

def logMatches (wire : Bool) (log : PollLog) (p : PollOut) : Bool :=
  log.length == p.streams.length &&
  (log.zip p.streams).all fun (l, s) =>
    l.1 == s.v && (match l.2, s.connErr with
      | none, some _ => true
      | some h, none => h == s.events || (wire && abortedAt h && h.isPrefixOf s.events)
      | _, _ => false)

/-! ### the specification judged on the observed conversation -/

/-- all files the target returned on a stream -/
def returnedFiles (evs : List Event) : List DFile :=
  evs.flatMap fun e => match e.2 with
    | .files fs => fs
    | _ => []

def servicesPart (result : String) : String := (splitFirst "#" result).2

/-- which clause of `wfFilesB` a descriptor set breaks -/
def inconsistency (fs : List DFile) : String :=
  if !nodupB (fileNames fs) then "duplicate file name"
  else if !closedB fs then "an imported file is missing"
  else if !acyclicB fs then "import cycle"
  else if !nodupB (symbols fs) then "a symbol is declared twice"
  else if !typesResolveB fs then "a method's input/output type is defined in no visible file"
  else "consistent"

/-- success must be exact: names, content, closed consistent file set -/
def judgeSuccess (inp : Input) (s : StreamTr) (result : String) : Option String :=
  let body := (result.drop 3).toString      -- after "ok:"
  let (filesS, svcsS) := splitFirst "#" body
  let delivered := (splitL "," filesS).map tok
  let ret := dedupFiles [] (returnedFiles s.events)   -- of two different files with one name the first counts
  match s.events.head? with
  | some (.list, .listing raw) =>
    let names := sortBy bytesLe (specNames inp.cfg raw)
    let regFiles := ret.filter (fun f => f.name ∈ delivered)
    let expect := names.map fun n =>
      if inp.cfg.onlyServices then ({ name := n, methods := [] } : Service) else contractOf regFiles n
    -- "an inconsistent or incomplete descriptor set produces an error report, never a partial description"
    if svcsS.any (· == '%') then
      some "message-type-not-the-delivered-registry's: Method.Input/Output builds a descriptor that is not the one the delivered FileResolver has under that name"
    else if svcsS.any (· == '?') then
      some "partial-description: a method's input/output type is a placeholder (defined in no delivered file)"
    else if !inp.cfg.onlyServices && !wfFilesB regFiles then
      some s!"partial-description: delivered although the descriptor set is inconsistent ({inconsistency regFiles})"
    else if ";".intercalate (expect.map showService) ≠ svcsS then
      some s!"services differ from the target's descriptors: want {";".intercalate (expect.map showService)}"
    else if !nodupB delivered then some "duplicate file in the delivered registry"
    else if !(delivered.all fun d => d ∈ fileNames ret) then some "delivered file was never sent by the target"
    else if !(regFiles.all fun f => f.deps.all (· ∈ delivered)) then some "delivered file set is not closed under imports"
    else if !inp.cfg.onlyServices && !(names.all fun n => (findService ret n).isNone || (findService regFiles n).isSome) then
      some "a service the target described was delivered without its definition"
    else none
  | _ => some "success without a ListServices answer"

structure JState where
  st : RState
  lastOk : Option String        -- services part of the last delivered description

def judgePoll (inp : Input) (pin : PollIn) (p : PollOut) (js : JState) : JState × String × String :=
  -- returns new state, verdict ("" = fine so far / "DIFF …" / "VIOL …") and a branch tag
  let (st', out, log) := resolveFixed inp.cfg (endpointOf p) js.st
  let modelOut := showOutcome out
  let isOk := p.result.startsWith "ok:"
  let okStream := p.streams.reverse.head?
  -- specification, part 1: whatever the target did, a delivered description is never partial
  let v1 : Option String :=
    if isOk then
      match okStream with
      | some s => judgeSuccess inp s p.result
      | none => some "success without a stream"
    else none
  -- specification, part 2: a well-formed target answering conformantly must be resolved
  let cfg := inp.cfg
  let names := specNames cfg pin.listed
  let wf := wfFilesB inp.own && names.all fun n => (findService inp.own n).isSome
  let modesFine := (pin.m1 == .ok || pin.m1a == .ok) && pin.m1 != .broken && pin.m1a != .broken
  let conf := p.streams.all fun s => s.connErr.isSome ||
    (match s.events.head? with
     | some (.list, .error _) => true      -- the method answered Unimplemented: judged by `modesFine`
     | _ => s.events.all (conformantEvent inp.own pin.listed))
  let focused := p.streams.all fun s => s.events.all (focusedEvent inp.own)
  let fits := cfg.onlyServices || inp.own.length ≤ cfg.limit || (focused && depthFits cfg inp.own pin.listed)
  let must := wf && modesFine && conf && fits
  let expectSvcs := ";".intercalate ((sortBy bytesLe names).map fun n =>
    showService (if cfg.onlyServices then { name := n, methods := [] } else contractOf inp.own n))
  let v2 : Option String :=
    if !must then none
    else if isOk then
      if servicesPart p.result == expectSvcs then none else some s!"conformant target resolved to a different description: want {expectSvcs}"
    else if p.result == "none" then
      if js.lastOk == some expectSvcs then none else some "conformant target: no description delivered although none equal to it was delivered before"
    else some s!"conformant well-formed target rejected ({p.result})"
  let lastOk := if isOk then some (servicesPart p.result) else js.lastOk
  let js' : JState := { st := st', lastOk := lastOk }
  let branch := (if must then "must-" else "free-") ++
    (if isOk then "ok" else if p.result == "none" then "none" else "err") ++ s!"-s{p.streams.length}"
  match v1, v2 with
  | some r, _ => (js', s!"VIOL {r}", branch)
  | none, some r => (js', s!"VIOL {r}", branch)
  | none, none =>
    if modelOut ≠ p.result then (js', s!"DIFF model={modelOut}", branch)
    else if !logMatches inp.wire log p then (js', "DIFF model issues different requests", branch)
    else (js', "", branch)

/-! ### op `pipe`: the real client's pipelined batch + close(), replayed through `Pipe.step`

Visible events are matched with labels; the goroutines' internal moves (pushing the semaphore token,
finishing, main's reads of the two channels, wg.Wait) are searched for.  VIOL: the returned files/error
differ from the sequential conversation, a `Recv` is called before its request was sent, a `Recv` is issued
while a read is in flight, a goroutine is still calling the stream after the function returned. -/

open Pipe in
def pipeAnswer (i : Nat) (t : String) : Option Answer :=
  match t.toList with
  | 'F' :: k => (String.ofList k).toNat?.map fun n =>
      Answer.files ((List.range n).map fun j =>
        ({ name := [UInt8.ofNat i, UInt8.ofNat j], deps := [], messages := [], services := [] } : DFile))
  | 'e' :: c => (String.ofList c).toNat?.map Answer.error
  | ['o'] => some (.other 1)
  | _ => none

def pipeIds (l : List DFile) : String :=
  "+".intercalate (l.map fun f => ".".intercalate (f.name.map fun b => toString b.toNat))

def pipeShowResult : Except Err (List DFile) → String
  | .ok l => s!"ok:{pipeIds l}"
  | .error e => if e.code = Pipe.codeEOF then "err:2:eof" else s!"err:{e.code}"

/-- depth-first search over internal labels for a state satisfying `goal` -/
def pipeSearch (A : List Answer) (ls : List Pipe.Label) (goal : Pipe.PState → Bool) : Nat → Pipe.PState → Option Pipe.PState
  | 0, s => if goal s then some s else none
  | f + 1, s =>
    if goal s then some s
    else ls.findSome? fun l =>
      match Pipe.step true A s l with
      | some s' => pipeSearch A ls goal f s'
      | none => none

def pipeSignal (A : List Answer) (s : Pipe.PState) : Pipe.PState :=
  (Pipe.step true A s .reqSignal).getD s

def pipeForceCancel (A : List Answer) (s : Pipe.PState) : Option Pipe.PState :=
  pipeSearch A [.mainReadRecv, .mainReadSend] (fun t => t.cancelled) 2 s

def pipeInternal : List Pipe.Label :=
  [.reqSignal, .reqFinish, .rcvFinish, .rcvCancelled, .mainReadRecv, .mainReadSend, .mainJoin]

def pipeEvent (A : List Answer) (s : Pipe.PState) (ev : String) : Except String Pipe.PState :=
  let step (s : Pipe.PState) (l : Pipe.Label) (why : String) : Except String Pipe.PState :=
    match Pipe.step true A s l with
    | some s' => .ok s'
    | none => .error why
  let (k, v) := splitFirst ":" ev
  if ev.startsWith "S+" then
    let s := pipeSignal A s
    match (ev.drop 2).toString.toNat? with
    | some i =>
      if s.rpc = .send i ∧ i < A.length then .ok s
      else if s.rpc = .done then .error s!"VIOL the requester calls Send({i}) after it has exited (goroutine outlived the call)"
      else .error s!"DIFF Send({i}) called out of order"
    | none => .error "BAD S+"
  else if k.startsWith "S-" then
    if v == "ok" then step s .reqSend "DIFF Send returned without being called"
    else if v == "eof" then step s .reqSendEOF "DIFF Send returned io.EOF on a live stream"
    else if v == "ctx" then
      match pipeForceCancel A s with
      | some s' => step s' (.reqSendFault ⟨Pipe.codeCanceled⟩) "DIFF Send returned without being called"
      | none => .error "VIOL a Send was cancelled although the function had no result yet"
    else
      match (v.drop 1).toString.toNat? with
      | some c => step s (.reqSendFault ⟨c⟩) "DIFF Send returned without being called"
      | none => .error "BAD S-"
  else if ev == "R+" then
    if s.mpc = .closing1 then
      step s .closeRecvCall "VIOL close() reads from a stream on which a call has already failed (a read may still be in flight)"
    else
      let s := pipeSignal A s
      if s.vpc = .done ∧ s.mpc ≠ .closing1 then .error "VIOL the receiver calls Recv after it has exited (goroutine outlived the call)"
      else step s .rcvTake "VIOL Recv called before the corresponding request was sent (semaphore)"
  else if k == "R-" then
    if v == "eof" then step s .closeRecvRet "DIFF EOF outside close()"
    else if v.startsWith "st" then step s .rcvStatus "DIFF Recv returned the stream's status out of order"
    else if v == "ctx" then
      match pipeForceCancel A s with
      | some s' => step s' (.rcvFault ⟨Pipe.codeCanceled⟩ true) "DIFF Recv returned without being called"
      | none => .error "VIOL a Recv was cancelled although the function had no result yet"
    else if v.startsWith "a" then
      match (v.drop 1).toString.toNat? with
      | some j =>
        if s.vpc ≠ .recv j then .error s!"DIFF answer {j} delivered to a receiver that is not waiting for it"
        else
          match pipeSearch A [.serve] (fun t => j < t.served) (A.length + 1) s with
          | some s' => step s' .rcvRecv "DIFF answer not deliverable"
          | none => .error "BAD answer to a request that was never sent"
      | none => .error "BAD R-:a"
    else
      let bg := v.endsWith "b"
      let code := if bg then (v.drop 1).toString.dropEnd 1 |>.toString else (v.drop 1).toString
      match code.toNat? with
      | some c => step s (.rcvFault ⟨c⟩ bg) "DIFF Recv returned without being called"
      | none => .error "BAD R-:x"
  else if k == "ret" then
    -- specification first: what the function returns is the sequential conversation's result
    let seq := Pipe.collect A [] false
    let s0 := s
    let specBad : Option String :=
      if v.startsWith "ok" then
        if pipeShowResult seq == v then none
        else some s!"VIOL returned files differ from the sequential conversation ({pipeShowResult seq})"
      else
        -- an error: exact unless a stream-level fault happened before the function's own cancel()
        match pipeSearch A pipeInternal (fun t => t.mpc = .returned) 12 s0 with
        | some t =>
          if t.streamFault then (match seq with | .ok _ => none | .error _ => none)
          else if pipeShowResult seq == v then none
          else some s!"VIOL returned error differs from the sequential conversation ({pipeShowResult seq})"
        | none => none
    match specBad with
    | some r => .error r
    | none =>
      match pipeSearch A pipeInternal
          (fun t => t.mpc = .returned && (t.result.map pipeShowResult) == some v) 12 s with
      | some t => .ok t
      | none =>
        match pipeSearch A pipeInternal (fun t => t.mpc = .returned) 12 s with
        | some t => .error s!"DIFF model returns {(t.result.map pipeShowResult).getD "nothing"}"
        | none => .error "VIOL the function returned while a goroutine of it cannot have exited (wg.Wait)"
  else if k == "X" then
    match v.toNat? with
    | some c => step s (.streamEnd c) "DIFF the stream ended twice"
    | none => .error "BAD X"
  else if ev == "CS" then step s .closeSend "DIFF CloseSend before the call returned"
  else if ev == "CL" then
    let s1 := if s.mpc = .closing1 then Pipe.step true A s .closeSkipRecv else some s
    match s1 with
    | some t => step t .closeClose "DIFF Close out of order"
    | none => .error "DIFF close() skipped the graceful Recv on a healthy stream"
  else if ev == "hang" then .error "VIOL the client did not return (hang)"
  else .error s!"BAD event {ev}"

def handlePipe (inF outF : List String) : String :=
  let get (key : String) : String :=
    ((inF.find? (fun f => f.startsWith (key ++ "="))).map fun f => (splitFirst "=" f).2).getD ""
  let toks := splitL "," (get "A")
  let ans := (toks.zip (List.range toks.length)).map fun (t, i) => pipeAnswer i t
  if ans.any Option.isNone then "BAD pipe answers" else
  let A := ans.filterMap id
  if some A.length ≠ (get "n").toNat? then "BAD pipe n" else
  let rec go (evs : List String) (s : Pipe.PState) : String :=
    match evs with
    | [] =>
      if s.mpc = .closed then
        let fault := if s.streamFault then "fault" else "clean"
        let res := match s.result with
          | some (.ok _) => "ok"
          | some (.error e) => if e.code = Pipe.codeEOF ∧ s.ended.isSome then "eofmask" else "err"
          | none => "err"
        "OK" ++ (if A.length ≥ 2 then " nt" else "") ++ s!" b=pipe-{res}-{fault}"
      else "DIFF the log ends before close() finished"
    | ev :: rest =>
      if Pipe.reads s > 1 then "VIOL two reads of the stream in flight"
      else
        match pipeEvent A s ev with
        | .ok s' => go rest s'
        | .error e => e ++ s!" [at {ev}]"
  go outF (Pipe.init A.length)


/-! ### op `nf`: protodesc.NewFiles + bridgedesc.ParseTarget on an extended descriptor set

  input :  nf W=<svc,…> X=<xfile>…
             xfile = name|pkg|dep,…|msg,…|svc;…|syntax|edition|pub idx,…|weak idx,…|required msg,…
             rule (inside method) = kind@pattern@body@resp[@nested%nested…]   nested = kind$pattern$body$resp
  output:  err | ok:<file,…>#<svc;…>      (what reflection.parseFileDescriptors returned) -/

def parseXRule (s : String) : Option (Rule × List Rule) :=
  match s.splitOn "@" with
  | [k, p, b, r] => (parseRule s).map fun x => (x, [])
  | [k, p, b, r, nested] =>
    let ns := (splitL "%" nested).map fun n => parseRule ("@".intercalate (n.splitOn "$"))
    if ns.any Option.isNone then none else
    (parseRule ("@".intercalate [k, p, b, r])).map fun x => (x, ns.filterMap id)
  | _ => none

def parseXMethod (s : String) : Option DMethod :=
  match s.splitOn "~" with
  | [n, i, o, fl, rules] =>
    let rs := (splitL "^" rules).map parseXRule
    if rs.any Option.isNone then none else
    let http : Option HttpRule := match rs.filterMap id with
      | [] => none
      | p :: more => some (XHttp.flatten { primary := p.1, additional := more })
    match fl.toList with
    | [c, sv] => some { name := tok n, input := tok i, output := tok o,
                        clientStreaming := c == '1', serverStreaming := sv == '1', http := http }
    | _ => none
  | _ => none

def parseXService (s : String) : Option DService :=
  match s.splitOn "!" with
  | [] => none
  | n :: ms =>
    let ms' := ms.map parseXMethod
    if ms'.any Option.isNone then none else some { name := tok n, methods := ms'.filterMap id }

def parseNats (s : String) : Option (List Nat) :=
  let l := (splitL "," s).map String.toNat?
  if l.any Option.isNone then none else some (l.filterMap id)

def parseXFile (s : String) : Option XFile :=
  match s.splitOn "|" with
  | [n, pkg, deps, msgs, svcs, syn, ed, pub, weak, req] =>
    let ss := (splitL ";" svcs).map parseXService
    if ss.any Option.isNone then none else
    match ed.toNat?, parseNats pub, parseNats weak with
    | some e, some pb, some wk =>
      some { file := { name := tok n, deps := (splitL "," deps).map tok, messages := (splitL "," msgs).map tok,
                       services := ss.filterMap id },
             pkg := tok pkg, syn := tok syn, edition := e, pub := pb, weak := wk,
             required := (splitL "," req).map tok }
    | _, _, _ => none
  | _ => none

def nfBranch (xs : List XFile) : String :=
  let feats := (if xs.any (fun x => !x.pub.isEmpty) then ["pub"] else []) ++
    (if xs.any (fun x => !x.weak.isEmpty) then ["weak"] else []) ++
    (if xs.any (fun x => x.syn == sEditions) then ["ed"] else []) ++
    (if xs.any (fun x => !x.required.isEmpty) then ["req"] else [])
  if feats.isEmpty then "plain" else "+".intercalate feats

def handleNf (inF outF : List String) : String :=
  let wanted := (inF.filterMap fun f => if f.startsWith "W=" then some ((splitL "," (f.drop 2).toString).map tok) else none).flatten
  let xsO := inF.filterMap fun f => if f.startsWith "X=" then some (parseXFile (f.drop 2).toString) else none
  if xsO.any Option.isNone then "BAD nf file" else
  let xs := xsO.filterMap id
  let model := match parseFileDescriptorsX xs wanted with
    | .error _ => "err"
    | .ok t => s!"ok:{showFileNames (fileNames t.files)}#{showServices t.services}"
  match outF with
  | [impl] =>
    let br := (if model == "err" then "nf-rej-" else "nf-acc-") ++ nfBranch xs
    if impl == model then "OK" ++ (if xs.length ≥ 2 then " nt" else "") ++ s!" b={br}"
    else if impl.startsWith "PANIC" then "VIOL panic"
    else if impl.any (· == '%') then
      "VIOL message-type-not-the-delivered-registry's: Method.Input/Output builds a descriptor that is not the one the delivered FileResolver has under that name"
    else if impl.startsWith "ok:" && model.startsWith "ok:" then
      s!"VIOL the delivered contract is not the descriptor set's: model={model}"
    else s!"DIFF model={model}"
  | _ => "BAD nf output"

/-! ### op `hist`: a history of resolutions in which message definitions change under a constant full name

  input :  hist pkg=<package> S=<target>|<fields of pkg.Item>|<fields of pkg.Reply> …       fields = name:kind,…
  output:  per step  ok:<built Item>/<registry Item>;<built Reply>/<registry Reply> | err -/

def parseFields (s : String) : Fields :=
  (splitL "," (if s == "-" then "" else s)).map fun f =>
    let (n, k) := splitFirst ":" f
    (tok n, if k == "i" then 0 else if k == "s" then 1 else 2)

def showFields (f : Fields) : String :=
  if f.isEmpty then "-" else
  ",".intercalate (f.map fun (n, k) => untok n ++ ":" ++ (if k = 0 then "i" else if k = 1 then "s" else "b"))

def histStep (pkg : Name) (item reply : Fields) : HStep :=
  let it := pkg ++ [46] ++ ascii "Item"
  let rp := pkg ++ [46] ++ ascii "Reply"
  let sv := pkg ++ [46] ++ ascii "Svc"
  let m : DMethod :=
    { name := ascii "Get", input := it, output := rp, clientStreaming := false, serverStreaming := false, http := none }
  let f : DFile :=
    { name := pkg ++ ascii ".proto", deps := [], messages := [it, rp], services := [{ name := sv, methods := [m] }] }
  let x : XFile :=
    { file := f, pkg := pkg, syn := sProto3, edition := 0, pub := [], weak := [], required := [] }
  { files := [x], defs := [(it, item), (rp, reply)], wanted := [sv] }

def showHistStep : Except Err (List (Name × List TypedMethod)) → String
  | .ok [(_, [m])] =>
    let sh := fun (o : Option Fields) => match o with | some f => showFields f | none => "-none-"
    s!"ok:{sh m.inputDef}/{sh m.inputDef};{sh m.outputDef}/{sh m.outputDef}"
  | _ => "err"

def handleHist (inF outF : List String) : String :=
  let pkg := ((inF.find? (·.startsWith "pkg=")).map fun f => tok (f.drop 4).toString).getD []
  let steps := inF.filterMap fun f =>
    if f.startsWith "S=" then
      match (f.drop 2).toString.splitOn "|" with
      | [_, a, b] => some (histStep pkg (parseFields a) (parseFields b))
      | _ => none
    else none
  let model := (deliverHistory steps).map showHistStep
  if model.length ≠ outF.length then (if outF.head? == some "PANIC" then "VIOL panic" else "BAD hist output") else
  let rec go (ps : List (String × String)) (k : Nat) : String :=
    match ps with
    | [] => "OK" ++ (if steps.length ≥ 2 then " nt" else "") ++ " b=hist"
    | (m, o) :: rest =>
      if m == o then go rest (k + 1)
      else
        -- built/registry;built/registry : a built descriptor that is not the registry's is the violation
        let sides := ((o.drop 3).toString.splitOn ";").map fun sd => sd.splitOn "/"
        if o.startsWith "ok:" && sides.any (fun p => match p with | [b, r] => b ≠ r | _ => false) then
          s!"VIOL message-type-not-the-delivered-registry's: step {k} delivered {o}, this resolution's descriptors are {m}"
        else s!"DIFF model={m} [step {k}]"
  go (model.zip outF) 0

def handle : Handler := fun inF outF =>
  if inF.head? == some "hist" then handleHist inF outF else
  if inF.head? == some "pipe" then handlePipe inF outF else
  if inF.head? == some "nf" then handleNf inF outF else
  match parseInput inF with
  | .error e => s!"BAD input {e}"
  | .ok inp =>
    match parseOutput inp outF with
    | .error e => s!"BAD output {e}"
    | .ok polls =>
      if polls.length ≠ inp.polls.length then
        if outF.head? == some "PANIC" then "VIOL panic" else "BAD poll count"
      else
        let rec go (ps : List (PollIn × PollOut)) (js : JState) (branches : List String) (nt : Bool) : String :=
          match ps with
          | [] => "OK" ++ (if nt then " nt" else "") ++ " b=" ++ "+".intercalate branches
          | (pin, p) :: rest =>
            let (js', verdict, br) := judgePoll inp pin p js
            if verdict ≠ "" then verdict ++ s!" [poll {branches.length}]"
            else go rest js' (branches ++ [br]) (nt || p.streams.any (fun s => s.events.length ≥ 2))
        go (inp.polls.zip polls) { st := initState, lastOk := none } [] false

end GB.C05
