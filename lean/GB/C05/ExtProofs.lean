import GB.C05.Proofs
import GB.C05.Ext
/-
  C05 — helper lemmas connecting the extended acceptance `newFilesX` (Ext.lean) with the base `newFiles`
  (Model.lean): conservativity on plain sets, and visibility through `import public` chains on
  import-closed subsets (core Lean only).
-/
set_option linter.unusedSimpArgs false
set_option linter.unusedVariables false
namespace GB.C05
open GB

theorem fileNames_map_file (xs : List XFile) : fileNames (xs.map (·.file)) = xNames xs := by
  simp [fileNames, xNames, List.map_map]

theorem plain_parts {x : XFile} (h : plain x = true) :
    x.pub = [] ∧ x.weak = [] ∧ (x.syn = sProto3 ∨ x.syn = sProto2 ∨ x.syn = []) ∧ x.required = [] ∧
    nodupB x.file.deps = true ∧ x.file.deps.contains x.file.name = false := by
  unfold plain at h
  simp only [Bool.and_eq_true, Bool.or_eq_true, List.isEmpty_iff, beq_iff_eq, Bool.not_eq_true',
    Bool.not_eq_eq_eq_not, Bool.not_true] at h
  obtain ⟨⟨⟨⟨⟨h1, h2⟩, h3⟩, h4⟩, h5⟩, h6⟩ := h
  exact ⟨h1, h2, by rcases h3 with (h3 | h3) | h3 <;> simp [h3], h4, h5, h6⟩

theorem pubReach_nopub {xs : List XFile} (h : ∀ x ∈ xs, x.pub = []) :
    ∀ (n : Nat) (names : List Name), pubReach xs n names = names := by
  intro n
  induction n with
  | zero => intro names; rfl
  | succ n ih =>
    intro names
    have hm : (xs.filter (fun x => x.file.name ∈ names)).flatMap pubDeps = [] := by
      rw [List.flatMap_eq_nil_iff]
      intro x hx
      have := h x (List.mem_filter.1 hx).1
      simp [pubDeps, this]
    simp only [pubReach, hm]
    simpa using ih names

theorem closedX_noweak {xs : List XFile} (hw : ∀ x ∈ xs, x.weak = []) :
    closedXB xs = closedB (xs.map (·.file)) := by
  rw [Bool.eq_iff_iff]
  unfold closedXB closedB
  rw [fileNames_map_file, List.all_map]
  simp only [List.all_eq_true, Function.comp]
  constructor
  · intro h x hx d hd
    have := h x hx d hd
    simpa [weakDeps, hw x hx] using this
  · intro h x hx d hd
    have := h x hx d hd
    simpa [weakDeps, hw x hx] using this

theorem presentDeps_closed {xs : List XFile} (hw : ∀ x ∈ xs, x.weak = []) (hc : closedXB xs = true) :
    presentDeps xs = xs.map (·.file) := by
  unfold presentDeps
  apply List.map_congr_left
  intro x hx
  unfold closedXB at hc
  simp only [List.all_eq_true] at hc
  have hf : x.file.deps.filter (· ∈ xNames xs) = x.file.deps := by
    rw [List.filter_eq_self]
    intro d hd
    have := hc x hx d hd
    simpa [weakDeps, hw x hx] using this
  rw [hf]

/-- without public imports the visible messages are those of the file and of its direct imports -/
theorem vis_nopub {xs : List XFile} (hp : ∀ x ∈ xs, x.pub = []) (hnd : (xNames xs).Nodup)
    {x : XFile} (hx : x ∈ xs) (m : Name) :
    m ∈ (xs.filter (fun g => g.file.name ∈ visibleFiles xs x)).flatMap (·.file.messages) ↔
    m ∈ x.file.messages ++ ((xs.map (·.file)).filter (fun g => g.name ∈ x.file.deps)).flatMap (·.messages) := by
  have hv : visibleFiles xs x = x.file.name :: x.file.deps := by
    unfold visibleFiles; rw [pubReach_nopub hp]
  rw [hv]
  have hnd' : (fileNames (xs.map (·.file))).Nodup := by rw [fileNames_map_file]; exact hnd
  constructor
  · intro h
    rcases List.mem_flatMap.1 h with ⟨g, hg, hm⟩
    rcases List.mem_filter.1 hg with ⟨hg1, hg2⟩
    have hg3 : g.file.name = x.file.name ∨ g.file.name ∈ x.file.deps := by simpa using hg2
    rcases hg3 with e | hd
    · have : g.file = x.file :=
        eq_of_name_eq hnd' (List.mem_map.2 ⟨g, hg1, rfl⟩) (List.mem_map.2 ⟨x, hx, rfl⟩) e
      rw [this] at hm
      exact List.mem_append_left _ hm
    · apply List.mem_append_right
      exact List.mem_flatMap.2 ⟨g.file, List.mem_filter.2 ⟨List.mem_map.2 ⟨g, hg1, rfl⟩, by simpa using hd⟩, hm⟩
  · intro h
    rcases List.mem_append.1 h with h | h
    · exact List.mem_flatMap.2 ⟨x, List.mem_filter.2 ⟨hx, by simp⟩, h⟩
    · rcases List.mem_flatMap.1 h with ⟨f, hf, hm⟩
      rcases List.mem_filter.1 hf with ⟨hf1, hf2⟩
      rcases List.mem_map.1 hf1 with ⟨g, hg, rfl⟩
      have hd : g.file.name ∈ x.file.deps := by simpa using hf2
      exact List.mem_flatMap.2 ⟨g, List.mem_filter.2 ⟨hg, by simp [hd]⟩, hm⟩

theorem typesResolveX_nopub {xs : List XFile} (hp : ∀ x ∈ xs, x.pub = []) (hnd : (xNames xs).Nodup) :
    typesResolveXB xs = typesResolveB (xs.map (·.file)) := by
  rw [Bool.eq_iff_iff]
  unfold typesResolveXB typesResolveB
  rw [List.all_map]
  simp only [List.all_eq_true, Function.comp, Bool.and_eq_true, decide_eq_true_eq]
  constructor
  · intro h x hx s hs m hm
    have := h x hx s hs m hm
    exact ⟨(vis_nopub hp hnd hx _).1 this.1, (vis_nopub hp hnd hx _).1 this.2⟩
  · intro h x hx s hs m hm
    have := h x hx s hs m hm
    exact ⟨(vis_nopub hp hnd hx _).2 this.1, (vis_nopub hp hnd hx _).2 this.2⟩

theorem newFilesX_conservative {xs : List XFile} (hp : ∀ x ∈ xs, plain x = true)
    (hk : pkgConflictB xs = false) : newFilesX xs = newFiles (xs.map (·.file)) := by
  have hpub : ∀ x ∈ xs, x.pub = [] := fun x hx => (plain_parts (hp x hx)).1
  have hweak : ∀ x ∈ xs, x.weak = [] := fun x hx => (plain_parts (hp x hx)).2.1
  have hsyn : xs.all syntaxOkB = true := by
    rw [List.all_eq_true]
    intro x hx
    rcases (plain_parts (hp x hx)).2.2.1 with h | h | h <;> simp [syntaxOkB, h]
  have himp : xs.all importsOkB = true := by
    rw [List.all_eq_true]
    intro x hx
    have h := plain_parts (hp x hx)
    have h6 : ¬ x.file.name ∈ x.file.deps := by simpa using h.2.2.2.2.2
    simp [importsOkB, idxOkB, h.1, h.2.1, h.2.2.2.2.1, h6, nodupB]
  have hreq : proto3RequiredB xs = false := by
    unfold proto3RequiredB
    rw [List.any_eq_false]
    intro x hx
    simp [(plain_parts (hp x hx)).2.2.2.1]
  unfold newFilesX newFiles
  rw [fileNames_map_file, closedX_noweak hweak]
  by_cases h1 : nodupB (xNames xs) = true
  · by_cases h2 : closedB (xs.map (·.file)) = true
    · have h2' : closedXB xs = true := by rw [closedX_noweak hweak]; exact h2
      rw [presentDeps_closed hweak h2', typesResolveX_nopub hpub ((nodupB_iff _).1 h1)]
      simp [h1, hsyn, himp, h2, hk, hreq, allSymbols]
    · simp [h1, hsyn, himp, h2]
  · simp [h1]

theorem exists_preimage {α β : Type} (g : α → β) (xs : List α) : ∀ l : List β, (∀ f ∈ l, f ∈ xs.map g) →
    ∃ ys : List α, List.map g ys = l ∧ ∀ y ∈ ys, y ∈ xs := by
  intro l
  induction l with
  | nil => intro _; exact ⟨[], rfl, by simp⟩
  | cons a r ih =>
    intro h
    rcases ih (fun f hf => h f (List.mem_cons_of_mem _ hf)) with ⟨ys, hy, hs⟩
    rcases List.mem_map.1 (h a List.mem_cons_self) with ⟨y, hyx, hya⟩
    refine ⟨y :: ys, by simp [hy, hya], ?_⟩
    intro z hz
    rcases List.mem_cons.1 hz with e | hz
    · subst e; exact hyx
    · exact hs z hz

theorem pkgConflict_sub {xs ys : List XFile} (hs : ∀ y ∈ ys, y ∈ xs) (hk : pkgConflictB xs = false) :
    pkgConflictB ys = false := by
  cases hq : pkgConflictB ys with
  | false => rfl
  | true =>
    exfalso
    unfold pkgConflictB at hq
    rw [List.any_eq_true] at hq
    rcases hq with ⟨y, hy, hp⟩
    rw [List.any_eq_true] at hp
    rcases hp with ⟨p, hp1, hp2⟩
    have hp3 : p ∈ allSymbols ys := by simpa using hp2
    have hp4 : p ∈ allSymbols xs := by
      unfold allSymbols symbols at hp3 ⊢
      rcases List.mem_flatMap.1 hp3 with ⟨f, hf, hpf⟩
      rcases List.mem_map.1 hf with ⟨z, hz, rfl⟩
      exact List.mem_flatMap.2 ⟨z.file, List.mem_map.2 ⟨z, hs z hz, rfl⟩, hpf⟩
    have hT : pkgConflictB xs = true := by
      unfold pkgConflictB
      rw [List.any_eq_true]
      refine ⟨y, hs y hy, ?_⟩
      rw [List.any_eq_true]
      exact ⟨p, hp1, by simpa using hp4⟩
    rw [hT] at hk
    exact Bool.noConfusion hk

end GB.C05
