import GB.C05.Model
/-
  C05 — specification vocabulary: what a well-formed target is, what a conformant reflection
  service may answer, and what the delivered description has to be.  Everything here is
  independent of the resolver model (it never mentions `runStream`/`bfsLoop`).
-/
namespace GB.C05
open GB

/-- a target as the property sees it: its descriptor files and what ListServices reports -/
structure Server where
  files : List DFile
  listed : List Name

def definesService (f : DFile) (n : Name) : Prop := ∃ s ∈ f.services, s.name = n

instance (f : DFile) (n : Name) : Decidable (definesService f n) := by
  unfold definesService; exact inferInstance

/-- the listed names the bridge must serve: valid full names outside the ignore prefixes -/
def wanted (cfg : Cfg) (raw : List Name) (n : Name) : Prop :=
  n ∈ raw ∧ isValidFullName n = true ∧ ignored cfg n = false

instance (cfg : Cfg) (raw : List Name) (n : Name) : Decidable (wanted cfg raw n) := by
  unfold wanted; exact inferInstance

/-- import relation of a file set, by name -/
def Imports (files : List DFile) (a b : Name) : Prop := ∃ f ∈ files, f.name = a ∧ b ∈ f.deps

/-- `Within files roots k n`: file name `n` is reachable from a root in at most `k` import steps -/
inductive Within (files : List DFile) (roots : List Name) : Nat → Name → Prop where
  | root {n} : n ∈ roots → Within files roots 0 n
  | step {k a b} : Within files roots k a → Imports files a b → Within files roots (k + 1) b
  | mono {k n} : Within files roots k n → Within files roots (k + 1) n

/-- reachable in any number of steps (the dependency closure of the roots) -/
def Reach (files : List DFile) (roots : List Name) (n : Name) : Prop := ∃ k, Within files roots k n

/-- well-formed descriptor set: unique file names, imports closed, acyclic (a rank decreases along
    imports), unique top-level symbols, method types visible in the file or its direct imports -/
structure WFFiles (files : List DFile) : Prop where
  nodup : (fileNames files).Nodup
  closed : ∀ f ∈ files, ∀ d ∈ f.deps, d ∈ fileNames files
  acyclic : ∃ rank : Name → Nat, ∀ f ∈ files, ∀ d ∈ f.deps, rank d < rank f.name
  symbols : (symbols files).Nodup
  types : typesResolveB files = true

/-- well-formed target for a resolver configuration: well-formed files, and every listed service the
    bridge must serve is defined by one of the files -/
structure WF (cfg : Cfg) (srv : Server) : Prop extends WFFiles srv.files where
  defined : ∀ n, wanted cfg srv.listed n → ∃ f ∈ srv.files, definesService f n

/-- every file the service ever returns is one of the target's files -/
def Honest (srv : Server) (pol : Policy) : Prop :=
  ∀ h q fs, pol h q = .files fs → ∀ f ∈ fs, f ∈ srv.files

/-- spec-permitted answering: ListServices reports the listing; a FileContainingSymbol /
    FileByFilename request for something the target has is answered with files of the target
    that include the file asked for.  Nothing else is constrained: closures, only the file,
    files already sent, repeated files, any order, any dependence on the history. -/
structure Conformant (srv : Server) (pol : Policy) : Prop where
  list : ∀ h, pol h .list = .listing srv.listed
  honest : Honest srv pol
  symbol : ∀ h n, (∃ f ∈ srv.files, definesService f n) →
    ∃ fs, pol h (.symbol n) = .files fs ∧ ∃ f ∈ fs, definesService f n
  filename : ∀ h n, n ∈ fileNames srv.files →
    ∃ fs, pol h (.filename n) = .files fs ∧ n ∈ fileNames fs

/-- a conformant service whose answers stay inside the dependency closure of the requested file
    (closure, only the file, closure minus already sent, partial closures, re-sent closure files,
    any order, duplicates — but no unrelated files) -/
structure Focused (srv : Server) (pol : Policy) : Prop where
  symbol : ∀ h n fs, pol h (.symbol n) = .files fs → ∀ g ∈ fs,
    ∃ f ∈ srv.files, definesService f n ∧ Reach srv.files [f.name] g.name
  filename : ∀ h n fs, pol h (.filename n) = .files fs → ∀ g ∈ fs, Reach srv.files [n] g.name

/-- a schedule only reorders (Go map iteration order): same elements -/
def FairSched (sched : Sched) : Prop := ∀ h l n, n ∈ sched h l ↔ n ∈ l

/-- imports closed inside a file list -/
def Closed (fs : List DFile) : Prop := ∀ f ∈ fs, ∀ d ∈ f.deps, d ∈ fileNames fs

/-- the description the target's descriptors prescribe for the service name `n` -/
def contractOf (files : List DFile) (n : Name) : Service :=
  match findService files n with
  | some sd => parseService sd
  | none => { name := n, methods := [] }

/-- names of the files defining the wanted services -/
def rootNames (cfg : Cfg) (srv : Server) : List Name :=
  fileNames (srv.files.filter fun f => (f.services.any fun s => decide (wanted cfg srv.listed s.name)))

/-- what one poll over `methodPriority = [a, b]` has to do, given what each version would yield
    (`ra`, `rb` = conversation, remembered hashes, outcome): see `C05_resolve_priority_spec` -/
def resolveSpec (st : RState) (a b : Version) (ra rb : Option History × Option Snapshot × Outcome) :
    RState × Outcome × PollLog :=
  match ra.2.2 with
  | .update t => ({ priority := [a, b], last := ra.2.1 }, .update t, [(a, ra.1)])
  | .unchanged => ({ priority := [a, b], last := ra.2.1 }, .unchanged, [(a, ra.1)])
  | .error e =>
    if e.code = codeUnimplemented then
      match rb.2.2 with
      | .update t => ({ priority := [b, a], last := rb.2.1 }, .update t, [(a, ra.1), (b, rb.1)])
      | .unchanged => ({ priority := [b, a], last := rb.2.1 }, .unchanged, [(a, ra.1), (b, rb.1)])
      | .error e2 =>
        if e2.code = codeUnimplemented then (st, .error ⟨codeUnimplemented⟩, [(a, ra.1), (b, rb.1)])
        else (st, .error e2, [(a, ra.1), (b, rb.1)])
    else (st, .error e, [(a, ra.1)])

/-! ### executable counterparts used by the driver's judgement of one observed conversation -/

def specNames (cfg : Cfg) (raw : List Name) : List Name :=
  (raw.filter fun n => isValidFullName n && !ignored cfg n).eraseDups

/-- names reachable from `roots` within `k` import steps -/
def withinB (files : List DFile) (roots : List Name) : Nat → List Name
  | 0 => roots
  | k + 1 =>
    let prev := withinB files roots k
    prev ++ (files.filter (fun f => f.name ∈ prev)).flatMap (·.deps)

def reachB (files : List DFile) (roots : List Name) : List Name := withinB files roots files.length

/-- rank-free acyclicity + the other clauses of `WFFiles`, decided -/
def wfFilesB (files : List DFile) : Bool :=
  nodupB (fileNames files) && closedB files && acyclicB files && nodupB (symbols files) && typesResolveB files

/-! ### deciders on one logged conversation (proved equivalent to the predicates above in Deciders.lean) -/

def conformantEvent (own : List DFile) (listed : List Name) (e : Event) : Bool :=
  match e with
  | (.list, .listing l) => l == listed
  | (.symbol n, .files fs) => fs.all (· ∈ own) && fs.any (fun f => decide (definesService f n))
  | (.filename n, .files fs) => fs.all (· ∈ own) && n ∈ fileNames fs
  | _ => false

def focusedEvent (own : List DFile) (e : Event) : Bool :=
  match e with
  | (.symbol n, .files fs) =>
    let roots := fileNames (own.filter fun f => decide (definesService f n))
    fs.all fun g => g.name ∈ reachB own roots
  | (.filename n, .files fs) => fs.all fun g => g.name ∈ reachB own [n]
  | _ => true

def specRoots (cfg : Cfg) (own : List DFile) (listed : List Name) : List Name :=
  let names := specNames cfg listed
  fileNames (own.filter fun f => f.services.any fun s => s.name ∈ names)

/-- breadth-first import depth of the wanted services' files fits the limit -/
def depthFits (cfg : Cfg) (own : List DFile) (listed : List Name) : Bool :=
  let roots := specRoots cfg own listed
  (reachB own roots).all (· ∈ withinB own roots cfg.limit)


end GB.C05
