import GB.C05.Proofs
/-
  C05 — property theorems. Theorems only; helper lemmas live in Proofs.lean.
-/
open GB GB.C05

/-- `parseBinding` reads the google.api.http pattern oneof as http.proto prescribes. -/
theorem C05_binding_get (p b r : Bytes) :
    parseBinding { pattern := .get p, body := b, responseBody := r } =
      { httpMethod := [71, 69, 84], pattern := p, requestBodyPath := b, responseBodyPath := r } := rfl
