import GB.C05.Witness
import GB.C05.PipelineProofs
import GB.C05.Deadlock
import GB.C05.Deciders
import GB.C05.Ext
import GB.C05.ExtProofs
import GB.Generated.Facts
/-
  C05 — reflection resolution reproduces the target's contract for any conformant server.
  Property theorems only; helper lemmas live in Proofs.lean, vocabulary in Spec.lean.

  Quantification: every theorem below holds for EVERY answering policy `pol : History → Request →
  Answer` (an arbitrary function of the whole conversation so far) and EVERY schedule `sched`
  (the order Go's map iteration gives the FileByFilename requests of one round), constrained only
  by the hypotheses written in the statement.  The model is the code after the D5 fix
  (`dedupFiles` records the names it has seen); `C05_unfixed_dedup_fails` is the kernel-checked
  witness that the code before the fix violated `C05_complete_*`.
-/
set_option linter.unusedVariables false
open GB GB.C05

/-! ## ListServices filter -/

/-- The names resolved are exactly the listed valid, non-ignored (hence non-administrative) ones. -/
theorem C05_listing (cfg : Cfg) (raw : List Name) (n : Name) :
    n ∈ listServiceNames cfg raw ↔ wanted cfg raw n :=
  ⟨wanted_of_mem_names, mem_names_of_wanted⟩

/-- … each of them once, however often the target lists it. -/
theorem C05_listing_nodup (cfg : Cfg) (raw : List Name) : (listServiceNames cfg raw).Nodup :=
  nodup_listFilter cfg raw []

/-- Administrative gRPC services ("grpc." prefix) are never resolved, whatever IgnorePrefixes says. -/
theorem C05_listing_no_admin (rawLimit : Int) (only : Bool) (ign : List Bytes) (raw : List Name) (n : Name)
    (hn : n ∈ listServiceNames (mkCfg rawLimit only ign) raw) : hasPrefix n grpcPrefix = false := by
  have h := (wanted_of_mem_names hn).2.2
  unfold ignored mkCfg at h
  simp only [List.any_append, List.any_cons, List.any_nil, Bool.or_false, Bool.or_eq_false_iff] at h
  exact h.2

/-! ## descriptor → description (bridgedesc.ParseTarget / parseBinding) -/

/-- Method content is copied exactly: canonical RPC name, message types, streaming kinds. -/
theorem C05_method_exact (svc : Name) (m : DMethod) :
    (parseMethod svc m).rpcName = [47] ++ svc ++ [47] ++ m.name ∧
    (parseMethod svc m).input = m.input ∧ (parseMethod svc m).output = m.output ∧
    (parseMethod svc m).clientStreaming = m.clientStreaming ∧
    (parseMethod svc m).serverStreaming = m.serverStreaming :=
  ⟨rfl, rfl, rfl, rfl, rfl⟩

/-- Bindings: none without a google.api.http option; otherwise the primary rule first, then every
    additional binding in order. -/
theorem C05_bindings (svc : Name) (m : DMethod) :
    (parseMethod svc m).bindings =
      match m.http with
      | none => []
      | some h => (h.primary :: h.additional).map parseBinding := by
  unfold parseMethod
  cases m.http <;> simp

/-- Each binding carries the HTTP method its pattern kind stands for (custom: the given verb), the
    template, body and response_body unchanged. -/
theorem C05_binding_exact (p k b r : Bytes) :
    parseBinding ⟨.get p, b, r⟩ = ⟨[71, 69, 84], p, b, r⟩ ∧
    parseBinding ⟨.put p, b, r⟩ = ⟨[80, 85, 84], p, b, r⟩ ∧
    parseBinding ⟨.post p, b, r⟩ = ⟨[80, 79, 83, 84], p, b, r⟩ ∧
    parseBinding ⟨.delete p, b, r⟩ = ⟨[68, 69, 76, 69, 84, 69], p, b, r⟩ ∧
    parseBinding ⟨.patch p, b, r⟩ = ⟨[80, 65, 84, 67, 72], p, b, r⟩ ∧
    parseBinding ⟨.custom k p, b, r⟩ = ⟨k, p, b, r⟩ :=
  ⟨rfl, rfl, rfl, rfl, rfl, rfl⟩

/-- A description's services are, name by name, what its own file registry defines (name-only when
    the registry has no definition — the documented degraded mode of `ParseTarget`). -/
theorem C05_parse_exact (reg : List DFile) (ns : List Name) :
    parseTarget reg ns = ns.map (contractOf reg) :=
  parseTarget_exact reg ns

/-! ## never partial: what success means against ANY target, conformant or not -/

/-- If the conversation succeeds — whatever the target answered, in whatever order — the file set
    handed to the registry is closed under imports, has no duplicate name, consists only of files the
    target sent, and the names are the filtered ListServices answer. -/
theorem C05_never_partial (cfg : Cfg) (pol : Policy) (sched : Sched) (h : History) (ok : StreamOk)
    (hno : cfg.onlyServices = false)
    (he : runStream (dedupFiles []) cfg pol sched = (h, .ok ok)) :
    Closed ok.files ∧ (fileNames ok.files).Nodup ∧
    (∀ f ∈ ok.files, ∃ h' q fs, pol h' q = .files fs ∧ f ∈ fs) ∧
    (∃ raw, pol [] .list = .listing raw ∧ ok.names = listServiceNames cfg raw) ∧
    (∀ n ∈ ok.names, ∃ h' fs, pol h' (.symbol n) = .files fs ∧ ∀ f ∈ fs, f.name ∈ fileNames ok.files) := by
  rcases runStream_safe cfg pol sched (fun f => ∃ h' q fs, pol h' q = .files fs ∧ f ∈ fs)
      (fun h' q fs e f hf => ⟨h', q, fs, e, hf⟩) h ok hno he with ⟨raw, a, b, c, d, e, f⟩
  exact ⟨c, d, e, ⟨raw, a, b⟩, f⟩

/-- A delivered description (`Watcher.UpdateDesc`) is never partial: its registry is closed and
    duplicate-free, was accepted by `protodesc.NewFiles`, and every service is exactly what that
    registry defines.  An inconsistent or incomplete set therefore ends in an error report. -/
theorem C05_update_never_partial (cfg : Cfg) (ep : Endpoint) (last last' : Option Snapshot)
    (h : Option History) (t : Target) (hno : cfg.onlyServices = false)
    (he : resolveWithMethod (dedupFiles []) cfg ep last = (h, last', .update t)) :
    Closed t.files ∧ (fileNames t.files).Nodup ∧ newFiles t.files = .ok t.files ∧
    (∀ f ∈ t.files, ∃ h' q fs, ep.pol h' q = .files fs ∧ f ∈ fs) ∧
    (∃ raw, ep.pol [] .list = .listing raw ∧
      t.services = (sortBy bytesLe (listServiceNames cfg raw)).map (contractOf t.files)) := by
  unfold resolveWithMethod at he
  cases hce : ep.connErr with
  | some c => simp [hce] at he
  | none =>
    simp only [hce] at he
    cases hls : ep.listSend with
    | fail e => simp [hls] at he
    | eof =>
      simp only [hls] at he
      split at he <;> simp at he
    | ok =>
    simp only [hls] at he
    cases hr : runStream (dedupFiles []) cfg ep.pol ep.sched with
    | mk h1 r =>
      cases r with
      | error e => simp [hr] at he
      | ok ok =>
        simp only [hr] at he
        rcases C05_never_partial cfg ep.pol ep.sched h1 ok hno hr with ⟨hc, hn, hp, ⟨raw, hraw, hnames⟩, _⟩
        unfold finish at he
        by_cases hl : last = some (snapshotOf ok)
        · simp [hl] at he
        · simp only [hl, ↓reduceIte] at he
          cases hnf : newFiles ok.files with
          | error e => simp [hnf] at he
          | ok reg =>
            have hreg := newFiles_eq hnf
            subst hreg
            simp only [hnf, Prod.mk.injEq, Outcome.update.injEq] at he
            rcases he with ⟨_, _, rfl⟩
            refine ⟨hc, hn, hnf, hp, raw, hraw, ?_⟩
            simp only [snapshotOf, hnames]
            exact parseTarget_exact _ _

/-- "An inconsistent or incomplete descriptor set produces an error report, never a partial
    description": whatever the target sent, a delivered registry is consistent at file AND symbol level —
    unique file names, every import present, no import cycle, no symbol declared twice, every method's
    input/output type defined in the file or one of its direct imports (`wfFilesB`).  Contrapositive: if
    the set the target serves for the wanted services is inconsistent in any of these ways, the poll ends
    in `ReportError`.  (This is the clause the driver judges on every delivered description.) -/
theorem C05_update_is_consistent (cfg : Cfg) (ep : Endpoint) (last last' : Option Snapshot)
    (h : Option History) (t : Target) (hno : cfg.onlyServices = false)
    (he : resolveWithMethod (dedupFiles []) cfg ep last = (h, last', .update t)) :
    wfFilesB t.files = true := by
  have hnf := (C05_update_never_partial cfg ep last last' h t hno he).2.2.1
  unfold newFiles at hnf
  unfold wfFilesB
  cases h1 : nodupB (fileNames t.files) <;> simp [h1] at hnf
  cases h2 : closedB t.files <;> simp [h2] at hnf
  cases h3 : acyclicB t.files <;> simp [h3] at hnf
  cases h4 : nodupB (symbols t.files) <;> simp [h4] at hnf
  cases h5 : typesResolveB t.files <;> simp [h5] at hnf
  simp

/-- Against a target that only ever sends its own files, a delivered registry is a closed subset of
    the target's files: a needed import the target does not have (missing dependency) can never end
    in a description. -/
theorem C05_missing_dependency_is_error (cfg : Cfg) (srv : Server) (pol : Policy) (sched : Sched)
    (h : History) (ok : StreamOk) (hno : cfg.onlyServices = false) (hon : Honest srv pol)
    (he : runStream (dedupFiles []) cfg pol sched = (h, .ok ok)) :
    ∀ f ∈ ok.files, f ∈ srv.files ∧ ∀ d ∈ f.deps, d ∈ fileNames srv.files := by
  rcases runStream_safe cfg pol sched (fun f => f ∈ srv.files) hon h ok hno he with ⟨_, _, _, hcl, _, hown, _⟩
  intro f hf
  refine ⟨hown f hf, fun d hd => ?_⟩
  rcases mem_fileNames.1 (hcl f hf d hd) with ⟨g, hg, hgn⟩
  exact mem_fileNames.2 ⟨g, hown g hg, hgn⟩

/-! ## completeness: every conformant target is resolved, to exactly its contract -/

/-- For EVERY conformant answering policy whose answers stay inside the import closure of the
    requested file (full closures, only the file, closure minus already sent, partial closures,
    re-sent files, duplicates, any order, any dependence on the history) and every schedule: if the
    breadth-first import depth below the wanted services' files is within RecursionLimit, the
    conversation succeeds and reproduces the target's contract (`Complete`): exactly the wanted
    names, only the target's files, no duplicates, closed, accepted by the registry, every service
    parsed to exactly the target's definition. -/
theorem C05_complete_focused {cfg : Cfg} {srv : Server} {pol : Policy} {sched : Sched}
    (hwf : WF cfg srv) (hc : Conformant srv pol) (hfoc : Focused srv pol) (hfair : FairSched sched)
    (hno : cfg.onlyServices = false)
    (hdepth : ∀ n, Reach srv.files (rootNames cfg srv) n → Within srv.files (rootNames cfg srv) cfg.limit n) :
    ∃ h ok, runStream (dedupFiles []) cfg pol sched = (h, .ok ok) ∧ Complete cfg srv ok := by
  rcases runStream_live_focused hwf hc hfoc hfair hno hdepth with ⟨h, ok, he⟩
  exact ⟨h, ok, he, complete_of_ok hwf hc hno he⟩

/-- For EVERY conformant policy at all (also ones that add unrelated files of the target to their
    answers): a RecursionLimit of at least the number of the target's files suffices. -/
theorem C05_complete_any {cfg : Cfg} {srv : Server} {pol : Policy} {sched : Sched}
    (hwf : WF cfg srv) (hc : Conformant srv pol) (hfair : FairSched sched)
    (hno : cfg.onlyServices = false) (hlim : srv.files.length ≤ cfg.limit) :
    ∃ h ok, runStream (dedupFiles []) cfg pol sched = (h, .ok ok) ∧ Complete cfg srv ok := by
  rcases runStream_live_any hwf hc hfair hno hlim with ⟨h, ok, he⟩
  exact ⟨h, ok, he, complete_of_ok hwf hc hno he⟩

/-- Success against a conformant target is always complete — there is no third outcome between
    "error" and "the whole contract", whatever the limit. -/
theorem C05_success_is_complete {cfg : Cfg} {srv : Server} {pol : Policy} {sched : Sched}
    (hwf : WF cfg srv) (hc : Conformant srv pol) (hno : cfg.onlyServices = false)
    {h : History} {ok : StreamOk} (he : runStream (dedupFiles []) cfg pol sched = (h, .ok ok)) :
    Complete cfg srv ok :=
  complete_of_ok hwf hc hno he

/-- What the watcher receives for a complete conversation: the target's contract for exactly the
    wanted services (sorted), or nothing when that is what it received last. -/
theorem C05_delivered_contract {cfg : Cfg} {srv : Server} {ok : StreamOk} (hk : Complete cfg srv ok)
    (last : Option Snapshot) :
    (finish last ok = (last, .unchanged) ∧ last = some (snapshotOf ok)) ∨
    finish last ok = (some (snapshotOf ok), .update
      { services := (sortBy bytesLe (listServiceNames cfg srv.listed)).map (contractOf srv.files),
        files := ok.files }) :=
  finish_complete hk last

/-! ## protocol versions -/

/-- `methodPriority` always holds both versions: a swap never loses one. -/
theorem C05_priority_keeps_versions (dedup : List DFile → List DFile) (cfg : Cfg) (env : Version → Endpoint)
    (st : RState) (hp : st.priority = [.v1, .v1alpha] ∨ st.priority = [.v1alpha, .v1]) :
    (resolve dedup cfg env st).1.priority = [.v1, .v1alpha] ∨
    (resolve dedup cfg env st).1.priority = [.v1alpha, .v1] := by
  rcases hp with hp | hp <;>
  · unfold resolve
    rw [hp]
    unfold resolveFrom
    rcases resolveWithMethod dedup cfg (env _) st.last with ⟨h1, l1, o1⟩
    cases o1 with
    | update t => simp [swapFront, hp]
    | unchanged => simp [swapFront, hp]
    | error e =>
      simp only
      split
      · unfold resolveFrom
        rcases resolveWithMethod dedup cfg (env _) st.last with ⟨h2, l2, o2⟩
        cases o2 with
        | update t => simp [swapFront, hp]
        | unchanged => simp [swapFront, hp]
        | error e2 =>
          simp only
          split
          · unfold resolveFrom; simp [hp]
          · simp [hp]
      · simp [hp]

/-- Version fallback never hides a working version: if version `v` yields an outcome that is not an
    error and the other version answers Unimplemented (at connection, at the first response, or by an
    ErrorResponse), the poll ends with `v`'s outcome — whichever version is first in `methodPriority`
    — and `v` is tried first next time. -/
theorem C05_version_fallback (dedup : List DFile → List DFile) (cfg : Cfg) (env : Version → Endpoint)
    (st : RState) (v w : Version) (hvw : v ≠ w)
    (hp : st.priority = [v, w] ∨ st.priority = [w, v])
    (h : Option History) (last' : Option Snapshot) (out : Outcome)
    (hv : resolveWithMethod dedup cfg (env v) st.last = (h, last', out)) (hout : ∀ e, out ≠ .error e)
    (hw : ∃ hh ll e, resolveWithMethod dedup cfg (env w) st.last = (hh, ll, .error e) ∧ e.code = codeUnimplemented) :
    (resolve dedup cfg env st).2.1 = out ∧ (resolve dedup cfg env st).1.last = last' ∧
    (resolve dedup cfg env st).1.priority = [v, w] := by
  rcases hw with ⟨hh, ll, e, hw, hcode⟩
  rcases hp with hp | hp
  · unfold resolve
    rw [hp]
    unfold resolveFrom
    rw [hv]
    cases out with
    | update t => simp [swapFront, hp]
    | unchanged => simp [swapFront, hp]
    | error e' => exact absurd rfl (hout e')
  · unfold resolve
    rw [hp]
    unfold resolveFrom
    rw [hw]
    simp only [hcode, ↓reduceIte]
    unfold resolveFrom
    rw [hv]
    cases out with
    | update t => simp [swapFront, hp]
    | unchanged => simp [swapFront, hp]
    | error e' => exact absurd rfl (hout e')

/-- Full characterisation of `Resolver.resolve` over `methodPriority = [a, b]` for ANY pair of
    per-version results.  With `(ha, la, oa)` what `resolveWithMethod` yields for `a` and `(hb, lb, ob)`
    for `b` (both started from the same remembered hashes — a failed attempt changes nothing):
    * `a` delivers (update / unchanged): that outcome, `a`'s hashes, order kept, `b` is not tried;
    * `a` fails with a code other than Unimplemented: that error is reported, state unchanged, `b` is not tried;
    * `a` is Unimplemented and `b` delivers: `b`'s outcome and hashes, order becomes `[b, a]`;
    * `a` is Unimplemented and `b` fails with another code: `b`'s error, state unchanged;
    * both Unimplemented: the joined error, whose code is Unimplemented, state unchanged.
    The log lists exactly the methods tried, in order.  (`resolveSpec`, Spec.lean, is this table.) -/
theorem C05_resolve_priority_spec (dedup : List DFile → List DFile) (cfg : Cfg) (env : Version → Endpoint)
    (st : RState) (a b : Version) (hp : st.priority = [a, b]) :
    resolve dedup cfg env st =
      resolveSpec st a b (resolveWithMethod dedup cfg (env a) st.last) (resolveWithMethod dedup cfg (env b) st.last) := by
  unfold resolve resolveSpec
  rw [hp]
  unfold resolveFrom
  rcases hra : resolveWithMethod dedup cfg (env a) st.last with ⟨ha, la, oa⟩
  rcases hrb : resolveWithMethod dedup cfg (env b) st.last with ⟨hb, lb, ob⟩
  cases oa with
  | update t => simp [swapFront, hp]
  | unchanged => simp [swapFront, hp]
  | error e =>
    simp only
    by_cases hc : e.code = codeUnimplemented
    · simp only [hc, ↓reduceIte]
      unfold resolveFrom
      rw [hrb]
      cases ob with
      | update t => simp [swapFront, hp]
      | unchanged => simp [swapFront, hp]
      | error e2 =>
        simp only
        by_cases hc2 : e2.code = codeUnimplemented
        · simp only [hc2, ↓reduceIte]
          unfold resolveFrom
          simp
        · simp [hc2]
    · simp [hc]

/-- When every version answers Unimplemented the poll reports an error (never a description). -/
theorem C05_all_unimplemented (dedup : List DFile → List DFile) (cfg : Cfg) (env : Version → Endpoint)
    (st : RState) (hp : st.priority = [.v1, .v1alpha] ∨ st.priority = [.v1alpha, .v1])
    (hall : ∀ v, ∃ hh ll e, resolveWithMethod dedup cfg (env v) st.last = (hh, ll, .error e) ∧ e.code = codeUnimplemented) :
    (resolve dedup cfg env st).2.1 = .error ⟨codeUnimplemented⟩ ∧ (resolve dedup cfg env st).1 = st := by
  rcases hall .v1 with ⟨h1, l1, e1, hv1, hc1⟩
  rcases hall .v1alpha with ⟨h2, l2, e2, hv2, hc2⟩
  rcases hp with hp | hp <;>
  · unfold resolve
    rw [hp]
    unfold resolveFrom
    simp only [hv1, hv2, hc1, hc2, ↓reduceIte]
    unfold resolveFrom
    simp only [hv1, hv2, hc1, hc2, ↓reduceIte]
    unfold resolveFrom
    simp

/-! ## witnesses (kernel-checked by evaluation) -/


open GB.C05.Witness in
/-- D5, before the fix: with `processed` never filled, a target answering two services' requests
    with closures that share an import makes the resolver hand the shared file to the registry twice,
    and the poll ends in an error although the target is well-formed and conformant. -/
theorem C05_unfixed_dedup_fails :
    (resolveWithMethod (dedupFilesBuggy []) cfg (ep closurePol) none).2.2 = .error ⟨codeUnknown⟩ := by
  decide

open GB.C05.Witness in
/-- … and after the fix the same conversation delivers both services with their exact content
    (non-vacuity of `C05_complete_focused` / `C05_delivered_contract`). -/
theorem C05_fixed_dedup_resolves :
    (resolveWithMethod (dedupFiles []) cfg (ep closurePol) none).2.2 = .update
      { services := [contractOf srv.files [97], contractOf srv.files [98]], files := [fa, fc, fb] } ∧
    (resolveWithMethod (dedupFiles []) cfg (ep onlyPol) none).2.2 = .update
      { services := [contractOf srv.files [97], contractOf srv.files [98]], files := [fa, fb, fc] } := by
  decide

open GB.C05.Witness in
/-- Depth beyond the limit is an error, not a partial description: the only-the-file target needs one
    round for "c"; with RecursionLimit 0 the poll fails. -/
theorem C05_limit_exceeded_is_error :
    (resolveWithMethod (dedupFiles []) cfg0 (ep onlyPol) none).2.2 = .error ⟨codeUnknown⟩ := by
  decide

open GB.C05.Witness in
/-- Fallback on the witness: v1 unimplemented, v1alpha working ⇒ resolved through v1alpha, which
    moves to the front. -/
theorem C05_fallback_witness :
    let env : Version → Endpoint := fun v => match v with | .v1 => unimpl | .v1alpha => ep closurePol
    (resolve (dedupFiles []) cfg env initState).1.priority = [.v1alpha, .v1] ∧
    (resolve (dedupFiles []) cfg env initState).2.1 = .update
      { services := [contractOf srv.files [97], contractOf srv.files [98]], files := [fa, fc, fb] } := by
  decide

open GB.C05.Witness in
/-- Non-vacuity of `C05_complete_focused`: the witness target and its closure-answering service satisfy
    every hypothesis (well-formed, conformant, focused, fair schedule, depth 1 ≤ limit 1), so the
    conclusion is reached through the theorem, not only by evaluation. -/
theorem C05_complete_focused_nonvacuous :
    WF cfg srv ∧ Conformant srv closurePol ∧ Focused srv closurePol ∧ FairSched idSched ∧
    ∃ h ok, runStream (dedupFiles []) cfg closurePol idSched = (h, .ok ok) ∧ Complete cfg srv ok :=
  ⟨wit_wf, wit_conformant, wit_focused, wit_fair,
    C05_complete_focused wit_wf wit_conformant wit_focused wit_fair rfl wit_depth⟩

open GB.C05.Witness in
/-- `Focused` cannot be dropped from `C05_complete_focused` (DESIGN 5.5's single statement is false):
    a well-formed target, a conformant service, a fair schedule and an import depth within the limit —
    yet the resolution fails, because the service added an unrelated file of the target to an answer
    and that file's import needs one more round.  (`C05_complete_any` covers such services with the
    bound `#files ≤ RecursionLimit`.) -/
theorem C05_unfocused_needs_more_rounds :
    WF cfg0 drip ∧ Conformant drip dripPol ∧ FairSched idSched ∧
    (∀ n, Reach drip.files (rootNames cfg0 drip) n → Within drip.files (rootNames cfg0 drip) cfg0.limit n) ∧
    (runStream (dedupFiles []) cfg0 dripPol idSched).2.toOption.isNone = true :=
  ⟨drip_wf, drip_conformant, wit_fair, drip_depth, by decide⟩

/-! ## reflection/client.go: the pipelined batch refines the sequential conversation

`Pipe.step` (Pipeline.lean) is `execFileDescriptorRequests` — requester goroutine, receiver goroutine,
semaphore, the two buffered error channels, the cancelling context, `wg.Wait` — followed by
`client.close()`; nondeterminism is the choice of the next label, so "reachable" = "after any
interleaving".  The target answers the pipelined requests in FIFO order, each answer computed from the
whole conversation so far (`Pipe.idealAnswers_spec`). -/

/-- For EVERY interleaving: once the function has decided its result, that result is the sequential
    FIFO conversation's (`execBatch`, what the resolver model uses): returned files are exactly the
    sequential files — even if timeouts or stream errors occurred somewhere — and, unless a stream-level
    fault (timeout, status, EOF) happened before the function's own `cancel()`, a returned error is exactly
    the sequential error. -/
theorem C05_pipeline_refines_fifo (closeFixed : Bool) (pol : Policy) (h0 : History) (reqs : List Request)
    (s : Pipe.PState)
    (hr : LTS.Reachable (Pipe.step closeFixed (Pipe.idealAnswers pol h0 reqs)) (Pipe.init reqs.length) s) :
    (∀ l, s.result = some (.ok l) → (execBatch pol h0 reqs).2 = .ok l) ∧
    (∀ e, s.result = some (.error e) → s.streamFault = true ∨ (execBatch pol h0 reqs).2 = .error e) ∧
    (∀ r, s.streamFault = false → s.result = some r → r = (execBatch pol h0 reqs).2) := by
  have hlen := Pipe.idealAnswers_length pol reqs h0
  rw [← hlen] at hr
  have hi := Pipe.pinv_reachable closeFixed _ s hr
  rw [Pipe.execBatch_eq_collect]
  refine ⟨fun l h => (hi.result_ok l h).symm ▸ rfl, fun e h => ?_, fun r hf h => ?_⟩
  · rcases hi.result_err e h with a | a
    · exact Or.inl a
    · exact Or.inr a
  · cases r with
    | ok l => exact (hi.result_ok l h).symm
    | error e =>
      rcases hi.result_err e h with a | a
      · rw [hf] at a; exact absurd a (by simp)
      · exact a.symm

/-- Semaphore invariant: in every interleaving the receiver is inside `Recv` for response `i` only
    after request `i` has been written to the stream, and the tokens add up. -/
theorem C05_pipeline_semaphore (closeFixed : Bool) (A : List Answer) (s : Pipe.PState)
    (hr : LTS.Reachable (Pipe.step closeFixed A) (Pipe.init A.length) s) :
    (∀ i, s.vpc = .recv i → i < s.wire ∧ i < A.length) ∧ s.sem + s.taken = s.sig ∧ s.sig ≤ s.wire ∧
    s.served ≤ s.wire ∧ s.wire ≤ A.length := by
  have hi := Pipe.pinv_reachable closeFixed A s hr
  refine ⟨fun i hv => ?_, hi.tokens, hi.sig_le, hi.served_le, hi.wire_le⟩
  have := hi.v_recv i hv
  have h1 := hi.tokens
  have h2 := hi.sig_le
  exact ⟨by omega, this.2.1⟩

/-- No leak: whenever `execFileDescriptorRequests` has returned (and all through `close()`), both
    goroutines have exited; while it waits in `wg.Wait` its context is cancelled, and a cancelled
    context unblocks every blocking point of either goroutine (the select on the semaphore, a `Recv`,
    a `Send`), so an error on either side stops the other. -/
theorem C05_pipeline_no_leak (closeFixed : Bool) (A : List Answer) (s : Pipe.PState)
    (hr : LTS.Reachable (Pipe.step closeFixed A) (Pipe.init A.length) s) :
    (s.mpc ≠ .joining → (∀ k, s.mpc ≠ .reading k) → s.rpc = .done ∧ s.vpc = .done) ∧
    (s.mpc = .joining → s.cancelled = true) ∧
    (s.cancelled = true →
      (∀ i, s.vpc = .wait i → i < A.length → (Pipe.step closeFixed A s .rcvCancelled).isSome = true) ∧
      (∀ i, s.vpc = .recv i → (Pipe.step closeFixed A s (.rcvFault ⟨Pipe.codeCanceled⟩ true)).isSome = true) ∧
      (∀ i, s.rpc = .send i → i < A.length →
        (Pipe.step closeFixed A s (.reqSendFault ⟨Pipe.codeCanceled⟩)).isSome = true)) ∧
    (s.mpc = .joining → s.rpc = .done → s.vpc = .done → (Pipe.step closeFixed A s .mainJoin).isSome = true) := by
  have hi := Pipe.pinv_reachable closeFixed A s hr
  refine ⟨hi.joined, hi.joining, fun hc => ⟨?_, ?_, ?_⟩, ?_⟩
  · intro i hv hlt; simp [Pipe.step, hv, hlt, hc]
  · intro i hv; simp [Pipe.step, hv]
  · intro i hv hlt; simp [Pipe.step, hv, hlt]
  · intro a b c; simp [Pipe.step, a, b, c]

/-- client.close() after the fix: in no interleaving is a `Recv` issued on a stream that still has a
    `Recv` in flight — neither the receiver's nor one left running in the background by a call whose
    context ended (`AdaptedClientStream.withCtx`). -/
theorem C05_close_no_concurrent_recv (A : List Answer) (s : Pipe.PState)
    (hr : LTS.Reachable (Pipe.step true A) (Pipe.init A.length) s) : Pipe.reads s ≤ 1 :=
  Pipe.reads_le_one A s (Pipe.pinv_reachable true A s hr)

/-- … and before the fix it was: one request, its `Recv` times out (the read stays behind), the function
    returns the error, close() reads again — two reads on one stream. -/
theorem C05_close_unfixed_reads_twice :
    (LTS.run (Pipe.step false [.files []]) (Pipe.init 1)
      [.reqSend, .reqSignal, .rcvTake, .rcvFault ⟨4⟩ true, .mainReadRecv, .reqFinish, .mainJoin,
       .closeSend, .closeRecvCall]).map Pipe.reads = some 2 := by
  decide

/-- The same schedule is impossible after the fix (the graceful `Recv` is skipped), and the fault-free
    schedule still closes gracefully. -/
theorem C05_close_fixed_witness :
    (LTS.run (Pipe.step true [.files []]) (Pipe.init 1)
      [.reqSend, .reqSignal, .rcvTake, .rcvFault ⟨4⟩ true, .mainReadRecv, .reqFinish, .mainJoin,
       .closeSend, .closeRecvCall]).isNone = true ∧
    (LTS.run (Pipe.step true [.files []]) (Pipe.init 1)
      [.reqSend, .serve, .reqSignal, .reqFinish, .rcvTake, .rcvRecv, .rcvFinish, .mainReadRecv, .mainReadSend,
       .mainJoin, .closeSend, .closeRecvCall, .closeRecvRet, .closeClose]).map (fun s => (s.result.map Except.toOption, s.mpc)) =
      some (some (some []), .closed) := by
  decide

/-! ## the driver's deciders are the theorems' predicates

The differential run demands success ("must") exactly when the executable checks below hold on the
scripted target and on the logged conversation.  These theorems show that this is exactly the hypothesis
set of `C05_complete_any` / `C05_complete_focused`. -/

/-- `withinB` / `reachB` decide `Within` / `Reach`; `wfFilesB` decides `WFFiles`; `depthFits` decides the
    depth hypothesis of `C05_complete_focused`; the per-event checkers decide the conformance / focus clauses. -/
theorem C05_deciders_sound (cfg : Cfg) (srv : Server) :
    (∀ roots k n, n ∈ withinB srv.files roots k ↔ Within srv.files roots k n) ∧
    (∀ roots n, n ∈ reachB srv.files roots ↔ Reach srv.files roots n) ∧
    (wfFilesB srv.files = true ↔ WFFiles srv.files) ∧
    (∀ n, n ∈ specNames cfg srv.listed ↔ wanted cfg srv.listed n) ∧
    (specRoots cfg srv.files srv.listed = rootNames cfg srv) ∧
    (depthFits cfg srv.files srv.listed = true ↔
      ∀ n, Reach srv.files (rootNames cfg srv) n → Within srv.files (rootNames cfg srv) cfg.limit n) ∧
    (∀ e, conformantEvent srv.files srv.listed e = true ↔ ConformantEvent srv e) ∧
    (∀ e, focusedEvent srv.files e = true ↔ FocusedEvent srv e) :=
  ⟨fun roots k n => mem_withinB srv.files roots k n, fun roots n => mem_reachB srv.files roots n,
   wfFilesB_iff srv.files, mem_specNames cfg srv.listed, specRoots_eq cfg srv, depthFits_iff cfg srv,
   conformantEvent_iff srv, focusedEvent_iff srv⟩

/-- A log all of whose events pass the conformance checker is the beginning of a conversation with a
    `Conformant` service (and `Focused`, if they pass the focus checker too): there is a policy that
    answers exactly as logged wherever the log has the request at hand, and conformantly everywhere else. -/
theorem C05_conformant_log_extends (srv : Server) (evs : List Event)
    (hconf : evs.all (conformantEvent srv.files srv.listed) = true) :
    ∃ pol, Agrees pol evs ∧ Conformant srv pol ∧
      (evs.all (focusedEvent srv.files) = true → Focused srv pol) := by
  refine ⟨extendPol srv evs, extendPol_agrees srv evs, ?_, ?_⟩
  · exact extendPol_conformant srv evs fun e he => (conformantEvent_iff srv e).1 (List.all_eq_true.1 hconf e he)
  · intro hfoc
    exact extendPol_focused srv evs fun e he => (focusedEvent_iff srv e).1 (List.all_eq_true.1 hfoc e he)

/-- "Success is mandatory here": when the driver's checks hold — the target's files pass `wfFilesB`, every
    wanted name is defined, every logged event passes `conformantEvent`, and either `#files ≤ limit` or
    all events pass `focusedEvent` and `depthFits` — then the logged conversation belongs to a service for
    which `C05_complete_*` applies: with it, under every fair schedule, the resolver model succeeds with the
    target's complete contract.  So an implementation that errs on such a conversation violates the property. -/
theorem C05_mandatory_success_justified (cfg : Cfg) (srv : Server) (evs : List Event)
    (hno : cfg.onlyServices = false)
    (hwf : wfFilesB srv.files = true)
    (hdef : (specNames cfg srv.listed).all (fun n => (findService srv.files n).isSome) = true)
    (hconf : evs.all (conformantEvent srv.files srv.listed) = true)
    (hfit : srv.files.length ≤ cfg.limit ∨
      (evs.all (focusedEvent srv.files) = true ∧ depthFits cfg srv.files srv.listed = true)) :
    ∃ pol, Agrees pol evs ∧ Conformant srv pol ∧
      ∀ sched, FairSched sched →
        ∃ h ok, runStream (dedupFiles []) cfg pol sched = (h, .ok ok) ∧ Complete cfg srv ok := by
  rcases C05_conformant_log_extends srv evs hconf with ⟨pol, hag, hc, hfoc⟩
  have hWF := wf_of_deciders cfg srv hwf hdef
  refine ⟨pol, hag, hc, fun sched hfair => ?_⟩
  rcases hfit with hlen | ⟨hf, hd⟩
  · exact C05_complete_any hWF hc hfair hno hlen
  · exact C05_complete_focused hWF hc (hfoc hf) hfair hno ((depthFits_iff cfg srv).1 hd)

/-! ## a refused version: the status wins over the Send's io.EOF, on every schedule

Real servers refuse the stream of a reflection version they do not serve with an Unimplemented status;
that refusal races the client's first `Send`, which returns nil or io.EOF.  `client.listServiceNames` is
always the first call on a stream and treats io.EOF as "ask Recv"; the pipelined batches only run after
ListServices succeeded on that stream.  (Measured on grpc-go over bufconn under CPU load: 2 000/2 000 fresh
resolvers against a v1alpha-only and against a v1-only server delivered the description; ListServices on
the refused version returned Unimplemented 2 000/2 000, also when its Send returned io.EOF.) -/

/-- `listServiceNames` on a refused stream reports the STATUS, whether the Send returned nil or io.EOF;
    only a Send error other than io.EOF is reported as such. -/
theorem C05_list_status_wins (dedup : List DFile → List DFile) (cfg : Cfg) (ep : Endpoint)
    (last : Option Snapshot) (c : Nat) (hr : Rejects ep c) :
    (resolveWithMethod dedup cfg ep last).2 = (last, .error ⟨c⟩) := by
  unfold resolveWithMethod
  rcases hr with h | ⟨h1, h2, h3⟩
  · simp [h]
  · rcases h2 with h2 | h2
    · simp [h1, h2, runStream, h3]
    · simp [h1, h2, h3]

/-- A `Send` of the ListServices request that fails with something else than io.EOF is reported as is. -/
theorem C05_list_send_error_reported (dedup : List DFile → List DFile) (cfg : Cfg) (ep : Endpoint)
    (last : Option Snapshot) (e : Err) (hc : ep.connErr = none) (hs : ep.listSend = .fail e) :
    (resolveWithMethod dedup cfg ep last).2 = (last, .error e) := by
  simp [resolveWithMethod, hc, hs]

/-- Against a target serving exactly ONE reflection version (`v`; the other, `w`, is refused with
    Unimplemented in any of the ways of `Rejects`), from either order of `methodPriority`, for every
    answering policy the target conformantly uses on `v`, every order of the FileByFilename requests, and
    every interleaving of the pipelined client inside each batch: the poll ends with `v`'s description —
    the target's complete contract (or "unchanged" if that was delivered last) — and `v` is tried first
    from then on.  The refusal can never be masked by the Send's io.EOF. -/
theorem C05_fallback_any_schedule {cfg : Cfg} {srv : Server} (env : Version → Endpoint) (st : RState)
    (v w : Version) (hvw : v ≠ w) (hp : st.priority = [v, w] ∨ st.priority = [w, v])
    (hw : Rejects (env w) codeUnimplemented)
    (hconn : (env v).connErr = none) (hsend : (env v).listSend = .ok)
    (hwf : WF cfg srv) (hc : Conformant srv (env v).pol) (hfair : FairSched (env v).sched)
    (hno : cfg.onlyServices = false) (hlim : srv.files.length ≤ cfg.limit) :
    (∃ ok, Complete cfg srv ok ∧
      (resolve (dedupFiles []) cfg env st).2.1 = (finish st.last ok).2 ∧
      (resolve (dedupFiles []) cfg env st).1.priority = [v, w] ∧
      ((finish st.last ok).2 = .unchanged ∨
       (finish st.last ok).2 = .update
         { services := (sortBy bytesLe (listServiceNames cfg srv.listed)).map (contractOf srv.files),
           files := ok.files })) ∧
    (∀ (closeFixed : Bool) (h0 : History) (reqs : List Request) (s : Pipe.PState),
      LTS.Reachable (Pipe.step closeFixed (Pipe.idealAnswers (env v).pol h0 reqs)) (Pipe.init reqs.length) s →
      s.streamFault = false → ∀ r, s.result = some r → r = (execBatch (env v).pol h0 reqs).2) := by
  constructor
  · rcases C05_complete_any hwf hc hfair hno hlim with ⟨h, ok, he, hk⟩
    have hv : resolveWithMethod (dedupFiles []) cfg (env v) st.last = (some h, (finish st.last ok).1, (finish st.last ok).2) := by
      simp [resolveWithMethod, hconn, hsend, he]
    have hfin := C05_delivered_contract hk st.last
    have hout : ∀ e, (finish st.last ok).2 ≠ .error e := by
      intro e
      rcases hfin with ⟨h1, _⟩ | h1 <;> simp [h1]
    have hwe : ∃ hh ll e, resolveWithMethod (dedupFiles []) cfg (env w) st.last = (hh, ll, .error e) ∧
        e.code = codeUnimplemented := by
      have := C05_list_status_wins (dedupFiles []) cfg (env w) st.last codeUnimplemented hw
      refine ⟨(resolveWithMethod (dedupFiles []) cfg (env w) st.last).1, st.last, ⟨codeUnimplemented⟩, ?_, rfl⟩
      rw [← this]
    rcases C05_version_fallback (dedupFiles []) cfg env st v w hvw hp _ _ _ hv hout hwe with ⟨a, _, c⟩
    refine ⟨ok, hk, a, c, ?_⟩
    rcases hfin with ⟨h1, _⟩ | h1
    · left; simp [h1]
    · right; simp [h1]
  · intro cf h0 reqs s hr hf r hres
    exact (C05_pipeline_refines_fifo cf (env v).pol h0 reqs s hr).2.2 r hf hres

/-! ## the pipelined batch when the stream ends with a status

`Pipe.step` has the stream end (`streamEnd c`), after which `Send` returns io.EOF (`reqSendEOF`, marker
`Pipe.codeEOF`) and `Recv`, once nothing is left to deliver, returns the status (`rcvStatus`).  Which of the two
error channels main's `select` reads first is the label (`mainReadSend` / `mainReadRecv`). -/

/-- Where a returned error can come from, in every interleaving: unless a Send/Recv failed by itself (timeout,
    broken connection), the error is the sequential conversation's, or the status the stream ended with, or
    the Send's io.EOF after the stream ended.  So the ONLY way the status of an ended stream is lost is the
    Send's io.EOF being read first — and files are never affected (`C05_pipeline_refines_fifo`). -/
theorem C05_pipeline_error_provenance (closeFixed : Bool) (pol : Policy) (h0 : History) (reqs : List Request)
    (s : Pipe.PState) (e : Err)
    (hr : LTS.Reachable (Pipe.step closeFixed (Pipe.idealAnswers pol h0 reqs)) (Pipe.init reqs.length) s)
    (hres : s.result = some (.error e)) :
    s.timeoutFault = true ∨ (e.code = Pipe.codeEOF ∧ s.ended.isSome = true) ∨ s.ended = some e.code ∨
      (execBatch pol h0 reqs).2 = .error e := by
  have hlen := Pipe.idealAnswers_length pol reqs h0
  rw [← hlen] at hr
  have hi := Pipe.pinv_reachable closeFixed _ s hr
  rw [Pipe.execBatch_eq_collect]
  exact hi.result_err2 e hres

/-- The batch-level masking exists in the code as it is (kernel-evaluated schedules on one request): the
    stream is refused with Unimplemented before the first Send, the Send returns io.EOF, no token is released,
    the function returns the Send's io.EOF — not the status.  With two requests and the first Send through, both
    channels hold an error and the `select` decides: reading the receiver's first yields Unimplemented,
    reading the requester's first yields io.EOF.  (This is what makes the repo's
    Test_client_UnimplementedErrors flaky: it calls a batch as the FIRST call on a refused stream.  The
    resolver never does: `C05_fallback_any_schedule`.) -/
theorem C05_original_send_eof_masks_status :
    (LTS.run (Pipe.step true [.files []]) (Pipe.init 1)
      [.streamEnd 12, .reqSendEOF, .mainReadSend, .rcvCancelled, .mainJoin]).map
        (fun s => (s.result.map fun r => match r with | .ok _ => 0 | .error e => e.code, s.ended)) =
      some (some Pipe.codeEOF, some 12) ∧
    (LTS.run (Pipe.step true [.files [], .files []]) (Pipe.init 2)
      [.reqSend, .reqSignal, .streamEnd 12, .rcvTake, .rcvStatus, .reqSendEOF, .mainReadRecv, .mainJoin]).map
        (fun s => s.result.map fun r => match r with | .ok _ => 0 | .error e => e.code) = some (some 12) ∧
    (LTS.run (Pipe.step true [.files [], .files []]) (Pipe.init 2)
      [.reqSend, .reqSignal, .streamEnd 12, .rcvTake, .rcvStatus, .reqSendEOF, .mainReadSend, .mainJoin]).map
        (fun s => s.result.map fun r => match r with | .ok _ => 0 | .error e => e.code) = some (some Pipe.codeEOF) := by
  decide



/-! ## Global deadlock freedom and termination of the pipelined client (Deadlock.lean)

`Label.spontaneous` = what may hit the code out of the blue (`reqSendFault`, `reqSendEOF`, `rcvFault`,
`streamEnd`); `Label.envLaw` = what the stream owes (`serve`: answer a request that is on the wire;
`rcvStatus`: once ended, make the pending Recv return the status); every other label is a statement of the
requester, the receiver or main (execFileDescriptorRequests, then close()). -/

/-- DEADLOCK FREEDOM.  In every reachable state of every interleaving that is not the final `closed`, a move
    that is not a spontaneous fault is enabled; it is a move of the CODE (requester, receiver, main) except
    in exactly one situation: the receiver is inside `Recv` for response i, request i is on the wire and
    the stream has not answered it yet — then the stream's own law (`serve`, or `rcvStatus` once it has
    ended) is the enabled move.  No state waits for a fault. -/
theorem C05_pipeline_deadlock_free (closeFixed : Bool) (A : List Answer) (s : Pipe.PState)
    (hr : LTS.Reachable (Pipe.step closeFixed A) (Pipe.init A.length) s) (hne : s.mpc ≠ .closed) :
    ∃ l, l.spontaneous = false ∧ (Pipe.step closeFixed A s l).isSome = true ∧
      (l.envLaw = true → ∃ i, s.vpc = .recv i ∧ s.served ≤ i ∧ i < s.wire) := by
  have hil := Pipe.linv_reachable closeFixed A s hr
  refine ⟨Pipe.nextMove closeFixed A.length s, Pipe.nextMove_not_spontaneous _ _ _,
    Pipe.progress closeFixed A s hil.1 hil.2 hne, fun he => ?_⟩
  obtain ⟨i, hv, hs⟩ := Pipe.nextMove_envLaw _ _ _ he
  exact ⟨i, hv, hs, ((C05_pipeline_semaphore closeFixed A s hr).1 i hv).1⟩

/-- The channel operations of the two goroutines never block: the semaphore (capacity n) holds fewer than n
    tokens whenever the requester is about to push; each goroutine writes its capacity-1 error channel
    exactly once and finds it empty — also after main has already returned on the other one's error. -/
theorem C05_pipeline_pushes_never_block (closeFixed : Bool) (A : List Answer) (s : Pipe.PState)
    (hr : LTS.Reachable (Pipe.step closeFixed A) (Pipe.init A.length) s) :
    s.sem ≤ A.length ∧ (∀ i, s.rpc = .signal i → s.sem < A.length) ∧
    (s.rpc ≠ .done → s.sendErr = none) ∧ (s.vpc ≠ .done → s.recvErr = none) := by
  have hil := Pipe.linv_reachable closeFixed A s hr
  have h1 := hil.1.tokens
  have h2 := hil.1.sig_le
  have h3 := hil.1.wire_le
  refine ⟨by omega, fun i hs => ?_, hil.2.send_once, hil.2.recv_once⟩
  have := hil.1.r_signal i hs
  omega

/-- TERMINATION.  `Pipe.rank` strictly decreases along EVERY step (code, stream, faults), so no fairness
    assumption is needed: every execution from the initial state has at most 5n+13 steps. -/
theorem C05_pipeline_rank_decreases (closeFixed : Bool) (A : List Answer) (s s' : Pipe.PState) (l : Pipe.Label)
    (hr : LTS.Reachable (Pipe.step closeFixed A) (Pipe.init A.length) s)
    (h : Pipe.step closeFixed A s l = some s') : Pipe.rank A.length s' < Pipe.rank A.length s :=
  Pipe.rank_step closeFixed A s l s' (Pipe.pinv_reachable closeFixed A s hr) h

theorem C05_pipeline_runs_bounded (closeFixed : Bool) (A : List Answer) (ls : List Pipe.Label) (s : Pipe.PState)
    (h : LTS.run (Pipe.step closeFixed A) (Pipe.init A.length) ls = some s) : ls.length ≤ 5 * A.length + 13 := by
  have h1 := Pipe.run_bounded closeFixed A ls _ s (Pipe.pinv_init closeFixed A) h
  have h2 := Pipe.rank_init_le A.length
  omega

/-- Every maximal run ends with the function returned and the client closed: a reachable state in which no
    non-spontaneous move is enabled is `closed`, both goroutines have exited and the result is decided; and
    from every reachable state some continuation WITHOUT any spontaneous fault gets there. -/
theorem C05_pipeline_terminates (closeFixed : Bool) (A : List Answer) (s : Pipe.PState)
    (hr : LTS.Reachable (Pipe.step closeFixed A) (Pipe.init A.length) s) :
    ((∀ l, l.spontaneous = false → Pipe.step closeFixed A s l = none) →
      s.mpc = .closed ∧ s.rpc = .done ∧ s.vpc = .done ∧ s.result.isSome = true) ∧
    (∃ ls s', LTS.run (Pipe.step closeFixed A) s ls = some s' ∧ s'.mpc = .closed ∧
      (∀ l ∈ ls, l.spontaneous = false) ∧ ls.length ≤ Pipe.rank A.length s) := by
  have hil := Pipe.linv_reachable closeFixed A s hr
  refine ⟨fun hstuck => ?_, ?_⟩
  · have hc : s.mpc = .closed := by
      by_cases hc : s.mpc = .closed
      · exact hc
      · have hp := Pipe.progress closeFixed A s hil.1 hil.2 hc
        rw [hstuck _ (Pipe.nextMove_not_spontaneous _ _ _)] at hp
        simp at hp
    have hj := hil.1.joined (by rw [hc]; simp) (by intro k; rw [hc]; simp)
    exact ⟨hc, hj.1, hj.2, hil.2.decided (by intro k; rw [hc]; simp)⟩
  · obtain ⟨ls, s', hrun, hcl, hall⟩ := Pipe.reaches_closed closeFixed A _ s (Nat.le_refl _) hil.1 hil.2
    have hb := Pipe.run_bounded closeFixed A ls s s' hil.1 hrun
    exact ⟨ls, s', hrun, hcl, hall, by omega⟩

/-- non-vacuity of the above: the scheduler `nextMove` drives a 2-request batch from the initial state to
    `closed` in 19 moves, none of them a fault (kernel evaluation) -/
theorem C05_pipeline_nextMove_witness :
    let A : List Answer := [.files [], .files []]
    let go := fun (s : Pipe.PState) => (Pipe.step true A s (Pipe.nextMove true 2 s)).getD s
    (Nat.repeat go 19 (Pipe.init 2)).mpc = .closed ∧ (Nat.repeat go 18 (Pipe.init 2)).mpc ≠ .closed := by
  decide


/-! ## Regenerated facts (extract/c05.go → GB.Generated) tied to the model by `decide`

A change of the version order, of a default, of a loop bound, a dropped insertion into a de-dup set, a changed
channel capacity or a reordered defer makes the corresponding theorem fail to build (check exits 1). -/

set_option maxRecDepth 100000 in
/-- `reflectionMethods` (the initial `methodPriority`, model `initState.priority = [.v1, .v1alpha]`) lists v1 first, then v1alpha, and the two import aliases are bound to the v1 / v1alpha packages -/
theorem C05_facts_versions : GB.Generated.c05ReflectionMethods =
    ["reflectionpb.ServerReflection_ServerReflectionInfo_FullMethodName",
     "reflectionalphapb.ServerReflection_ServerReflectionInfo_FullMethodName",
     "reflectionpb=google.golang.org/grpc/reflection/grpc_reflection_v1",
     "reflectionalphapb=google.golang.org/grpc/reflection/grpc_reflection_v1alpha"] := by decide

set_option maxRecDepth 100000 in
/-- `withDefaults`: RecursionLimit 0 ⇒ 100, negative ⇒ 0 (model `effLimit`); ReqTimeout 0 ⇒ 10 s, below 1 ms ⇒ 1 ms -/
theorem C05_facts_defaults : GB.Generated.c05Defaults =
    ["if opts.ReqTimeout == 0",
     "  opts.ReqTimeout = 10 * time.Second",
     "else if opts.ReqTimeout < time.Millisecond",
     "  opts.ReqTimeout = time.Millisecond",
     "if opts.RecursionLimit == 0",
     "  opts.RecursionLimit = 100",
     "else if opts.RecursionLimit < 0",
     "  opts.RecursionLimit = 0"] := by decide

set_option maxRecDepth 100000 in
/-- `NewResolverBuilder` applies the defaults and then appends the administrative prefix "grpc." (model `mkCfg`) -/
theorem C05_facts_builder : GB.Generated.c05Builder =
    ["opts = opts.withDefaults()",
     "opts.IgnorePrefixes = append(opts.IgnorePrefixes, \"grpc.\")",
     "return &ResolverBuilder{ opts: opts, pool: pool, logger: opts.Logger.WithComponent(\"grpcbridge.reflection\"), }"] := by decide

set_option maxRecDepth 100000 in
/-- the de-duplication loop of `Resolver.fileDescriptors`: unmarshal, skip a name already in `processed`, INSERT the name (the D5 fix), append (model `dedupFiles`) -/
theorem C05_facts_dedup_loop : GB.Generated.c05FileDedupLoop =
    ["for _, bytes := range protoBytes",
     "  fd := new(descriptorpb.FileDescriptorProto)",
     "  if err := proto.Unmarshal(bytes, fd); err != nil",
     "    return <error>",
     "  if _, ok := processed[fd.GetName()]; ok",
     "    continue",
     "  processed[fd.GetName()] = struct{}{}",
     "  set.File = append(set.File, fd)",
     "  bundle = append(bundle, namedProtoBundle{name: fd.GetName(), proto: bytes})"] := by decide

set_option maxRecDepth 100000 in
/-- the filter loop of `Resolver.listServiceNames`: invalid ⇒ skip, seen ⇒ skip, insert, ignore prefixes, append (model `listFilter`) -/
theorem C05_facts_list_loop : GB.Generated.c05ListLoop =
    ["for _, s := range services",
     "  fullName := protoreflect.FullName(s)",
     "  if !fullName.IsValid()",
     "    continue",
     "  else if _, ok := processed[fullName]; ok",
     "    continue",
     "  processed[fullName] = struct{}{}",
     "  index := slices.IndexFunc(r.opts.IgnorePrefixes, func(prefix string) bool { return strings.HasPrefix(string(fullName), prefix) })",
     "  if index == -1",
     "    filteredNames = append(filteredNames, fullName)"] := by decide

set_option maxRecDepth 100000 in
/-- the loop of `Resolver.retrieveDependencies`: bound `i < RecursionLimit && len(missing) > 0`, only files not yet present are appended, update/shrink, still missing ⇒ error, grow (model `bfsLoop`) -/
theorem C05_facts_bfs_loop : GB.Generated.c05BfsLoop =
    ["for i := 0; i < r.opts.RecursionLimit && len(missing) > 0; i++",
     "  missingList = slices.Grow(missingList, len(missing))[:0]",
     "  for dep := range missing",
     "    missingList = append(missingList, dep)",
     "  depDescriptors, depBundles, err := r.fileDescriptorsByFilenames(c, missingList)",
     "  if err != nil",
     "    return err",
     "  for i, fd := range depDescriptors.File",
     "    if _, ok := present[fd.GetName()]; !ok",
     "      descriptors.File = append(descriptors.File, fd)",
     "      *bundles = append(*bundles, depBundles[i])",
     "  updatePresentDescriptorSet(depDescriptors, present)",
     "  shrinkMissingDescriptorSet(depDescriptors, missing)",
     "  if len(missing) > 0",
     "    return <error>",
     "  growMissingDescriptorSet(depDescriptors, present, missing)"] := by decide

set_option maxRecDepth 100000 in
/-- `Resolver.resolve`: versions in `methodPriority` order, Unimplemented ⇒ next, nil error ⇒ swap with position 0, anything else returned (model `resolveFrom`, `swapFront`) -/
theorem C05_facts_resolve : GB.Generated.c05ResolveBody =
    ["var errs []error",
     "for i, method := range r.methodPriority",
     "  state, err := r.resolveWithMethod(method)",
     "  if status.Code(err) == codes.Unimplemented",
     "    errs = append(errs, err)",
     "    continue",
     "  else if err == nil",
     "    r.methodPriority[0], r.methodPriority[i] = r.methodPriority[i], r.methodPriority[0]",
     "  return state, err",
     "return <error>"] := by decide

set_option maxRecDepth 100000 in
/-- `execFileDescriptorRequests`: n = 0 returns at once; semaphore of capacity n, two error channels of capacity 1; `defer wg.Wait()` before `defer cancel()`; both goroutines write their channel once; `for range 2` select (LTS `Pipe.step`) -/
theorem C05_facts_pipe_main : GB.Generated.c05PipeMain =
    ["if len(requests) == 0",
     "  return [][]byte{}, nil",
     "semaphore := make(chan struct{}, len(requests))",
     "sendErr := make(chan error, 1)",
     "recvErr := make(chan error, 1)",
     "var wg sync.WaitGroup",
     "wg.Add(2)",
     "defer wg.Wait()",
     "ctx, cancel := context.WithCancel(context.Background())",
     "defer cancel()",
     "go func",
     "  defer wg.Done()",
     "  sendErr <- c.fileDescriptorsRequester(ctx, semaphore, requests, name)",
     "var res [][]byte",
     "go func",
     "  defer wg.Done()",
     "  recvd, err := c.fileDescriptorsReceiver(ctx, semaphore, requests, name)",
     "  res = recvd",
     "  recvErr <- err",
     "for range 2",
     "  var err error",
     "  select",
     "    case err = <-sendErr",
     "    case err = <-recvErr",
     "  if err != nil",
     "    return nil, err",
     "return res, nil"] := by decide

set_option maxRecDepth 100000 in
/-- requester: Send, error ⇒ return, else push a token (labels reqSend / reqSendFault / reqSignal / reqFinish) -/
theorem C05_facts_pipe_requester : GB.Generated.c05PipeRequester =
    ["for i, req := range requests",
     "  if err := c.sendTimeout(ctx, req); err != nil",
     "    return <error>",
     "  semaphore <- struct{}{}",
     "return nil"] := by decide

set_option maxRecDepth 100000 in
/-- receiver: select on token / ctx.Done, Recv, wrong type ⇒ error, append (labels rcvTake / rcvCancelled / rcvRecv / rcvFault) -/
theorem C05_facts_pipe_receiver : GB.Generated.c05PipeReceiver =
    ["for i := range requests",
     "  select",
     "    case <-semaphore",
     "    case <-ctx.Done()",
     "      return nil, ctx.Err()",
     "  if err := c.recvTimeout(ctx, resp); err != nil",
     "    return <error>",
     "  if _, ok := resp.MessageResponse.(*reflectionpb.ServerReflectionResponse_FileDescriptorResponse); !ok",
     "    return <error>",
     "  fileDescriptors = append(fileDescriptors, resp.GetFileDescriptorResponse().GetFileDescriptorProto()...)"] := by decide

set_option maxRecDepth 100000 in
/-- `client.close`: CloseSend, graceful Recv only if no call failed, Close (labels closeSend / closeRecvCall / closeSkipRecv / closeClose) -/
theorem C05_facts_pipe_close : GB.Generated.c05PipeClose =
    ["c.stream.CloseSend()",
     "if !c.failed.Load()",
     "  ctx, cancel := context.WithTimeout(context.Background(), c.timeout)",
     "  defer cancel()",
     "  _ = c.stream.Recv(ctx, new(reflectionpb.ServerReflectionResponse))",
     "c.stream.Close()"] := by decide

set_option maxRecDepth 100000 in
/-- every Send/Recv/Stream of the client runs under `context.WithTimeout(…, timeout)`, the per-request ones derived from the batch context; the resolver passes `ReqTimeout` -/
theorem C05_facts_timeouts : GB.Generated.c05Timeouts =
    ["connectClient: context.WithTimeout(context.Background(), timeout)",
     "close: context.WithTimeout(context.Background(), c.timeout)",
     "listServiceNames: context.WithTimeout(context.Background(), c.timeout)",
     "sendTimeout: context.WithTimeout(ctx, c.timeout)",
     "recvTimeout: context.WithTimeout(ctx, c.timeout)",
     "resolveWithMethod: connectClient(r.opts.ReqTimeout, cc, method)"] := by decide

/-- the model's de-duplication is chosen BY the regenerated loop: with the insertion into `processed` between the
    membership test and the append it is `dedupFiles`; without it (code before the D5 fix) it would be
    `dedupFilesBuggy`, for which `C05_unfixed_dedup_fails` shows the property fails -/
def C05.dedupOfFacts (loop : List String) : List Name → List DFile → List DFile :=
  match loop.dropWhile (· ≠ "  if _, ok := processed[fd.GetName()]; ok") with
  | _ :: "    continue" :: "  processed[fd.GetName()] = struct{}{}" :: "  set.File = append(set.File, fd)" :: _ => dedupFiles
  | _ => dedupFilesBuggy

theorem C05_facts_dedup_is_fixed : C05.dedupOfFacts GB.Generated.c05FileDedupLoop = dedupFiles := by
  simp [C05.dedupOfFacts, GB.Generated.c05FileDedupLoop, List.dropWhile]

/-- the numbers of the model are the numbers of the code -/
theorem C05_facts_limit_default :
    "  opts.RecursionLimit = 100" ∈ GB.Generated.c05Defaults ∧ effLimit 0 = 100 ∧ effLimit (-5) = 0 ∧ effLimit 7 = 7 ∧
    (mkCfg 0 false []).ignore = [[103, 114, 112, 99, 46]] := by
  refine ⟨by decide, by decide, by decide, by decide, ?_⟩
  decide


/-! ## protodesc.NewFiles beyond the base contract (Ext.lean) and nested additional_bindings

`newFilesX` is validated against the real `reflection.parseFileDescriptors` by op `nf` on descriptor sets built
at run time (public/weak imports, syntax/editions, symbol and package conflicts, repeated/unused imports,
`required` in proto3). -/

/-- Whatever `newFilesX` accepts is delivered as it is — the registry is exactly the descriptor set — and
    satisfies every clause of the extended contract. -/
theorem C05_newFilesX_sound (xs : List XFile) (reg : List DFile) (h : newFilesX xs = .ok reg) :
    reg = xs.map (·.file) ∧ nodupB (xNames xs) = true ∧ xs.all syntaxOkB = true ∧ xs.all importsOkB = true ∧
    closedXB xs = true ∧ acyclicB (presentDeps xs) = true ∧ nodupB (allSymbols xs) = true ∧
    pkgConflictB xs = false ∧ typesResolveXB xs = true ∧ proto3RequiredB xs = false := by
  unfold newFilesX at h
  repeat' split at h
  all_goals (try (simp at h))
  simp_all

/-- … and conversely a set satisfying the clauses is accepted: the clauses ARE the contract. -/
theorem C05_newFilesX_complete (xs : List XFile)
    (h1 : nodupB (xNames xs) = true) (h2 : xs.all syntaxOkB = true) (h3 : xs.all importsOkB = true)
    (h4 : closedXB xs = true) (h5 : acyclicB (presentDeps xs) = true) (h6 : nodupB (allSymbols xs) = true)
    (h7 : pkgConflictB xs = false) (h8 : typesResolveXB xs = true) (h9 : proto3RequiredB xs = false) :
    newFilesX xs = .ok (xs.map (·.file)) := by
  unfold newFilesX
  simp [h1, h2, h3, h4, h5, h6, h7, h8, h9]

/-- The delivered description of an accepted extended set: the registry is the set, and every wanted service
    is `parseTarget` of it — methods, types, streaming kinds and bindings copied exactly (`C05_parse_exact`,
    `C05_binding_exact` apply to it unchanged). -/
theorem C05_parseX_exact (xs : List XFile) (wanted : List Name) (t : Target)
    (h : parseFileDescriptorsX xs wanted = .ok t) :
    t.files = xs.map (·.file) ∧ t.services = parseTarget (xs.map (·.file)) wanted ∧
    t.services.map (·.name) = wanted := by
  unfold parseFileDescriptorsX at h
  split at h
  · simp at h
  · rename_i reg hreg
    have := (C05_newFilesX_sound xs reg hreg).1
    simp at h
    subst h; subst this
    refine ⟨rfl, rfl, ?_⟩
    simp only [parseTarget, List.map_map]
    conv => rhs; rw [← List.map_id wanted]
    apply List.map_congr_left
    intro n _
    simp only [Function.comp]
    split <;> rfl

/-- NESTED additional_bindings (illegal per http.proto, unchecked by protobuf): `parseMethodDescriptor` reads
    `AdditionalBindings` one level deep and `parseBinding` never looks at a binding's own list, so the nested
    rules are dropped — not flattened into the method, not an error; the delivered bindings are the primary
    rule and the first-level additional ones, in order, each copied exactly. -/
theorem C05_nested_bindings_dropped (svc : Name) (m : DMethod) (h : XHttp) :
    (parseMethod svc { m with http := some h.flatten }).bindings =
      parseBinding h.primary :: h.additional.map (fun a => parseBinding a.1) ∧
    (parseMethod svc { m with http := some h.flatten }).bindings.length = 1 + h.additional.length := by
  simp [parseMethod, XHttp.flatten, List.map_map, Function.comp_def]
  omega

/-- every kind of pattern is copied exactly, the `custom` one with ANY kind string (empty, "*", lower case) and
    any path; `body`/`response_body` are copied whatever they contain ("*", "", a field path) -/
theorem C05_binding_custom_exact (k p b r : Bytes) :
    parseBinding { pattern := .custom k p, body := b, responseBody := r } =
      { httpMethod := k, pattern := p, requestBodyPath := b, responseBodyPath := r } ∧
    parseBinding { pattern := .unset, body := b, responseBody := r } =
      { httpMethod := [], pattern := [], requestBodyPath := b, responseBodyPath := r } := by
  simp [parseBinding]

namespace GB.C05.ExtWitness
/-- a.proto imports b.proto, b.proto `import public` c.proto, a.A/Do returns c.M -/
def meth : DMethod :=
  { name := [68], input := [97, 46, 81], output := [99, 46, 77], clientStreaming := false, serverStreaming := false, http := none }
def fa : DFile :=
  { name := [97], deps := [[98]], messages := [[97, 46, 81]], services := [{ name := [97, 46, 65], methods := [meth] }] }
def fb : DFile := { name := [98], deps := [[99]], messages := [], services := [] }
def fc : DFile := { name := [99], deps := [], messages := [[99, 46, 77]], services := [] }
def x (f : DFile) (pkg : Name) (pub weak : List Nat) : XFile :=
  { file := f, pkg := pkg, syn := sProto3, edition := 0, pub := pub, weak := weak, required := [] }
end GB.C05.ExtWitness

open GB.C05.ExtWitness in
/-- `import public` decides acceptance: the type is visible only through the public import of a direct import.
    With the flag the set is accepted and a.A is delivered with its method; without it (and in the base model,
    which knows direct imports only) it is rejected; a file's OWN public flag gives it nothing. -/
theorem C05_public_import_witness :
    (parseFileDescriptorsX [x fa [97] [] [], x fb [98] [0] [], x fc [99] [] []] [[97, 46, 65]]).toOption.map
        (fun t => t.services.map (fun s => s.methods.length)) = some [1] ∧
    (newFilesX [x fa [97] [] [], x fb [98] [] [], x fc [99] [] []]).toOption = none ∧
    (newFilesX [x fa [97] [0] [], x fb [98] [] [], x fc [99] [] []]).toOption = none ∧
    (newFiles [fa, fb, fc]).toOption = none := by decide

open GB.C05.ExtWitness in
/-- weak imports: a weak import of a file that is in no answer is a placeholder (accepted); the same import
    not marked weak is an error; a symbol equal to another file's package (or a prefix of it) is an error;
    an import listed twice is an error; an unused import is fine. -/
theorem C05_weak_pkg_witness :
    (newFilesX [x { fc with deps := [[122]] } [99] [] [0]]).toOption.isSome = true ∧
    (newFilesX [x { fc with deps := [[122]] } [99] [] []]).toOption = none ∧
    (newFilesX [x fc [99] [] [], x { fb with deps := [] } [99, 46, 77, 46, 122] [] []]).toOption = none ∧
    (newFilesX [x fc [99] [] [], x { fb with deps := [[99], [99]] } [98] [] []]).toOption = none ∧
    (newFilesX [x fc [99] [] [], x fb [98] [] []]).toOption.isSome = true := by decide


/-! ### `newFilesX` is a conservative extension of the base `newFiles` -/

/-- On descriptor sets that use none of the extended features — every file `plain` (no public / weak imports,
    syntax proto2/proto3/unset, no `required` marker, imports listed once, no self import) and no top-level symbol
    equal to a package name or a prefix of one — the extended acceptance IS the base one: `newFilesX` accepts
    exactly when `newFiles` does, with the same error otherwise, and delivers the same registry.  Hence every
    `C05_complete_*` statement (which speaks of `newFiles`) is a statement about `newFilesX` on such sets. -/
theorem C05_newFilesX_conservative (xs : List XFile) (hp : ∀ x ∈ xs, plain x = true)
    (hk : pkgConflictB xs = false) : newFilesX xs = newFiles (xs.map (·.file)) :=
  newFilesX_conservative hp hk

/-- … so the delivered description is the base pipeline's: registry and `parseTarget` projection. -/
theorem C05_parseX_conservative (xs : List XFile) (wanted : List Name) (hp : ∀ x ∈ xs, plain x = true)
    (hk : pkgConflictB xs = false) :
    parseFileDescriptorsX xs wanted =
      match newFiles (xs.map (·.file)) with
      | .error e => .error e
      | .ok reg => .ok { services := parseTarget reg wanted, files := reg } := by
  unfold parseFileDescriptorsX
  rw [C05_newFilesX_conservative xs hp hk]
  cases newFiles (xs.map (·.file)) <;> rfl

open GB.C05.ExtWitness in
/-- Neither hypothesis can be dropped, and the statement is not vacuous: a plain conflict-free set is accepted by
    both; a plain set with a symbol that is a prefix of a package is accepted by `newFiles` and rejected by
    `newFilesX`; a non-plain set (public import) is accepted by `newFilesX` and rejected by `newFiles`. -/
theorem C05_newFilesX_conservative_tight :
    (plain (x fc [99] [] []) && plain (x fb [98] [] []) && !pkgConflictB [x fc [99] [] [], x fb [98] [] []]) = true ∧
    (newFilesX [x fc [99] [] [], x fb [98] [] []]).toOption = (newFiles [fc, fb]).toOption ∧
    (newFiles [fc, fb]).toOption.isSome = true ∧
    plain (x { fb with deps := [] } [99, 46, 77, 46, 122] [] []) = true ∧
    (newFiles [fc, { fb with deps := [] }]).toOption.isSome = true ∧
    (newFilesX [x fc [99] [] [], x { fb with deps := [] } [99, 46, 77, 46, 122] [] []]).toOption = none ∧
    plain (x fb [98] [0] []) = false ∧
    (newFilesX [x fa [97] [] [], x fb [98] [0] [], x fc [99] [] []]).toOption.isSome = true ∧
    (newFiles [fa, fb, fc]).toOption = none := by decide

/-- `C05_success_is_complete` lifted to the extended acceptance, for targets whose descriptor set uses none of the
    extended features: whatever a successful conversation delivers is (the file part of) a sub-set `ys` of the target's
    extended files that `newFilesX` accepts with exactly the delivered registry.
    PARTIAL.  The full statement drops `hp` for `import public`:
      (hwfx : newFilesX xs = .ok (xs.map (·.file))) (hnoweak : ∀ x ∈ xs, x.weak = []) … ⊢ same conclusion.
    Missing lemma (only the `typesResolveXB` clause needs it; the other eight clauses restrict to sub-sets as in
    `newFiles_ok`):  for `ys ⊆ xs` with unique names and `closedXB ys`,  `y ∈ ys → n ∈ pubReach xs xs.length y.file.deps
    → n ∈ pubReach ys ys.length y.file.deps`  — public-import reachability is computed inside any import-closed
    sub-set, which needs (a) `pubReach` monotone/stable past its fixpoint and (b) a pigeonhole bound showing fuel
    `ys.length` already reaches the fixpoint over `ys`. -/
theorem C05_success_is_complete_X_partial {cfg : Cfg} {xs : List XFile} {listed : List Name} {pol : Policy}
    {sched : Sched} (hwf : WF cfg ⟨xs.map (·.file), listed⟩) (hp : ∀ x ∈ xs, plain x = true)
    (hk : pkgConflictB xs = false) (hc : Conformant ⟨xs.map (·.file), listed⟩ pol)
    (hno : cfg.onlyServices = false) {h : History} {ok : StreamOk}
    (he : runStream (dedupFiles []) cfg pol sched = (h, .ok ok)) :
    ∃ ys, ys.map (·.file) = ok.files ∧ (∀ y ∈ ys, y ∈ xs) ∧ newFilesX ys = .ok ok.files := by
  have hk' := C05_success_is_complete hwf hc hno he
  rcases exists_preimage (·.file) xs ok.files hk'.own with ⟨ys, hy, hs⟩
  refine ⟨ys, hy, hs, ?_⟩
  rw [C05_newFilesX_conservative ys (fun y h => hp y (hs y h)) (pkgConflict_sub hs hk), hy]
  exact hk'.registry

/-! ## Message types are those of THIS resolution's registry (history of resolutions; seeded regression C05-m11) -/

/-- Whatever was resolved before (earlier polls of the same target with other definitions, other targets in the same
    process) and whatever comes after: the k-th delivered description is `deliverStep` of the k-th descriptor set alone. -/
theorem C05_method_types_from_this_registry (pre post : List HStep) (s : HStep) :
    (deliverHistory (pre ++ s :: post))[pre.length]? = some (deliverStep s) ∧
    ∀ svcs, deliverStep s = .ok svcs → ∀ sv ∈ svcs, ∀ tm ∈ sv.2,
      tm.inputDef = lookupDef s.defs tm.method.input ∧ tm.outputDef = lookupDef s.defs tm.method.output := by
  refine ⟨by simp [deliverHistory], ?_⟩
  intro svcs h sv hsv tm htm
  unfold deliverStep at h
  split at h
  · simp at h
  · simp at h
    subst h
    simp only [List.mem_map] at hsv
    obtain ⟨s0, _, rfl⟩ := hsv
    simp only [List.mem_map] at htm
    obtain ⟨m, _, rfl⟩ := htm
    simp [typeMethod]

/-- in particular: the same descriptor set delivers the same typed description wherever it stands in a history -/
theorem C05_history_stateless (h1 h2 : List HStep) (s : HStep) :
    (deliverHistory (h1 ++ [s])).getLast? = (deliverHistory (h2 ++ [s])).getLast? := by
  simp [deliverHistory]

namespace GB.C05.ExtWitness
def item : Name := [112, 46, 73]
def reply : Name := [112, 46, 82]
def hm : DMethod :=
  { name := [71], input := item, output := reply, clientStreaming := false, serverStreaming := false, http := none }
def hf : DFile :=
  { name := [112], deps := [], messages := [item, reply], services := [{ name := [112, 46, 83], methods := [hm] }] }
def hstep (itemFields : Fields) : HStep :=
  { files := [x hf [112] [] []], defs := [(item, itemFields), (reply, [])], wanted := [[112, 46, 83]] }
def inputDefs (r : List (Except Err (List (Name × List TypedMethod)))) : List (List Fields) :=
  r.map fun e => match e with
    | .ok svcs => svcs.flatMap fun sv => sv.2.map (fun tm => tm.inputDef.getD [])
    | .error _ => []
end GB.C05.ExtWitness

open GB.C05.ExtWitness in
/-- negative witness for the seeded regression (message factories interned by full name): redeploy Item{id} → Item{id,title};
    the code's history delivers the new definition at the second poll, the interned variant still the old one. -/
theorem C05_interned_types_stale :
    inputDefs (deliverHistory [hstep [([105], 0)], hstep [([105], 0), ([116], 1)]]) =
      [[[([105], 0)]], [[([105], 0), ([116], 1)]]] ∧
    inputDefs (deliverHistoryInterned [] [hstep [([105], 0)], hstep [([105], 0), ([116], 1)]]) =
      [[[([105], 0)]], [[([105], 0)]]] := by decide

/-- regenerated fact: the only package-level variables of bridgedesc and reflection are the empty-message singleton and
    the version list — no map, sync.Map, pool or channel that could carry descriptors from one resolution to the next
    (which `deliverHistory = map deliverStep` relies on) -/
theorem C05_facts_no_package_state :
    GB.Generated.c05PackageVars =
      ["bridgedesc/types.go: emptyMessageInstance Message", "reflection/resolver.go: reflectionMethods := []string"] := by
  decide
