import GB.C05.Proofs
/-
  C05 — the executable deciders the driver uses to decide "success is mandatory here" are equivalent to
  the inductive predicates of the theorems: `withinB ↔ Within`, `reachB ↔ Reach`, `wfFilesB ↔ WFFiles`,
  `depthFits ↔` the depth hypothesis of `C05_complete_focused`, and a log whose every event passes
  `conformantEvent` / `focusedEvent` is the prefix of a conversation with a `Conformant` / `Focused` policy.
-/
set_option linter.unusedSimpArgs false
set_option linter.unusedVariables false
namespace GB.C05
open GB

/-! ### withinB ↔ Within -/

theorem mem_withinB (files : List DFile) (roots : List Name) : ∀ (k : Nat) (n : Name),
    n ∈ withinB files roots k ↔ Within files roots k n := by
  intro k
  induction k with
  | zero =>
    intro n
    exact ⟨fun h => .root h, within_zero⟩
  | succ k ih =>
    intro n
    simp only [withinB, List.mem_append, List.mem_flatMap, List.mem_filter, decide_eq_true_eq]
    constructor
    · rintro (h | ⟨f, ⟨hf, hfn⟩, hd⟩)
      · exact .mono ((ih n).1 h)
      · exact .step ((ih f.name).1 hfn) ⟨f, hf, rfl, hd⟩
    · intro h
      rcases within_succ h with h' | ⟨a, ha, f, hf, hfa, hd⟩
      · exact Or.inl ((ih n).2 h')
      · exact Or.inr ⟨f, ⟨hf, by rw [hfa]; exact (ih a).2 ha⟩, hd⟩

theorem within_le {files : List DFile} {roots : List Name} {n : Name} : ∀ {k m : Nat}, k ≤ m →
    Within files roots k n → Within files roots m n := by
  intro k m hle
  induction hle with
  | refl => exact id
  | step _ ih => exact fun h => .mono (ih h)

/-! ### reachB ↔ Reach: the levels stop growing after `files.length` steps -/

/-- level k+1 has a name level k lacks -/
def Grows (files : List DFile) (roots : List Name) (k : Nat) : Prop :=
  ∃ n, Within files roots (k + 1) n ∧ ¬ Within files roots k n

/-- files whose name is not yet within k steps -/
def outside (files : List DFile) (roots : List Name) (k : Nat) : Nat :=
  (files.filter fun f => decide (f.name ∉ withinB files roots k)).length

/-- growth at level k needs a file whose name is within k steps, and which was not within k-1 -/
theorem grows_file {files : List DFile} {roots : List Name} {k : Nat} (h : Grows files roots k) :
    ∃ f ∈ files, Within files roots k f.name ∧ (∀ j, j + 1 = k → ¬ Within files roots j f.name) := by
  rcases h with ⟨n, hn, hnot⟩
  rcases within_succ hn with h' | ⟨a, ha, f, hf, hfa, hd⟩
  · exact absurd h' hnot
  · refine ⟨f, hf, by rw [hfa]; exact ha, ?_⟩
    intro j hj hw
    subst hj
    exact hnot (.step (by rw [← hfa]; exact hw) ⟨f, hf, hfa, hd⟩)

theorem grows_bound {files : List DFile} {roots : List Name} : ∀ (k : Nat), Grows files roots k →
    outside files roots k + k + 1 ≤ files.length := by
  intro k
  induction k with
  | zero =>
    intro h
    rcases grows_file h with ⟨f, hf, hw, _⟩
    have hlt := filter_length_lt (fun g : DFile => decide (g.name ∉ withinB files roots 0)) (fun _ => true) files
      (by intro _ _ _; rfl) ⟨f, hf, rfl, by simpa using (mem_withinB files roots 0 f.name).2 hw⟩
    have : (files.filter (fun _ => true)).length = files.length := by simp
    unfold outside
    omega
  | succ k ih =>
    intro h
    rcases grows_file h with ⟨f, hf, hw, hnew⟩
    have hprev : Grows files roots k := ⟨f.name, hw, hnew k rfl⟩
    have hb := ih hprev
    have hlt := filter_length_lt (fun g : DFile => decide (g.name ∉ withinB files roots (k + 1)))
      (fun g : DFile => decide (g.name ∉ withinB files roots k)) files
      (by
        intro x _ hx
        simp only [decide_eq_true_eq] at hx ⊢
        exact fun hin => hx ((mem_withinB files roots (k + 1) x.name).2 (.mono ((mem_withinB files roots k x.name).1 hin))))
      ⟨f, hf, by simpa using fun hin => hnew k rfl ((mem_withinB files roots k f.name).1 hin),
        by simpa using (mem_withinB files roots (k + 1) f.name).2 hw⟩
    unfold outside at hb ⊢
    omega

theorem not_grows_succ {files : List DFile} {roots : List Name} {k : Nat} (h : ¬ Grows files roots k) :
    ¬ Grows files roots (k + 1) := by
  intro hg
  rcases grows_file hg with ⟨f, hf, hw, hnew⟩
  exact h ⟨f.name, hw, hnew k rfl⟩

theorem within_stable {files : List DFile} {roots : List Name} {n : Name} : ∀ (m : Nat),
    Within files roots (files.length + m) n → Within files roots files.length n := by
  have hng : ∀ m, ¬ Grows files roots (files.length + m) := by
    intro m
    induction m with
    | zero => intro hg; have := grows_bound _ hg; omega
    | succ m ih => exact not_grows_succ ih
  intro m
  induction m with
  | zero => exact id
  | succ m ih =>
    intro h
    by_cases hw : Within files roots (files.length + m) n
    · exact ih hw
    · exact absurd ⟨n, h, hw⟩ (hng m)

theorem mem_reachB (files : List DFile) (roots : List Name) (n : Name) :
    n ∈ reachB files roots ↔ Reach files roots n := by
  unfold reachB
  rw [mem_withinB]
  constructor
  · exact fun h => ⟨_, h⟩
  · rintro ⟨k, hk⟩
    by_cases hle : k ≤ files.length
    · exact within_le hle hk
    · have : k = files.length + (k - files.length) := by omega
      rw [this] at hk
      exact within_stable _ hk

/-! ### wfFilesB ↔ WFFiles -/

theorem closedB_iff (fs : List DFile) : closedB fs = true ↔ Closed fs := by
  unfold closedB Closed
  simp [List.all_eq_true]

/-- a successful peeling yields a rank that decreases along imports -/
theorem peel_rank : ∀ (n : Nat) (done : List Name) (fs : List DFile) (lvl : Nat) (rank0 : Name → Nat),
    peel done n fs = true → (∀ d ∈ done, rank0 d < lvl) → (∀ f ∈ fs, f.name ∉ done) → (fileNames fs).Nodup →
    ∃ rank : Name → Nat, (∀ d ∈ done, rank d = rank0 d) ∧ (∀ f ∈ fs, lvl ≤ rank f.name) ∧
      (∀ f ∈ fs, ∀ d ∈ f.deps, rank d < rank f.name) := by
  intro n
  induction n with
  | zero =>
    intro done fs lvl rank0 hp _ _ _
    cases fs with
    | nil => exact ⟨rank0, fun _ _ => rfl, by simp, by simp⟩
    | cons a r => simp [peel] at hp
  | succ n ih =>
    intro done fs lvl rank0 hp hdone hdisj hnd
    cases hfs : fs with
    | nil => exact ⟨rank0, fun _ _ => rfl, by simp, by simp⟩
    | cons a r =>
      rw [← hfs]
      have hp' : peel done (n + 1) fs =
          (if (fs.filter (fun f => f.deps.all (· ∈ done))).isEmpty then false
           else peel (done ++ fileNames (fs.filter (fun f => f.deps.all (· ∈ done)))) n
                  (fs.filter (fun f => !(f.deps.all (· ∈ done))))) := by
        rw [hfs]; simp only [peel]
      rw [hp'] at hp
      split at hp
      · simp at hp
      · -- names of the files peeled in this sweep get rank `lvl`
        let ready := fs.filter (fun f => f.deps.all (· ∈ done))
        let rest := fs.filter (fun f => !(f.deps.all (· ∈ done)))
        let rank0' : Name → Nat := fun x => if x ∈ done then rank0 x else if x ∈ fileNames ready then lvl else rank0 x
        have hrestsub : rest.Sublist fs := List.filter_sublist
        have hdone' : ∀ d ∈ done ++ fileNames ready, rank0' d < lvl + 1 := by
          intro d hd
          show (if d ∈ done then rank0 d else if d ∈ fileNames ready then lvl else rank0 d) < lvl + 1
          by_cases h1 : d ∈ done
          · simp only [h1, ↓reduceIte]; exact Nat.lt_succ_of_lt (hdone d h1)
          · have h2 : d ∈ fileNames ready := by
              rcases List.mem_append.1 hd with h | h
              · exact absurd h h1
              · exact h
            simp only [h1, h2, ↓reduceIte]; omega
        have hdisj' : ∀ f ∈ rest, f.name ∉ done ++ fileNames ready := by
          intro f hf hin
          have hf' := List.mem_filter.1 hf
          rcases List.mem_append.1 hin with h | h
          · exact hdisj f hf'.1 h
          · rcases mem_fileNames.1 h with ⟨g, hg, hgn⟩
            have hg' := List.mem_filter.1 hg
            have : g = f := eq_of_name_eq hnd hg'.1 hf'.1 hgn
            subst this
            have h1 := hg'.2
            have h2 := hf'.2
            simp [h1] at h2
        have hnd' : (fileNames rest).Nodup := hnd.sublist (hrestsub.map _)
        rcases ih _ rest (lvl + 1) rank0' hp hdone' hdisj' hnd' with ⟨rank, hr1, hr2, hr3⟩
        refine ⟨rank, ?_, ?_, ?_⟩
        · intro d hd
          rw [hr1 d (List.mem_append_left _ hd)]
          show (if d ∈ done then rank0 d else _) = rank0 d
          simp [hd]
        · intro f hf
          by_cases hready : (f.deps.all (· ∈ done)) = true
          · have hfr : f ∈ ready := List.mem_filter.2 ⟨hf, hready⟩
            have hin : f.name ∈ fileNames ready := mem_fileNames.2 ⟨f, hfr, rfl⟩
            rw [hr1 f.name (List.mem_append_right _ hin)]
            show lvl ≤ (if f.name ∈ done then rank0 f.name else if f.name ∈ fileNames ready then lvl else rank0 f.name)
            simp [hdisj f hf, hin]
          · have hfr : f ∈ rest := List.mem_filter.2 ⟨hf, by simpa using hready⟩
            have := hr2 f hfr
            omega
        · intro f hf d hd
          by_cases hready : (f.deps.all (· ∈ done)) = true
          · have hfr : f ∈ ready := List.mem_filter.2 ⟨hf, hready⟩
            have hin : f.name ∈ fileNames ready := mem_fileNames.2 ⟨f, hfr, rfl⟩
            have hdd : d ∈ done := by
              have := List.all_eq_true.1 hready d hd
              simpa using this
            rw [hr1 f.name (List.mem_append_right _ hin), hr1 d (List.mem_append_left _ hdd)]
            show (if d ∈ done then rank0 d else _) <
              (if f.name ∈ done then rank0 f.name else if f.name ∈ fileNames ready then lvl else rank0 f.name)
            simp only [hdd, hdisj f hf, hin, ↓reduceIte]
            exact hdone d hdd
          · have hfr : f ∈ rest := List.mem_filter.2 ⟨hf, by simpa using hready⟩
            exact hr3 f hfr d hd

theorem wfFilesB_iff (files : List DFile) : wfFilesB files = true ↔ WFFiles files := by
  unfold wfFilesB
  simp only [Bool.and_eq_true]
  constructor
  · rintro ⟨⟨⟨⟨h1, h2⟩, h3⟩, h4⟩, h5⟩
    have hnd := (nodupB_iff _).1 h1
    refine ⟨hnd, (closedB_iff files).1 h2, ?_, (nodupB_iff _).1 h4, h5⟩
    unfold acyclicB at h3
    rcases peel_rank files.length [] files 0 (fun _ => 0) h3 (by simp) (by simp) hnd with ⟨rank, _, _, hr⟩
    exact ⟨rank, hr⟩
  · intro hwf
    refine ⟨⟨⟨⟨(nodupB_iff _).2 hwf.nodup, (closedB_iff files).2 hwf.closed⟩, ?_⟩, (nodupB_iff _).2 hwf.symbols⟩, hwf.types⟩
    rcases hwf.acyclic with ⟨rank, hrank⟩
    unfold acyclicB
    exact peel_ok rank files.length [] files hrank (fun f hf d hd => Or.inr (hwf.closed f hf d hd)) (Nat.le_refl _)

/-! ### names, roots, depth -/

theorem mem_specNames (cfg : Cfg) (raw : List Name) (n : Name) : n ∈ specNames cfg raw ↔ wanted cfg raw n := by
  unfold specNames wanted
  rw [List.mem_eraseDups, List.mem_filter]
  simp [Bool.and_eq_true]

/-- the driver's "wanted names" are the model's, as sets -/
theorem mem_specNames_iff_listServiceNames (cfg : Cfg) (raw : List Name) (n : Name) :
    n ∈ specNames cfg raw ↔ n ∈ listServiceNames cfg raw := by
  rw [mem_specNames]
  exact ⟨mem_names_of_wanted, wanted_of_mem_names⟩

theorem specRoots_eq (cfg : Cfg) (srv : Server) : specRoots cfg srv.files srv.listed = rootNames cfg srv := by
  unfold specRoots rootNames
  show fileNames (List.filter (fun f => f.services.any fun s => decide (s.name ∈ specNames cfg srv.listed)) srv.files) = _
  have : (fun f : DFile => f.services.any fun s => decide (s.name ∈ specNames cfg srv.listed)) =
      (fun f : DFile => f.services.any fun s => decide (wanted cfg srv.listed s.name)) := by
    funext f
    congr 1
    funext sv
    simp [mem_specNames]
  rw [this]

theorem depthFits_iff (cfg : Cfg) (srv : Server) :
    depthFits cfg srv.files srv.listed = true ↔
      ∀ n, Reach srv.files (rootNames cfg srv) n → Within srv.files (rootNames cfg srv) cfg.limit n := by
  unfold depthFits
  simp only [specRoots_eq, List.all_eq_true, decide_eq_true_eq]
  constructor
  · intro h n hr
    exact (mem_withinB _ _ _ n).1 (h n ((mem_reachB _ _ n).2 hr))
  · intro h n hn
    exact (mem_withinB _ _ _ n).2 (h n ((mem_reachB _ _ n).1 hn))

/-! ### a log that passes the conformance checker is the prefix of a conformant conversation -/

/-- the conformance clauses on one logged request/answer pair -/
def ConformantEvent (srv : Server) : Event → Prop
  | (.list, a) => a = .listing srv.listed
  | (.symbol n, a) => ∃ fs, a = .files fs ∧ (∀ f ∈ fs, f ∈ srv.files) ∧ ∃ f ∈ fs, definesService f n
  | (.filename n, a) => ∃ fs, a = .files fs ∧ (∀ f ∈ fs, f ∈ srv.files) ∧ n ∈ fileNames fs

theorem conformantEvent_iff (srv : Server) (e : Event) :
    conformantEvent srv.files srv.listed e = true ↔ ConformantEvent srv e := by
  rcases e with ⟨q, a⟩
  cases q <;> cases a <;> simp [conformantEvent, ConformantEvent, List.all_eq_true, List.any_eq_true]

/-- the focus clauses on one logged pair -/
def FocusedEvent (srv : Server) : Event → Prop
  | (.symbol n, .files fs) => ∀ g ∈ fs, Reach srv.files (fileNames (srv.files.filter fun f => decide (definesService f n))) g.name
  | (.filename n, .files fs) => ∀ g ∈ fs, Reach srv.files [n] g.name
  | _ => True

theorem focusedEvent_iff (srv : Server) (e : Event) : focusedEvent srv.files e = true ↔ FocusedEvent srv e := by
  rcases e with ⟨q, a⟩
  cases q <;> cases a <;> simp [focusedEvent, FocusedEvent, List.all_eq_true, mem_reachB]

/-- `pol` answers like the log wherever the log has the request the conversation is at -/
def Agrees (pol : Policy) (evs : List Event) : Prop :=
  ∀ (h : History) (q : Request) (a : Answer), evs[h.length]? = some (q, a) → pol h q = a

/-- what the target does beyond the log: the listing, only the file asked for, NOT_FOUND otherwise -/
def fallback (srv : Server) : Request → Answer
  | .list => .listing srv.listed
  | .symbol n =>
    match srv.files.find? (fun f => decide (definesService f n)) with
    | some f => .files [f]
    | none => .error 5
  | .filename n =>
    match srv.files.find? (fun f => f.name == n) with
    | some f => .files [f]
    | none => .error 5

/-- the logged conversation, continued by `fallback` -/
def extendPol (srv : Server) (evs : List Event) : Policy := fun h q =>
  match evs[h.length]? with
  | some (q', a) => if q' = q then a else fallback srv q
  | none => fallback srv q

theorem extendPol_agrees (srv : Server) (evs : List Event) : Agrees (extendPol srv evs) evs := by
  intro h q a he
  simp [extendPol, he]

theorem extendPol_cases (srv : Server) (evs : List Event) (h : History) (q : Request) :
    ((q, extendPol srv evs h q) ∈ evs) ∨ extendPol srv evs h q = fallback srv q := by
  unfold extendPol
  cases he : evs[h.length]? with
  | none => right; rfl
  | some e =>
    rcases e with ⟨q', a⟩
    by_cases hq : q' = q
    · left
      subst hq
      simp only [↓reduceIte]
      exact List.mem_of_getElem? he
    · right; simp [hq]

theorem root_reach (files : List DFile) (n : Name) : Reach files [n] n := ⟨0, .root (by simp)⟩

theorem reach_exists_root {files : List DFile} {R : List Name} {n : Name} (h : Reach files R n) :
    ∃ r ∈ R, Reach files [r] n := by
  rcases h with ⟨k, hk⟩
  induction hk with
  | @root m hr => exact ⟨m, hr, root_reach files m⟩
  | step _ hi ih => rcases ih with ⟨r, hr, hreach⟩; exact ⟨r, hr, reach_step hreach hi⟩
  | mono _ ih => exact ih

theorem extendPol_conformant (srv : Server) (evs : List Event) (hall : ∀ e ∈ evs, ConformantEvent srv e) :
    Conformant srv (extendPol srv evs) := by
  refine ⟨?_, ?_, ?_, ?_⟩
  · intro h
    rcases extendPol_cases srv evs h .list with hin | hf
    · exact hall _ hin
    · rw [hf]; rfl
  · intro h q fs he f hf
    rcases extendPol_cases srv evs h q with hin | hfb
    · have := hall _ hin
      rw [he] at this
      cases q with
      | list => simp [ConformantEvent] at this
      | symbol n =>
        rcases this with ⟨fs', e1, hown, _⟩
        injection e1 with e1; subst e1; exact hown f hf
      | filename n =>
        rcases this with ⟨fs', e1, hown, _⟩
        injection e1 with e1; subst e1; exact hown f hf
    · rw [hfb] at he
      cases q with
      | list => simp [fallback] at he
      | symbol n =>
        simp only [fallback] at he
        cases hfind : srv.files.find? (fun f => decide (definesService f n)) with
        | none => simp [hfind] at he
        | some g =>
          simp only [hfind] at he
          injection he with he; subst he
          simp at hf; subst hf
          exact List.mem_of_find?_eq_some hfind
      | filename n =>
        simp only [fallback] at he
        cases hfind : srv.files.find? (fun f => f.name == n) with
        | none => simp [hfind] at he
        | some g =>
          simp only [hfind] at he
          injection he with he; subst he
          simp at hf; subst hf
          exact List.mem_of_find?_eq_some hfind
  · intro h n ⟨f, hf, hd⟩
    rcases extendPol_cases srv evs h (.symbol n) with hin | hfb
    · rcases hall _ hin with ⟨fs, e1, _, hdef⟩
      exact ⟨fs, e1, hdef⟩
    · rw [hfb]
      simp only [fallback]
      cases hfind : srv.files.find? (fun f => decide (definesService f n)) with
      | none =>
        have := List.find?_eq_none.1 hfind f hf
        simp [hd] at this
      | some g =>
        have hg := List.find?_some hfind
        exact ⟨[g], rfl, g, by simp, by simpa using hg⟩
  · intro h n hn
    rcases extendPol_cases srv evs h (.filename n) with hin | hfb
    · rcases hall _ hin with ⟨fs, e1, _, hname⟩
      exact ⟨fs, e1, hname⟩
    · rw [hfb]
      simp only [fallback]
      rcases mem_fileNames.1 hn with ⟨f, hf, hfn⟩
      cases hfind : srv.files.find? (fun f => f.name == n) with
      | none =>
        have := List.find?_eq_none.1 hfind f hf
        simp [hfn] at this
      | some g =>
        have hg := List.find?_some hfind
        exact ⟨[g], rfl, mem_fileNames.2 ⟨g, by simp, by simpa using hg⟩⟩

theorem extendPol_focused (srv : Server) (evs : List Event) (hall : ∀ e ∈ evs, FocusedEvent srv e) :
    Focused srv (extendPol srv evs) := by
  constructor
  · intro h n fs he g hg
    rcases extendPol_cases srv evs h (.symbol n) with hin | hfb
    · have := hall _ hin
      rw [he] at this
      rcases reach_exists_root (this g hg) with ⟨r, hr, hreach⟩
      rcases mem_fileNames.1 hr with ⟨f, hf, hfn⟩
      have hf' := List.mem_filter.1 hf
      exact ⟨f, hf'.1, by simpa using hf'.2, by rw [hfn]; exact hreach⟩
    · rw [hfb] at he
      simp only [fallback] at he
      cases hfind : srv.files.find? (fun f => decide (definesService f n)) with
      | none => simp [hfind] at he
      | some f =>
        simp only [hfind] at he
        injection he with he; subst he
        simp at hg; subst hg
        exact ⟨g, List.mem_of_find?_eq_some hfind, by simpa using List.find?_some hfind, root_reach _ _⟩
  · intro h n fs he g hg
    rcases extendPol_cases srv evs h (.filename n) with hin | hfb
    · have := hall _ hin
      rw [he] at this
      exact this g hg
    · rw [hfb] at he
      simp only [fallback] at he
      cases hfind : srv.files.find? (fun f => f.name == n) with
      | none => simp [hfind] at he
      | some f =>
        simp only [hfind] at he
        injection he with he; subst he
        simp at hg; subst hg
        have : g.name = n := by simpa using List.find?_some hfind
        rw [this]; exact root_reach _ _

/-- the decided well-formedness of a target for a configuration -/
theorem wf_of_deciders (cfg : Cfg) (srv : Server) (hwf : wfFilesB srv.files = true)
    (hdef : (specNames cfg srv.listed).all (fun n => (findService srv.files n).isSome) = true) : WF cfg srv := by
  refine { toWFFiles := (wfFilesB_iff _).1 hwf, defined := ?_ }
  intro n hw
  have := List.all_eq_true.1 hdef n ((mem_specNames cfg srv.listed n).2 hw)
  cases hf : findService srv.files n with
  | none => simp [hf] at this
  | some sd =>
    have hname := findService_name hf
    unfold findService at hf
    have hmem := List.mem_of_find?_eq_some hf
    rcases List.mem_flatMap.1 hmem with ⟨f, hf1, hf2⟩
    exact ⟨f, hf1, sd, hf2, hname⟩

end GB.C05
