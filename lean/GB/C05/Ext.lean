import GB.C05.Model
/-
  C05 — what else decides acceptance of a target's descriptor set in `protodesc.NewFiles` / `NewFile`
  (google.golang.org/protobuf v1.33, as `reflection.parseFileDescriptors` calls it) and what
  `bridgedesc.ParseTarget` makes of a google.api.http option with NESTED additional_bindings.

  `XFile` = `DFile` + package, syntax/edition, public and weak import indices, messages that declare a
  `required` field.  `newFilesX`:
    * file name twice                                               ⇒ error   (NewFiles)
    * syntax ∉ {"", proto2, proto3, editions}; editions outside [PROTO2 .. 2023]  ⇒ error   (New)
    * public/weak index out of range or repeated; an import listed twice          ⇒ error   (New)
    * an import that is in no file of the set: error UNLESS it is a weak import (placeholder file)
    * import cycle (over every listed import, weak ones included — `addFileDeps` walks fd.Dependency)
    * a top-level symbol declared twice, or equal to a package name or a prefix of one (RegisterFile)
    * a method type that is not declared in the file itself, a direct import, or a file reachable from a
      direct import through `import public` chains (`importSet.importPublic`)                 ⇒ error
    * a `required` field in a proto3 file                                                  ⇒ error
    * an import that is listed but unused is fine; proto2/proto3/editions make no other difference here.
-/
namespace GB.C05
open GB

structure XFile where
  file : DFile
  pkg : Name
  syn : Bytes
  edition : Nat
  pub : List Nat            -- public_dependency (indices into deps)
  weak : List Nat           -- weak_dependency
  required : List Name      -- messages with a `required` field
  deriving DecidableEq, Repr

def sProto2 : Bytes := [112, 114, 111, 116, 111, 50]
def sProto3 : Bytes := [112, 114, 111, 116, 111, 51]
def sEditions : Bytes := [101, 100, 105, 116, 105, 111, 110, 115]

def syntaxOkB (x : XFile) : Bool :=
  x.syn == [] || x.syn == sProto2 || x.syn == sProto3 ||
  (x.syn == sEditions && 998 ≤ x.edition && x.edition ≤ 1000)

def idxOkB (l : List Nat) (n : Nat) : Bool := l.all (· < n) && nodupB l

def importsOkB (x : XFile) : Bool :=
  idxOkB x.pub x.file.deps.length && idxOkB x.weak x.file.deps.length &&
  nodupB x.file.deps && !(x.file.deps.contains x.file.name)

/-- the i-th import is weak -/
def weakDeps (x : XFile) : List Name := x.weak.filterMap fun i => x.file.deps[i]?
def pubDeps (x : XFile) : List Name := x.pub.filterMap fun i => x.file.deps[i]?

def xNames (xs : List XFile) : List Name := xs.map (·.file.name)

/-- every non-weak import names a file of the set -/
def closedXB (xs : List XFile) : Bool :=
  xs.all fun x => x.file.deps.all fun d => d ∈ xNames xs || d ∈ weakDeps x

/-- the files with their imports restricted to files of the set (a missing weak import is a placeholder) -/
def presentDeps (xs : List XFile) : List DFile :=
  xs.map fun x => { x.file with deps := x.file.deps.filter (· ∈ xNames xs) }

/-- all dot-separated prefixes of a package name, the name itself included ("a.b.c" ↦ a, a.b, a.b.c) -/
def pkgPrefixes (p : Name) : List Name :=
  let rec go : Name → Name → List Name
    | _, [] => []
    | acc, c :: rest =>
      if c == 46 then acc.reverse :: go (c :: acc) rest else go (c :: acc) rest
  if p.isEmpty then [] else go [] p ++ [p]

def allSymbols (xs : List XFile) : List Name := symbols (xs.map (·.file))

def pkgConflictB (xs : List XFile) : Bool :=
  xs.any fun x => (pkgPrefixes x.pkg).any fun p => p ∈ allSymbols xs

/-- files visible through `import public` chains starting at `names` (fuel = number of files) -/
def pubReach (xs : List XFile) : Nat → List Name → List Name
  | 0, names => names
  | fuel + 1, names =>
    let more := (xs.filter (fun x => x.file.name ∈ names)).flatMap pubDeps
    pubReach xs fuel (names ++ more.filter (· ∉ names))

/-- the import set `NewFile` resolves a file's type names against -/
def visibleFiles (xs : List XFile) (x : XFile) : List Name :=
  x.file.name :: pubReach xs xs.length x.file.deps

def typesResolveXB (xs : List XFile) : Bool :=
  xs.all fun x =>
    let vis := (xs.filter (fun g => g.file.name ∈ visibleFiles xs x)).flatMap (·.file.messages)
    x.file.services.all fun s => s.methods.all fun m => m.input ∈ vis && m.output ∈ vis

def proto3RequiredB (xs : List XFile) : Bool :=
  xs.any fun x => x.syn == sProto3 && !x.required.isEmpty

/-- `protodesc.NewFiles` on the extended descriptor set -/
def newFilesX (xs : List XFile) : Except Err (List DFile) :=
  if !nodupB (xNames xs) then .error ⟨codeUnknown⟩
  else if !xs.all syntaxOkB then .error ⟨codeUnknown⟩
  else if !xs.all importsOkB then .error ⟨codeUnknown⟩
  else if !closedXB xs then .error ⟨codeUnknown⟩
  else if !acyclicB (presentDeps xs) then .error ⟨codeUnknown⟩
  else if !nodupB (allSymbols xs) then .error ⟨codeUnknown⟩
  else if pkgConflictB xs then .error ⟨codeUnknown⟩
  else if !typesResolveXB xs then .error ⟨codeUnknown⟩
  else if proto3RequiredB xs then .error ⟨codeUnknown⟩
  else .ok (xs.map (·.file))

/-- `reflection.parseFileDescriptors`: registry, then `bridgedesc.ParseTarget` over the wanted names -/
def parseFileDescriptorsX (xs : List XFile) (wanted : List Name) : Except Err Target :=
  match newFilesX xs with
  | .error e => .error e
  | .ok reg => .ok { services := parseTarget reg wanted, files := reg }

/-- a descriptor set with none of the extra features: what the base model `newFiles` talks about -/
def plain (x : XFile) : Bool :=
  x.pub.isEmpty && x.weak.isEmpty && (x.syn == sProto3 || x.syn == sProto2 || x.syn == []) &&
  x.required.isEmpty && nodupB x.file.deps && !(x.file.deps.contains x.file.name)

/-! ### google.api.http with nested additional_bindings -/

/-- an `HttpRule` message as it can arrive on the wire: every additional binding is itself an HttpRule and
    may carry additional_bindings of its own (http.proto says it must not; nothing checks it) -/
structure XHttp where
  primary : Rule
  additional : List (Rule × List Rule)
  deriving DecidableEq, Repr

/-- what `parseMethodDescriptor` looks at: `httpRule.AdditionalBindings` one level deep, `parseBinding` on each
    (which never reads the nested list) -/
def XHttp.flatten (h : XHttp) : HttpRule := { primary := h.primary, additional := h.additional.map (·.1) }

/-! ### message DEFINITIONS and a history of resolutions

`Method.Input` / `Method.Output` are not names but message factories: `bridgedesc.DynamicMessage(md.Input())` wraps the
descriptor the registry OF THIS RESOLUTION has for the method's type.  A history of resolutions (re-polls of one target,
resolutions of other targets in the same process) therefore delivers, at every step, the definitions of that step. -/

abbrev Fields := List (Name × Nat)            -- field name, kind
abbrev Defs := List (Name × Fields)           -- message full name ↦ its fields, per descriptor set

def lookupDef (d : Defs) (n : Name) : Option Fields := (d.find? (fun e => e.1 == n)).map (·.2)

/-- a method as delivered, with what `Input.New()` / `Output.New()` build -/
structure TypedMethod where
  method : Method
  inputDef : Option Fields
  outputDef : Option Fields
  deriving DecidableEq, Repr

/-- `parseMethodDescriptor`: `DynamicMessage(md.Input())`, `DynamicMessage(md.Output())` — descriptors of the registry
    just built from `defs` -/
def typeMethod (defs : Defs) (m : Method) : TypedMethod :=
  { method := m, inputDef := lookupDef defs m.input, outputDef := lookupDef defs m.output }

structure HStep where
  files : List XFile
  defs : Defs
  wanted : List Name

/-- one resolution: registry, projection, message factories -/
def deliverStep (s : HStep) : Except Err (List (Name × List TypedMethod)) :=
  match parseFileDescriptorsX s.files s.wanted with
  | .error e => .error e
  | .ok t => .ok (t.services.map fun sv => (sv.name, sv.methods.map (typeMethod s.defs)))

/-- the code: nothing is carried from one resolution to the next (bridgedesc has no package-level mutable state —
    regenerated fact `c05PackageVars`) -/
def deliverHistory (h : List HStep) : List (Except Err (List (Name × List TypedMethod))) := h.map deliverStep

/-- the seeded regression C05-m11, for the negative witness only: message factories interned process-wide by full
    name — the first definition ever seen for a name is used from then on -/
def typeMethodInterned (cache defs : Defs) (m : Method) : TypedMethod :=
  { method := m
    inputDef := match lookupDef cache m.input with | some f => some f | none => lookupDef defs m.input
    outputDef := match lookupDef cache m.output with | some f => some f | none => lookupDef defs m.output }

def deliverHistoryInterned : Defs → List HStep → List (Except Err (List (Name × List TypedMethod)))
  | _, [] => []
  | cache, s :: rest =>
    match parseFileDescriptorsX s.files s.wanted with
    | .error e => .error e :: deliverHistoryInterned cache rest
    | .ok t =>
      .ok (t.services.map fun sv => (sv.name, sv.methods.map (typeMethodInterned cache s.defs))) ::
        deliverHistoryInterned (cache ++ s.defs) rest

end GB.C05
