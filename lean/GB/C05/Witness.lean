import GB.C05.Proofs
/-
  C05 — concrete targets used by the witness theorems of Props.lean:
  * `srv`/`closurePol`/`onlyPol`: files "a" (service "a", imports "c"), "b" (service "b", imports "c"),
    "c" (message "m"); shown to satisfy every hypothesis of `C05_complete_focused`;
  * `drip`/`dripPol`: a conformant service that adds an unrelated file to an answer — every hypothesis of
    `C05_complete_focused` except `Focused` holds, and resolution fails.
-/
set_option linter.unusedVariables false
set_option linter.unusedSimpArgs false
open GB GB.C05

namespace GB.C05.Witness
/-- files "a" (service "a", imports "c"), "b" (service "b", imports "c"), "c" (message "m") -/
def ma : DMethod :=
  { name := [68], input := [109], output := [109], clientStreaming := false, serverStreaming := true,
    http := some { primary := ⟨.get [47, 120], [], []⟩, additional := [⟨.custom [72] [47], [42], [114]⟩] } }
def fa : DFile := { name := [97], deps := [[99]], messages := [], services := [{ name := [97], methods := [ma] }] }
def fb : DFile := { name := [98], deps := [[99]], messages := [], services := [{ name := [98], methods := [] }] }
def fc : DFile := { name := [99], deps := [], messages := [[109]], services := [] }
def srv : Server := { files := [fa, fb, fc], listed := [[97], [98], [97], [46]] }
def cfg : Cfg := { limit := 1, onlyServices := false, ignore := [grpcPrefix] }
def cfg0 : Cfg := { limit := 0, onlyServices := false, ignore := [grpcPrefix] }
/-- answers every request with the full import closure, like most reflection servers -/
def closurePol : Policy := fun _ q =>
  match q with
  | .list => .listing srv.listed
  | .symbol n => if n = [97] then .files [fa, fc] else if n = [98] then .files [fb, fc] else .error 5
  | .filename n => if n = [97] then .files [fa, fc] else if n = [98] then .files [fb, fc]
                   else if n = [99] then .files [fc] else .error 5
/-- answers only with the requested file -/
def onlyPol : Policy := fun _ q =>
  match q with
  | .list => .listing srv.listed
  | .symbol n => if n = [97] then .files [fa] else if n = [98] then .files [fb] else .error 5
  | .filename n => if n = [97] then .files [fa] else if n = [98] then .files [fb]
                   else if n = [99] then .files [fc] else .error 5
def idSched : Sched := fun _ l => l
def ep (p : Policy) : Endpoint := { connErr := none, pol := p, sched := idSched }
def unimpl : Endpoint := { connErr := some codeUnimplemented, pol := closurePol, sched := idSched }
end GB.C05.Witness

namespace GB.C05.Witness

theorem wit_wf : WF cfg srv := by
  refine { toWFFiles := ⟨by decide, by decide, ⟨fun n => if n = [99] then 0 else 1, by decide⟩, by decide, by decide⟩, defined := ?_ }
  intro n hw
  rcases hw with ⟨hin, hv, _⟩
  have : n = [97] ∨ n = [98] ∨ n = [46] := by
    simp [srv] at hin; rcases hin with h | h | h | h
    · exact Or.inl h
    · exact Or.inr (Or.inl h)
    · exact Or.inl h
    · exact Or.inr (Or.inr h)
  rcases this with h | h | h
  · subst h; exact ⟨fa, by decide, by decide⟩
  · subst h; exact ⟨fb, by decide, by decide⟩
  · subst h; exact absurd hv (by decide)

theorem wit_files (f : DFile) (h : f ∈ srv.files) : f = fa ∨ f = fb ∨ f = fc := by
  simpa [srv] using h

theorem wit_def (f : DFile) (n : Name) (h : f ∈ srv.files) (hd : definesService f n) :
    (f = fa ∧ n = [97]) ∨ (f = fb ∧ n = [98]) := by
  rcases wit_files f h with e | e | e <;> subst e
  · left; rcases hd with ⟨sv, hsv, rfl⟩; simp [fa] at hsv; subst hsv; exact ⟨rfl, rfl⟩
  · right; rcases hd with ⟨sv, hsv, rfl⟩; simp [fb] at hsv; subst hsv; exact ⟨rfl, rfl⟩
  · rcases hd with ⟨sv, hsv, _⟩; simp [fc] at hsv

theorem wit_answers (h : History) (q : Request) (fs : List DFile) (e : closurePol h q = .files fs) :
    (fs = [fa, fc] ∧ (q = .symbol [97] ∨ q = .filename [97])) ∨
    (fs = [fb, fc] ∧ (q = .symbol [98] ∨ q = .filename [98])) ∨
    (fs = [fc] ∧ q = .filename [99]) := by
  cases q with
  | list => simp [closurePol] at e
  | symbol n =>
    unfold closurePol at e
    by_cases h1 : n = [97]
    · subst h1; simp at e; left; exact ⟨e.symm, Or.inl rfl⟩
    · by_cases h2 : n = [98]
      · subst h2; simp at e; right; left; exact ⟨e.symm, Or.inl rfl⟩
      · simp [h1, h2] at e
  | filename n =>
    unfold closurePol at e
    by_cases h1 : n = [97]
    · subst h1; simp at e; left; exact ⟨e.symm, Or.inr rfl⟩
    · by_cases h2 : n = [98]
      · subst h2; simp at e; right; left; exact ⟨e.symm, Or.inr rfl⟩
      · by_cases h3 : n = [99]
        · subst h3; simp at e; right; right; exact ⟨e.symm, rfl⟩
        · simp [h1, h2, h3] at e

theorem wit_conformant : Conformant srv closurePol := by
  refine ⟨fun _ => rfl, ?_, ?_, ?_⟩
  · intro h q fs e f hf
    rcases wit_answers h q fs e with ⟨rfl, _⟩ | ⟨rfl, _⟩ | ⟨rfl, _⟩ <;>
    · simp at hf; rcases hf with rfl | rfl <;> decide
  · intro h n ⟨f, hf, hd⟩
    rcases wit_def f n hf hd with ⟨rfl, rfl⟩ | ⟨rfl, rfl⟩
    · exact ⟨[fa, fc], rfl, fa, by simp, hd⟩
    · exact ⟨[fb, fc], rfl, fb, by simp, hd⟩
  · intro h n hn
    have : n = [97] ∨ n = [98] ∨ n = [99] := by
      simp [srv, fileNames, fa, fb, fc] at hn; exact hn
    rcases this with rfl | rfl | rfl
    · exact ⟨[fa, fc], rfl, by decide⟩
    · exact ⟨[fb, fc], rfl, by decide⟩
    · exact ⟨[fc], rfl, by decide⟩

theorem wit_imp_a : Imports srv.files [97] [99] := ⟨fa, by decide, rfl, by decide⟩
theorem wit_imp_b : Imports srv.files [98] [99] := ⟨fb, by decide, rfl, by decide⟩

theorem wit_focused : Focused srv closurePol := by
  constructor
  · intro h n fs e g hg
    rcases wit_answers h _ fs e with ⟨rfl, hq⟩ | ⟨rfl, hq⟩ | ⟨rfl, hq⟩
    · rcases hq with hq | hq
      · injection hq with hq; subst hq
        refine ⟨fa, by decide, by decide, ?_⟩
        simp at hg; rcases hg with rfl | rfl
        · exact ⟨0, .root (by simp [fa])⟩
        · exact ⟨1, .step (.root (by simp [fa])) wit_imp_a⟩
      · cases hq
    · rcases hq with hq | hq
      · injection hq with hq; subst hq
        refine ⟨fb, by decide, by decide, ?_⟩
        simp at hg; rcases hg with rfl | rfl
        · exact ⟨0, .root (by simp [fb])⟩
        · exact ⟨1, .step (.root (by simp [fb])) wit_imp_b⟩
      · cases hq
    · cases hq
  · intro h n fs e g hg
    rcases wit_answers h _ fs e with ⟨rfl, hq⟩ | ⟨rfl, hq⟩ | ⟨rfl, hq⟩
    · rcases hq with hq | hq
      · cases hq
      · injection hq with hq; subst hq
        simp at hg; rcases hg with rfl | rfl
        · exact ⟨0, .root (by simp [fa])⟩
        · exact ⟨1, .step (.root (by simp)) wit_imp_a⟩
    · rcases hq with hq | hq
      · cases hq
      · injection hq with hq; subst hq
        simp at hg; rcases hg with rfl | rfl
        · exact ⟨0, .root (by simp [fb])⟩
        · exact ⟨1, .step (.root (by simp)) wit_imp_b⟩
    · injection hq with hq; subst hq
      simp at hg; subst hg
      exact ⟨0, .root (by simp [fc])⟩

theorem wit_roots : rootNames cfg srv = [[97], [98]] := by decide

theorem wit_depth : ∀ n, Reach srv.files (rootNames cfg srv) n → Within srv.files (rootNames cfg srv) cfg.limit n := by
  intro n ⟨k, hk⟩
  have hcases : n = [97] ∨ n = [98] ∨ n = [99] := by
    induction hk with
    | root hr => rw [wit_roots] at hr; simp at hr; rcases hr with h | h <;> simp [h]
    | step _ hi _ =>
      rcases hi with ⟨f, hf, _, hb⟩
      rcases wit_files f hf with e | e | e <;> subst e
      · simp [fa] at hb; simp [hb]
      · simp [fb] at hb; simp [hb]
      · simp [fc] at hb
    | mono _ ih => exact ih
  show Within srv.files (rootNames cfg srv) 1 n
  rw [wit_roots]
  rcases hcases with rfl | rfl | rfl
  · exact .mono (.root (by simp))
  · exact .mono (.root (by simp))
  · exact .step (.root (by simp)) wit_imp_a

theorem wit_fair : FairSched idSched := fun _ _ _ => Iff.rfl


/-! ### the drip-feeding target -/

def ds : DFile := { name := [115], deps := [], messages := [], services := [{ name := [115], methods := [] }] }
def dx : DFile := { name := [120], deps := [[121]], messages := [], services := [] }
def dy : DFile := { name := [121], deps := [], messages := [], services := [] }
def drip : Server := { files := [ds, dx, dy], listed := [[115]] }
/-- conformant (every answer holds the requested file, only files of the target), but the answer to
    the symbol request carries the unrelated file "x", whose import "y" then has to be fetched -/
def dripPol : Policy := fun _ q =>
  match q with
  | .list => .listing drip.listed
  | .symbol n => if n = [115] then .files [ds, dx] else .error 5
  | .filename n => if n = [115] then .files [ds] else if n = [120] then .files [dx]
                   else if n = [121] then .files [dy] else .error 5

theorem drip_files (f : DFile) (h : f ∈ drip.files) : f = ds ∨ f = dx ∨ f = dy := by
  simpa [drip] using h

theorem drip_wf : WF cfg0 drip := by
  refine { toWFFiles := ⟨by decide, by decide, ⟨fun n => if n = [120] then 1 else 0, by decide⟩, by decide, by decide⟩, defined := ?_ }
  intro n hw
  have : n = [115] := by have := hw.1; simpa [drip] using this
  subst this
  exact ⟨ds, by decide, by decide⟩

theorem drip_conformant : Conformant drip dripPol := by
  refine ⟨fun _ => rfl, ?_, ?_, ?_⟩
  · intro h q fs e f hf
    cases q with
    | list => simp [dripPol] at e
    | symbol n =>
      unfold dripPol at e
      by_cases h1 : n = [115]
      · subst h1; simp at e; subst e; simp at hf; rcases hf with rfl | rfl <;> decide
      · simp [h1] at e
    | filename n =>
      unfold dripPol at e
      by_cases h1 : n = [115]
      · subst h1; simp at e; subst e; simp at hf; subst hf; decide
      · by_cases h2 : n = [120]
        · subst h2; simp at e; subst e; simp at hf; subst hf; decide
        · by_cases h3 : n = [121]
          · subst h3; simp at e; subst e; simp at hf; subst hf; decide
          · simp [h1, h2, h3] at e
  · intro h n ⟨f, hf, hd⟩
    have : n = [115] := by
      rcases drip_files f hf with e | e | e <;> subst e
      · rcases hd with ⟨sv, hsv, rfl⟩; simp [ds] at hsv; subst hsv; rfl
      · rcases hd with ⟨sv, hsv, _⟩; simp [dx] at hsv
      · rcases hd with ⟨sv, hsv, _⟩; simp [dy] at hsv
    subst this
    exact ⟨[ds, dx], rfl, ds, by simp, by decide⟩
  · intro h n hn
    have : n = [115] ∨ n = [120] ∨ n = [121] := by
      simp [drip, fileNames, ds, dx, dy] at hn; exact hn
    rcases this with rfl | rfl | rfl
    · exact ⟨[ds], rfl, by decide⟩
    · exact ⟨[dx], rfl, by decide⟩
    · exact ⟨[dy], rfl, by decide⟩

theorem drip_roots : rootNames cfg0 drip = [[115]] := by decide

theorem drip_depth : ∀ n, Reach drip.files (rootNames cfg0 drip) n →
    Within drip.files (rootNames cfg0 drip) cfg0.limit n := by
  intro n ⟨k, hk⟩
  have hn : n = [115] := by
    induction hk with
    | root hr => rw [drip_roots] at hr; simpa using hr
    | step _ hi ih =>
      rcases hi with ⟨f, hf, hfa, hb⟩
      rcases drip_files f hf with e | e | e <;> subst e
      · simp [ds] at hb
      · rw [ih] at hfa; simp [dx] at hfa
      · simp [dy] at hb
    | mono _ ih => exact ih
  subst hn
  show Within drip.files (rootNames cfg0 drip) 0 [115]
  rw [drip_roots]
  exact .root (by simp)

end GB.C05.Witness
