import GB.Base.Bytes
/-
  C05 — executable model of the reflection resolver
  (reflection/resolver.go, reflection/client.go, reflection/parse.go, reflection/util.go,
   bridgedesc/parse.go), core-only Lean.

  * descriptors: `DFile`/`DService`/`DMethod`/`HttpRule` are the slice of descriptorpb the
    resolver looks at (file name, imports, top-level messages, services, methods, streaming flags,
    google.api.http option);
  * the target's reflection service is an ARBITRARY history-dependent function
    `Policy := History → Request → Answer`;
  * the order in which one BFS round asks for its missing files is Go map iteration order
    (`for dep := range missing`): it is a parameter `Sched := History → List Name → List Name`
    the theorems quantify over;
  * `resolveWithMethod` / `resolve` follow the Go code statement by statement, with the
    `processed[fd.GetName()] = struct{}{}` line of the D5 fix present (`dedupFiles`);
    `dedupFilesBuggy` is the code before the fix (used only by the negative witness).
-/
namespace GB.C05
open GB

abbrev Name := Bytes

/-! ## descriptors (what the target serves) -/

/-- google.api.HttpRule.pattern (oneof) -/
inductive Pattern where
  | unset
  | get (p : Bytes) | put (p : Bytes) | post (p : Bytes) | delete (p : Bytes) | patch (p : Bytes)
  | custom (kind path : Bytes)
  deriving DecidableEq, Repr

structure Rule where
  pattern : Pattern
  body : Bytes
  responseBody : Bytes
  deriving DecidableEq, Repr

/-- google.api.http option: the primary rule and its `additional_bindings` -/
structure HttpRule where
  primary : Rule
  additional : List Rule
  deriving DecidableEq, Repr

structure DMethod where
  name : Name                -- simple name
  input : Name               -- full name of the input message (no leading dot)
  output : Name
  clientStreaming : Bool
  serverStreaming : Bool
  http : Option HttpRule
  deriving DecidableEq, Repr

structure DService where
  name : Name                -- full name  pkg.Service
  methods : List DMethod
  deriving DecidableEq, Repr

structure DFile where
  name : Name
  deps : List Name
  messages : List Name       -- full names of the top-level messages the file declares
  services : List DService
  deriving DecidableEq, Repr

/-! ## the delivered description (bridgedesc.Target, canonical content) -/

structure Binding where
  httpMethod : Bytes
  pattern : Bytes
  requestBodyPath : Bytes
  responseBodyPath : Bytes
  deriving DecidableEq, Repr

structure Method where
  rpcName : Bytes
  input : Name
  output : Name
  clientStreaming : Bool
  serverStreaming : Bool
  bindings : List Binding
  deriving DecidableEq, Repr

structure Service where
  name : Name
  methods : List Method
  deriving DecidableEq, Repr

/-- `bridgedesc.Target`: the services plus the file registry it was parsed from -/
structure Target where
  services : List Service
  files : List DFile
  deriving DecidableEq, Repr

/-! ## bridgedesc/parse.go -/

/-- `parseBinding` -/
def parseBinding (r : Rule) : Binding :=
  let (m, p) : Bytes × Bytes := match r.pattern with
    | .get p => ([71, 69, 84], p)                         -- "GET"
    | .put p => ([80, 85, 84], p)                         -- "PUT"
    | .post p => ([80, 79, 83, 84], p)                    -- "POST"
    | .delete p => ([68, 69, 76, 69, 84, 69], p)          -- "DELETE"
    | .patch p => ([80, 65, 84, 67, 72], p)               -- "PATCH"
    | .custom k p => (k, p)
    | .unset => ([], [])
  { httpMethod := m, pattern := p, requestBodyPath := r.body, responseBodyPath := r.responseBody }

/-- `CanonicalRPCName`: "/" ++ service ++ "/" ++ method -/
def rpcName (svc meth : Name) : Bytes := [47] ++ svc ++ [47] ++ meth

/-- `parseMethodDescriptor` -/
def parseMethod (svc : Name) (m : DMethod) : Method :=
  { rpcName := rpcName svc m.name, input := m.input, output := m.output,
    clientStreaming := m.clientStreaming, serverStreaming := m.serverStreaming,
    bindings := match m.http with
      | none => []
      | some h => parseBinding h.primary :: h.additional.map parseBinding }

/-- `parseServiceDescriptors` -/
def parseService (sd : DService) : Service :=
  { name := sd.name, methods := sd.methods.map (parseMethod sd.name) }

/-- `files.FindDescriptorByName(name)` restricted to services (symbol names are unique in a registry) -/
def findService (files : List DFile) (n : Name) : Option DService :=
  (files.flatMap (·.services)).find? (fun s => s.name == n)

/-- `ParseTarget`: a listed service the files do not define is delivered name-only (by design) -/
def parseTarget (files : List DFile) (svcNames : List Name) : List Service :=
  svcNames.map fun n =>
    match findService files n with
    | some sd => { name := n, methods := sd.methods.map (parseMethod sd.name) }
    | none => { name := n, methods := [] }

/-! ## protoreflect.FullName.IsValid and Resolver.listServiceNames -/

def isLetter (c : UInt8) : Bool := c == 95 || (97 ≤ c && c ≤ 122) || (65 ≤ c && c ≤ 90)
def isLetterDigit (c : UInt8) : Bool := isLetter c || (48 ≤ c && c ≤ 57)

/-- `atStart` = an identifier has to begin here (start of the name or just after a '.') -/
def validFrom : Bool → Bytes → Bool
  | true, [] => false
  | false, [] => true
  | true, c :: r => isLetter c && validFrom false r
  | false, c :: r => if c == 46 then validFrom true r else isLetterDigit c && validFrom false r

def isValidFullName (s : Bytes) : Bool := validFrom true s

/-- `strings.HasPrefix(name, prefix)` -/
def hasPrefix (name pre : Bytes) : Bool := pre.isPrefixOf name

/-- "grpc." -/
def grpcPrefix : Bytes := [103, 114, 112, 99, 46]

structure Cfg where
  /-- `RecursionLimit` after `withDefaults` -/
  limit : Nat
  onlyServices : Bool
  /-- `IgnorePrefixes` after `NewResolverBuilder` appended "grpc." -/
  ignore : List Bytes
  deriving Repr

/-- `ResolverOpts.withDefaults` on RecursionLimit: 0 ↦ 100, negative ↦ 0 -/
def effLimit (raw : Int) : Nat := if raw = 0 then 100 else if raw < 0 then 0 else raw.toNat

def mkCfg (rawLimit : Int) (only : Bool) (ignore : List Bytes) : Cfg :=
  { limit := effLimit rawLimit, onlyServices := only, ignore := ignore ++ [grpcPrefix] }

def ignored (cfg : Cfg) (n : Name) : Bool := cfg.ignore.any (fun p => hasPrefix n p)

/-- the loop of `Resolver.listServiceNames`: `processed` = names already seen -/
def listFilter (cfg : Cfg) (processed : List Name) : List Name → List Name
  | [] => []
  | s :: rest =>
    if !isValidFullName s then listFilter cfg processed rest
    else if s ∈ processed then listFilter cfg processed rest
    else if ignored cfg s then listFilter cfg (s :: processed) rest
    else s :: listFilter cfg (s :: processed) rest

def listServiceNames (cfg : Cfg) (raw : List Name) : List Name := listFilter cfg [] raw

/-! ## the reflection stream -/

inductive Request where
  | list
  | symbol (n : Name)
  | filename (n : Name)
  deriving DecidableEq, Repr

/-- what one `Recv` yields.  `error c` = a gRPC status error from Recv or an ErrorResponse with
    that code (`client.recv` turns both into an error carrying the code);
    `other` = a response of the wrong type / undecodable content (an error without a status). -/
inductive Answer where
  | listing (names : List Name)
  | files (fs : List DFile)
  /-- a FileDescriptorResponse one of whose blobs does not decode: the batch goes on, then
      `proto.Unmarshal` fails in `Resolver.fileDescriptors` -/
  | garbled (fs : List DFile)
  | error (code : Nat)
  | other (tag : Nat)
  deriving DecidableEq, Repr

abbrev Event := Request × Answer
abbrev History := List Event
abbrev Policy := History → Request → Answer
abbrev Sched := History → List Name → List Name

/-- error classes the resolver distinguishes: only the gRPC code matters (`status.Code(err)`) -/
structure Err where
  code : Nat
  deriving DecidableEq, Repr

def codeUnknown : Nat := 2
def codeUnimplemented : Nat := 12

/-- `client.execFileDescriptorRequests`, sequential view of the pipelined sender/receiver:
    requests are answered in FIFO order; the first failing response aborts the batch. -/
def execBatch (pol : Policy) : History → List Request → History × Except Err (List DFile)
  | h, [] => (h, .ok [])
  | h, q :: rest =>
    let a := pol h q
    let h' := h ++ [(q, a)]
    match a with
    | .files fs =>
      match execBatch pol h' rest with
      | (h'', .ok more) => (h'', .ok (fs ++ more))
      | (h'', .error e) => (h'', .error e)
    | .garbled _ =>
      match execBatch pol h' rest with
      | (h'', .ok _) => (h'', .error ⟨codeUnknown⟩)
      | (h'', .error e) => (h'', .error e)
    | .error c => (h', .error ⟨c⟩)
    | .listing _ => (h', .error ⟨codeUnknown⟩)
    | .other _ => (h', .error ⟨codeUnknown⟩)

/-- the de-duplication loop of `Resolver.fileDescriptors` (with the D5 fix: names are recorded) -/
def dedupFiles (processed : List Name) : List DFile → List DFile
  | [] => []
  | f :: rest =>
    if f.name ∈ processed then dedupFiles processed rest
    else f :: dedupFiles (f.name :: processed) rest

/-- the same loop as it was before the fix: `processed` is consulted but never filled -/
def dedupFilesBuggy (processed : List Name) : List DFile → List DFile
  | [] => []
  | f :: rest =>
    if f.name ∈ processed then dedupFilesBuggy processed rest
    else f :: dedupFilesBuggy processed rest

def fileNames (fs : List DFile) : List Name := fs.map (·.name)

/-- adding import names to the `missing` set unless present (or already missing) -/
def growNames (present : List Name) : List Name → List Name → List Name
  | m, [] => m
  | m, d :: ds => if d ∈ present ∨ d ∈ m then growNames present m ds else growNames present (m ++ [d]) ds

/-- `growMissingDescriptorSet`: imports of `fs` that are not present join `missing` (a set) -/
def growMissing (fs : List DFile) (present : List Name) (missing : List Name) : List Name :=
  growNames present missing (fs.flatMap (·.deps))

/-- `shrinkMissingDescriptorSet` -/
def shrinkMissing (fs : List DFile) (missing : List Name) : List Name :=
  missing.filter (fun d => d ∉ fileNames fs)

/-- state of the BFS in `retrieveDependencies` -/
structure Bfs where
  hist : History
  descriptors : List DFile
  present : List Name
  missing : List Name
  deriving Repr

/-- one round after its batch succeeded with `got`: append only the files not present, update
    `present`, shrink and grow `missing` -/
def nextState (dedup : List DFile → List DFile) (h : History) (got : List DFile) (s : Bfs) : Bfs :=
  let dep := dedup got
  let present := s.present ++ fileNames dep
  { hist := h
    descriptors := s.descriptors ++ dep.filter (fun f => f.name ∉ s.present)
    present := present
    missing := growMissing dep present (shrinkMissing dep s.missing) }

/-- the `for i := 0; i < RecursionLimit && len(missing) > 0; i++` loop; `fuel` = rounds left.
    `dedup` is the de-duplication used by `fileDescriptors`. -/
def bfsLoop (dedup : List DFile → List DFile) (pol : Policy) (sched : Sched) :
    Nat → Bfs → History × Except Err (List DFile)
  | 0, s => if s.missing.isEmpty then (s.hist, .ok s.descriptors) else (s.hist, .error ⟨codeUnknown⟩)
  | fuel + 1, s =>
    if s.missing.isEmpty then (s.hist, .ok s.descriptors)
    else
      match execBatch pol s.hist ((sched s.hist s.missing).map Request.filename) with
      | (h, .error e) => (h, .error e)
      | (h, .ok got) =>
        -- "server didn't provide file descriptors …" when something asked for is still missing
        if !(shrinkMissing (dedup got) s.missing).isEmpty then (h, .error ⟨codeUnknown⟩)
        else bfsLoop dedup pol sched fuel (nextState dedup h got s)

/-- `retrieveDependencies` -/
def retrieveDependencies (dedup : List DFile → List DFile) (cfg : Cfg) (pol : Policy) (sched : Sched)
    (h : History) (descriptors : List DFile) : History × Except Err (List DFile) :=
  let present := fileNames descriptors
  bfsLoop dedup pol sched cfg.limit
    { hist := h, descriptors := descriptors, present := present,
      missing := growMissing descriptors present [] }

/-! ## protodesc.NewFiles (contract) -/

def allNames (fs : List DFile) : List Name := fileNames fs

/-- every import names a file of the set -/
def closedB (fs : List DFile) : Bool :=
  fs.all fun f => f.deps.all fun d => d ∈ fileNames fs

/-- acyclicity by repeated removal of files all of whose imports are already removed
    (terminates after `fs.length` sweeps) -/
def peel (done : List Name) : Nat → List DFile → Bool
  | _, [] => true
  | 0, _ :: _ => false
  | n + 1, fs =>
    let ready := fs.filter (fun f => f.deps.all (· ∈ done))
    if ready.isEmpty then false
    else peel (done ++ fileNames ready) n (fs.filter (fun f => !(f.deps.all (· ∈ done))))

def acyclicB (fs : List DFile) : Bool := peel [] fs.length fs

/-- all top-level symbols (messages and services) declared by the files -/
def symbols (fs : List DFile) : List Name :=
  fs.flatMap fun f => f.messages ++ f.services.map (·.name)

def nodupB [DecidableEq α] : List α → Bool
  | [] => true
  | a :: r => a ∉ r && nodupB r

/-- a method's message types resolve in the file itself or in one of its direct imports -/
def typesResolveB (fs : List DFile) : Bool :=
  fs.all fun f =>
    let visible := f.messages ++ (fs.filter (fun g => g.name ∈ f.deps)).flatMap (·.messages)
    f.services.all fun s => s.methods.all fun m => m.input ∈ visible && m.output ∈ visible

/-- `protodesc.NewFiles`: duplicate file name, unresolvable import, import cycle, symbol conflict and
    unresolvable method types are errors; otherwise the registry holds exactly these files. -/
def newFiles (fs : List DFile) : Except Err (List DFile) :=
  if !nodupB (fileNames fs) then .error ⟨codeUnknown⟩
  else if !closedB fs then .error ⟨codeUnknown⟩
  else if !acyclicB fs then .error ⟨codeUnknown⟩
  else if !nodupB (symbols fs) then .error ⟨codeUnknown⟩
  else if !typesResolveB fs then .error ⟨codeUnknown⟩
  else .ok fs

/-! ## Resolver.resolveWithMethod / Resolver.resolve -/

inductive Version where
  | v1 | v1alpha
  deriving DecidableEq, Repr

/-- what `stream.Send` returned: nil, io.EOF ("the stream has ended, call Recv for its status"), another error -/
inductive SendRes where
  | ok | eof | fail (e : Err)
  deriving DecidableEq, Repr

/-- what `connectClient` and the stream do for one reflection method -/
structure Endpoint where
  /-- `conn.Stream` fails with this gRPC code -/
  connErr : Option Nat
  pol : Policy
  sched : Sched
  /-- what the `Send` of the ListServices request returns (`client.listServiceNames`) -/
  listSend : SendRes := .ok

/-- what the two hashes identify: the file set (sorted by name) and the sorted service names.
    Kept as canonical lists (sha256 collisions are not modelled). -/
structure Snapshot where
  files : List DFile
  services : List Name
  deriving DecidableEq, Repr

/-- result of one stream: the names, the descriptor set and the final history -/
structure StreamOk where
  names : List Name
  files : List DFile
  deriving Repr

/-- the reflection conversation of `resolveWithMethod` up to (not including) hashing and parsing -/
def runStream (dedup : List DFile → List DFile) (cfg : Cfg) (pol : Policy) (sched : Sched) :
    History × Except Err StreamOk :=
  let a := pol [] .list
  let h0 : History := [(.list, a)]
  match a with
  | .error c => (h0, .error ⟨c⟩)
  | .files _ => (h0, .error ⟨codeUnknown⟩)
  | .garbled _ => (h0, .error ⟨codeUnknown⟩)
  | .other _ => (h0, .error ⟨codeUnknown⟩)
  | .listing raw =>
    let names := listServiceNames cfg raw
    if cfg.onlyServices then (h0, .ok { names := names, files := [] })
    else
      match execBatch pol h0 (names.map Request.symbol) with
      | (h1, .error e) => (h1, .error e)
      | (h1, .ok got) =>
        match retrieveDependencies dedup cfg pol sched h1 (dedup got) with
        | (h2, .error e) => (h2, .error e)
        | (h2, .ok ds) => (h2, .ok { names := names, files := ds })

/-- insertion sort by a total preorder given as a Boolean (canonical order for the hashes) -/
def insertBy (le : α → α → Bool) (a : α) : List α → List α
  | [] => [a]
  | b :: r => if le a b then a :: b :: r else b :: insertBy le a r

def sortBy (le : α → α → Bool) : List α → List α
  | [] => []
  | a :: r => insertBy le a (sortBy le r)

def bytesLe : Bytes → Bytes → Bool
  | [], _ => true
  | _ :: _, [] => false
  | a :: r, b :: s => a < b || (a == b && bytesLe r s)

def snapshotOf (ok : StreamOk) : Snapshot :=
  { files := sortBy (fun f g => bytesLe f.name g.name) ok.files, services := sortBy bytesLe ok.names }

/-- outcome of one poll as seen by the watcher -/
inductive Outcome where
  | update (t : Target)          -- Watcher.UpdateDesc
  | unchanged                    -- (nil, nil): nothing is reported
  | error (e : Err)              -- Watcher.ReportError
  deriving DecidableEq, Repr

/-- `resolveWithMethod` after a successful `connectClient`: hashes, `parseFileDescriptors` -/
def finish (last : Option Snapshot) (ok : StreamOk) : Option Snapshot × Outcome :=
  let snap := snapshotOf ok
  if last = some snap then (last, .unchanged)
  else
    match newFiles ok.files with
    | .error e => (last, .error e)
    | .ok reg => (some snap, .update { services := parseTarget reg snap.services, files := reg })

structure RState where
  priority : List Version
  last : Option Snapshot

def initState : RState := { priority := [.v1, .v1alpha], last := none }

/-- swap positions 0 and i (`r.methodPriority[0], r.methodPriority[i] = …`) -/
def swapFront (l : List Version) (i : Nat) : List Version :=
  match l[0]?, l[i]? with
  | some a, some b => (l.set 0 b).set i a
  | _, _ => l

/-- log of one poll: which methods were tried, and the conversation on each stream -/
abbrev PollLog := List (Version × Option History)

/-- `Resolver.resolveWithMethod`: connect, converse, hash, parse.  Returns the conversation (if a
    stream was established), the remembered hashes and the outcome. -/
def resolveWithMethod (dedup : List DFile → List DFile) (cfg : Cfg) (ep : Endpoint) (last : Option Snapshot) :
    Option History × Option Snapshot × Outcome :=
  match ep.connErr with
  | some c => (none, last, .error ⟨c⟩)
  | none =>
    -- client.listServiceNames: a Send error other than io.EOF is reported at once; after io.EOF the
    -- status is what Recv returns (a Recv that then succeeds is a misbehaving stream)
    match ep.listSend with
    | .fail e => (some [], last, .error e)
    | .eof =>
      match ep.pol [] .list with
      | .error c => (some [(.list, .error c)], last, .error ⟨c⟩)
      | a => (some [(.list, a)], last, .error ⟨codeUnknown⟩)
    | .ok =>
      match runStream dedup cfg ep.pol ep.sched with
      | (h, .error e) => (some h, last, .error e)
      | (h, .ok ok) => (some h, finish last ok)

/-- the loop of `Resolver.resolve` over `methodPriority[i..]` -/
def resolveFrom (dedup : List DFile → List DFile) (cfg : Cfg) (env : Version → Endpoint) (st : RState) :
    Nat → List Version → PollLog → RState × Outcome × PollLog
  | _, [], log => (st, .error ⟨codeUnimplemented⟩, log)     -- "all reflection methods failed" wraps Unimplemented errors
  | i, v :: rest, log =>
    match resolveWithMethod dedup cfg (env v) st.last with
    | (h, last, out) =>
      match out with
      | .error e =>
        if e.code = codeUnimplemented then resolveFrom dedup cfg env st (i + 1) rest (log ++ [(v, h)])
        else (st, .error e, log ++ [(v, h)])
      | .update t => ({ priority := swapFront st.priority i, last := last }, .update t, log ++ [(v, h)])
      | .unchanged => ({ priority := swapFront st.priority i, last := last }, .unchanged, log ++ [(v, h)])

/-- `Resolver.resolve` -/
def resolve (dedup : List DFile → List DFile) (cfg : Cfg) (env : Version → Endpoint) (st : RState) :
    RState × Outcome × PollLog :=
  resolveFrom dedup cfg env st 0 st.priority []

/-- the resolver as shipped after the fix -/
def resolveFixed := resolve (dedupFiles [])

end GB.C05
