import GB.C05.PipelineProofs
/-
  C05 — global deadlock freedom and termination of the pipeline LTS (`Pipe.step`).

  * `LInv`: the channel accounting the progress argument needs on top of `PInv` (how many of the two error
    channels main has drained, that a goroutine writes its channel exactly once and only when it is empty,
    that a requester which ended with nil has released all n tokens, that a receiver which ended with nil
    has stored `res`);
  * `nextMove`: an explicit scheduler — for every state the label of a move that is NOT a spontaneous
    fault (`reqSendFault`, `reqSendEOF`, `rcvFault`, `streamEnd`);
  * `progress`: in every state satisfying the invariants which is not `closed`, `nextMove` is enabled;
  * `rank`: a natural number that strictly decreases along EVERY step (code, environment, faults), hence
    every run is finite (no fairness assumption needed) and every maximal run ends in `closed`.
-/
set_option linter.unusedSimpArgs false
set_option linter.unusedVariables false
namespace GB.C05.Pipe
open GB GB.C05

/-- values main has already taken out of the two error channels -/
def drained (s : PState) : Nat :=
  (if s.rpc = .done ∧ s.sendErr = none then 1 else 0) + (if s.vpc = .done ∧ s.recvErr = none then 1 else 0)

structure LInv (A : List Answer) (s : PState) : Prop where
  count : ∀ k, s.mpc = .reading k → 1 ≤ k ∧ k + drained s = 2
  send_once : s.rpc ≠ .done → s.sendErr = none
  recv_once : s.vpc ≠ .done → s.recvErr = none
  req_nil : s.rpc = .done → (s.sendErr = some none ∨ (s.sendErr = none ∧ ∃ k, s.mpc = .reading k)) →
    s.sig = A.length
  rcv_nil : s.vpc = .done → (s.recvErr = some none ∨ (s.recvErr = none ∧ ∃ k, s.mpc = .reading k)) →
    s.res.isSome = true
  decided : (∀ k, s.mpc ≠ .reading k) → s.result.isSome = true

theorem linv_init (A : List Answer) : LInv A (init A.length) := by
  unfold init
  by_cases hn : A.length = 0
  · simp only [hn, ↓reduceIte]
    constructor <;> simp [drained]
  · simp only [hn, ↓reduceIte]
    constructor <;> simp [drained]

macro "linv_close" hl:ident : tactic => `(tactic|
  (obtain ⟨l1, l2, l3, l4, l5, l6⟩ := $hl
   constructor <;> simp_all [drained] <;> first | omega | grind))

set_option maxHeartbeats 1000000 in
theorem linv_step (cf : Bool) (A : List Answer) (s : PState) (l : Label) (s' : PState)
    (hi : PInv cf A s) (hl : LInv A s) (h : step cf A s l = some s') : LInv A s' := by
  cases l with
  | reqSend =>
    simp only [step] at h
    split at h
    · rename_i i hr
      split at h
      · simp at h; subst h; linv_close hl
      · simp at h
    · simp at h
  | reqSendFault e =>
    simp only [step] at h
    split at h
    · rename_i i hr
      split at h
      · simp at h; subst h; linv_close hl
      · simp at h
    · simp at h
  | reqSendEOF =>
    simp only [step] at h
    split at h
    · rename_i i hr
      split at h
      · simp at h; subst h; linv_close hl
      · simp at h
    · simp at h
  | streamEnd c =>
    simp only [step] at h
    split at h
    · simp at h; subst h; linv_close hl
    · simp at h
  | rcvStatus =>
    simp only [step] at h
    split at h
    · rename_i i c hv hen
      split at h
      · simp at h; subst h; linv_close hl
      · simp at h
    · simp at h
  | reqSignal =>
    simp only [step] at h
    split at h
    · rename_i i hr
      simp at h; subst h; linv_close hl
    · simp at h
  | reqFinish =>
    simp only [step] at h
    split at h
    · rename_i i hr
      split at h
      · simp at h
      · simp at h; subst h
        have h1 := hi.r_send i hr
        have h2 := hi.wire_le
        linv_close hl
    · simp at h
  | serve =>
    simp only [step] at h
    split at h
    · simp at h; subst h; linv_close hl
    · simp at h
  | rcvTake =>
    simp only [step] at h
    split at h
    · rename_i i hv
      split at h
      · simp at h; subst h; linv_close hl
      · simp at h
    · simp at h
  | rcvCancelled =>
    simp only [step] at h
    split at h
    · rename_i i hv
      split at h
      · simp at h; subst h; linv_close hl
      · simp at h
    · simp at h
  | rcvRecv =>
    simp only [step] at h
    split at h
    · rename_i i hv
      split at h
      · split at h
        all_goals (try (simp at h))
        all_goals (subst h; obtain ⟨l1, l2, l3, l4, l5, l6⟩ := hl)
        all_goals (constructor <;> simp_all [drained])
        all_goals (first | omega | grind)
      · simp at h
    · simp at h
  | rcvFault e bg =>
    simp only [step] at h
    split at h
    · rename_i i hv
      simp at h; subst h; linv_close hl
    · simp at h
  | rcvFinish =>
    simp only [step] at h
    split at h
    · rename_i i hv
      split at h
      · simp at h
      · simp at h; subst h; linv_close hl
    · simp at h
  | mainReadSend =>
    simp only [step] at h
    split at h
    · rename_i k v hm hs
      split at h
      · have hc := hl.count k hm
        unfold mainGot at h
        cases v with
        | some e => simp at h; subst h; linv_close hl
        | none =>
          simp only at h
          split at h
          · split at h
            · simp at h; subst h; linv_close hl
            · simp at h
          · simp at h; subst h; linv_close hl
      · simp at h
    · simp at h
  | mainReadRecv =>
    simp only [step] at h
    split at h
    · rename_i k v hm hs
      split at h
      · have hc := hl.count k hm
        unfold mainGot at h
        cases v with
        | some e => simp at h; subst h; linv_close hl
        | none =>
          simp only at h
          split at h
          · split at h
            · simp at h; subst h; linv_close hl
            · simp at h
          · simp at h; subst h; linv_close hl
      · simp at h
    · simp at h
  | mainJoin =>
    simp only [step] at h
    split at h
    · simp at h; subst h; linv_close hl
    · simp at h
  | closeSend =>
    simp only [step] at h
    split at h
    · simp at h; subst h; linv_close hl
    · simp at h
  | closeRecvCall =>
    simp only [step] at h
    split at h
    · simp at h; subst h; linv_close hl
    · simp at h
  | closeSkipRecv =>
    simp only [step] at h
    split at h
    · simp at h; subst h; linv_close hl
    · simp at h
  | closeRecvRet =>
    simp only [step] at h
    split at h
    · simp at h; subst h; linv_close hl
    · simp at h
  | closeClose =>
    simp only [step] at h
    split at h
    · simp at h; subst h; linv_close hl
    · simp at h

theorem linv_reachable (cf : Bool) (A : List Answer) (s : PState)
    (h : LTS.Reachable (step cf A) (init A.length) s) : PInv cf A s ∧ LInv A s :=
  LTS.invariant (step cf A) (init A.length) (fun s => PInv cf A s ∧ LInv A s) ⟨pinv_init cf A, linv_init A⟩
    (fun s l s' hi hs => ⟨pinv_step cf A s l s' hi.1 hs, linv_step cf A s l s' hi.1 hi.2 hs⟩) s h

/-! ### progress -/

/-- moves that happen to the code out of the blue: a Send/Recv failing by itself, the stream ending,
    Send noticing the end.  Everything else is a statement of one of the three threads being executed,
    or the stream doing what it owes (`serve`: answer a request on the wire; `rcvStatus`: report its end). -/
def Label.spontaneous : Label → Bool
  | .reqSendFault _ | .reqSendEOF | .rcvFault _ _ | .streamEnd _ => true
  | _ => false

/-- the environment's lawful moves: the stream answers a request that is on the wire, or — once it has
    ended — makes the pending Recv return its status -/
def Label.envLaw : Label → Bool
  | .serve | .rcvStatus => true
  | _ => false

/-- an explicit scheduler: requester first, then receiver, then main -/
def nextMove (cf : Bool) (n : Nat) (s : PState) : Label :=
  match s.mpc with
  | .returned => .closeSend
  | .closing1 => if cf = true ∧ s.failed = true then .closeSkipRecv else .closeRecvCall
  | .closingRecv => .closeRecvRet
  | .closing2 => .closeClose
  | .closed => .closeClose
  | _ =>
    match s.rpc with
    | .send i => if i < n then .reqSend else .reqFinish
    | .signal _ => .reqSignal
    | .done =>
      match s.vpc with
      | .wait i =>
        if i < n then (if 0 < s.sem then .rcvTake else if s.cancelled then .rcvCancelled else .mainReadSend)
        else .rcvFinish
      | .recv i => if i < s.served then .rcvRecv else if s.ended.isSome then .rcvStatus else .serve
      | .done =>
        match s.mpc with
        | .joining => .mainJoin
        | _ => if s.sendErr.isSome then .mainReadSend else .mainReadRecv

theorem nextMove_not_spontaneous (cf : Bool) (n : Nat) (s : PState) : (nextMove cf n s).spontaneous = false := by
  unfold nextMove
  repeat' split
  all_goals rfl

theorem mainGot_isSome (s : PState) (k : Nat) (v : Option Err) (h : v = none → k = 1 → s.res.isSome = true) :
    (mainGot s k v).isSome = true := by
  unfold mainGot
  cases v with
  | some e => simp
  | none =>
    simp only
    split
    · rename_i hk
      have := h rfl hk
      cases hr : s.res with
      | none => simp [hr] at this
      | some r => simp
    · simp

set_option maxHeartbeats 1000000 in
/-- DEADLOCK FREEDOM: in every state that satisfies the invariants and is not `closed`, the move picked by
    `nextMove` is enabled -/
theorem progress (cf : Bool) (A : List Answer) (s : PState) (hi : PInv cf A s) (hl : LInv A s)
    (hne : s.mpc ≠ .closed) : (step cf A s (nextMove cf A.length s)).isSome = true := by
  obtain ⟨l1, l2, l3, l4, l5, l6⟩ := hl
  have hjoin := hi.joining
  have hjoined := hi.joined
  have htok := hi.tokens
  have hsig := hi.sig_le
  cases hm : s.mpc with
  | returned => simp [nextMove, hm, step]
  | closing1 =>
    simp only [nextMove, hm]
    split
    · rename_i hc; simp [step, hm, hc]
    · rename_i hc; simp [step, hm]; cases cf <;> simp_all
  | closingRecv => simp [nextMove, hm, step]
  | closing2 => simp [nextMove, hm, step]
  | closed => exact absurd hm hne
  | reading k =>
    have hc := l1 k hm
    simp only [nextMove, hm]
    cases hr : s.rpc with
    | send i => simp only; split <;> simp_all [step]
    | signal i => simp [step, hr]
    | done =>
      simp only
      cases hv : s.vpc with
      | wait i =>
        simp only
        have hw := hi.v_wait i hv
        split
        · rename_i hin
          split
          · simp_all [step]
          · rename_i hsem
            -- no token, receiver waiting for one although the requester is done: impossible while main is
            -- still reading unless the requester failed and its error is still in the channel
            have hrd := hi.reading k hm
            simp only [hrd.1, Bool.false_eq_true, ↓reduceIte]
            cases hse : s.sendErr with
            | none =>
              have := l4 hr (Or.inr ⟨hse, k, hm⟩)
              omega
            | some v =>
              cases v with
              | none =>
                have := l4 hr (Or.inl hse)
                omega
              | some e =>
                simp only [step, hm, hse]
                have : 0 < k := by omega
                simp only [this, ↓reduceIte]
                exact mainGot_isSome _ _ _ (by simp)
        · simp_all [step]
      | recv i =>
        simp only
        have hvr := hi.v_recv i hv
        split
        · rename_i hlt
          simp only [step, hv, hlt, ↓reduceIte]
          have : i < A.length := hvr.2.1
          rw [List.getElem?_eq_getElem this]
          cases A[i] <;> simp
        · rename_i hge
          split
          · rename_i he
            cases hen : s.ended with
            | none => simp [hen] at he
            | some c => simp [step, hv, hen]; omega
          · rename_i he
            have hen : s.ended = none := by cases hx : s.ended <;> simp_all
            simp [step, hen]; omega
      | done =>
        simp only
        have hd := hc.2
        simp only [drained, hr, hv, true_and] at hd
        split
        · rename_i hsome
          cases hse : s.sendErr with
          | none => simp [hse] at hsome
          | some v =>
            simp only [step, hm, hse]
            have : 0 < k := by omega
            simp only [this, ↓reduceIte]
            refine mainGot_isSome _ _ _ ?_
            intro hvn hk1
            subst hvn; subst hk1
            simp only
            have hre : s.recvErr = none := by
              cases hx : s.recvErr with
              | none => rfl
              | some w => simp [hse, hx] at hd
            exact l5 hv (Or.inr ⟨hre, 1, hm⟩)
        · rename_i hnone
          have hse : s.sendErr = none := by cases hx : s.sendErr <;> simp_all
          cases hre : s.recvErr with
          | none => simp [hse, hre] at hd; omega
          | some v =>
            simp only [step, hm, hre]
            have : 0 < k := by omega
            simp only [this, ↓reduceIte]
            refine mainGot_isSome _ _ _ ?_
            intro hvn hk1
            subst hvn
            exact l5 hv (Or.inl hre)
  | joining =>
    have hcan := hjoin hm
    simp only [nextMove, hm]
    cases hr : s.rpc with
    | send i => simp only; split <;> simp_all [step]
    | signal i => simp [step, hr]
    | done =>
      simp only
      cases hv : s.vpc with
      | wait i =>
        simp only
        split
        · split
          · simp_all [step]
          · simp_all [step]
        · simp_all [step]
      | recv i =>
        simp only
        have hvr := hi.v_recv i hv
        split
        · rename_i hlt
          simp only [step, hv, hlt, ↓reduceIte]
          have : i < A.length := hvr.2.1
          rw [List.getElem?_eq_getElem this]
          cases A[i] <;> simp
        · rename_i hge
          split
          · rename_i he
            cases hen : s.ended with
            | none => simp [hen] at he
            | some c => simp [step, hv, hen]; omega
          · rename_i he
            have hen : s.ended = none := by cases hx : s.ended <;> simp_all
            simp [step, hen]; omega
      | done => simp [step, hm, hr, hv]

theorem nextMove_envLaw (cf : Bool) (n : Nat) (s : PState) (h : (nextMove cf n s).envLaw = true) :
    ∃ i, s.vpc = .recv i ∧ s.served ≤ i := by
  unfold nextMove at h
  repeat' split at h
  all_goals (first | (simp [Label.envLaw] at h; done) | skip)
  all_goals (rename_i i hv _ _; exact ⟨i, hv, by omega⟩)

/-! ### termination -/

def rankR (n : Nat) : RPc → Nat
  | .send i => 2 * (n - i) + 2
  | .signal i => 2 * (n - i) + 1
  | .done => 0

def rankV (n : Nat) : VPc → Nat
  | .wait i => 2 * (n - i) + 2
  | .recv i => 2 * (n - i) + 1
  | .done => 0

def rankM : MPc → Nat
  | .reading k => 6 + k
  | .joining => 6
  | .returned => 5
  | .closing1 => 4
  | .closingRecv => 3
  | .closing2 => 2
  | .closed => 0

/-- decreases along EVERY step of the LTS -/
def rank (n : Nat) (s : PState) : Nat :=
  rankR n s.rpc + rankV n s.vpc + rankM s.mpc + (n - s.served) + (if s.ended = none then 1 else 0)

set_option maxHeartbeats 1000000 in
theorem rank_step (cf : Bool) (A : List Answer) (s : PState) (l : Label) (s' : PState)
    (hi : PInv cf A s) (h : step cf A s l = some s') : rank A.length s' < rank A.length s := by
  have hw := hi.wire_le
  have hsv := hi.served_le
  cases l with
  | mainReadSend =>
    simp only [step] at h
    split at h
    · split at h
      · unfold mainGot at h
        repeat' split at h
        all_goals (try (simp at h))
        all_goals (subst h; simp_all [rank, rankM]; try omega)
      · simp at h
    · simp at h
  | mainReadRecv =>
    simp only [step] at h
    split at h
    · split at h
      · unfold mainGot at h
        repeat' split at h
        all_goals (try (simp at h))
        all_goals (subst h; simp_all [rank, rankM]; try omega)
      · simp at h
    · simp at h
  | reqSignal =>
    simp only [step] at h
    split at h
    · rename_i i hr
      have := hi.r_signal i hr
      simp at h; subst h; simp_all [rank, rankR]; omega
    · simp at h
  | rcvRecv =>
    simp only [step] at h
    split at h
    · rename_i i hv
      have := hi.v_recv i hv
      repeat' split at h
      all_goals (try (simp at h))
      all_goals (subst h; simp_all [rank, rankV]; try omega)
    · simp at h
  | _ =>
    simp only [step] at h
    repeat' split at h
    all_goals (try (simp at h))
    all_goals (try subst h)
    all_goals (simp_all [rank, rankR, rankV, rankM])
    all_goals (try omega)

/-- every execution is finite: its length plus the rank of the state reached is bounded by the initial rank -/
theorem run_bounded (cf : Bool) (A : List Answer) : ∀ (ls : List Label) (s s' : PState), PInv cf A s →
    LTS.run (step cf A) s ls = some s' → ls.length + rank A.length s' ≤ rank A.length s := by
  intro ls
  induction ls with
  | nil => intro s s' _ h; simp [LTS.run] at h; subst h; simp
  | cons l ls ih =>
    intro s s' hi h
    simp only [LTS.run] at h
    cases hs : step cf A s l with
    | none => simp [hs] at h
    | some s1 =>
      rw [hs] at h
      have h1 := rank_step cf A s l s1 hi hs
      have h2 := ih s1 s' (pinv_step cf A s l s1 hi hs) h
      simp only [List.length_cons]
      omega

theorem rank_init_le (n : Nat) : rank n (init n) ≤ 5 * n + 13 := by
  unfold init
  split <;> simp [rank, rankR, rankV, rankM] <;> omega

/-- from every state satisfying the invariants, running `nextMove` (never a spontaneous fault) reaches `closed`;
    on the way the function has `returned` -/
theorem reaches_closed (cf : Bool) (A : List Answer) : ∀ (r : Nat) (s : PState), rank A.length s ≤ r →
    PInv cf A s → LInv A s →
    ∃ ls s', LTS.run (step cf A) s ls = some s' ∧ s'.mpc = .closed ∧ ∀ l ∈ ls, l.spontaneous = false := by
  intro r
  induction r with
  | zero =>
    intro s hr hi hl
    by_cases hc : s.mpc = .closed
    · exact ⟨[], s, rfl, hc, by simp⟩
    · have hp := progress cf A s hi hl hc
      cases hs : step cf A s (nextMove cf A.length s) with
      | none => simp [hs] at hp
      | some s1 => have := rank_step cf A s _ s1 hi hs; omega
  | succ r ih =>
    intro s hr hi hl
    by_cases hc : s.mpc = .closed
    · exact ⟨[], s, rfl, hc, by simp⟩
    · have hp := progress cf A s hi hl hc
      cases hs : step cf A s (nextMove cf A.length s) with
      | none => simp [hs] at hp
      | some s1 =>
        have hlt := rank_step cf A s _ s1 hi hs
        obtain ⟨ls, s', hrun, hcl, hall⟩ := ih s1 (by omega) (pinv_step cf A s _ s1 hi hs)
          (linv_step cf A s _ s1 hi hl hs)
        refine ⟨nextMove cf A.length s :: ls, s', ?_, hcl, ?_⟩
        · simp [LTS.run, hs, hrun]
        · intro l hl'
          cases hl' with
          | head => exact nextMove_not_spontaneous cf A.length s
          | tail _ hm => exact hall l hm

end GB.C05.Pipe
