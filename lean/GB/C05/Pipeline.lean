import GB.Base.LTS
import GB.C05.Model
/-
  C05 — reflection/client.go as a labelled transition system: the PIPELINED
  `execFileDescriptorRequests` (requester goroutine, receiver goroutine, semaphore, the two
  buffered error channels, the cancelling context, `wg.Wait`) followed by `client.close()`.

  The resolver model (`execBatch`) treats one batch as a sequential FIFO conversation; the theorems of
  `PipelineProofs.lean` show that every interleaving of this LTS returns what `execBatch` returns.

  * the target answers the requests on the wire in FIFO order, each answer a function of the whole
    conversation so far — so the i-th answer is `idealAnswers[i]` whatever the interleaving (`serve`);
  * stream-level faults are the environment's: a `Send`/`Recv` may return an error at any time
    (timeout, cancellation, a gRPC status ending the stream, EOF after it): `reqSendFault`, `rcvFault`.
    A fault that is not the consequence of the function's own `cancel()` sets the ghost flag
    `streamFault`.  A `Recv` that returns because its context ended can leave its read running in the
    background (`AdaptedClientStream.withCtx`): `bgRead`;
  * `client.failed` is set exactly where client.go sets it (a `Send`/`Recv` of the stream returned an
    error; NOT for an ErrorResponse or a response of the wrong type).
-/
namespace GB.C05.Pipe
open GB GB.C05

/-- the answers a FIFO target gives to the pipelined requests, each from the conversation so far;
    unlike `execBatch` it does not stop at an aborting answer (the target does not know the client stopped reading) -/
def idealAnswers (pol : Policy) : History → List Request → List Answer
  | _, [] => []
  | h, q :: rest => pol h q :: idealAnswers pol (h ++ [(q, pol h q)]) rest

/-- the receiver loop + the unmarshal loop of `Resolver.fileDescriptors` over a list of answers -/
def collect : List Answer → List DFile → Bool → Except Err (List DFile)
  | [], acc, poison => if poison then .error ⟨codeUnknown⟩ else .ok acc
  | a :: rest, acc, poison =>
    match a with
    | .files fs => collect rest (acc ++ fs) poison
    | .garbled _ => collect rest acc true
    | .error c => .error ⟨c⟩
    | .listing _ => .error ⟨codeUnknown⟩
    | .other _ => .error ⟨codeUnknown⟩

inductive RPc where
  | send (i : Nat)      -- about to call sendTimeout(requests[i]) (or to leave the loop when i = n)
  | signal (i : Nat)    -- Send(i) returned nil, about to `semaphore <- struct{}{}`
  | done                -- `sendErr <- …` executed, wg.Done
  deriving DecidableEq, Repr

inductive VPc where
  | wait (i : Nat)      -- in the select on semaphore / ctx.Done for response i (or leaving the loop when i = n)
  | recv (i : Nat)      -- inside recvTimeout for response i
  | done
  deriving DecidableEq, Repr

inductive MPc where
  | reading (k : Nat)   -- `for range 2`: k receives still to do
  | joining             -- result decided, deferred cancel() done, in wg.Wait()
  | returned            -- execFileDescriptorRequests returned
  | closing1            -- close(): CloseSend done
  | closingRecv         -- close(): the graceful Recv is in flight
  | closing2            -- close(): about to Close()
  | closed
  deriving DecidableEq, Repr

structure PState where
  rpc : RPc
  vpc : VPc
  mpc : MPc
  wire : Nat                       -- requests written to the stream
  served : Nat                     -- responses the target has produced
  sem : Nat                        -- tokens in the semaphore channel
  sig : Nat                        -- ghost: tokens ever pushed
  taken : Nat                      -- ghost: tokens ever taken
  sendErr : Option (Option Err)    -- channel of capacity 1: empty / nil / error
  recvErr : Option (Option Err)
  acc : List DFile                 -- receiver's `fileDescriptors`
  poison : Bool                    -- an undecodable blob is among them
  res : Option (List DFile × Bool) -- `res = recvd`
  cancelled : Bool                 -- the function's context
  result : Option (Except Err (List DFile))
  failed : Bool                    -- client.failed
  bgRead : Bool                    -- a read of the stream is still running in the background
  streamFault : Bool               -- ghost: a stream-level fault happened before cancel()
  deriving Repr

inductive Label where
  | reqSend | reqSendFault (e : Err) | reqSignal | reqFinish
  | serve
  | rcvTake | rcvCancelled | rcvRecv | rcvFault (e : Err) (bg : Bool) | rcvFinish
  | mainReadSend | mainReadRecv | mainJoin
  | closeSend | closeRecvCall | closeSkipRecv | closeRecvRet | closeClose
  deriving DecidableEq, Repr

def codeCanceled : Nat := 1

/-- `len(requests) == 0`: no goroutines at all -/
def init (n : Nat) : PState :=
  if n = 0 then
    { rpc := .done, vpc := .done, mpc := .returned, wire := 0, served := 0, sem := 0, sig := 0, taken := 0,
      sendErr := none, recvErr := none, acc := [], poison := false, res := none, cancelled := false,
      result := some (.ok []), failed := false, bgRead := false, streamFault := false }
  else
    { rpc := .send 0, vpc := .wait 0, mpc := .reading 2, wire := 0, served := 0, sem := 0, sig := 0, taken := 0,
      sendErr := none, recvErr := none, acc := [], poison := false, res := none, cancelled := false,
      result := none, failed := false, bgRead := false, streamFault := false }

/-- main consumed a value from one of the two channels -/
def mainGot (s : PState) (k : Nat) (v : Option Err) : Option PState :=
  match v with
  | some e => some { s with mpc := .joining, result := some (.error e), cancelled := true }
  | none =>
    if k = 1 then
      match s.res with
      | some (fs, p) =>
        some { s with mpc := .joining, cancelled := true,
                      result := some (if p then .error ⟨codeUnknown⟩ else .ok fs) }
      | none => none
    else some { s with mpc := .reading (k - 1) }

/-- `closeFixed = true`: client.close() as it is now (graceful Recv only when no call has failed);
    `false`: as it was (always Recv). -/
def step (closeFixed : Bool) (A : List Answer) : LTS.Step PState Label := fun s l =>
  let n := A.length
  match l with
  | .reqSend =>
    match s.rpc with
    | .send i => if i < n then some { s with rpc := .signal i, wire := s.wire + 1 } else none
    | _ => none
  | .reqSendFault e =>
    match s.rpc with
    | .send i =>
      if i < n then
        some { s with rpc := .done, sendErr := some (some e), failed := true,
                      streamFault := s.streamFault || !s.cancelled }
      else none
    | _ => none
  | .reqSignal =>
    match s.rpc with
    | .signal i => some { s with rpc := .send (i + 1), sem := s.sem + 1, sig := s.sig + 1 }
    | _ => none
  | .reqFinish =>
    match s.rpc with
    | .send i => if i < n then none else some { s with rpc := .done, sendErr := some none }
    | _ => none
  | .serve => if s.served < s.wire then some { s with served := s.served + 1 } else none
  | .rcvTake =>
    match s.vpc with
    | .wait i =>
      if i < n ∧ 0 < s.sem then some { s with vpc := .recv i, sem := s.sem - 1, taken := s.taken + 1 } else none
    | _ => none
  | .rcvCancelled =>
    match s.vpc with
    | .wait i =>
      if i < n ∧ s.cancelled = true then
        some { s with vpc := .done, recvErr := some (some ⟨codeCanceled⟩) }
      else none
    | _ => none
  | .rcvRecv =>
    match s.vpc with
    | .recv i =>
      if i < s.served then
        match A[i]? with
        | some (.files fs) => some { s with vpc := .wait (i + 1), acc := s.acc ++ fs }
        | some (.garbled _) => some { s with vpc := .wait (i + 1), poison := true }
        | some (.error c) => some { s with vpc := .done, recvErr := some (some ⟨c⟩) }
        | some (.listing _) => some { s with vpc := .done, recvErr := some (some ⟨codeUnknown⟩) }
        | some (.other _) => some { s with vpc := .done, recvErr := some (some ⟨codeUnknown⟩) }
        | none => none
      else none
    | _ => none
  | .rcvFault e bg =>
    match s.vpc with
    | .recv _ =>
      some { s with vpc := .done, recvErr := some (some e), failed := true, bgRead := bg,
                    streamFault := s.streamFault || !s.cancelled }
    | _ => none
  | .rcvFinish =>
    match s.vpc with
    | .wait i =>
      if i < n then none
      else some { s with vpc := .done, res := some (s.acc, s.poison), recvErr := some none }
    | _ => none
  | .mainReadSend =>
    match s.mpc, s.sendErr with
    | .reading k, some v => if 0 < k then mainGot { s with sendErr := none } k v else none
    | _, _ => none
  | .mainReadRecv =>
    match s.mpc, s.recvErr with
    | .reading k, some v => if 0 < k then mainGot { s with recvErr := none } k v else none
    | _, _ => none
  | .mainJoin =>
    if s.mpc = .joining ∧ s.rpc = .done ∧ s.vpc = .done then some { s with mpc := .returned } else none
  | .closeSend => if s.mpc = .returned then some { s with mpc := .closing1 } else none
  | .closeRecvCall =>
    if s.mpc = .closing1 ∧ (closeFixed = false ∨ s.failed = false) then some { s with mpc := .closingRecv } else none
  | .closeSkipRecv =>
    if s.mpc = .closing1 ∧ closeFixed = true ∧ s.failed = true then some { s with mpc := .closing2 } else none
  | .closeRecvRet => if s.mpc = .closingRecv then some { s with mpc := .closing2 } else none
  | .closeClose => if s.mpc = .closing2 then some { s with mpc := .closed } else none

/-- reads of the stream that are in flight: the receiver's, the graceful one of close(), one left behind -/
def reads (s : PState) : Nat :=
  (match s.vpc with | .recv _ => 1 | _ => 0) + (if s.mpc = .closingRecv then 1 else 0) + (if s.bgRead then 1 else 0)

end GB.C05.Pipe
