import GB.C05.Pipeline
/-
  C05 — the pipelined client refines the sequential FIFO conversation (proofs).
-/
set_option linter.unusedSimpArgs false
set_option linter.unusedVariables false
namespace GB.C05.Pipe
open GB GB.C05

/-! ### the sequential batch is `collect` over the ideal answers -/

theorem execBatch_collect (pol : Policy) : ∀ (reqs : List Request) (h : History) (acc : List DFile) (p : Bool),
    collect (idealAnswers pol h reqs) acc p =
      match (execBatch pol h reqs).2 with
      | .ok more => if p then .error ⟨codeUnknown⟩ else .ok (acc ++ more)
      | .error e => .error e := by
  intro reqs
  induction reqs with
  | nil => intro h acc p; simp [idealAnswers, collect, execBatch]
  | cons q rest ih =>
    intro h acc p
    unfold idealAnswers execBatch
    simp only
    cases ha : pol h q with
    | files fs =>
      simp only [collect]
      rw [ih]
      cases hr : execBatch pol (h ++ [(q, Answer.files fs)]) rest with
      | mk h2 r => cases r <;> simp [List.append_assoc]
    | garbled fs =>
      simp only [collect]
      rw [ih]
      cases hr : execBatch pol (h ++ [(q, Answer.garbled fs)]) rest with
      | mk h2 r => cases r <;> simp
    | error c => simp [collect]
    | listing l => simp [collect]
    | other t => simp [collect]

theorem idealAnswers_length (pol : Policy) : ∀ (reqs : List Request) (h : History),
    (idealAnswers pol h reqs).length = reqs.length := by
  intro reqs
  induction reqs with
  | nil => intro h; rfl
  | cons q rest ih => intro h; simp [idealAnswers, ih]

/-- the sequential result IS the receiver loop over the ideal answers -/
theorem execBatch_eq_collect (pol : Policy) (h : History) (reqs : List Request) :
    (execBatch pol h reqs).2 = collect (idealAnswers pol h reqs) [] false := by
  rw [execBatch_collect]
  cases (execBatch pol h reqs).2 <;> simp

/-! ### the invariant -/

structure PInv (cf : Bool) (A : List Answer) (s : PState) : Prop where
  wire_le : s.wire ≤ A.length
  sig_le : s.sig ≤ s.wire
  served_le : s.served ≤ s.wire
  tokens : s.sem + s.taken = s.sig
  r_send : ∀ i, s.rpc = .send i → s.sig = i ∧ s.wire = i
  r_signal : ∀ i, s.rpc = .signal i → s.sig = i ∧ s.wire = i + 1
  v_wait : ∀ i, s.vpc = .wait i → s.taken = i ∧ collect A [] false = collect (A.drop i) s.acc s.poison
  v_recv : ∀ i, s.vpc = .recv i →
    s.taken = i + 1 ∧ i < A.length ∧ collect A [] false = collect (A.drop i) s.acc s.poison
  res_ok : ∀ fs p, s.res = some (fs, p) → collect A [] false = if p then .error ⟨codeUnknown⟩ else .ok fs
  recv_err : ∀ e, s.recvErr = some (some e) →
    s.cancelled = true ∨ s.streamFault = true ∨ collect A [] false = .error e
  send_err : ∀ e, s.sendErr = some (some e) → s.cancelled = true ∨ s.streamFault = true
  reading : ∀ k, s.mpc = .reading k → s.cancelled = false ∧ s.result = none
  result_ok : ∀ l, s.result = some (.ok l) → collect A [] false = .ok l
  result_err : ∀ e, s.result = some (.error e) → s.streamFault = true ∨ collect A [] false = .error e
  joined : s.mpc ≠ .joining → (∀ k, s.mpc ≠ .reading k) → s.rpc = .done ∧ s.vpc = .done
  bg : s.bgRead = true → s.vpc = .done ∧ s.failed = true
  graceful : cf = true → s.mpc = .closingRecv → s.failed = false
  joining : s.mpc = .joining → s.cancelled = true

theorem pinv_init (cf : Bool) (A : List Answer) : PInv cf A (init A.length) := by
  unfold init
  by_cases hn : A.length = 0
  · have hA : A = [] := List.length_eq_zero_iff.1 hn
    subst hA
    constructor <;> simp [collect]
  · simp only [hn, ↓reduceIte]
    constructor <;> simp [collect]

theorem drop_of_getElem? {α : Type} : ∀ {A : List α} {i : Nat} {a : α}, A[i]? = some a → A.drop i = a :: A.drop (i + 1) := by
  intro A
  induction A with
  | nil => intro i a h; simp at h
  | cons x rest ih =>
    intro i a h
    cases i with
    | zero => simp at h; subst h; simp
    | succ j => simp at h; simp [ih h]

macro "pinv_close" hi:ident : tactic => `(tactic|
  (obtain ⟨h1, h2, h3, h4, h5, h6, h7, h8, h9, h10, h11, h12, h13, h14, h15, h16, h17, h18⟩ := $hi
   constructor <;> simp_all <;> first | omega | grind))

theorem pinv_mainGot (cf : Bool) (A : List Answer) (s s' : PState) (k : Nat) (v : Option Err)
    (hi : PInv cf A s) (hk : s.mpc = .reading k)
    (hv : ∀ e, v = some e → s.streamFault = true ∨ collect A [] false = .error e)
    (h : mainGot s k v = some s') : PInv cf A s' := by
  have hrd := hi.reading k hk
  unfold mainGot at h
  cases v with
  | some e =>
    simp at h; subst h
    have := hv e rfl
    obtain ⟨h1, h2, h3, h4, h5, h6, h7, h8, h9, h10, h11, h12, h13, h14, h15, h16, h17, h18⟩ := hi
    constructor <;> simp_all
  | none =>
    simp only at h
    split at h
    · split at h
      · rename_i fs p hres
        simp at h; subst h
        have hr := hi.res_ok fs p hres
        obtain ⟨h1, h2, h3, h4, h5, h6, h7, h8, h9, h10, h11, h12, h13, h14, h15, h16, h17, h18⟩ := hi
        constructor <;> simp_all
        all_goals (cases p <;> simp_all)
      · simp at h
    · simp at h; subst h
      obtain ⟨h1, h2, h3, h4, h5, h6, h7, h8, h9, h10, h11, h12, h13, h14, h15, h16, h17, h18⟩ := hi
      constructor <;> simp_all

set_option maxHeartbeats 4000000 in
theorem pinv_step (cf : Bool) (A : List Answer) (s : PState) (l : Label) (s' : PState)
    (hi : PInv cf A s) (h : step cf A s l = some s') : PInv cf A s' := by
  cases l with
  | reqSend =>
    simp only [step] at h
    split at h
    · rename_i i hr
      split at h
      · simp at h; subst h
        have := hi.r_send i hr
        pinv_close hi
      · simp at h
    · simp at h
  | reqSendFault e =>
    simp only [step] at h
    split at h
    · rename_i i hr
      split at h
      · simp at h; subst h
        have := hi.r_send i hr
        obtain ⟨h1, h2, h3, h4, h5, h6, h7, h8, h9, h10, h11, h12, h13, h14, h15, h16, h17, h18⟩ := hi
        constructor <;> simp_all
        all_goals (first | omega | (cases hc : s.cancelled <;> simp_all <;> grind))
      · simp at h
    · simp at h
  | reqSignal =>
    simp only [step] at h
    split at h
    · rename_i i hr
      simp at h; subst h
      have := hi.r_signal i hr
      pinv_close hi
    · simp at h
  | reqFinish =>
    simp only [step] at h
    split at h
    · rename_i i hr
      split at h
      · simp at h
      · simp at h; subst h
        have := hi.r_send i hr
        pinv_close hi
    · simp at h
  | serve =>
    simp only [step] at h
    split at h
    · simp at h; subst h
      pinv_close hi
    · simp at h
  | rcvTake =>
    simp only [step] at h
    split at h
    · rename_i i hv
      split at h
      · simp at h; subst h
        have := hi.v_wait i hv
        pinv_close hi
      · simp at h
    · simp at h
  | rcvCancelled =>
    simp only [step] at h
    split at h
    · rename_i i hv
      split at h
      · simp at h; subst h
        have := hi.v_wait i hv
        pinv_close hi
      · simp at h
    · simp at h
  | rcvRecv =>
    simp only [step] at h
    split at h
    · rename_i i hv
      have hvr := hi.v_recv i hv
      split at h
      · split at h
        all_goals (try (simp at h))
        all_goals (rename_i hget; subst h; have hd := drop_of_getElem? hget; rw [hd] at hvr; simp only [collect] at hvr)
        all_goals (obtain ⟨h1, h2, h3, h4, h5, h6, h7, h8, h9, h10, h11, h12, h13, h14, h15, h16, h17, h18⟩ := hi)
        all_goals (constructor <;> simp_all)
        all_goals (first | omega | grind)
      · simp at h
    · simp at h
  | rcvFault e bg =>
    simp only [step] at h
    split at h
    · rename_i i hv
      simp at h; subst h
      obtain ⟨h1, h2, h3, h4, h5, h6, h7, h8, h9, h10, h11, h12, h13, h14, h15, h16, h17, h18⟩ := hi
      constructor <;> simp_all
      all_goals (first | omega | (cases hc : s.cancelled <;> simp_all <;> grind))
    · simp at h
  | rcvFinish =>
    simp only [step] at h
    split at h
    · rename_i i hv
      split at h
      · simp at h
      · rename_i hge
        simp at h; subst h
        have hw := hi.v_wait i hv
        have hdrop : A.drop i = [] := List.drop_eq_nil_iff.2 (by omega)
        have hfin : collect A [] false = if s.poison = true then .error ⟨codeUnknown⟩ else .ok s.acc := by
          rw [hw.2, hdrop]; simp [collect]
        clear hdrop hw
        obtain ⟨h1, h2, h3, h4, h5, h6, h7, h8, h9, h10, h11, h12, h13, h14, h15, h16, h17, h18⟩ := hi
        constructor <;> simp_all
        all_goals (first | omega | grind)
    · simp at h
  | mainReadSend =>
    simp only [step] at h
    split at h
    · rename_i k v hm hs
      split at h
      · have hrd := hi.reading k hm
        have hse := hi.send_err
        refine pinv_mainGot cf A _ s' k v ?_ (by simpa using hm) ?_ h
        · obtain ⟨h1, h2, h3, h4, h5, h6, h7, h8, h9, h10, h11, h12, h13, h14, h15, h16, h17, h18⟩ := hi
          constructor <;> simp_all
        · intro e he; subst he
          have := hse e hs
          simp_all
      · simp at h
    · simp at h
  | mainReadRecv =>
    simp only [step] at h
    split at h
    · rename_i k v hm hs
      split at h
      · have hrd := hi.reading k hm
        have hre := hi.recv_err
        refine pinv_mainGot cf A _ s' k v ?_ (by simpa using hm) ?_ h
        · obtain ⟨h1, h2, h3, h4, h5, h6, h7, h8, h9, h10, h11, h12, h13, h14, h15, h16, h17, h18⟩ := hi
          constructor <;> simp_all
        · intro e he; subst he
          have := hre e hs
          simp_all
      · simp at h
    · simp at h
  | mainJoin =>
    simp only [step] at h
    split at h
    · simp at h; subst h; pinv_close hi
    · simp at h
  | closeSend =>
    simp only [step] at h
    split at h
    · simp at h; subst h; pinv_close hi
    · simp at h
  | closeRecvCall =>
    simp only [step] at h
    split at h
    · simp at h; subst h; pinv_close hi
    · simp at h
  | closeSkipRecv =>
    simp only [step] at h
    split at h
    · simp at h; subst h; pinv_close hi
    · simp at h
  | closeRecvRet =>
    simp only [step] at h
    split at h
    · simp at h; subst h; pinv_close hi
    · simp at h
  | closeClose =>
    simp only [step] at h
    split at h
    · simp at h; subst h; pinv_close hi
    · simp at h


/-- the invariant holds in every reachable state of every interleaving -/
theorem pinv_reachable (cf : Bool) (A : List Answer) (s : PState)
    (h : LTS.Reachable (step cf A) (init A.length) s) : PInv cf A s :=
  LTS.invariant (step cf A) (init A.length) (PInv cf A) (pinv_init cf A)
    (fun s l s' hi hs => pinv_step cf A s l s' hi hs) s h

/-- the target of the LTS is the history-dependent one: its i-th answer is the policy applied to the
    conversation so far (the requests and answers before it, in FIFO order) -/
theorem idealAnswers_spec (pol : Policy) : ∀ (reqs : List Request) (h : History) (i : Nat) (q : Request),
    reqs[i]? = some q →
      (idealAnswers pol h reqs)[i]? = some (pol (h ++ (reqs.zip (idealAnswers pol h reqs)).take i) q) := by
  intro reqs
  induction reqs with
  | nil => intro h i q hq; simp at hq
  | cons q0 rest ih =>
    intro h i q hq
    cases i with
    | zero => simp at hq; subst hq; simp [idealAnswers]
    | succ j =>
      simp at hq
      have := ih (h ++ [(q0, pol h q0)]) j q hq
      simp only [idealAnswers, List.getElem?_cons_succ, List.zip_cons_cons, List.take_succ_cons]
      rw [this]
      simp [List.append_assoc]

/-- stream reads in flight never exceed one when close() skips its Recv on a failed stream -/
theorem reads_le_one (A : List Answer) (s : PState) (hi : PInv true A s) : reads s ≤ 1 := by
  unfold reads
  obtain ⟨h1, h2, h3, h4, h5, h6, h7, h8, h9, h10, h11, h12, h13, h14, h15, h16, h17, h18⟩ := hi
  cases hb : s.bgRead
  · by_cases hm : s.mpc = .closingRecv
    · have := h15 (by rw [hm]; simp) (by intro k; rw [hm]; simp)
      simp [hm, this.2]
    · simp [hm]
      split <;> omega
  · have hb' := h16 hb
    have hm : s.mpc ≠ .closingRecv := by
      intro hm
      have := h17 rfl hm
      rw [hb'.2] at this
      exact absurd this (by simp)
    simp [hm, hb'.1]

end GB.C05.Pipe
