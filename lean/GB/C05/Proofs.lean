import GB.C05.Spec
/-
  C05 — helper lemmas for the property theorems.
-/
namespace GB.C05
open GB

end GB.C05
