import GB.C05.Spec
/-
  C05 — helper lemmas for the property theorems (core Lean only).
-/
set_option linter.unusedSimpArgs false
set_option linter.unusedVariables false
namespace GB.C05
open GB

/-! ### listServiceNames -/

theorem mem_listFilter (cfg : Cfg) : ∀ (raw processed : List Name) (n : Name),
    n ∈ listFilter cfg processed raw ↔
      (n ∈ raw ∧ isValidFullName n = true ∧ ignored cfg n = false ∧ n ∉ processed) := by
  intro raw
  induction raw with
  | nil => intro p n; simp [listFilter]
  | cons s rest ih =>
    intro p n
    unfold listFilter
    by_cases hv : isValidFullName s = true
    · by_cases hp : s ∈ p
      · simp only [hv, hp, Bool.not_true, Bool.false_eq_true, ↓reduceIte, ih, List.mem_cons]
        constructor
        · rintro ⟨a, b, c, d⟩; exact ⟨Or.inr a, b, c, d⟩
        · rintro ⟨a | a, b, c, d⟩
          · subst a; exact absurd hp d
          · exact ⟨a, b, c, d⟩
      · by_cases hi : ignored cfg s = true
        · simp only [hv, hp, hi, Bool.not_true, Bool.false_eq_true, ↓reduceIte, ih, List.mem_cons]
          constructor
          · rintro ⟨a, b, c, d⟩; exact ⟨Or.inr a, b, c, fun h => d (Or.inr h)⟩
          · rintro ⟨a | a, b, c, d⟩
            · subst a; rw [hi] at c; exact absurd c (by decide)
            · refine ⟨a, b, c, ?_⟩
              rintro (h | h)
              · subst h; rw [hi] at c; exact absurd c (by decide)
              · exact d h
        · have hi' : ignored cfg s = false := by cases h : ignored cfg s <;> simp_all
          simp only [hv, hp, hi, Bool.not_true, Bool.false_eq_true, ↓reduceIte, List.mem_cons, ih]
          constructor
          · rintro (a | ⟨a, b, c, d⟩)
            · subst a; exact ⟨Or.inl rfl, hv, hi', hp⟩
            · exact ⟨Or.inr a, b, c, fun h => d (Or.inr h)⟩
          · rintro ⟨a | a, b, c, d⟩
            · exact Or.inl a
            · by_cases e : n = s
              · exact Or.inl e
              · refine Or.inr ⟨a, b, c, ?_⟩
                rintro (h | h)
                · exact e h
                · exact d h
    · have hv' : isValidFullName s = false := by cases h : isValidFullName s <;> simp_all
      simp only [hv', Bool.not_false, ↓reduceIte, ih, List.mem_cons]
      constructor
      · rintro ⟨a, b, c, d⟩; exact ⟨Or.inr a, b, c, d⟩
      · rintro ⟨a | a, b, c, d⟩
        · subst a; rw [hv'] at b; exact absurd b (by decide)
        · exact ⟨a, b, c, d⟩

theorem nodup_listFilter (cfg : Cfg) : ∀ (raw processed : List Name),
    (listFilter cfg processed raw).Nodup := by
  intro raw
  induction raw with
  | nil => intro p; simp [listFilter]
  | cons s rest ih =>
    intro p
    unfold listFilter
    split
    · exact ih p
    · split
      · exact ih p
      · split
        · exact ih _
        · rw [List.nodup_cons]
          refine ⟨?_, ih _⟩
          intro h
          have := (mem_listFilter cfg rest (s :: p) s).1 h
          exact this.2.2.2 (List.mem_cons_self)

/-! ### de-duplication by file name -/

theorem mem_dedupFiles : ∀ (l : List DFile) (p : List Name) (f : DFile),
    f ∈ dedupFiles p l → f ∈ l ∧ f.name ∉ p := by
  intro l
  induction l with
  | nil => intro p f h; simp [dedupFiles] at h
  | cons g rest ih =>
    intro p f h
    unfold dedupFiles at h
    split at h
    · have := ih p f h; exact ⟨List.mem_cons_of_mem _ this.1, this.2⟩
    · rename_i hg
      rcases List.mem_cons.1 h with e | h'
      · subst e; exact ⟨List.mem_cons_self, hg⟩
      · have := ih _ f h'
        exact ⟨List.mem_cons_of_mem _ this.1, fun hp => this.2 (List.mem_cons_of_mem _ hp)⟩

theorem names_dedupFiles : ∀ (l : List DFile) (p : List Name) (n : Name),
    n ∈ fileNames (dedupFiles p l) ↔ (n ∈ fileNames l ∧ n ∉ p) := by
  intro l
  induction l with
  | nil => intro p n; simp [dedupFiles, fileNames]
  | cons g rest ih =>
    intro p n
    unfold dedupFiles
    split
    · rename_i hg
      rw [ih]
      simp only [fileNames, List.map_cons, List.mem_cons]
      constructor
      · rintro ⟨a, b⟩; exact ⟨Or.inr a, b⟩
      · rintro ⟨a | a, b⟩
        · subst a; exact absurd hg b
        · exact ⟨a, b⟩
    · rename_i hg
      simp only [fileNames, List.map_cons, List.mem_cons] at ih ⊢
      rw [ih]
      simp only [List.mem_cons, not_or]
      constructor
      · rintro (a | ⟨a, b, c⟩)
        · subst a; exact ⟨Or.inl rfl, hg⟩
        · exact ⟨Or.inr a, c⟩
      · rintro ⟨a | a, b⟩
        · exact Or.inl a
        · by_cases e : n = g.name
          · exact Or.inl e
          · exact Or.inr ⟨a, e, b⟩

theorem nodup_dedupFiles : ∀ (l : List DFile) (p : List Name),
    (fileNames (dedupFiles p l)).Nodup := by
  intro l
  induction l with
  | nil => intro p; simp [dedupFiles, fileNames]
  | cons g rest ih =>
    intro p
    unfold dedupFiles
    split
    · exact ih p
    · simp only [fileNames, List.map_cons]
      rw [List.nodup_cons]
      refine ⟨?_, ih _⟩
      intro h
      have := (names_dedupFiles rest (g.name :: p) g.name).1 h
      exact this.2 List.mem_cons_self

/-- the first file of every name survives: what the registry holds for a name is what came first -/
theorem dedupFiles_nil_names (l : List DFile) (n : Name) :
    n ∈ fileNames (dedupFiles [] l) ↔ n ∈ fileNames l := by
  rw [names_dedupFiles]; simp

/-! ### missing-set bookkeeping -/

theorem mem_growNames (present : List Name) : ∀ (ds m : List Name) (d : Name),
    d ∈ growNames present m ds ↔ (d ∈ m ∨ (d ∈ ds ∧ d ∉ present)) := by
  intro ds
  induction ds with
  | nil => intro m d; simp [growNames]
  | cons x rest ih =>
    intro m d
    unfold growNames
    split
    · rename_i hx
      rw [ih]
      constructor
      · rintro (a | ⟨a, b⟩)
        · exact Or.inl a
        · exact Or.inr ⟨List.mem_cons_of_mem _ a, b⟩
      · rintro (a | ⟨a, b⟩)
        · exact Or.inl a
        · rcases List.mem_cons.1 a with e | a'
          · subst e
            rcases hx with h | h
            · exact absurd h b
            · exact Or.inl h
          · exact Or.inr ⟨a', b⟩
    · rename_i hx
      rw [ih]
      simp only [List.mem_append, List.mem_singleton, List.mem_cons, List.not_mem_nil, or_false]
      constructor
      · rintro ((a | a) | ⟨a, b⟩)
        · exact Or.inl a
        · subst a; exact Or.inr ⟨Or.inl rfl, fun h => hx (Or.inl h)⟩
        · exact Or.inr ⟨Or.inr a, b⟩
      · rintro (a | ⟨a | a, b⟩)
        · exact Or.inl (Or.inl a)
        · exact Or.inl (Or.inr a)
        · exact Or.inr ⟨a, b⟩

theorem mem_growMissing (fs : List DFile) (present m : List Name) (d : Name) :
    d ∈ growMissing fs present m ↔ (d ∈ m ∨ ((∃ f ∈ fs, d ∈ f.deps) ∧ d ∉ present)) := by
  unfold growMissing
  rw [mem_growNames]
  simp only [List.mem_flatMap]

theorem mem_shrinkMissing (fs : List DFile) (m : List Name) (d : Name) :
    d ∈ shrinkMissing fs m ↔ (d ∈ m ∧ d ∉ fileNames fs) := by
  unfold shrinkMissing
  simp [List.mem_filter]

/-! ### one pipelined batch -/

theorem execBatch_ok (pol : Policy) : ∀ (reqs : List Request) (h h' : History) (got : List DFile),
    execBatch pol h reqs = (h', .ok got) →
      (∀ f ∈ got, ∃ h'' q fs, q ∈ reqs ∧ pol h'' q = .files fs ∧ f ∈ fs) ∧
      (∀ q ∈ reqs, ∃ h'' fs, pol h'' q = .files fs ∧ ∀ f ∈ fs, f ∈ got) := by
  intro reqs
  induction reqs with
  | nil =>
    intro h h' got he
    simp only [execBatch, Prod.mk.injEq, Except.ok.injEq] at he
    rcases he with ⟨_, rfl⟩
    simp
  | cons q rest ih =>
    intro h h' got he
    unfold execBatch at he
    simp only at he
    cases ha : pol h q with
    | files fs =>
      simp only [ha] at he
      cases hr : execBatch pol (h ++ [(q, Answer.files fs)]) rest with
      | mk h2 r =>
        cases r with
        | error e => simp [hr] at he
        | ok more =>
          simp only [hr, Prod.mk.injEq, Except.ok.injEq] at he
          rcases he with ⟨_, rfl⟩
          have := ih _ _ _ hr
          constructor
          · intro f hf
            rcases List.mem_append.1 hf with hf | hf
            · exact ⟨h, q, fs, List.mem_cons_self, ha, hf⟩
            · rcases this.1 f hf with ⟨h'', q', fs', a, b, c⟩
              exact ⟨h'', q', fs', List.mem_cons_of_mem _ a, b, c⟩
          · intro q' hq'
            rcases List.mem_cons.1 hq' with e | hq'
            · subst e
              exact ⟨h, fs, ha, fun f hf => List.mem_append_left _ hf⟩
            · rcases this.2 q' hq' with ⟨h'', fs', a, b⟩
              exact ⟨h'', fs', a, fun f hf => List.mem_append_right _ (b f hf)⟩
    | garbled fs =>
      simp only [ha] at he
      cases hr : execBatch pol (h ++ [(q, Answer.garbled fs)]) rest with
      | mk h2 r => cases r <;> simp [hr] at he
    | error c => simp [ha] at he
    | listing l => simp [ha] at he
    | other t => simp [ha] at he

theorem execBatch_succeeds (pol : Policy) : ∀ (reqs : List Request) (h : History),
    (∀ q ∈ reqs, ∀ h'', ∃ fs, pol h'' q = .files fs) →
      ∃ h' got, execBatch pol h reqs = (h', .ok got) := by
  intro reqs
  induction reqs with
  | nil => intro h _; exact ⟨h, [], rfl⟩
  | cons q rest ih =>
    intro h hall
    rcases hall q List.mem_cons_self h with ⟨fs, ha⟩
    rcases ih (h ++ [(q, Answer.files fs)]) (fun q' hq' => hall q' (List.mem_cons_of_mem _ hq')) with ⟨h', got, hr⟩
    refine ⟨h', fs ++ got, ?_⟩
    unfold execBatch
    simp only [ha, hr]

/-! ### the BFS of retrieveDependencies: what holds for EVERY answering policy -/

structure SafeInv (s : Bfs) : Prop where
  nodup : (fileNames s.descriptors).Nodup
  present : ∀ n, n ∈ s.present ↔ n ∈ fileNames s.descriptors
  deps : ∀ f ∈ s.descriptors, ∀ d ∈ f.deps, d ∈ s.present ∨ d ∈ s.missing

theorem fileNames_append (a b : List DFile) : fileNames (a ++ b) = fileNames a ++ fileNames b := by
  simp [fileNames]

theorem mem_fileNames {fs : List DFile} {n : Name} : n ∈ fileNames fs ↔ ∃ f ∈ fs, f.name = n := by
  simp [fileNames]

theorem safeInv_next (s : Bfs) (h : History) (got : List DFile) (hs : SafeInv s)
    (hshrink : shrinkMissing (dedupFiles [] got) s.missing = []) :
    SafeInv (nextState (dedupFiles []) h got s) := by
  have hall : ∀ m ∈ s.missing, m ∈ fileNames (dedupFiles [] got) := by
    intro m hm
    by_cases hin : m ∈ fileNames (dedupFiles [] got)
    · exact hin
    · have : m ∈ shrinkMissing (dedupFiles [] got) s.missing := (mem_shrinkMissing _ _ _).2 ⟨hm, hin⟩
      rw [hshrink] at this; exact absurd this (by simp)
  constructor
  · -- nodup
    show (fileNames (s.descriptors ++ (dedupFiles [] got).filter (fun f => f.name ∉ s.present))).Nodup
    rw [fileNames_append, List.nodup_append]
    refine ⟨hs.nodup, ?_, ?_⟩
    · have hsub : ((dedupFiles [] got).filter (fun f => f.name ∉ s.present)).Sublist (dedupFiles [] got) :=
        List.filter_sublist
      exact (nodup_dedupFiles got []).sublist (hsub.map _)
    · intro a ha b hb hab
      subst hab
      rcases mem_fileNames.1 hb with ⟨g, hg, rfl⟩
      have := (List.mem_filter.1 hg).2
      simp only [decide_eq_true_eq] at this
      exact this ((hs.present _).2 ha)
  · -- present
    intro n
    show n ∈ s.present ++ fileNames (dedupFiles [] got) ↔
      n ∈ fileNames (s.descriptors ++ (dedupFiles [] got).filter (fun f => f.name ∉ s.present))
    rw [fileNames_append, List.mem_append, List.mem_append]
    constructor
    · rintro (a | a)
      · exact Or.inl ((hs.present n).1 a)
      · by_cases hp : n ∈ s.present
        · exact Or.inl ((hs.present n).1 hp)
        · rcases mem_fileNames.1 a with ⟨g, hg, rfl⟩
          exact Or.inr (mem_fileNames.2 ⟨g, List.mem_filter.2 ⟨hg, by simpa using hp⟩, rfl⟩)
    · rintro (a | a)
      · exact Or.inl ((hs.present n).2 a)
      · rcases mem_fileNames.1 a with ⟨g, hg, rfl⟩
        exact Or.inr (mem_fileNames.2 ⟨g, (List.mem_filter.1 hg).1, rfl⟩)
  · -- deps
    intro f hf d hd
    show d ∈ s.present ++ fileNames (dedupFiles [] got) ∨
      d ∈ growMissing (dedupFiles [] got) (s.present ++ fileNames (dedupFiles [] got)) (shrinkMissing (dedupFiles [] got) s.missing)
    have hf' : f ∈ s.descriptors ++ (dedupFiles [] got).filter (fun f => f.name ∉ s.present) := hf
    rcases List.mem_append.1 hf' with hf | hf
    · rcases hs.deps f hf d hd with a | a
      · exact Or.inl (List.mem_append_left _ a)
      · exact Or.inl (List.mem_append_right _ (hall d a))
    · by_cases hp : d ∈ s.present ++ fileNames (dedupFiles [] got)
      · exact Or.inl hp
      · exact Or.inr ((mem_growMissing _ _ _ _).2 (Or.inr ⟨⟨f, (List.mem_filter.1 hf).1, hd⟩, hp⟩))

theorem closed_of_safe (s : Bfs) (hs : SafeInv s) (hm : s.missing = []) : Closed s.descriptors := by
  intro f hf d hd
  rcases hs.deps f hf d hd with a | a
  · exact (hs.present d).1 a
  · rw [hm] at a; exact absurd a (by simp)

theorem bfsLoop_safe (pol : Policy) (sched : Sched) (Q : DFile → Prop)
    (hQ : ∀ h q fs, pol h q = .files fs → ∀ f ∈ fs, Q f) :
    ∀ (fuel : Nat) (s : Bfs) (h : History) (ds : List DFile), SafeInv s → (∀ f ∈ s.descriptors, Q f) →
      bfsLoop (dedupFiles []) pol sched fuel s = (h, .ok ds) →
        Closed ds ∧ (fileNames ds).Nodup ∧ (∀ f ∈ ds, Q f) ∧ (∀ f ∈ s.descriptors, f ∈ ds) := by
  intro fuel
  induction fuel with
  | zero =>
    intro s h ds hs hq he
    unfold bfsLoop at he
    split at he
    · rename_i hm
      simp only [Prod.mk.injEq, Except.ok.injEq] at he
      rcases he with ⟨_, rfl⟩
      exact ⟨closed_of_safe s hs (List.isEmpty_iff.1 hm), hs.nodup, hq, fun f hf => hf⟩
    · simp at he
  | succ fuel ih =>
    intro s h ds hs hq he
    unfold bfsLoop at he
    split at he
    · rename_i hm
      simp only [Prod.mk.injEq, Except.ok.injEq] at he
      rcases he with ⟨_, rfl⟩
      exact ⟨closed_of_safe s hs (List.isEmpty_iff.1 hm), hs.nodup, hq, fun f hf => hf⟩
    · split at he
      · simp at he
      · rename_i h1 got hb
        split at he
        · simp at he
        · rename_i hsh
          have hshrink : shrinkMissing (dedupFiles [] got) s.missing = [] := by
            simpa using hsh
          have hgot := (execBatch_ok pol _ _ _ _ hb).1
          have hq' : ∀ f ∈ (nextState (dedupFiles []) h1 got s).descriptors, Q f := by
            intro f hf
            have hf' : f ∈ s.descriptors ++ (dedupFiles [] got).filter (fun f => f.name ∉ s.present) := hf
            rcases List.mem_append.1 hf' with hf | hf
            · exact hq f hf
            · have hfg : f ∈ got := (mem_dedupFiles got [] f (List.mem_filter.1 hf).1).1
              rcases hgot f hfg with ⟨h'', q, fs, _, b, c⟩
              exact hQ h'' q fs b f c
          rcases ih _ h ds (safeInv_next s h1 got hs hshrink) hq' he with ⟨a, b, c, d⟩
          refine ⟨a, b, c, fun f hf => d f ?_⟩
          show f ∈ s.descriptors ++ (dedupFiles [] got).filter (fun f => f.name ∉ s.present)
          exact List.mem_append_left _ hf

end GB.C05
